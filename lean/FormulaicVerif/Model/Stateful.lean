import FormulaicVerif.Model.Scale
import FormulaicVerif.Model.Poly
import FormulaicVerif.Model.BSpline
import FormulaicVerif.Model.CubicSpline
import FormulaicVerif.Model.Contrasts
/-! # The state-first protocol of stateful transforms (`formulaic/utils/stateful_transforms.py`)

Every stateful transform of formulaic is written `def f(data, *args, _state)` with the idiom

    if key not in _state:  _state[key] = <statistic fitted on `data`>
    use _state[key]

so one Python function plays two roles: called with an empty `_state` it FITS (records the
statistics of `data`) and returns the transformed data; called with the recorded `_state` it REPLAYS
(reads the statistics, never looks at the distribution of `data`).  `T` is that protocol:
`fit` is the call with `_state = {}`, `run st` the call with the recorded state `st` (it returns
the state it leaves behind, because the Python function is free to mutate the dict), and `row st`
is the function of ONE input value that a replay is claimed to apply to every row
(`Props.C04.apply_rowwise`).

The instances reuse the executable models of C13 / C12 / C11 unchanged:
`Scale.run` (`center`, `scale`, `standardize`), `Poly.run`, `BSpline.fit/transform`,
`CubicSpline.fit/transform`, `Contrasts.encodeContrasts` (categories recorded in the encoder state).

Also here: the decorator's rule for dict-valued data (`stateful_transform.wrapper`: one nested
state per key, keys starting with `__` pass through) and `stateful_eval`'s keying of the state
dictionary by the NORMALISED source text of the call (`format_expr(node)`; the normaliser
`ast.parse/ast.unparse` is a parameter, as in the parser stack). -/
namespace FormulaicVerif.Model.Replay
open FormulaicVerif.Model

/-! ## row selection -/

/-- the rows `is` of `xs`, in that order: any subset, duplication or reordering of rows
(`frame.iloc[is]`); positions outside the frame select nothing -/
def select {α : Type} (is : List Nat) (xs : List α) : List α := is.filterMap (fun i => xs[i]?)

/-! ## the protocol -/

/-- a stateful transform seen through its `_state` argument -/
structure T (α β σ ε : Type) where
  /-- the call with an empty `_state`: the state it records and its output -/
  fit : List α → Except ε (σ × List β)
  /-- the call with a recorded `_state`: its output and the state afterwards -/
  run : σ → List α → Except ε (List β × σ)
  /-- what a replay does to one row -/
  row : σ → α → β

/-- `wrapper(data, _state=…)` for non-dict data: `none` is the empty dict -/
def T.call {α β σ ε : Type} (t : T α β σ ε) (st : Option σ) (xs : List α) : Except ε (List β × σ) :=
  match st with
  | none =>
    match t.fit xs with
    | .error e => .error e
    | .ok (s, out) => .ok (out, s)
  | some s => t.run s xs

/-! ## the decorator's rule for dict-valued data

    if isinstance(data, dict):
        results = {}
        for key, datum in data.items():
            if isinstance(key, str) and key.startswith("__"): results[key] = datum
            else:
                statum = _state.get(key, {})
                results[key] = wrapper(datum, *args, _state=statum, …)
                if statum: _state[key] = statum
        return results
-/

/-- `_state[key] = statum` on an insertion-ordered dict -/
def setKey {κ σ : Type} [DecidableEq κ] (m : List (κ × σ)) (k : κ) (s : σ) : List (κ × σ) :=
  match m with
  | [] => [(k, s)]
  | (k', s') :: r => if k' = k then (k, s) :: r else (k', s') :: setKey r k s

/-- `_state.get(key)` -/
def getKey {κ σ : Type} [DecidableEq κ] (m : List (κ × σ)) (k : κ) : Option σ :=
  match m with
  | [] => none
  | (k', s') :: r => if k' = k then some s' else getKey r k

/-- the loop over `data.items()`; every recorded nested state is non-empty (a transform that
recorded something), so `if statum:` always stores it -/
def T.callDict {α σ ε κ : Type} [DecidableEq κ] (t : T α α σ ε) (hidden : κ → Bool) :
    List (κ × σ) → List (κ × List α) → Except ε (List (κ × List α) × List (κ × σ))
  | m, [] => .ok ([], m)
  | m, (k, datum) :: rest =>
    if hidden k then
      match T.callDict t hidden m rest with
      | .error e => .error e
      | .ok (res, m') => .ok ((k, datum) :: res, m')
    else
      match t.call (getKey m k) datum with
      | .error e => .error e
      | .ok (out, s) =>
        match T.callDict t hidden (setKey m k s) rest with
        | .error e => .error e
        | .ok (res, m') => .ok ((k, out) :: res, m')

/-! ## `stateful_eval`: the state dictionary is keyed by the normalised call text -/

/-- `name = format_expr(node); name = name.replace('"', r'\\\\"')` — the key under which the state
of one stateful call node lives in `ModelSpec.transform_state`.  `norm` is
`ast.unparse(ast.parse(·))` (a parameter). -/
def escapeQuotes : List Char → List Char
  | [] => []
  | c :: r => if c = '"' then '\\' :: '\\' :: '\\' :: '\\' :: '"' :: escapeQuotes r else c :: escapeQuotes r

def stateKey (norm : String → String) (text : String) : String :=
  String.ofList (escapeQuotes (norm text).toList)

/-! ## errors of the instances -/

inductive TErr
  | scale (e : Scale.NumErr)
  | poly (e : Poly.PolyErr)
  | bs (e : BSpline.Err)
  | cs (e : CubicSpline.Err)
  | contrast (e : Contrasts.Err)
  /-- the transform produced a missing value (NaN row): the materializer would now drop the row;
  missing-data handling is property C06 and is outside this model -/
  | nullRow
  /-- rows of unequal width (unreachable: every instance returns rectangular output) -/
  | ragged
  /-- a recorded state that belongs to another transform, or a data shape the model does not cover -/
  | stateShape
  /-- `ValueError("Cannot scale a sparse matrix with more than one column.")` -/
  | sparseShape
deriving Repr, DecidableEq

/-! ## transposition between the row-major output of the spline models and columns -/

/-- pop the first cell of every row: one column and what is left of the rows -/
def heads {α : Type} : List (List α) → Option (List α × List (List α))
  | [] => some ([], [])
  | r :: rs =>
    match r, heads rs with
    | v :: t, some (c, rest) => some (v :: c, t :: rest)
    | _, _ => none

/-- the `n` columns of a list of rows of width (at least) `n` -/
def columnsOf {α : Type} : Nat → List (List α) → Except TErr (List (List α))
  | 0, _ => .ok []
  | n + 1, rows =>
    match heads rows with
    | none => .error .ragged
    | some (c, rest) =>
      match columnsOf n rest with
      | .error e => .error e
      | .ok cs => .ok (c :: cs)

/-- missing cells are outside the model -/
def unOpt {α : Type} : List (Option α) → Except TErr (List α)
  | [] => .ok []
  | none :: _ => .error .nullRow
  | some v :: r =>
    match unOpt r with
    | .error e => .error e
    | .ok vs => .ok (v :: vs)

def unOptAll {α : Type} : List (List (Option α)) → Except TErr (List (List α))
  | [] => .ok []
  | c :: cs =>
    match unOpt c, unOptAll cs with
    | .error e, _ => .error e
    | _, .error e => .error e
    | .ok v, .ok vs => .ok (v :: vs)

/-! ## `center`, `scale`, `standardize` -/

/-- `(x - center) / scale` with whatever of the two is recorded -/
def scaleRow (st : Scale.State Rat) (x : Rat) : Rat :=
  let y := match st.center with
    | some (some c) => x - c
    | _ => x
  match st.scale with
  | some (some s) => y / s
  | _ => y

def liftScale {γ : Type} : Except Scale.NumErr γ → Except TErr γ
  | .ok v => .ok v
  | .error e => .error (.scale e)

/-- `scale(data, center, scale, ddof, _state)`; `center(x)` is `(.flag true, .flag false, 1)`,
`standardize` has `ddof = 0` by default -/
def scaleT (sqrt : Rat → Rat) (ca sa : Scale.Arg Rat) (ddof : Rat) : T Rat Rat (Scale.State Rat) TErr where
  fit xs := liftScale ((Scale.run sqrt xs ca sa ddof {}).map (fun r => (r.2, r.1)))
  run st xs := liftScale (Scale.run sqrt xs ca sa ddof st)
  row := scaleRow

/-- `scale.register(spsparse.spmatrix)`: a sparse matrix with one column is scaled as the dense
vector `data.toarray()[:, 0]` (same `_state`); any other width raises -/
def callSparse (t : T Rat Rat (Scale.State Rat) TErr) (st : Option (Scale.State Rat)) (cols : List (List Rat)) :
    Except TErr (List Rat × Scale.State Rat) :=
  match cols with
  | [c] => t.call st c
  | _ => .error .sparseShape

/-! ## `poly` -/

def liftPoly {γ : Type} : Except Poly.PolyErr γ → Except TErr γ
  | .ok v => .ok v
  | .error e => .error (.poly e)

/-- `Poly.run` on a vector without missing values, output as columns without missing values -/
def polyCols (sqrt : Rat → Rat) (degree : Nat) (raw : Bool) (st : Poly.State Rat) (xs : List Rat) :
    Except TErr (List (List Rat) × Poly.State Rat) :=
  match liftPoly (Poly.run sqrt (xs.map some) degree raw st) with
  | .error e => .error e
  | .ok (cols, st') =>
    match unOptAll cols with
    | .error e => .error e
    | .ok cs => .ok (cs, st')

/-- the rows of a list of `n`-entry columns -/
def rowsOf {α : Type} : Nat → List (List α) → Except TErr (List (List α))
  | 0, _ => .ok []
  | n + 1, cols =>
    match heads cols with
    | none => .error .ragged
    | some (r, rest) =>
      match rowsOf n rest with
      | .error e => .error e
      | .ok rs => .ok (r :: rs)

def polyCall (sqrt : Rat → Rat) (degree : Nat) (raw : Bool) (st : Poly.State Rat) (xs : List Rat) :
    Except TErr (List (List Rat) × Poly.State Rat) :=
  match polyCols sqrt degree raw st xs with
  | .error e => .error e
  | .ok (cols, st') =>
    match rowsOf xs.length cols with
    | .error e => .error e
    | .ok rows => .ok (rows, st')

/-- the row of a one-row call (default: the empty row) -/
def firstRow {γ σ ε : Type} : Except ε (List (List γ) × σ) → List γ
  | .ok (r :: _, _) => r
  | _ => []

/-- `poly(x, degree, raw, _state)`: one output row (`degree` cells) per input value -/
def polyT (sqrt : Rat → Rat) (degree : Nat) (raw : Bool) : T Rat (List Rat) (Poly.State Rat) TErr where
  fit xs := (polyCall sqrt degree raw {} xs).map (fun r => (r.2, r.1))
  run st xs := polyCall sqrt degree raw st xs
  row st x := firstRow (polyCall sqrt degree raw st [x])

/-! ## `bs` -/

def unOptRows : List (Option (List Rat)) → Except TErr (List (List Rat)) := unOpt

def liftBs {γ : Type} : Except BSpline.Err γ → Except TErr γ
  | .ok v => .ok v
  | .error e => .error (.bs e)

/-- the dictionary keys of a `bs` result for a recorded knot vector -/
def bsKeys (a : BSpline.Args) (st : BSpline.State) : List Nat :=
  (BSpline.selectCols a.intercept (List.range (st.knots.length - a.degree - 1))).map (·.1)

def bsRow (a : BSpline.Args) (st : BSpline.State) (x : Rat) : List Rat :=
  match BSpline.rowFor st a.degree a.intercept a.mode (some x) with
  | some r => r
  | none => []

/-- `basis_spline(x, df, knots, degree, include_intercept, lower_bound, upper_bound, extrapolation,
_state)`; `quant` is `numpy.nanquantile` -/
def bsT (a : BSpline.Args) (quant : List Rat → Nat → List Rat) : T Rat (List Rat) BSpline.State TErr where
  fit xs :=
    match liftBs (BSpline.fit a (xs.map some) quant) with
    | .error e => .error e
    | .ok (st, out) =>
      match unOptRows out.rows with
      | .error e => .error e
      | .ok rows => .ok (st, rows)
  run st xs :=
    match liftBs (BSpline.transform st a.degree a.intercept a.mode (xs.map some)) with
    | .error e => .error e
    | .ok out =>
      match unOptRows out.rows with
      | .error e => .error e
      | .ok rows => .ok (rows, st)
  row := bsRow a

/-! ## `cr` / `cs` / `cc` -/

def liftCs {γ : Type} : Except CubicSpline.Err γ → Except TErr γ
  | .ok v => .ok v
  | .error e => .error (.cs e)

/-- `Q2` for the recorded constraints (none recorded: nothing to absorb) -/
def csQ2 (getQ2 : List (List Rat) → List (List Rat)) (st : CubicSpline.State) : List (List Rat) :=
  match st.constraints with
  | none => []
  | some c => getQ2 c

def csRun (a : CubicSpline.Args) (getF : List Rat → List (List Rat))
    (getQ2 : List (List Rat) → List (List Rat)) (st : CubicSpline.State) (xs : List Rat) :
    Except TErr (List (List Rat) × CubicSpline.State) :=
  match liftCs (CubicSpline.transform st a.mode (xs.map some) (getF st.knots) (csQ2 getQ2 st)) with
  | .error e => .error e
  | .ok out =>
    match unOptRows out.rows with
    | .error e => .error e
    | .ok rows => .ok (rows, st)

/-- number of columns of a `cr`/`cc` result for a recorded state -/
def csNcols (getQ2 : List (List Rat) → List (List Rat)) (st : CubicSpline.State) : Nat :=
  match st.constraints with
  | none => if st.cyclic then st.knots.length - 1 else st.knots.length
  | some _ => (csQ2 getQ2 st).length

/-- `cubic_spline(x, df, knots, lower_bound, upper_bound, constraints, cyclic, extrapolation, _state)`;
`quant` is `numpy.nanpercentile`, `getF` is `_get_natural_f` / `_get_cyclic_f`, `getQ2` the QR step
of `_absorb_constraints` -/
def csT (a : CubicSpline.Args) (quant : List Rat → Nat → List Rat)
    (getF : List Rat → List (List Rat)) (getQ2 : List (List Rat) → List (List Rat)) :
    T Rat (List Rat) CubicSpline.State TErr where
  fit xs :=
    match liftCs (CubicSpline.fit a (xs.map some) quant getF getQ2) with
    | .error e => .error e
    | .ok (st, out) =>
      match unOptRows out.rows with
      | .error e => .error e
      | .ok rows => .ok (st, rows)
  run st xs := csRun a getF getQ2 st xs
  row st x := firstRow (csRun a getF getQ2 st [x])

/-! ## categorical encoding with recorded levels -/

def liftC {γ : Type} : Except Contrasts.Err γ → Except TErr γ
  | .ok v => .ok v
  | .error e => .error (.contrast e)

/-- `encode_contrasts(data, contrasts, reduced_rank, output, _state)`:
`levels = _state.get("categories")`, inferred from the data when nothing is recorded;
`_state["categories"] = categories` afterwards.  The state is the list of category levels. -/
def catCall (c : Contrasts.Contrast) (reduced : Bool) (output : String) (st : Option (List Contrasts.Label))
    (data : List (Option Contrasts.Label)) : Except TErr (Contrasts.Encoded × List Contrasts.Label) :=
  liftC (Contrasts.encodeContrasts data c st reduced output)

def catT (c : Contrasts.Contrast) (reduced : Bool) (output : String) :
    T (Option Contrasts.Label) (List Rat) (List Contrasts.Label) TErr where
  fit data :=
    match catCall c reduced output none data with
    | .error e => .error e
    | .ok (enc, cats) => .ok (cats, enc.values)
  run cats data :=
    match catCall c reduced output (some cats) data with
    | .error e => .error e
    | .ok (enc, cats') => .ok (enc.values, cats')
  row cats d :=
    match catCall c reduced output (some cats) [d] with
    | .ok (enc, _) => (match enc.values with | r :: _ => r | [] => [])
    | .error _ => []

end FormulaicVerif.Model.Replay
