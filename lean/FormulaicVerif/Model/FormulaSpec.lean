import FormulaicVerif.Model.Parser
/-! `Formula(<specification>)` for specifications that are not a single string
(`formulaic/formula.py`: `_FormulaMeta.__call__`, `Formula.from_spec`, `SimpleFormula.__init__`,
`StructuredFormula.__init__/_prepare_item`; `utils/structured.py`: `Structured.__init__`,
`__prepare_item`, `__iter__`, `_simplify`): lists of term strings / `Term`s / anything else, tuples,
dictionaries, keyword structure, existing `Formula` objects, and leaves that are no specification at
all (`None`, numbers, bytes, …). Every string leaf is parsed by the model's own parser
(`parseTerms`) under the parser the code selects for its position (`_parser` for the root,
`_nested_parser` elsewhere).

Outcomes: a formula (`Val`: `.set` = `SimpleFormula`, `.struct` = `StructuredFormula`, `.tuple`),
the parsing error / a fragment's SyntaxError (from a string leaf), `FormulaInvalidError`
(`.invalid`), or an internal exception (from the parser, or `ValueError` for a structure key that
starts with an underscore). -/
namespace FormulaicVerif.Model.FormulaSpec
open FormulaicVerif.Model

/-- a string handed to a parser, with the CPython-dependent data of that string -/
structure Src where
  cs : List CharInfo
  env : PyEnv

/-- an element of a list specification -/
inductive Item
  | str (s : Src)
  | term (t : Term)        -- a `Term` instance
  | other                  -- anything else (number, None, list, tuple, Formula, …)

inductive Spec
  | str (s : Src)
  | formula (v : Val)      -- an existing `Formula` instance
  | list (items : List Item)
  | tuple (xs : List Spec)
  | dict (kv : List (String × Spec))
  | other                  -- None, numbers, bytes, a bare `Term`, iterators, frozensets, …

instance : Inhabited Spec := ⟨.other⟩

inductive FErr
  | parsing                -- FormulaParsingError (FormulaSyntaxError)
  | pySyntax               -- SyntaxError of a Python fragment
  | invalid                -- FormulaInvalidError
  | internal (k : String)
deriving DecidableEq, Repr

def ofParse : ParseErr → FErr
  | .syntax _ => .parsing
  | .pySyntax => .pySyntax
  | .internal k => .internal k

/-- `Structured._simplify(recurse=True, unwrap=…)`; `fuel` bounds the nesting depth.
A wrapper whose only key is a non-tuple `root` is peeled while `unwrap` holds or the root is itself
a `Structured`; then every value is simplified (`simplify_obj`: nested structures with
`unwrap=True`, tuples element-wise, leaves unchanged). -/
def simplify : Nat → Bool → Val → Val
  | 0, _, v => v
  | fuel + 1, unwrap, v =>
    match v with
    | .set ts => .set ts
    | .tuple vs => .tuple (vs.map (simplify fuel true))
    | .struct fs =>
      match fs with
      | [("root", r)] =>
        if !r.isTuple && (unwrap || r.isStruct) then simplify fuel unwrap r
        else .struct (fs.map (fun p => (p.1, simplify fuel true p.2)))
      | _ => .struct (fs.map (fun p => (p.1, simplify fuel true p.2)))

def simp (unwrap : Bool) (v : Val) : Val := simplify (valDepth v + 2) unwrap v

/-- `Formula.from_spec(<str>)`: parse with `P`, `_simplify()`, every leaf becomes a `SimpleFormula`
ordered by degree, `StructuredFormula(**structure)._simplify()` -/
def strFormula (P : ParseCfg) (s : Src) : Except FErr Val :=
  match parseTerms P s.env s.cs with
  | .error e => .error (ofParse e)
  | .ok v => .ok (simp true (mapLeaves sortByDegree (simp true v)))

/-- iterating `nested_parser.get_terms(value)` (`Structured.__iter__`): the terms of the root when the
root is the only key and a term set; otherwise the iteration yields objects that are not `Term`s -/
def iterTerms : Val → Option (List Term)
  | .struct [("root", .set ts)] => some ts
  | _ => none

/-- the list branch of `from_spec`: strings are parsed with the nested parser (errors surface in list
order), everything is collected, then `SimpleFormula.__validate_terms` rejects non-`Term`s -/
def listTerms (N : ParseCfg) : List Item → Except FErr (List Term × Bool)
  | [] => .ok ([], true)
  | it :: rest =>
    match (match it with
      | .str s =>
        (match parseTerms N s.env s.cs with
         | .error e => Except.error (ofParse e)
         | .ok v => .ok (iterTerms v))
      | .term t => .ok (some [t])
      | .other => .ok none) with
    | .error e => .error e
    | .ok here =>
      match listTerms N rest with
      | .error e => .error e
      | .ok (ts, good) =>
        match here with
        | some h => .ok (h ++ ts, good)
        | none => .ok (ts, false)

def listFormula (N : ParseCfg) (items : List Item) : Except FErr Val :=
  match listTerms N items with
  | .error e => .error e
  | .ok (ts, true) => .ok (.set (sortByDegree ts))
  | .ok (_, false) => .error .invalid

/-- `StructuredFormula.__init__`'s `_simplify(unwrap=False, inplace=True)`, followed (for the tuple and
keyword forms) by the `._simplify()` of the caller -/
def finalize (final : Bool) (v : Val) : Val :=
  let w := simp false v
  if final then simp true w else w

def badKey (k : String) : Bool := k.startsWith "_"

mutual
/-- `Formula.from_spec(spec, parser=P, nested_parser=N)`; with `asItem` the value is being prepared as
an item of a `StructuredFormula` (`Structured.__prepare_item`: a tuple stays a tuple of prepared items) -/
def fromSpec (asItem : Bool) (P N : ParseCfg) : Spec → Except FErr Val
  | .formula v => .ok v
  | .other => .error .invalid
  | .str s => strFormula P s
  | .list items => listFormula N items
  | .tuple xs =>
    match tupleVals P N xs with
    | .error e => .error e
    | .ok vs => .ok (if asItem then .tuple vs else finalize true (.struct [("root", .tuple vs)]))
  | .dict kv =>
    if kv.any (fun p => badKey p.1) then .error (.internal "ValueError")
    else
      match fieldVals false P N kv with
      | .error e => .error e
      | .ok fs =>
        match fieldVals true P N kv with
        | .error e => .error e
        | .ok rs => .ok (finalize false (.struct (fs ++ rs)))
def tupleVals (P N : ParseCfg) : List Spec → Except FErr (List Val)
  | [] => .ok []
  | x :: xs =>
    match fromSpec true P N x with
    | .error e => .error e
    | .ok v =>
      match tupleVals P N xs with
      | .error e => .error e
      | .ok vs => .ok (v :: vs)
/-- the prepared items of the keys that are (`roots = true`) / are not (`roots = false`) `"root"`:
`Structured.__init__` puts the root LAST, and `_prepare_item` parses the root with `P`, everything
else with `N` -/
def fieldVals (roots : Bool) (P N : ParseCfg) : List (String × Spec) → Except FErr (List (String × Val))
  | [] => .ok []
  | (k, s) :: rest =>
    if (k == "root") != roots then fieldVals roots P N rest
    else
      match fromSpec true (if k == "root" then P else N) N s with
      | .error e => .error e
      | .ok v =>
        match fieldVals roots P N rest with
        | .error e => .error e
        | .ok fs => .ok ((k, v) :: fs)
end

def defaultParser : ParseCfg := { includeIntercept := true, twosided := true, multipart := true, multistage := false }
def defaultNested : ParseCfg := { includeIntercept := false, twosided := true, multipart := true, multistage := false }

/-- `nested_parser = nested_parser or parser or DEFAULT_NESTED_PARSER; parser = parser or DEFAULT_PARSER` -/
def parsersOf (P N : Option ParseCfg) : ParseCfg × ParseCfg :=
  (match P with | some p => p | none => defaultParser,
   match N with | some n => n | none => (match P with | some p => p | none => defaultNested))

/-- `Formula(root?, _parser=P, _nested_parser=N, **kw)` (`_FormulaMeta.__call__`) -/
def formulaCall (P N : Option ParseCfg) (root : Option Spec) (kw : List (String × Spec)) : Except FErr Val :=
  let (p, n) := parsersOf P N
  match kw, root with
  | [], none => .ok (.set [])
  | [], some r => fromSpec false p n r
  | _ :: _, _ =>
    let kv := kw ++ (match root with | some r => [("root", r)] | none => [])
    if kv.any (fun q => badKey q.1) then .error (.internal "ValueError")
    else
      match fieldVals false p n kv with
      | .error e => .error e
      | .ok fs =>
        match fieldVals true p n kv with
        | .error e => .error e
        | .ok rs => .ok (finalize true (.struct (fs ++ rs)))

end FormulaicVerif.Model.FormulaSpec
