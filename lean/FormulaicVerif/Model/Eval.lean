import FormulaicVerif.Model.Term
import FormulaicVerif.Model.Shunt
/-! Evaluation of an AST to (structured) ordered term sets: `ASTNode.to_terms`
(`parser/types/ast_node.py`), `Structured._merge` (`utils/structured.py`), the `to_terms`
callables of `DefaultOperatorResolver.operators`, and `check_terms` (`parser/parser.py`). -/
namespace FormulaicVerif.Model

/-! ### ordered sets of terms -/

/-- `Term.__eq__`: equality of the sorted factor-expression keys -/
def Term.same (a b : Term) : Bool := a.key == b.key

/-- `OrderedSet(values)` / `dict.fromkeys`: first occurrence of each term identity -/
def oset (ts : List Term) : List Term := dedupBy Term.key ts

/-- `lhs | rhs` -/
def osetUnion (a b : List Term) : List Term := oset (a ++ b)

/-- `left - right` (`Set.__sub__`) -/
def osetDiff (a b : List Term) : List Term := a.filter (fun t => !(b.any (fun u => Term.same t u)))

/-- `itertools.product(a, b)` then `reduce(mul)` on each pair, as an ordered set -/
def osetProd (a b : List Term) : List Term :=
  oset (a.flatMap (fun x => b.map (fun y => Term.mul x y)))

/-- `functools.reduce(lambda x, y: x * y, ts)`; `TypeError` on an empty iterable -/
def reduceMulTerms : List Term → Except ParseErr Term
  | [] => .error (.internal "TypeError")
  | t :: ts => .ok (ts.foldl Term.mul t)

/-- `itertools.product(*[arg] * n)` reduced by `*`, for `n ≥ 1` (left-nested products) -/
def powTerms (arg : List Term) : Nat → List Term
  | 0 => []          -- never used: the exponent is validated to be ≥ 1
  | 1 => oset arg
  | n + 1 => oset ((powTermsRaw arg n).flatMap (fun x => arg.map (fun y => Term.mul x y)))
where
  /-- the n-fold products in `itertools.product` order, not yet de-duplicated -/
  powTermsRaw (arg : List Term) : Nat → List Term
    | 0 => []
    | 1 => arg
    | n + 1 => (powTermsRaw arg n).flatMap (fun x => arg.map (fun y => Term.mul x y))

/-! ### structured values -/

/-- what an AST node evaluates to: a term set, a tuple of parts (`|`), or a keyed structure (`~`) -/
inductive Val
  | set (ts : List Term)
  | tuple (vs : List Val)
  | struct (fields : List (String × Val))
deriving Repr, Inhabited

def Val.isTuple : Val → Bool
  | .tuple _ => true
  | _ => false

def Val.isStruct : Val → Bool
  | .struct _ => true
  | _ => false

/-- insert/replace a key in an insertion-ordered dictionary -/
def kvSet {α} (d : List (String × α)) (k : String) (v : α) : List (String × α) :=
  if d.any (fun p => p.1 == k) then d.map (fun p => if p.1 == k then (k, v) else p) else d ++ [(k, v)]

/-- `Structured(root?, **structure)`: keyword keys in order, then `root` last -/
def mkStruct (kw : List (String × Val)) (root : Option Val) : Val :=
  let kw' := kw.filter (fun p => p.1 != "root")
  match root with
  | some r => .struct (kw' ++ [("root", r)])
  | none =>
    match kw.find? (fun p => p.1 == "root") with
    | some r => .struct (kw' ++ [r])
    | none => .struct kw'

/-- group the values to merge by key, in first-appearance order (`values_to_merge`) -/
def groupByKey (objs : List Val) : List (String × List Val) :=
  objs.foldl (fun acc o =>
    match o with
    | .struct fs => fs.foldl (fun acc p =>
        match acc.find? (fun q => q.1 == p.1) with
        | some q => kvSet acc p.1 (q.2 ++ [p.2])
        | none => acc ++ [(p.1, [p.2])]) acc
    | v =>
      match acc.find? (fun q => q.1 == "root") with
      | some q => kvSet acc "root" (q.2 ++ [v])
      | none => acc ++ [("root", [v])]) []

/-- merge each key group with `rec` (a single value is kept as it is) -/
def mergeGroups (rec : List Val → Except ParseErr Val) :
    List (String × List Val) → Except ParseErr (List (String × Val))
  | [] => .ok []
  | (k, vs) :: rest =>
    match (match vs with
           | [v] => Except.ok v
           | _ => rec vs) with
    | .error e => .error e
    | .ok v => match mergeGroups rec rest with
      | .error e => .error e
      | .ok r => .ok ((k, v) :: r)

/-- `Structured._merge(*objects, merger=…, _context=…)`; `fuel` bounds the nesting depth,
`nested` = `_context` is non-empty -/
def mergeVals (merger : List (List Term) → Except ParseErr (List Term)) :
    Nat → Bool → List Val → Except ParseErr Val
  | 0, _, _ => .error (.internal "RecursionError")
  | fuel + 1, nested, objs =>
    if objs.isEmpty then .ok (.struct [])
    else
      let allT := objs.all Val.isTuple
      let anyT := objs.any Val.isTuple
      if anyT && !allT then .error (.internal "ValueError")
      else if allT then
        let merged := Val.tuple (objs.flatMap (fun o => match o with | .tuple vs => vs | _ => []))
        .ok (if nested then merged else mkStruct [] (some merged))
      else if objs.all (fun o => !o.isStruct) then
        (merger (objs.map (fun o => match o with | .set ts => ts | _ => []))).map Val.set
      else
        match mergeGroups (mergeVals merger fuel true) (groupByKey objs) with
        | .error e => .error e
        | .ok fields => .ok (mkStruct fields none)

/-! ### operator semantics -/

/-- `repr(term)`: factor reprs joined by ':', a factor containing ':' is back-quoted -/
def Term.repr (t : Term) : String :=
  ":".intercalate (t.map (fun f => if f.expr.contains ':' then "`" ++ f.expr ++ "`" else f.expr))

/-- value tokens that `ast.literal_eval` reads as a Python `int` ≥ 1 (digits only; no leading
zero unless the literal is all zeros, which is 0 and rejected) -/
def positiveIntLiteral (s : String) : Option Nat :=
  let cs := s.toList
  if cs.isEmpty || !cs.all Char.isDigit then none
  else if cs.head? == some '0' then none     -- "0…0" is 0 (< 1); "01" is a SyntaxError: both rejected
  else s.toNat?

/-- evaluation context for the `.` operator -/
structure DotCtx where
  available : Option (List String)     -- `__formulaic_variables_available__` (or the data layer)
  usedLhs : List String                -- `__formulaic_variables_used_lhs__`
deriving Repr, Inhabited

def nestedProduct (parents nested : List Term) : Except ParseErr (List Term) :=
  if parents.isEmpty then .error (.syntax "empty parent in nesting")
  else match reduceMulTerms parents with
    | .error e => .error e
    | .ok common => .ok (osetUnion parents (oset (nested.map (fun t => Term.mul common t))))

def power (arg pw : List Term) : Except ParseErr (List Term) :=
  match pw with
  | [[f]] =>
    if f.eval == .literal then
      match positiveIntLiteral f.expr with
      | some n => .ok (powTerms arg n)
      | none => .error (.syntax "exponent must be a positive integer")
    else .error (.syntax "exponent must be a positive integer")
  | _ => .error (.syntax "exponent must be a positive integer")

/-- the non-structural `to_terms` callables, applied to plain term sets -/
def applyPlain (o : OpSpec) (dot : DotCtx) (args : List (List Term)) : Except ParseErr (List Term) :=
  match o.symbol, o.fixity, args with
  | "+", .infix, [a, b] => .ok (osetUnion a b)
  | "-", .infix, [a, b] => .ok (osetDiff a b)
  | "+", .prefix, [a] => .ok a
  | "-", .prefix, [_] => .ok []
  | "*", .infix, [a, b] => .ok (osetUnion (oset (a ++ b)) (osetProd a b))
  | "/", .infix, [a, b] => nestedProduct a b
  | "in", .infix, [a, b] => nestedProduct b a
  | ":", .infix, [a, b] => .ok (osetProd a b)
  | "**", .infix, [a, b] => power a b
  | "^", .infix, [a, b] => power a b
  | ".", .postfix, [] =>
    match dot.available with
    | none => .error (.syntax "`.` needs the available variables")
    | some av =>
      let unused := (dedupBy id av).filter (fun v => !dot.usedLhs.contains v)
      .ok (oset (unused.map (fun v => [Factor.mk v .lookup])))
  | _, _, _ => .error (.internal "unmodelled operator")

/-- `formula_part_expansion` -/
def partExpansion (l r : Val) : Val :=
  .tuple ((match l with | .tuple vs => vs | v => [v]) ++ (match r with | .tuple vs => vs | v => [v]))

/-- the structural `to_terms` callables (and `Operator.to_terms` on no arguments) -/
def applyStructural (o : OpSpec) (args : List Val) : Except ParseErr Val :=
  match o.symbol, o.fixity, o.ctx, args with
  | "~", .infix, .emptyCtx, [l, r] => .ok (mkStruct [("lhs", l), ("rhs", r)] none)
  | "~", .prefix, _, [x] => .ok x
  | "~", .infix, .lastIsSquare, [l, r] =>
    match l with
    | .struct _ => .error (.internal "NotImplementedError")
    | .tuple _ => .error (.internal "TypeError")
    | .set ts =>
      let hats : List Term := ts.map (fun t => [Factor.mk (t.repr ++ "_hat") .lookup])
      .ok (mkStruct [("deps", .tuple [mkStruct [("lhs", l), ("rhs", r)] none])] (some (.set hats)))
  | "|", .infix, _, [l, r] => .ok (partExpansion l r)
  | _, _, _, _ => .error (.internal "unmodelled structural operator")

def termOfTok (t : Tok) : Term :=
  [Factor.mk (String.ofList t.text)
    (match t.kind with | some .value => .literal | some .python => .python | _ => .lookup)]

/-- `ASTNode.to_terms(context)` (the topological evaluation is a post-order traversal) -/
def evalAst (dot : DotCtx) : Ast → Except ParseErr Val
  | .leaf t => .ok (.set [termOfTok t])
  | .node o args =>
    match evalArgs dot args with
    | .error e => .error e
    | .ok vs =>
      if o.structural then applyStructural o vs
      else if vs.isEmpty then (applyPlain o dot []).map Val.set
      else mergeVals (applyPlain o dot) (vs.length + 64) false vs
where
  evalArgs (dot : DotCtx) : List Ast → Except ParseErr (List Val)
    | [] => .ok []
    | a :: as =>
      match evalAst dot a with
      | .error e => .error e
      | .ok v => match evalArgs dot as with
        | .error e => .error e
        | .ok vs => .ok (v :: vs)

/-! ### `check_terms` -/

/-- `expr.replace(".", "", 1).isnumeric()` for ASCII input (value tokens are ASCII digits/dots or quoted strings) -/
def looksNumeric (s : String) : Bool :=
  let cs := s.toList
  let cs' := match cs.span (· != '.') with
    | (pre, _ :: post) => pre ++ post
    | (pre, []) => pre
  !cs'.isEmpty && cs'.all Char.isDigit

def checkTermsAux : List Term → List (List String) → Except ParseErr Unit
  | [], _ => .ok ()
  | t :: ts, seen =>
    let bad : Bool :=
      match t with
      | [f] => f.eval == .literal && f.expr != "1"
      | fs => fs.any (fun f => f.eval == .literal && !looksNumeric f.expr)
    if bad then .error (.syntax "invalid literal")
    else
      let h := (t.filter (fun f => f.eval != .literal)).map (·.expr)
      if seen.contains h then .error (.syntax "term already seen with a different scaling")
      else checkTermsAux ts (h :: seen)

def checkTerms (ts : List Term) : Except ParseErr Unit := checkTermsAux ts []

/-- `terms._map(check_terms)` over every leaf -/
def checkVal : Val → Except ParseErr Unit
  | .set ts => checkTerms ts
  | .tuple vs => checkList vs
  | .struct fs => checkFields fs
where
  checkList : List Val → Except ParseErr Unit
    | [] => .ok ()
    | v :: vs => match checkVal v with | .error e => .error e | .ok _ => checkList vs
  checkFields : List (String × Val) → Except ParseErr Unit
    | [] => .ok ()
    | (_, v) :: fs => match checkVal v with | .error e => .error e | .ok _ => checkFields fs

end FormulaicVerif.Model
