import FormulaicVerif.Model.Eval
import FormulaicVerif.Gen.OperatorTable
/-! The wildcard `.` (`insert_unused_terms` in `DefaultOperatorResolver.operators`,
`formulaic/parser/parser.py`). The expansion itself is the parser model's `applyPlain` on the `.`
operator (the function the C01 correspondence exercises); this file only names the operator and
packages the call. The left-hand-side variables come from `Model.Variables.lhsUsed`. -/
namespace FormulaicVerif.Model.Dot
open FormulaicVerif.Model

/-- the `.` operator as `DefaultOperatorResolver.operators` declares it (checked against the
generated operator tables in `Props/C17.lean`) -/
def dotOp : OpSpec :=
  { symbol := ".", arity := 0, prec := 1000, assoc := .none, fixity := .postfix,
    structural := false, disabled := false, ctx := .always }

/-- `insert_unused_terms(context)` with `available` = the keys of the `data` layer (or
`__formulaic_variables_available__`) and `used` = `__formulaic_variables_used_lhs__` -/
def expand (available used : List String) : Except ParseErr (List Term) :=
  applyPlain dotOp { available := some available, usedLhs := used } []

end FormulaicVerif.Model.Dot
