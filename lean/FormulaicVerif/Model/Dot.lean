import FormulaicVerif.Model.Parser
import FormulaicVerif.Model.Variables
/-! The wildcard `.` (`insert_unused_terms` in `DefaultOperatorResolver.operators`,
`formulaic/parser/parser.py`). The expansion itself is the parser model's `applyPlain` on the `.`
operator (the function the C01 correspondence exercises); this file names the operator, packages the
call, and connects the whole parser model (`formulaOfString`: tokens → AST → terms, where EVERY
occurrence of `.` reads the same evaluation context) to `Model.Variables`: the variables of the
left-hand-side Python tokens are computed by `tokenRequired` from the CPython tree, and the available
variables are the keys of the layer called `data` of the materializer's layered context. -/
namespace FormulaicVerif.Model.Dot
open FormulaicVerif.Model FormulaicVerif.Model.Variables

/-- the `.` operator as `DefaultOperatorResolver.operators` declares it (checked against the
generated operator tables in `Props/C17.lean`) -/
def dotOp : OpSpec :=
  { symbol := ".", arity := 0, prec := 1000, assoc := .none, fixity := .postfix,
    structural := false, disabled := false, ctx := .always }

/-- `insert_unused_terms(context)` with `available` = the keys of the `data` layer (or
`__formulaic_variables_available__`) and `used` = `__formulaic_variables_used_lhs__` -/
def expand (available used : List String) : Except ParseErr (List Term) :=
  applyPlain dotOp { available := some available, usedLhs := used } []

/-- a token of the parser model as `Token.required_variables` sees it: the CPython tree of a Python
token is looked up by its (normalised) text -/
def ptokOf (codes : List (String × Option PyCode)) (t : Tok) : PTok :=
  { text := String.ofList t.text,
    kind := match t.kind with
      | some .name => .name
      | some .python => .python ((codes.lookup (String.ofList t.text)).join)
      | _ => .other }

/-- the CPython-dependent parameters of the parser model when the variables of Python tokens are
computed by `Model.Variables.tokenRequired` (`norm` = `sanitize_python_code` stays a parameter) -/
def pyEnv (norm : List Char → Except PyErr (List Char)) (codes : List (String × Option PyCode))
    (available : Option (List String)) : PyEnv :=
  { norm := norm,
    pyvars := fun cs => tokenRequired ⟨String.ofList cs, .python ((codes.lookup (String.ofList cs)).join)⟩,
    available := available }

/-- `Formula.from_spec(formula, context=…)` with the default parser; `available` is what the context
offers to `.`: `__formulaic_variables_available__` when given, else the keys of the layer called `data`
when the context is a layered mapping with such a layer (`Layers.available` for the materializer's
context), else nothing — then `.` is a parsing error -/
def formulaWithDots (norm : List Char → Except PyErr (List Char))
    (codes : List (String × Option PyCode)) (available : Option (List String)) (cs : List CharInfo) :
    Except ParseErr Val :=
  formulaOfString {} (pyEnv norm codes available) cs

/-! ## one context, several parses

`FormulaParser.parse(formula, context=ctx)` evaluates the tree in
`LayeredMapping(ctx, parser.context)`: a FRESH layer over the caller's context and the parser's own.
Everything a parse writes (`__formulaic_variables_used_lhs__`) lands in the mutations of that fresh
layer; the caller's context — the materializer's `layered_context`, or a mapping the caller passes to
several parses — is only read. -/

/-- what a context offers to `.`: `__formulaic_variables_available__` when some layer holds it
(`explicit`), else the keys of the layer called `data` -/
def availableIn {ν : Type} (explicit : Option (List String)) (l : LMap.Layer ν) : Option (List String) :=
  match explicit with
  | some a => some a
  | none => ((namedLayers l).lookup "data").map LMap.Layer.keys

/-- one call of `parse`: the result, and the caller's context afterwards -/
def parseCall {ν : Type} (norm : List Char → Except PyErr (List Char))
    (codes : List (String × Option PyCode)) (explicit : Option (List String))
    (own caller : LMap.Layer ν) (cs : List CharInfo) : Except ParseErr Val × LMap.Layer ν :=
  (formulaWithDots norm codes (availableIn explicit (.lm none [] [caller, own])) cs, caller)

/-- a history of parses that are all handed the same context object -/
def parseHistory {ν : Type} (norm : List Char → Except PyErr (List Char))
    (codes : List (String × Option PyCode)) (explicit : Option (List String)) (own : LMap.Layer ν) :
    LMap.Layer ν → List (List CharInfo) → List (Except ParseErr Val) × LMap.Layer ν
  | caller, [] => ([], caller)
  | caller, cs :: rest =>
    let r := parseCall norm codes explicit own caller cs
    let rs := parseHistory norm codes explicit own r.2 rest
    (r.1 :: rs.1, rs.2)

/-- the factor of a parsed term as the materializer evaluates it -/
def pfactorOf (codes : List (String × Option PyCode)) (f : Factor) : PFactor :=
  { expr := f.expr,
    kind := match f.eval with
      | .lookup => .lookup
      | .literal => .literal
      | .python => .python ((codes.lookup f.expr).join) }

/-- the factors of one part (`SimpleFormula`) in term order -/
def partFactors (codes : List (String × Option PyCode)) (ts : List Term) : List PFactor :=
  ts.flatMap (fun t => t.map (pfactorOf codes))

/-- the parts of a structured formula, in `_map` order -/
def parts : Val → List (List Term)
  | .set ts => [ts]
  | .tuple vs => partsList vs
  | .struct fs => partsFields fs
where
  partsList : List Val → List (List Term)
    | [] => []
    | v :: vs => parts v ++ partsList vs
  partsFields : List (String × Val) → List (List Term)
    | [] => []
    | (_, v) :: fs => parts v ++ partsFields fs

end FormulaicVerif.Model.Dot
