import FormulaicVerif.Model.Tokenize
import FormulaicVerif.Model.Term
import FormulaicVerif.Gen.TokenTable
/-! The methods of `Token` (`parser/types/token.py`) that the tokenizer itself does not use:
`to_factor`, `to_terms`, `get_source_context`, `source_loc`, `copy_with_attrs`, `split`, `__eq__`,
`__hash__`, `__lt__`, `flatten`. The kind → evaluation-method table and the markers of
`get_source_context` are read from the live package (`Gen/TokenTable.lean`). -/
namespace FormulaicVerif.Model.TokM
open FormulaicVerif.Model

inductive MethErr
  | runtimeError      -- `Token.kind` has not been set
  | keyError          -- `kind_to_eval_method[self.kind]` for an operator / context token
  | other (cls : String)
deriving DecidableEq, Repr

def kindName : Option TKind → String
  | some .context => "context" | some .operator => "operator" | some .value => "value"
  | some .name => "name" | some .python => "python" | none => "none"

def evalOfName : String → Option EvalMethod
  | "literal" => some .literal | "lookup" => some .lookup | "python" => some .python | _ => none

/-- the outcome `Token.to_factor()` has for a kind, by the table read from the live class -/
def evalOfKind (k : Option TKind) : Except MethErr EvalMethod :=
  match Gen.tokenFactorTable.find? (fun p => p.1 == kindName k) with
  | none => .error (.other "missing")
  | some (_, tag, v) =>
    if tag == "ok" then
      match evalOfName v with
      | some m => .ok m
      | none => .error (.other v)
    else if v == "RuntimeError" then .error .runtimeError
    else if v == "KeyError" then .error .keyError
    else .error (.other v)

/-- `Token.to_factor()` -/
def toFactor (t : Tok) : Except MethErr Factor :=
  match evalOfKind t.kind with
  | .ok m => .ok ⟨String.ofList t.text, m⟩
  | .error e => .error e

/-- `Token.to_terms()`: one term with one factor -/
def toTerms (t : Tok) : Except MethErr (List Term) := (toFactor t).map (fun f => [[f]])

/-- `Token.required_variables` for every kind but `python`: a name token requires its own text, the
others nothing. For a Python token the answer is CPython's (`ast` of the sanitised code, property
C17): `none` here. -/
def requiredVariables (t : Tok) : Option (List (List Char)) :=
  match t.kind with
  | some .name => some [t.text]
  | some .python => none
  | _ => some []

/-- `Token.source_loc` -/
def sourceLoc (t : Tok) : Option Nat × Option Nat := (t.start, t.stop)

/-- `source[a:b+1]` -/
def slice (src : List Char) (a b : Nat) : List Char := (src.drop a).take (b + 1 - a)

/-- `Token.get_source_context(colorize)`; `src` is `Token.source` (`none`/empty: no context) -/
def sourceContext (src : Option (List Char)) (t : Tok) (colorize : Bool) : Option (List Char) :=
  match src, t.start, t.stop with
  | some s, some a, some b =>
    if s.isEmpty then none
    else
      let on := if colorize then Gen.contextColorOn.toList else []
      let off := if colorize then Gen.contextColorOff.toList else []
      some (s.take a ++ Gen.contextLeft.toList ++ on ++ slice s a b ++ off ++ Gen.contextRight.toList ++ s.drop (b + 1))
  | _, _, _ => none

/-- `Token.__eq__(other)` for `other` a string / a token (anything else: `NotImplemented`) -/
def eqStr (t : Tok) (s : List Char) : Bool := t.text == s
def eqTok (a b : Tok) : Bool := a.text == b.text && a.kind == b.kind
/-- `Token.__hash__()` is the hash of the text: this is the value that is hashed -/
def hashKey (t : Tok) : List Char := t.text
/-- `Token.__lt__(other)`: code-point order of the texts -/
def ltTok (a b : Tok) : Bool := decide (a.text < b.text)

/-- `Token.copy_with_attrs(token=…)` (the attribute the library sets on copies) -/
def copyWithText (t : Tok) (text : List Char) : Tok := { t with text := text }

/-- `re.finditer(re.escape(pat), s)` for a non-empty literal pattern: the (start, end) spans of the
leftmost non-overlapping occurrences. `i` = index of the head of the list, `skip` = characters of the
current occurrence still to be passed over. -/
def findAllAux (pat : List Char) : List Char → Nat → Nat → List (Nat × Nat)
  | [], _, _ => []
  | _ :: cs, i, skip + 1 => findAllAux pat cs (i + 1) skip
  | c :: cs, i, 0 =>
    if pat.isPrefixOf (c :: cs) then (i, i + pat.length) :: findAllAux pat cs (i + 1) (pat.length - 1)
    else findAllAux pat cs (i + 1) 0

def findAll (pat s : List Char) : List (Nat × Nat) := if pat.isEmpty then [] else findAllAux pat s 0 0

/-- the loop of `Token.split`: `last` is `last_index` -/
def splitLoop (text : List Char) (before after : Bool) : List (Nat × Nat) → Nat → List (List Char)
  | [], last => if last < text.length then [text.drop last] else []
  | (a, b) :: ms, last =>
    let p1 := if before then [(text.drop last).take (a - last)] else []
    let last1 := if before then a else last
    let p2 := if after then [(text.drop last1).take (b - last1)] else []
    let last2 := if after then b else last1
    p1 ++ p2 ++ splitLoop text before after ms last2

/-- `Token.split(pattern, after=…, before=…)` for a literal non-empty pattern: copies of the token
(same kind, same source span) holding the pieces -/
def split (t : Tok) (pat : List Char) (after before : Bool) : List Tok :=
  if !after && !before then [t]
  else (splitLoop t.text before after (findAll pat t.text) 0).map (copyWithText t)

end FormulaicVerif.Model.TokM
