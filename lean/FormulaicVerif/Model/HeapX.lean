import FormulaicVerif.Model.Heap
/-! # Formula OBJECTS, their mutation through the sequence protocol, and state-resetting updates (C18)

`Model/Heap.lean` treats formulas as immutable values.  In the code a `SimpleFormula` is a
`MutableSequence[Term]` and a `ModelSpec` holds a REFERENCE to it: `Formula.from_spec(formula)` returns
a `Formula` argument as it is, so `ModelSpec(formula=F)`, `ModelSpec.from_spec(F)`,
`model_matrix(F, data).model_spec`, every `update()` copy and the specs attached to the matrices of a
reuse all hold THE SAME object `F`.  A caller who edits `F` between two calls (`F.insert(i, t)`,
`F.append(t)`, `F[i] = t`, `del F[i]`) therefore edits the formula of every spec that aliases it —
while the recorded `structure`, `transform_state` and `encoder_state` stay what they were.

This file adds that layer on top of `Model.Heap` without changing it:

* `XWorld`: the store of `Model.Heap` + the formula objects created so far (`forms`) + for every
  spec handed out the formula object it holds (`fref`, parallel to `base.specs`).  A spec record of
  the base world carries the CURRENT content of its formula object (write-through on every edit).
* `XOp`: the operations of `Model.Heap` naming formula objects instead of formula values, plus
  `formula` (create an object), `edit` / `editOf` (the sequence protocol on a formula object / on
  `spec.formula`), and `update` with `transform_state={}, encoder_state={}` (`resetState`).
* `Edit` / `applyEdit`: `formulaic/formula.py` `SimpleFormula.insert / __setitem__ / __delitem__`
  with Python's index conventions and `_reorder` (stable sort by degree; NOT after `del`).
* `subset` re-sorts the picked terms by degree as `SimpleFormula.from_spec(list)` does and creates a
  new formula object. -/

namespace FormulaicVerif.Model.HeapX
open FormulaicVerif.Model.Heap

/-! ## `SimpleFormula` as a mutable sequence -/

/-- `Term.degree`: the number of non-literal factors (a `Model.Heap.Term` lists exactly those) -/
def degree (t : Term) : Nat := t.length

/-- stable insertion by degree -/
def insertByDegree (t : Term) : List Term → List Term
  | [] => [t]
  | u :: us => if degree t ≤ degree u then t :: u :: us else u :: insertByDegree t us

/-- `SimpleFormula._reorder` with the default `OrderingMethod.DEGREE`:
`sorted(terms, key=lambda term: term.degree)` (Python's sort is stable) -/
def reorder (f : Formula) : Formula := f.foldr insertByDegree []

inductive Edit
  /-- `F.insert(i, t)` -/
  | insert (i : Int) (t : Term)
  /-- `F.append(t)` (`MutableSequence.append` = `insert(len(self), t)`) -/
  | append (t : Term)
  /-- `F[i] = t` -/
  | set (i : Int) (t : Term)
  /-- `del F[i]` -/
  | del (i : Int)
deriving DecidableEq, Repr

/-- index of `list.__setitem__` / `__delitem__`: negative indices count from the end; `none` = `IndexError` -/
def normIdx (n : Nat) (i : Int) : Option Nat :=
  if 0 ≤ i then (if i.toNat < n then some i.toNat else none)
  else if (-i).toNat ≤ n then some (n - (-i).toNat) else none

/-- index of `list.insert`: negative indices count from the end, everything is clamped to `[0, n]` -/
def insertIdx (n : Nat) (i : Int) : Nat :=
  if 0 ≤ i then min i.toNat n else n - min (-i).toNat n

inductive XErr
  | base (e : Err)
  /-- `IndexError: list assignment index out of range` / `list index out of range` -/
  | indexError
  /-- the operation names a formula object that was never created (not a Python outcome) -/
  | badFormula
deriving DecidableEq, Repr

/-- the sequence protocol of `SimpleFormula`: `insert`/`__setitem__` validate, write and `_reorder()`;
`__delitem__` only deletes -/
def applyEdit (f : Formula) : Edit → Except XErr Formula
  | .insert i t => .ok (reorder (f.take (insertIdx f.length i) ++ t :: f.drop (insertIdx f.length i)))
  | .append t => .ok (reorder (f ++ [t]))
  | .set i t =>
    match normIdx f.length i with
    | none => .error .indexError
    | some k => .ok (reorder (f.set k t))
  | .del i =>
    match normIdx f.length i with
    | none => .error .indexError
    | some k => .ok (f.eraseIdx k)

/-! ## The world with formula objects -/

structure XWorld (F E : Type) where
  base : World F E
  /-- the formula objects created so far (by `Formula(...)` and by `subset`), by creation order -/
  forms : List Formula
  /-- for every spec handed out (parallel to `base.specs`): the formula object it holds -/
  fref : List Nat

def XWorld.init {F E : Type} : XWorld F E := ⟨World.init, [], []⟩

/-- keyword arguments of `ModelSpec.update` that the extended model covers -/
structure XUpd where
  /-- `formula=F'` (a formula OBJECT) -/
  formula : Option Nat := none
  efr : Option Bool := none
  na : Option NAAction := none
  clearStruct : Bool := false
  /-- `transform_state={}, encoder_state={}`: the copy gets fresh empty dictionaries -/
  resetState : Bool := false
deriving DecidableEq, Repr

inductive XOp
  /-- `Formula("...")`: a new formula object with the given terms -/
  | formula (f : Formula)
  /-- `ModelSpec(formula=F, **cfg)` / `ModelSpec.from_spec(F, **cfg)` -/
  | newSpec (fid : Nat) (cfg : Cfg)
  /-- `spec.update(**u)` -/
  | update (h : Nat) (u : XUpd)
  /-- `spec.subset(picks)`: the picked terms in the order given (re-sorted by the model) -/
  | subset (h : Nat) (picks : List Term)
  /-- `model_matrix(F, data, **cfg)` / `F.get_model_matrix(data, **cfg)` / `materializer.get_model_matrix(F, **cfg)` -/
  | build (fids : List Nat) (cfg : Cfg) (d : Data)
  /-- `spec.get_model_matrix(data, **u)` and the other reuse entry points -/
  | call (hs : List Nat) (u : Option XUpd) (d : Data)
  /-- the caller edits a formula object -/
  | edit (fid : Nat) (e : Edit)
  /-- the caller edits `spec.formula` -/
  | editOf (h : Nat) (e : Edit)
deriving DecidableEq, Repr

/-- the caller's own edits of a formula object (everything else is "building / deriving / reusing") -/
def XOp.isEdit : XOp → Bool
  | .edit _ _ => true
  | .editOf _ _ => true
  | _ => false

abbrev XOutcome (F E : Type) := Except XErr (List (Part F E))

def liftOut {F E : Type} : Outcome F E → XOutcome F E
  | .ok ps => .ok ps
  | .error e => .error (.base e)

/-- `forms[fid]` for every `fid`; `none` if one was never created -/
def derefAll (forms : List Formula) : List Nat → Option (List Formula)
  | [] => some []
  | i :: is => match forms[i]?, derefAll forms is with
    | some f, some fs => some (f :: fs)
    | _, _ => none

/-- the base `Upd` (formula by value) of an `XUpd` -/
def baseUpd (u : XUpd) (f : Option Formula) : Upd :=
  { formula := f, efr := u.efr, na := u.na, clearStruct := u.clearStruct }

/-- the formula object a spec derived with `u` from a spec holding object `r` holds -/
def refAfter (u : Option XUpd) (r : Nat) : Nat :=
  match u with
  | some u => match u.formula with
    | some fid => fid
    | none => r
  | none => r

/-- the formula objects an optional `update` names -/
def updForms : Option XUpd → List Nat
  | some u => u.formula.toList
  | none => []

section
variable {F E : Type}

/-- after a base operation: the new specs (those beyond the old length) hold the given objects -/
def grow (xw : XWorld F E) (r : World F E × Outcome F E) (refs : List Nat) (forms : List Formula) :
    XWorld F E × XOutcome F E :=
  (⟨r.1, forms, xw.fref ++ refs.take (r.1.specs.length - xw.base.specs.length)⟩, liftOut r.2)

/-- write-through: every spec holding formula object `fid` now has the formula `f` -/
def rewrite (specs : List (Spec E)) (fref : List Nat) (fid : Nat) (f : Formula) : List (Spec E) :=
  (specs.zip fref).map fun p => if p.2 = fid then { p.1 with formula := f } else p.1

/-- specs beyond the length of `fref` (there are none: `Props.C18.x_alias_consistent`) are kept -/
def rewriteAll (specs : List (Spec E)) (fref : List Nat) (fid : Nat) (f : Formula) : List (Spec E) :=
  rewrite specs fref fid f ++ specs.drop fref.length

def editForm (xw : XWorld F E) (fid : Nat) (e : Edit) : XWorld F E × XOutcome F E :=
  match xw.forms[fid]? with
  | none => (xw, .error .badFormula)
  | some f =>
    match applyEdit f e with
    | .error x => (xw, .error x)
    | .ok f' =>
      (⟨{ xw.base with specs := rewriteAll xw.base.specs xw.fref fid f' }, xw.forms.set fid f', xw.fref⟩, .ok [])

variable (P : Params F E)

/-- one operation of an extended history (the code as it is: prepared specs own copies) -/
def xstep (xw : XWorld F E) : XOp → XWorld F E × XOutcome F E
  | .formula f => (⟨xw.base, xw.forms ++ [f], xw.fref⟩, .ok [])
  | .newSpec fid cfg =>
    match xw.forms[fid]? with
    | none => (xw, .error .badFormula)
    | some f => grow xw (step P .copy xw.base (.newSpec f cfg)) [fid] xw.forms
  | .update h u =>
    match derefAll xw.forms u.formula.toList, xw.fref[h]? with
    | none, _ => (xw, .error .badFormula)
    | some _, none => (xw, .error (.base .badHandle))
    | some fs, some r =>
      if u.resetState then
        -- `replace(spec, transform_state={}, encoder_state={}, ...)`: new empty dictionaries
        match xw.base.specs[h]? with
        | none => (xw, .error (.base .badHandle))
        | some s =>
          let w' := xw.base.alloc Dict.empty Dict.empty
          (⟨{ w' with specs := xw.base.specs ++
                [{ applyUpd (baseUpd u fs.head?) s with t := xw.base.next, e := xw.base.next }] },
             xw.forms, xw.fref ++ [refAfter (some u) r]⟩, .ok [])
      else
        grow xw (step P .copy xw.base (.update h (baseUpd u fs.head?))) [refAfter (some u) r] xw.forms
  | .subset h picks =>
    let r := step P .copy xw.base (.subset h (reorder picks))
    -- `SimpleFormula.from_spec(picks)` is a new formula object (kept only when the subset succeeds)
    grow xw r [xw.forms.length]
      (if xw.base.specs.length < r.1.specs.length then xw.forms ++ [reorder picks] else xw.forms)
  | .build fids cfg d =>
    match derefAll xw.forms fids with
    | none => (xw, .error .badFormula)
    | some fs => grow xw (step P .copy xw.base (.build fs cfg d)) fids xw.forms
  | .call hs u d =>
    match derefAll xw.forms (updForms u), lookupAll xw.fref hs with
    | none, _ => (xw, .error .badFormula)
    | some _, none => (xw, .error (.base .badHandle))
    | some fs, some rs =>
      grow xw (step P .copy xw.base (.call hs (u.map fun u => baseUpd u fs.head?) d))
        (rs.map (refAfter u)) xw.forms
  | .edit fid e => editForm xw fid e
  | .editOf h e =>
    match xw.fref[h]? with
    | none => (xw, .error (.base .badHandle))
    | some fid => editForm xw fid e

def xtrace : XWorld F E → List XOp → List (XWorld F E × XOutcome F E)
  | _, [] => []
  | xw, op :: ops => xstep P xw op :: xtrace (xstep P xw op).1 ops

def xrun (xw : XWorld F E) (h : List XOp) : List (XOutcome F E) := (xtrace P xw h).map (·.2)

def xfinal : XWorld F E → List XOp → XWorld F E
  | xw, [] => xw
  | xw, op :: ops => xfinal (xstep P xw op).1 ops

end

/-! ## What the store model assumes about where state lives

Compared in `Props/C18.lean` (`state_layout_as_modelled`, `aliasing_as_modelled`,
`sequence_protocol_as_modelled`) with `Gen/SpecState.lean`, which `harness/translate.py` regenerates
from the live package on every run. -/

/-- the per-instance mutable containers of a `ModelSpec`: the two reference cells `Spec.t`, `Spec.e` -/
def modelledDictFields : List String := ["transform_state", "encoder_state"]

/-- the fields a `Spec` record carries by value -/
def modelledValueFields : List String := ["formula", "ensure_full_rank", "na_action", "structure"]

/-- fields that are the same for every spec of a generated history and are not modelled -/
def passThroughFields : List String := ["materializer", "materializer_params", "output", "cluster_by"]

def naPyName : NAAction → String
  | .drop => "drop" | .raise => "raise" | .ignore => "ignore"

/-- the mutating methods `SimpleFormula` implements itself: `Edit.set`, `Edit.del`, `Edit.insert`
(`Edit.append` is the `MutableSequence` mixin `insert(len(self), t)`) -/
def editPrimitives : List String := ["__setitem__", "__delitem__", "insert"]

end FormulaicVerif.Model.HeapX
