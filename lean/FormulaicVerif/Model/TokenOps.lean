import FormulaicVerif.Model.Tokenize
/-! Token-stream transformations of `DefaultFormulaParser.get_tokens_from_formula`
(`parser/parser.py`) and `parser/utils.py`: `sanitize_tokens`, `replace_tokens`,
`insert_tokens_after`, `find_rhs_index`, `merge_operator_tokens`. -/
namespace FormulaicVerif.Model

/-- errors a Python-fragment normaliser (`sanitize_python_code`: `ast.parse`/`ast.unparse`) can raise -/
inductive PyErr
  | syntaxError
  | other (name : String)
deriving DecidableEq, Repr

/-- a synthetic token as the parser makes them (`Token("1", kind=VALUE)`: no source span) -/
def Tok.synth (s : String) (k : TKind) : Tok := { text := s.toList, kind := some k }

def tokOne : Tok := Tok.synth "1" .value
def tokPlus : Tok := Tok.synth "+" .operator
def tokMinus : Tok := Tok.synth "-" .operator

/-- `sanitize_tokens`: an unquoted token whose text is "." becomes an operator; python tokens are normalised.
`norm` is a parameter (CPython's `ast`), supplied per case by the harness. -/
def sanitizeTokens (norm : List Char → Except PyErr (List Char)) : List Tok → Except PyErr (List Tok)
  | [] => .ok []
  | t :: ts =>
    let t1 : Tok := if t.text == ['.'] && t.kind != some .name then { t with kind := some .operator } else t
    match (if t1.kind == some .python then (norm t1.text).map (fun x => { t1 with text := x }) else .ok t1) with
    | .error e => .error e
    | .ok t2 =>
      match sanitizeTokens norm ts with
      | .error e => .error e
      | .ok r => .ok (t2 :: r)

/-- `replace_tokens(tokens, "0", [token_minus, token_one], kind=VALUE)` -/
def replaceZero : List Tok → List Tok
  | [] => []
  | t :: ts =>
    if t.kind == some .value && t.text == ['0'] then tokMinus :: tokOne :: replaceZero ts
    else t :: replaceZero ts

/-- `Token.split(pattern, after=True)` for a single-character pattern: cut after every occurrence -/
def splitAfterAux (c : Char) : List Char → List Char → List (List Char)
  | [], acc => if acc.isEmpty then [] else [acc.reverse]
  | x :: xs, acc => if x == c then (x :: acc).reverse :: splitAfterAux c xs [] else splitAfterAux c xs (x :: acc)

def splitAfter (c : Char) (s : List Char) : List (List Char) := splitAfterAux c s []

def needsJoin (next : Option Tok) : Bool :=
  match next with
  | none => false
  | some n => n.kind != some .operator || !(n.text == ['+'] || n.text == ['-'])

/-- emit the pieces of one split token; `after` is the token following in the original list.
`add` = whether `[token_one]` (and the joining `+`) are inserted (`include_intercept`) -/
def emitPieces (add : Bool) (c : Char) (t : Tok) : List (List Char) → Option Tok → List Tok
  | [], _ => []
  | p :: ps, after =>
    let piece : Tok := { t with text := p }
    let next : Option Tok := match ps with
      | q :: _ => some { t with text := q }
      | [] => after
    if add && p.getLast? == some c then
      piece :: tokOne :: ((if needsJoin next then [tokPlus] else []) ++ emitPieces add c t ps after)
    else piece :: emitPieces add c t ps after

/-- `insert_tokens_after(tokens, <c>, [token_one] if add else [], kind=OPERATOR,
join_operator="+" if add else None, no_join_for_operators={"+","-"})`: operator tokens are split
after every `c` in either case -/
def insertOneAfter (add : Bool) (c : Char) : List Tok → List Tok
  | [] => []
  | t :: ts =>
    if t.kind != some .operator || !t.text.contains c then t :: insertOneAfter add c ts
    else emitPieces add c t (splitAfter c t.text) ts.head? ++ insertOneAfter add c ts

/-- `find_rhs_index(tokens)`: index of the first top-level token equal to "~"; `none` for -1 -/
def findRhsAux : List Tok → Nat → List Char → Option Nat
  | [], _, _ => none
  | t :: ts, i, ctx =>
    if t.kind == some .context then
      if t.text == ['('] || t.text == ['['] then findRhsAux ts (i + 1) ((if t.text == ['('] then '(' else '[') :: ctx)
      else
        let opener : Char := if t.text == [')'] then '(' else '['
        match ctx with
        | top :: rest => if top != opener then none else findRhsAux ts (i + 1) rest
        | [] => none
    else if !ctx.isEmpty then findRhsAux ts (i + 1) ctx
    else if t.kind == some .operator && t.text == ['~'] then some i
    else findRhsAux ts (i + 1) ctx

def findRhsIndex (ts : List Tok) : Option Nat := findRhsAux ts 0 []

def isSign (c : Char) : Bool := c == '+' || c == '-'

/-- `merge_operator_tokens(tokens, symbols={"+","-"})`; `pooled` is the pending pooled token -/
def mergeSignsAux : List Tok → Option Tok → List Tok
  | [], none => []
  | [], some p => [p]
  | t :: ts, pooled =>
    if t.kind != some .operator || !(match t.text.head? with | some c => isSign c | none => false) then
      match pooled with
      | some p => p :: t :: mergeSignsAux ts none
      | none => t :: mergeSignsAux ts none
    else
      match pooled with
      | some p =>
        let m : Tok := { t with text := p.text ++ t.text }
        if !(match m.text.getLast? with | some c => isSign c | none => false) then m :: mergeSignsAux ts none
        else mergeSignsAux ts (some m)
      | none => mergeSignsAux ts (some t)

def mergeSigns (ts : List Tok) : List Tok := mergeSignsAux ts none

/-- `get_tokens_from_formula` after tokenisation and sanitisation: the rewritten token list and the
tokens of the left-hand side (for `__formulaic_variables_used_lhs__`) -/
def interceptTokens (includeIntercept : Bool) (ts : List Tok) : List Tok × List Tok :=
  let ts := replaceZero ts
  let ts := insertOneAfter includeIntercept '~' ts
  let rhs : Nat := match findRhsIndex ts with | some i => i + 1 | none => 0
  let lhs := ts.take rhs
  let pre : List Tok :=
    if rhs > 0 || !includeIntercept then insertOneAfter false '|' lhs
    else (if ts.isEmpty then [tokOne] else [tokOne, tokPlus])
  (mergeSigns (pre ++ insertOneAfter includeIntercept '|' (ts.drop rhs)), lhs)

end FormulaicVerif.Model
