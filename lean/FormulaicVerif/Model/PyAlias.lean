import FormulaicVerif.Gen.TokenTable
/-! `formulaic/utils/code.py` (`UNQUOTED_BACKTICK_MATCHER`, `sanitize_variable_names`,
`sanitize_variable_name`) and `sanitize_python_code` (`parser/algos/sanitize_tokens.py`), as written
(after the repairs e171077, 7324ea3, 7b133c2, 935046c, 439bb1b, a838aa4): the pass that replaces back-quoted names inside a
Python fragment by aliases that are valid identifiers, and the pass that puts the names back after
CPython's `ast.parse`/`ast.unparse` has reformatted the code.

What stays a parameter: `format_expr` (CPython's parser and unparser), `str.isidentifier`,
`unicodedata.normalize` and `str.isspace` (Unicode tables of CPython). They enter as functions/data;
`keyword.kwlist` is read from the running CPython by the translator (`Gen.pythonKeywords`);
everything else (the regular expressions, the words reserved by the code, the alias construction,
the collision loop, the alias table, the one-pass restoration, `str.strip`) is computed here. -/
namespace FormulaicVerif.Model.PyAlias

/-! ### `UNQUOTED_BACKTICK_MATCHER.split(expr)` -/

/-- one element of the list `re.split` returns for a pattern with one group: text between matches
(even positions, possibly empty) or the text of a match (odd positions) -/
inductive Part
  | text (s : List Char)
  | lit (s : List Char)        -- a string literal or an escaped quote, verbatim
  | name (body : List Char)    -- a whole back-quoted name; `body` is what is between the quotes
deriving DecidableEq, Repr, Inhabited

/-- `(?:\\.|[^q\\])*q` (DOTALL) read after an opening quote character `q`: the body (escapes kept)
and what follows the closing quote; `none` when the quote is not closed (the alternative fails, and
because its branches start with different characters there is nothing to backtrack into).
`esc` = the previous character was a backslash that takes this one with it. -/
def closeQuoteAux (q : Char) : List Char → Bool → Option (List Char × List Char)
  | [], _ => none
  | c :: cs, true =>
    match closeQuoteAux q cs false with
    | some (b, r) => some (c :: b, r)
    | none => none
  | c :: cs, false =>
    if c == q then some ([], cs)
    else
      match closeQuoteAux q cs (c == '\\') with
      | some (b, r) => some (c :: b, r)
      | none => none

def closeQuote (q : Char) (cs : List Char) : Option (List Char × List Char) := closeQuoteAux q cs false

/-- the scan of `re.split`: at each position the alternatives are tried in order
(`\"`, `"…"`, `\'`, `'…'`, `` `…` ``); the leftmost match wins, then scanning resumes after it; a
character at which nothing matches belongs to the text. `acc` is the pending text, reversed. `fuel`
bounds the number of resumptions (`split` supplies enough). -/
def splitFuel : Nat → List Char → List Char → List Part
  | 0, _, acc => [.text acc.reverse]
  | _ + 1, [], acc => [.text acc.reverse]
  | n + 1, c :: cs, acc =>
    if c == '\\' then
      match cs with
      | d :: ds =>
        if d == '"' || d == '\'' then .text acc.reverse :: .lit [c, d] :: splitFuel n ds []
        else splitFuel n cs (c :: acc)
      | [] => splitFuel n cs (c :: acc)
    else if c == '"' || c == '\'' then
      match closeQuote c cs with
      | some (body, rest) => .text acc.reverse :: .lit (c :: body ++ [c]) :: splitFuel n rest []
      | none => splitFuel n cs (c :: acc)
    else if c == '`' then
      match closeQuote '`' cs with
      | some (body, rest) => .text acc.reverse :: .name body :: splitFuel n rest []
      | none => splitFuel n cs (c :: acc)
    else splitFuel n cs (c :: acc)

/-- `UNQUOTED_BACKTICK_MATCHER.split(expr)` -/
def split (expr : List Char) : List Part := splitFuel (expr.length + 1) expr []

/-- the characters a part stands for in the source -/
def Part.source : Part → List Char
  | .text s => s
  | .lit s => s
  | .name b => '`' :: b ++ ['`']

/-! ### `sanitize_variable_name` -/

/-- `re.match(r"\w", char, re.ASCII)` -/
def asciiWord (c : Char) : Bool := c.isAlphanum || c == '_'

/-- `"".join(char if re.match(r"\w", char, re.ASCII) else "_" for char in name)`, with a leading
underscore when that is empty or starts with a digit -/
def baseName (name : List Char) : List Char :=
  let b := name.map (fun c => if asciiWord c then c else '_')
  match b with
  | [] => ['_']
  | c :: _ => if c.isDigit then '_' :: b else b

/-- `keyword.iskeyword` -/
def isKeyword (s : List Char) : Bool := Gen.pythonKeywords.contains (String.ofList s)

/-- what the call site and CPython contribute: the template (`"{}"` is the empty prefix,
`"_formulaic_{}"` the prefix `_formulaic_`; no other template is used by the library), and CPython's
verdict `name.isidentifier() and normalize("NFKC", name) == name` -/
structure Cfg where
  pre : List Char
  ident : List Char → Bool

/-- the alias table `aliases` (a `dict`, in insertion order): sanitised name ↦ original name -/
abbrev Aliases := List (List Char × List Char)

def lookup (al : Aliases) (k : List Char) : Option (List Char) :=
  match al.find? (fun p => p.1 == k) with
  | some p => some p.2
  | none => none

/-- `aliases[k] = v`: a new key goes to the end, an existing key keeps its place -/
def assign (al : Aliases) (k v : List Char) : Aliases :=
  if al.any (fun p => p.1 == k) then al.map (fun p => if p.1 == k then (k, v) else p) else al ++ [(k, v)]

/-- `template.format(base_name)` for suffix 0, `template.format(f"{base_name}_{suffix}")` otherwise -/
def candidate (pre base : List Char) (k : Nat) : List Char :=
  if k == 0 then pre ++ base else pre ++ base ++ '_' :: (Nat.repr k).toList

/-- what the suffix loop looks at besides the name: the alias table, the keys of `env`, the words reserved by the code -/
structure Ctx where
  al : Aliases
  env : List (List Char)
  reserved : List (List Char)

/-- `aliases.get(key, name) == name` -/
def getOr (al : Aliases) (key name : List Char) : Bool :=
  match lookup al key with
  | some n => n == name
  | none => true

/-- the loop condition: `aliases.get(new_name, name) != name or (new_name in env and new_name not in
aliases) or keyword.iskeyword(new_name) or new_name in reserved` -/
def taken (x : Ctx) (name cand : List Char) : Bool :=
  !getOr x.al cand name || (x.env.contains cand && (lookup x.al cand).isNone) || isKeyword cand || x.reserved.contains cand

/-- the `while` loop over suffixes, starting at suffix `k`, at most `fuel` further rounds -/
def findFree (x : Ctx) (name pre base : List Char) : Nat → Nat → Option (List Char)
  | 0, k => if taken x name (candidate pre base k) then none else some (candidate pre base k)
  | fuel + 1, k =>
    if taken x name (candidate pre base k) then findFree x name pre base fuel (k + 1)
    else some (candidate pre base k)

/-- enough rounds for the loop: one more than the number of strings that can be refused -/
def loopBound (x : Ctx) : Nat := x.al.length + x.env.length + x.reserved.length + Gen.pythonKeywords.length

/-- `sanitize_variable_name(name, env, template=…, aliases=aliases, reserved=reserved)`: the new name,
and whether `env[new_name] = env[name]` is executed. (`none`: the suffix loop did not stop within its
bound — never, see `Proofs.C15Alias.sanitizeName_total`.) -/
def sanitizeName (cfg : Cfg) (x : Ctx) (name : List Char) : Option (List Char × Bool) :=
  if cfg.pre.isEmpty && cfg.ident name && !isKeyword name && getOr x.al name name then some (name, false)
  else
    match findFree x name cfg.pre (baseName name) (loopBound x) 0 with
    | some n => some (n, x.env.contains name)
    | none => none

/-! ### `sanitize_variable_names` -/

/-- `re.findall(r"\w+", part, re.ASCII)`: the maximal runs of ASCII word characters; `cur` is the run being read, reversed -/
def wordsAux : List Char → List Char → List (List Char)
  | [], cur => if cur.isEmpty then [] else [cur.reverse]
  | c :: cs, cur =>
    if asciiWord c then wordsAux cs (c :: cur)
    else if cur.isEmpty then wordsAux cs [] else cur.reverse :: wordsAux cs []

def words (s : List Char) : List (List Char) := wordsAux s []

/-- the words of a part that is not a back-quoted name -/
def Part.words : Part → List (List Char)
  | .text t => PyAlias.words t
  | .lit t => PyAlias.words t
  | .name _ => []

/-- the set `reserved`: the words of every part that is not a back-quoted name -/
def reservedWords (parts : List Part) : List (List Char) := parts.flatMap Part.words

structure State where
  out : List Char := []             -- "".join(sanitized_expr) so far
  al : Aliases := []
  env : List (List Char) := []      -- the keys of `env`
  added : List (List Char × List Char) := []   -- `env[new] = env[old]` assignments, in order
deriving Repr, Inhabited

def step (cfg : Cfg) (reserved : List (List Char)) (s : State) : Part → Option State
  | .text t => some { s with out := s.out ++ t }
  | .lit t => some { s with out := s.out ++ t }
  | .name body =>
    match sanitizeName cfg { al := s.al, env := s.env, reserved := reserved } body with
    | none => none
    | some (new, copy) =>
      some { out := s.out ++ ' ' :: new ++ [' ']
             al := assign s.al new body
             env := if copy && !s.env.contains new then s.env ++ [new] else s.env
             added := if copy then s.added ++ [(new, body)] else s.added }

def run (cfg : Cfg) (reserved : List (List Char)) : List Part → State → Option State
  | [], s => some s
  | p :: ps, s =>
    match step cfg reserved s p with
    | none => none
    | some s' => run cfg reserved ps s'

/-- `str.strip()` with `str.isspace` as a parameter -/
def strip (isSpace : Char → Bool) (s : List Char) : List Char :=
  ((s.dropWhile isSpace).reverse.dropWhile isSpace).reverse

/-- `sanitize_variable_names(expr, env, aliases, template=…)` with `aliases` empty on entry: the
sanitised expression, the alias table, and the assignments made to `env` -/
def sanitizeNames (cfg : Cfg) (isSpace : Char → Bool) (env : List (List Char)) (expr : List Char) :
    Option (List Char × Aliases × List (List Char × List Char)) :=
  let parts := split expr
  match run cfg (reservedWords parts) parts { env := env } with
  | none => none
  | some s => some (strip isSpace s.out, s.al, s.added)

/-! ### `sanitize_python_code` -/

/-- `re.sub(r"\b(?:alias1|alias2|…)\b", lambda m: f"`{aliases[m.group()]}`", expr, flags=re.ASCII)`:
every alternative consists of ASCII word characters, so a match is a maximal run of such characters
that equals an alias (the order of the alternatives has no effect); everything else is copied.
`cur` is the run being read, reversed. -/
def restoreAux (al : Aliases) : List Char → List Char → List Char
  | [], cur => subst al cur.reverse
  | c :: cs, cur =>
    if asciiWord c then restoreAux al cs (c :: cur)
    else subst al cur.reverse ++ c :: restoreAux al cs []
where
  subst (al : Aliases) (w : List Char) : List Char :=
    match lookup al w with
    | some n => '`' :: n ++ ['`']
    | none => w

/-- the restoration of `sanitize_python_code` (`if aliases:` — with no alias nothing is substituted) -/
def restore (al : Aliases) (s : List Char) : List Char := restoreAux al s []

inductive Err
  | syntaxError            -- raised by `format_expr` (CPython)
  | other (name : String)
  | loopBound              -- never (see `sanitizeName`)
deriving DecidableEq, Repr

/-- the template of `sanitize_python_code` (`"_formulaic_{}"`), read from the live package by the translator -/
def formulaicPrefix : List Char := Gen.aliasPrefix.toList

/-- `sanitize_python_code(expr)`; `fmt` is `format_expr` (CPython's `ast.parse`/`ast.unparse`) -/
def sanitizePythonCode (isSpace : Char → Bool) (fmt : List Char → Except Err (List Char)) (expr : List Char) :
    Except Err (List Char) :=
  match sanitizeNames { pre := formulaicPrefix, ident := fun _ => false } isSpace [] expr with
  | none => .error .loopBound
  | some (s1, al, _) =>
    match fmt s1 with
    | .error e => .error e
    | .ok s2 => .ok (restore al s2)

end FormulaicVerif.Model.PyAlias
