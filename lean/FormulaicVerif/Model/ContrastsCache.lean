import FormulaicVerif.Model.ContrastsExt
/-! # Model of `FormulaMaterializer._encode_evaled_factor` for a contrast-coded factor `C(x, contr.…)`

One call of `model_matrix` (one *materialization*) may need the same factor several times: as a main
effect and inside interactions, in one or several parts of a multi-part formula, in full rank in one
place and in reduced rank in another. The materializer keeps `self.encoded_cache`, keyed by
`factor.expr` or `(factor.expr, reduced_rank)`, and each `ModelSpec` (one per part) keeps the
factor's encoder state (`categories`). This file models exactly that bookkeeping for ONE factor
expression, on top of `Model.ContrastsExt.xEncodeContrasts` (the encoder that `C(...)` installs: `encode_contrasts`
with whatever was given as `contrasts` — an instance of a built-in coding, a class, nothing, a custom coding as
`contr.custom(...)` or as a bare dict / array; for an instance of a built-in coding it is `Model.Contrasts.encodeContrasts`).

Core Lean only. `Props.C11.cache_transparent` proves that the bookkeeping is invisible: every request
of every history is answered by what a stand-alone `encode_contrasts` call returns. -/
namespace FormulaicVerif.Model.ContrastsCache
open FormulaicVerif.Model.Contrasts FormulaicVerif.Model.ContrastsExt

inductive MErr where
  | encode (e : XErr)  -- raised by the factor's encoder (`encode_contrasts`)
  | keyError           -- `del encoded[drop_field]` with a field that is not a column
  deriving DecidableEq, Repr

/-- a cache entry: the encoded columns and the recorded encoder state (`categories`) -/
abbrev Entry := Encoded × List Label

/-- the entries of `encoded_cache` that concern one factor expression: key `expr`, key
`(expr, False)`, key `(expr, True)` -/
structure Cache where
  byExpr : Option Entry
  full : Option Entry
  reduced : Option Entry

def Cache.empty : Cache := ⟨none, none, none⟩

def Cache.rank (k : Cache) (r : Bool) : Option Entry := if r then k.reduced else k.full

def Cache.setRank (k : Cache) (r : Bool) (e : Entry) : Cache :=
  if r then { k with reduced := some e } else { k with full := some e }

/-- Python truthiness of a label or `None` (`… and factor.metadata.drop_field`) -/
def truthy : Option Label → Bool
  | none => false
  | some (.str s) => s != ""
  | some (.int i) => i != 0

/-- what stays fixed during one materialization -/
structure Factor where
  data : List (Option Label)
  /-- the second argument of `C(x, …)`, in whatever form it was given -/
  contrast : ContrastArg
  /-- `levels=` of `C(...)` -/
  levels : Option (List Label)
  /-- `spec.output` -/
  output : String
  /-- `drop_field` in the metadata of the EVALUATED factor (what `C(...)` returns): unset, i.e.
  `none`, on the path the harness exercises; a parameter so that the key rule is modelled as written -/
  evalDrop : Option Label

/-- one use of the factor: the rank the scoped term asks for, and whether this is the factor's first
use in a new part of the formula (a new `ModelSpec`, whose `encoder_state` has no entry yet) -/
structure Request where
  reduced : Bool
  newSpec : Bool

structure State where
  cache : Cache
  /-- `spec.encoder_state[expr][1]["categories"]` of the spec being materialized -/
  spec : Option (List Label)

def State.init : State := ⟨Cache.empty, none⟩

/-- `levels if levels is not None else _state.get("categories")` -/
def levelsOrState (levels spec : Option (List Label)) : Option (List Label) :=
  match levels with
  | some l => some l
  | none => spec

/-- `del encoded[encoded.__formulaic_metadata__.drop_field]` -/
def dropColumn (e : Encoded) : Except MErr Encoded :=
  match e.dropField with
  | none => .error .keyError
  | some l =>
      match indexOf? l e.columnNames with
      | none => .error .keyError
      | some d => .ok { e with values := e.values.map (·.eraseIdx d), columnNames := e.columnNames.eraseIdx d }

/-- the tail of `_encode_evaled_factor`: a full-rank encoding that spans the intercept loses its
`drop_field` column when reduced rank was asked for -/
def finish (e : Encoded) (reduced : Bool) : Except MErr Encoded :=
  if e.spansIntercept && reduced then dropColumn e else .ok e

/-- `_encode_evaled_factor(factor, spec, drop_rows, reduced_rank)`:
look up `factor.expr`, then `(factor.expr, reduced_rank)`; on a hit the spec records the cached state
(`setdefault`); on a miss run the encoder with the spec's state, record the state, and store the
result under `factor.expr` if the evaluated factor has a truthy `drop_field`, else under
`(factor.expr, reduced_rank)`. (The encoded value is always a dict after `as_columns`. The recorded
state is one shared dict in Python; the model copies it, which is the same thing as long as all
writers write the same categories — `Props.C11.cache_transparent` shows they do.) -/
def step (f : Factor) (s : State) (q : Request) : Except MErr (Encoded × State) :=
  let spec := if q.newSpec then none else s.spec
  match s.cache.byExpr with
  | some (enc, recorded) =>
      match finish enc q.reduced with
      | .error e => .error e
      | .ok out => .ok (out, { s with spec := some (spec.getD recorded) })
  | none =>
      match s.cache.rank q.reduced with
      | some (enc, recorded) =>
          match finish enc q.reduced with
          | .error e => .error e
          | .ok out => .ok (out, { s with spec := some (spec.getD recorded) })
      | none =>
          match xEncodeContrasts f.data f.contrast (levelsOrState f.levels spec) q.reduced f.output with
          | .error e => .error (.encode e)
          | .ok (enc, cats) =>
              let cache := if truthy f.evalDrop then { s.cache with byExpr := some (enc, cats) }
                           else s.cache.setRank q.reduced (enc, cats)
              match finish enc q.reduced with
              | .error e => .error e
              | .ok out => .ok (out, { cache := cache, spec := some cats })

/-- a whole history of uses; an exception aborts the materialization -/
def run (f : Factor) : State → List Request → Except MErr (List Encoded)
  | _, [] => .ok []
  | s, q :: qs =>
      match step f s q with
      | .error e => .error e
      | .ok (out, s') =>
          match run f s' qs with
          | .error e => .error e
          | .ok rest => .ok (out :: rest)

/-- one materialization: empty cache, no spec yet -/
def materialize (f : Factor) (qs : List Request) : Except MErr (List Encoded) := run f State.init qs

end FormulaicVerif.Model.ContrastsCache
