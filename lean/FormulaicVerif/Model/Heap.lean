/-! # Model of the mutable state behind `ModelSpec` (property C18)

A *world* is a store of reference cells holding the two mutable dictionaries of a `ModelSpec`
(`transform_state`, `encoder_state`) plus the list of spec objects the caller has obtained so far.
A spec record is immutable (frozen dataclass) and holds *references* to its two cells, so
`ModelSpec.update` (= `dataclasses.replace`) SHARES the cells with the spec it was made from.

Mirrors `formulaic/model_spec.py` (`from_spec`, `update`, `subset`, `get_model_matrix`) and
`formulaic/materializers/base.py` (`get_model_matrix` steps 0-3, `_prepare_model_specs`,
`_prepare_factor_evaluation_model_spec`, `_evaluate_factor`, `_build_model_matrix`,
`_encode_evaled_factor` with its per-call `encoded_cache` and `encoder_state_cache`).

Numerics are abstract (`Params`): the state a stateful transform fits is a function of the call
node and the data set; the encoder state (levels) is a function of the factor, the data set and the
rows that are kept.  A call's result is recorded as the `Part` record: everything the produced
matrix is a function of (formula, configuration, data, kept rows, per factor the fitted states and
the encoder state it ended up using, and the structure in force).

Python dictionaries are observed through look-ups only, so a dictionary is modelled by its look-up
function (key order is not an observable of the property).  Inner state dictionaries
(`state[name]`, `encoder_state[expr][1]`) are written only while their keys are absent and are
re-written with equal values afterwards, so they are modelled as immutable values.

`Mode.share` is the code before the repair of D16 (`_prepare_model_specs` made `update()` copies
that shared the state dictionaries with the caller's spec); `Mode.copy` is the code as it is now
(the prepared specs own copies of both dictionaries).  The engine runs `Mode.copy`. -/

namespace FormulaicVerif.Model.Heap

abbrev Data := Nat
/-- a factor is identified by its expression (`Factor.__eq__`/`__hash__` use `expr`) -/
abbrev Factor := String
abbrev Term := List Factor
abbrev Formula := List Term

/-- a Python `dict` with string keys, observed through look-ups -/
abbrev Dict (V : Type) := String → Option V

namespace Dict
variable {V : Type}
def empty : Dict V := fun _ => none
/-- `m[k] = v` -/
def set (m : Dict V) (k : String) (v : V) : Dict V := fun k' => if k' = k then some v else m k'
/-- `m.update(o)` -/
def update (m o : Dict V) : Dict V := fun k => match o k with
  | some v => some v
  | none => m k
end Dict

inductive NAAction
  | drop | raise | ignore
deriving DecidableEq, Repr

structure Cfg where
  efr : Bool
  na : NAAction
deriving DecidableEq, Repr

/-- one entry of `ModelSpec.structure` (term, scoped terms, columns): a function of the formula it
was computed for (rank reduction looks at the earlier terms), `ensure_full_rank`, the data set
(factor kinds) and the encoder states of the term's factors (column names) -/
structure StructEntry (E : Type) where
  term : Term
  origin : Formula
  efr : Bool
  data : Data
  encs : List (Factor × Bool × E)
deriving DecidableEq, Repr

/-- frozen dataclass `ModelSpec`: immutable record holding references to its two dictionaries -/
structure Spec (E : Type) where
  formula : Formula
  cfg : Cfg
  struct : Option (List (StructEntry E))
  t : Nat
  e : Nat

/-- the store: both kinds of cell are allocated together (a `ModelSpec` creates both dictionaries
at once); `specs` are the spec objects handed out so far, in order -/
structure World (F E : Type) where
  tcells : Nat → Dict F
  ecells : Nat → Dict E
  next : Nat
  specs : List (Spec E)

namespace World
variable {F E : Type}
def init : World F E := ⟨fun _ => Dict.empty, fun _ => Dict.empty, 0, []⟩
def setT (w : World F E) (r : Nat) (v : Dict F) : World F E :=
  { w with tcells := fun r' => if r' = r then v else w.tcells r' }
def setE (w : World F E) (r : Nat) (v : Dict E) : World F E :=
  { w with ecells := fun r' => if r' = r then v else w.ecells r' }
/-- allocate a pair of cells with the given contents -/
def alloc (w : World F E) (tv : Dict F) (ev : Dict E) : World F E :=
  { tcells := fun r => if r = w.next then tv else w.tcells r,
    ecells := fun r => if r = w.next then ev else w.ecells r,
    next := w.next + 1, specs := w.specs }
end World

inductive Err
  | badHandle      -- the operation names a spec that was never obtained (not a Python outcome)
  | inconsistent   -- RuntimeError: provided ModelSpec instances are not consistent
  | factorEval     -- FactorEvaluationError
  | nullRaise      -- ValueError: nulls with na_action='raise'
  | keyError       -- KeyError: a recorded structure names a factor that was not evaluated
  | noStructure    -- RuntimeError: `.structure` has not been populated
  | missingTerms   -- ValueError: subset with terms that are not in the spec
  | encoding       -- FactorEncodingError: generated columns do not fit the recorded structure
deriving DecidableEq, Repr

/-- what one encoded factor of the output is a function of -/
structure ColInfo (F E : Type) where
  factor : Factor
  reduced : Bool
  fits : List (String × F)
  enc : E
deriving DecidableEq, Repr

/-- what one produced model matrix is a function of -/
structure Part (F E : Type) where
  formula : Formula
  cfg : Cfg
  data : Data
  kept : List Nat
  terms : List Term
  cols : List (ColInfo F E)
  struct : List (StructEntry E)
deriving DecidableEq, Repr

abbrev Outcome (F E : Type) := Except Err (List (Part F E))

/-- core has no `DecidableEq (Except ε α)`; needed to decide the concrete witnesses in `Props/C18.lean` -/
instance decEqExcept {ε α : Type} [DecidableEq ε] [DecidableEq α] : DecidableEq (Except ε α) := fun a b =>
  match a, b with
  | .ok x, .ok y => if h : x = y then isTrue (by rw [h]) else isFalse (fun e => h (Except.ok.inj e))
  | .error x, .error y => if h : x = y then isTrue (by rw [h]) else isFalse (fun e => h (Except.error.inj e))
  | .ok _, .error _ => isFalse (fun e => by cases e)
  | .error _, .ok _ => isFalse (fun e => by cases e)

/-- The numeric part, abstract.  `F` = fitted state of one stateful-transform call node,
`E` = encoder state of one factor. -/
structure Params (F E : Type) where
  /-- stateful-transform call nodes of a factor expression = the keys it uses in `transform_state` -/
  nodes : Factor → List String
  /-- the state a call node fits when it is evaluated without state on a data set -/
  fit : String → Data → F
  /-- evaluating the factor on the data set raises (unknown name, ...) -/
  fails : Factor → Data → Bool
  /-- null rows of the evaluated factor -/
  nulls : Factor → Data → List Nat
  nrows : Data → Nat
  /-- encoder state fitted on the kept rows of the data set -/
  encFit : Factor → Data → List Nat → E
  /-- rank reduction (`_get_scoped_terms`): the scoped factors `(factor, reduced_rank)` of a term, in
  encoding order, as a function of the term, the formula it belongs to, `ensure_full_rank` and the
  data set (factor kinds) -/
  scopedOf : Term → Formula → Bool → Data → List (Factor × Bool)
  /-- `_enforce_structure` raises `FactorEncodingError`: the columns generated from the encoder
  states in use do not fit the recorded structure (a function of what the part is built from) -/
  encodingFails : Part F E → Bool


/-! ## Step 1: factor evaluation (`_evaluate_factor` over `factors: set[Factor]`) -/

structure EvalSt (F : Type) where
  /-- `materializer.factor_cache`: expr ↦ evaluated values (= the fitted states they were computed with) -/
  cache : Dict (List (String × F))
  /-- the `drop_rows` set -/
  drops : Nat → Bool
  /-- the pooled `transform_state` -/
  state : Dict F

section
variable {F E : Type} (P : Params F E)

/-- `stateful_eval`: `if name not in state: state[name] = {}`; the transform then fills the empty
inner dictionary from the data (a present one is used as it is) -/
def fillNodes (d : Data) (st : Dict F) : List String → Dict F
  | [] => st
  | n :: ns => fillNodes d (match st n with
      | some _ => st
      | none => st.set n (P.fit n d)) ns

/-- a box; building it computes its content (dictionaries are functions here: a function-valued
definition that starts with look-ups would repeat them at every later look-up of its result) -/
structure Forced (α : Type) where
  val : α

/-- `fillNodes`, computed once: the look-ups `st n` are made while the box is built
(`(fillNodesB …).val = fillNodes …`: `Proofs.C18.fillNodesB_val`) -/
def fillNodesB (d : Data) (st : Dict F) : List String → Forced (Dict F)
  | [] => ⟨st⟩
  | n :: ns => fillNodesB d (match st n with
      | some _ => st
      | none => st.set n (P.fit n d)) ns

/-- the fitted states the factor's value is computed with -/
def usedFits (d : Data) (st : Dict F) (f : Factor) : List (String × F) :=
  (P.nodes f).map fun n => (n, match st n with
    | some v => v
    | none => P.fit n d)

/-- `_evaluate_factor(factor, factor_evaluation_model_spec, drop_rows)` -/
def evalFactor (d : Data) (na : NAAction) (s : EvalSt F) (f : Factor) : Except Err (EvalSt F) :=
  match s.cache f with
  | some _ => .ok s
  | none =>
    if P.fails f d then .error .factorEval
    else
      let s' : EvalSt F :=
        { cache := s.cache.set f (usedFits P d s.state f), drops := s.drops,
          state := (fillNodesB P d s.state (P.nodes f)).val }   -- = `fillNodes P d s.state (P.nodes f)`
      match na with
      | .ignore => .ok s'
      | .raise => if (P.nulls f d).isEmpty then .ok s' else .error .nullRaise
      | .drop => .ok { s' with drops := fun i => s.drops i || (P.nulls f d).contains i }

/-- `for factor in factors: self._evaluate_factor(...)`, in the given iteration order -/
def evaluateAll (d : Data) (na : NAAction) : EvalSt F → List Factor → Except Err (EvalSt F)
  | s, [] => .ok s
  | s, f :: fs => match evalFactor P d na s f with
    | .error e => .error e
    | .ok s' => evaluateAll d na s' fs

/-! ## Step 3: encoding (`_build_model_matrix`, `_encode_evaled_factor`) -/

/-- `materializer.encoded_cache`, keyed by `(factor.expr, reduced_rank)` -/
abbrev EncCache (E : Type) := Factor → Bool → Option E

def EncCache.set (c : EncCache E) (f : Factor) (r : Bool) (v : E) : EncCache E :=
  fun f' r' => if f' = f ∧ r' = r then some v else c f' r'

/-- the materializer's per-call encoding caches: `encoded_cache` keyed by `(factor.expr,
reduced_rank)`, and `encoder_state_cache` keyed by `factor.expr` (the LAST state an encoding of the
factor was computed with) -/
abbrev Caches (E : Type) := EncCache E × Dict E

def Caches.empty {E : Type} : Caches E := (fun _ _ => none, Dict.empty)

/-- loop state of the encoding loops: the world (cells are written in place), the materializer's
encoding caches, and the columns so far (or the exception that was raised) -/
abbrev EncSt (F E : Type) := World F E × Caches E × Except Err (List (ColInfo F E))

/-- `spec.encoder_state.setdefault(expr, self.encoder_state_cache[expr])` when the factor is in the
state cache (IN PLACE; a spec's own entry is never overridden) -/
def recordState (w : World F E) (er : Nat) (esc : Dict E) (f : Factor) : World F E :=
  match esc f with
  | none => w
  | some v =>
    match w.ecells er f with
    | some _ => w
    | none => w.setE er ((w.ecells er).set f v)

/-- `_encode_evaled_factor(factor, spec, ..., reduced_rank)` where `er` is the `encoder_state` cell of
`spec`.  First the spec records the cached state of the factor (if any encoding of it was computed
in this call).  On a miss of the encoded-cache the recorded state `spec.encoder_state.get(expr)` is
used if present, otherwise the encoder fits on the kept rows; then `spec.encoder_state[expr] = ...`
IN PLACE, and both caches are filled -/
def encodeFactor (d : Data) (kept : List Nat) (cache : Dict (List (String × F))) (er : Nat)
    (st : EncSt F E) (fr : Factor × Bool) : EncSt F E :=
  match st.2.2 with
  | .error _ => st
  | .ok acc =>
    match cache fr.1 with
    | none => (st.1, st.2.1, .error .keyError)
    | some fits =>
      let w1 := recordState st.1 er st.2.1.2 fr.1
      match st.2.1.1 fr.1 fr.2 with
      | some enc => (w1, st.2.1, .ok (acc ++ [⟨fr.1, fr.2, fits, enc⟩]))
      | none =>
        let enc := match w1.ecells er fr.1 with
          | some v => v
          | none => P.encFit fr.1 d kept
        (w1.setE er ((w1.ecells er).set fr.1 enc), (st.2.1.1.set fr.1 fr.2 enc, st.2.1.2.set fr.1 enc),
          .ok (acc ++ [⟨fr.1, fr.2, fits, enc⟩]))

/-- what `_build_model_matrix` needs to know about one term: the term, and what its scoped terms
are a function of (recorded in the structure, or the current formula/configuration/data) -/
structure TermKey where
  term : Term
  origin : Formula
  efr : Bool
  data : Data
deriving DecidableEq, Repr

def TermKey.factors (k : TermKey) : List (Factor × Bool) := P.scopedOf k.term k.origin k.efr k.data

/-- one term: the scoped terms are first rehydrated from the factor cache (`KeyError` when a factor
of a recorded structure was not evaluated), then every scoped factor is encoded -/
def encodeTerm (d : Data) (kept : List Nat) (cache : Dict (List (String × F))) (er : Nat)
    (st : EncSt F E) (k : TermKey) : EncSt F E :=
  match st.2.2 with
  | .error _ => st
  | .ok _ =>
    if (TermKey.factors P k).all (fun fr => (cache fr.1).isSome) then
      (TermKey.factors P k).foldl (encodeFactor P d kept cache er) st
    else (st.1, st.2.1, .error .keyError)

/-- `if spec.structure:` (an empty list is falsy) -/
def Spec.recorded (s : Spec E) : Option (List (StructEntry E)) :=
  match s.struct with
  | some (x :: xs) => some (x :: xs)
  | _ => none

/-- the terms `_build_model_matrix` iterates over (those of the recorded structure, when there is one) -/
def Spec.termsToBuild (s : Spec E) (d : Data) : List TermKey :=
  match Spec.recorded s with
  | some st => st.map fun e => ⟨e.term, e.origin, e.efr, e.data⟩
  | none => s.formula.map fun t => ⟨t, s.formula, s.cfg.efr, d⟩

def newStructure (keys : List TermKey) (ec : EncCache E) : List (StructEntry E) :=
  keys.map fun k => ⟨k.term, k.origin, k.efr, k.data,
    (TermKey.factors P k).filterMap fun fr => (ec fr.1 fr.2).map fun v => (fr.1, fr.2, v)⟩

abbrev BuildSt (F E : Type) := World F E × Caches E × Except Err (List (Part F E × Spec E))

/-- `_build_model_matrix(spec, drop_rows)` for one prepared spec; returns the part and the spec
attached to the produced matrix (the prepared spec itself, or `spec.update(structure=...)`: the same
cells either way) -/
def buildOne (d : Data) (kept : List Nat) (cache : Dict (List (String × F)))
    (st : BuildSt F E) (p : Spec E) : BuildSt F E :=
  match st.2.2 with
  | .error _ => st
  | .ok acc =>
    let r := (Spec.termsToBuild p d).foldl (encodeTerm P d kept cache p.e) (st.1, st.2.1, .ok [])
    match r.2.2 with
    | .error e => (r.1, r.2.1, .error e)
    | .ok cols =>
      match Spec.recorded p with
      | some s =>
        let part : Part F E := ⟨p.formula, p.cfg, d, kept, s.map (·.term), cols, s⟩
        if P.encodingFails part then (r.1, r.2.1, .error .encoding)
        else (r.1, r.2.1, .ok (acc ++ [(part, { p with struct := some s })]))
      | none =>
        let s := newStructure P (Spec.termsToBuild p d) r.2.1.1
        (r.1, r.2.1, .ok (acc ++ [(⟨p.formula, p.cfg, d, kept, p.formula, cols, s⟩,
          { p with struct := some s })]))

end

/-! ## `FormulaMaterializer.get_model_matrix` -/

inductive Mode
  | share   -- before the repair of D16: prepared specs share the caller's dictionaries
  | copy    -- the code as it is: prepared specs own copies
deriving DecidableEq, Repr

section
variable {F E : Type}

/-- `_prepare_model_specs.prepare_model_spec`: `model_spec.update(**overrides)` -/
def prepareOne (mode : Mode) (w : World F E) (s : Spec E) : World F E × Spec E :=
  match mode with
  | .share => (w, s)
  | .copy => (w.alloc (w.tcells s.t) (w.ecells s.e), { s with t := w.next, e := w.next })

def prepareAll (mode : Mode) : World F E → List (Spec E) → World F E × List (Spec E)
  | w, [] => (w, [])
  | w, s :: ss => ((prepareAll mode (prepareOne mode w s).1 ss).1,
                   (prepareOne mode w s).2 :: (prepareAll mode (prepareOne mode w s).1 ss).2)

/-- step 0: `transform_state.update(model_spec.transform_state)` over the prepared specs -/
def pool (w : World F E) (ps : List (Spec E)) : Dict F :=
  ps.foldl (fun acc p => acc.update (w.tcells p.t)) Dict.empty

/-- step 0: the pooled factors (as a list; the code iterates a `set` in arbitrary order) -/
def factorsOf (ss : List (Spec E)) : List Factor :=
  ss.flatMap fun s => s.formula.flatten

/-- step 2: `ms.transform_state.update(pooled)` IN PLACE on every prepared spec -/
def writeBack (st : Dict F) (w : World F E) (ps : List (Spec E)) : World F E :=
  ps.foldl (fun w p => w.setT p.t ((w.tcells p.t).update st)) w

variable (P : Params F E)

/-- steps 0-3 of `FormulaMaterializer.get_model_matrix` on the prepared specs `ps`, with the
iteration order of the factor set made explicit.  Returns the world after the call and the parts
with the specs attached to them (or the exception; cells written before it stay written). -/
def materialize (w : World F E) (ps : List (Spec E)) (d : Data) (order : List Factor) :
    World F E × Except Err (List (Part F E × Spec E)) :=
  match ps with
  | [] => (w, .error .inconsistent)
  | p0 :: ps =>
    if (p0 :: ps).all (fun p => p.cfg == p0.cfg) then
      match evaluateAll P d p0.cfg.na ⟨Dict.empty, fun _ => false, pool w (p0 :: ps)⟩ order with
      | .error e => (w, .error e)
      | .ok ev =>
        let kept := (List.range (P.nrows d)).filter fun i => !ev.drops i
        let w2 := writeBack ev.state w (p0 :: ps)
        let r := (p0 :: ps).foldl (buildOne P d kept ev.cache) (w2, Caches.empty, .ok [])
        (r.1, r.2.2)
    else (w, .error .inconsistent)

/-- `FormulaMaterializer.get_model_matrix(specs)`: `_prepare_model_specs`, then steps 0-3 -/
def callCore (mode : Mode) (w : World F E) (ss : List (Spec E)) (d : Data) (order : List Factor) :
    World F E × Except Err (List (Part F E × Spec E)) :=
  materialize P (prepareAll mode w ss).1 (prepareAll mode w ss).2 d order

end

/-! ## Operations of a history -/

/-- keyword arguments of `ModelSpec.update` that the model covers -/
structure Upd where
  formula : Option Formula := none
  efr : Option Bool := none
  na : Option NAAction := none
  clearStruct : Bool := false
deriving DecidableEq, Repr

inductive Op
  /-- `ModelSpec(formula=f, **cfg)` / `ModelSpec.from_spec(f, **cfg)`: fresh empty dictionaries -/
  | newSpec (f : Formula) (cfg : Cfg)
  /-- `spec.update(**u)` -/
  | update (h : Nat) (u : Upd)
  /-- `spec.subset(terms)` -/
  | subset (h : Nat) (terms : List Term)
  /-- `model_matrix(formula, data, **cfg)` / `Formula.get_model_matrix(data, **cfg)`; a structured
  formula has several parts -/
  | build (fs : List Formula) (cfg : Cfg) (d : Data)
  /-- `spec.get_model_matrix(data, **u)` / `model_matrix(spec, data, **u)` /
  `ModelSpecs(...).get_model_matrix(data, **u)` on specs obtained earlier -/
  | call (hs : List Nat) (u : Option Upd) (d : Data)
deriving DecidableEq, Repr

section
variable {F E : Type}

/-- `dataclasses.replace(spec, **u)`: the cells are shared -/
def applyUpd (u : Upd) (s : Spec E) : Spec E :=
  { formula := match u.formula with
      | some f => f
      | none => s.formula,
    cfg := ⟨match u.efr with
      | some b => b
      | none => s.cfg.efr, match u.na with
      | some a => a
      | none => s.cfg.na⟩,
    struct := if u.clearStruct then none else s.struct,
    t := s.t, e := s.e }

/-- `ModelSpec.subset`: the restricted formula is checked first (`ValueError`), then `.structure`
must be populated (`RuntimeError`), then every term is looked up in it (`KeyError`) -/
def subsetSpec (s : Spec E) (terms : List Term) : Except Err (Spec E) :=
  if terms.all (fun t => s.formula.contains t) then
    match s.struct with
    | none => .error .noStructure
    | some st =>
      match terms.mapM (fun t => st.find? (fun e => e.term == t)) with
      | none => .error .keyError
      | some es => .ok { s with formula := terms, struct := some es }
  else .error .missingTerms

/-- fresh specs for the parts of a formula (`ModelSpec.from_spec(formula, **cfg)`), not handed out -/
def freshSpecs (cfg : Cfg) : World F E → List Formula → World F E × List (Spec E)
  | w, [] => (w, [])
  | w, f :: fs =>
    ((freshSpecs cfg (w.alloc Dict.empty Dict.empty) fs).1,
     ⟨f, cfg, none, w.next, w.next⟩ :: (freshSpecs cfg (w.alloc Dict.empty Dict.empty) fs).2)

/-- resolve handles (positions in the list of objects handed out so far); `none` if one is unknown -/
def lookupAll {α : Type} (l : List α) : List Nat → Option (List α)
  | [] => some []
  | h :: hs => match l[h]?, lookupAll l hs with
    | some a, some as => some (a :: as)
    | _, _ => none

def lookupSpecs (w : World F E) (hs : List Nat) : Option (List (Spec E)) := lookupAll w.specs hs

variable (P : Params F E)

/-- finish a materializing operation: hand out the specs attached to the produced matrices -/
def publish (r : World F E × Except Err (List (Part F E × Spec E))) : World F E × Outcome F E :=
  match r.2 with
  | .error e => (r.1, .error e)
  | .ok l => ({ r.1 with specs := r.1.specs ++ l.map (·.2) }, .ok (l.map (·.1)))

def step (mode : Mode) (w : World F E) : Op → World F E × Outcome F E
  | .newSpec f cfg =>
    ({ w.alloc Dict.empty Dict.empty with specs := w.specs ++ [⟨f, cfg, none, w.next, w.next⟩] }, .ok [])
  | .update h u =>
    match w.specs[h]? with
    | none => (w, .error .badHandle)
    | some s => ({ w with specs := w.specs ++ [applyUpd u s] }, .ok [])
  | .subset h terms =>
    match w.specs[h]? with
    | none => (w, .error .badHandle)
    | some s =>
      match subsetSpec s terms with
      | .error e => (w, .error e)
      | .ok s' => ({ w with specs := w.specs ++ [s'] }, .ok [])
  | .build fs cfg d =>
    let fr := freshSpecs cfg w fs
    publish (callCore P mode fr.1 fr.2 d (factorsOf fr.2))
  | .call hs u d =>
    match lookupSpecs w hs with
    | none => (w, .error .badHandle)
    | some ss =>
      let ss' := match u with
        | some u => ss.map (applyUpd u)
        | none => ss
      publish (callCore P mode w ss' d (factorsOf ss'))

/-- run a history; the list of worlds-after and outcomes, one per operation -/
def trace (mode : Mode) : World F E → List Op → List (World F E × Outcome F E)
  | _, [] => []
  | w, op :: ops => step P mode w op :: trace mode (step P mode w op).1 ops

def run (mode : Mode) (w : World F E) (h : List Op) : List (Outcome F E) :=
  (trace P mode w h).map (·.2)

def finalWorld (mode : Mode) : World F E → List Op → World F E
  | w, [] => w
  | w, op :: ops => finalWorld mode (step P mode w op).1 ops

end

end FormulaicVerif.Model.Heap
