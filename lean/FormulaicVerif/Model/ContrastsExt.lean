import FormulaicVerif.Model.Contrasts
import FormulaicVerif.Gen.ContrastsTable
/-! # Model of `formulaic/transforms/contrasts.py`, part 2 (C11 only)

`Model/Contrasts.lean` (shared with C04) models the six built-in codings, `Contrasts.apply` and
`encode_contrasts` for a `Contrasts` *instance*. This file adds, on top of it and without changing it:

* `coefRowNames` — `get_coefficient_row_names` of every built-in coding (Python `str()` of the labels
  inside the f-strings), and the row / column labels of the `DataFrame`s that the dense
  `get_coding_matrix` / `get_coefficient_matrix` return;
* `CustomContrasts` (`contr.custom`): `__init__` for a dict, a sequence of rows, a flat sequence, with or
  without `names=` (numpy's shape rules for `numpy.array(...)`, the names/columns mismatch error, the
  `shape[1]` IndexError of a 1-d array), `_get_coding_matrix`, `get_coding_column_names`,
  `get_coefficient_row_names`, `get_spans_intercept`, `get_drop_field`;
* the argument handling at the top of `encode_contrasts` (`contrasts=None`, a `Contrasts` subclass, an
  instance, or anything else → `CustomContrasts(contrasts)`), class defaults read from the generated
  table `Gen.ContrastsTable`;
* `Contrasts.apply(dummies, levels, reduced_rank, output)` called directly: the output type is inferred
  from the type of `dummies` when `output is None`, otherwise validated;
* `_get_coefficient_matrix` for a custom coding: `numpy.linalg.inv` / `scipy.sparse.linalg.inv` of
  `[1 | coding]` (reduced) or of the coding itself (full) as an exact Gauss–Jordan elimination over `Rat`
  whose answer is *certified inside the model* (`invert` multiplies back, or checks the kernel vector),
  so that `Props.C11.custom_coefficient_is_inverse` needs no correctness proof of the elimination.

Core Lean only. -/

namespace FormulaicVerif.Model.ContrastsExt
open FormulaicVerif.Model.Contrasts

/-- Python `str(label)` (what an f-string does to a level) -/
def labelStr : Label → String
  | .str s => s
  | .int i => toString i

/-! ## `get_coefficient_row_names` of the built-in codings -/

/-- `[base, *(f"{level}-{base}" for level in levels if level != base)]` / `levels` -/
def treatmentRowNames (sas : Bool) (b : Option Label) (levels : List Label) (reduced : Bool) :
    Except Err (List Label) := do
  let bi ← findBaseIndex sas b levels
  match levels[bi]? with
  | none => .error .indexError            -- `levels[...]` on an empty list
  | some base =>
      pure (if reduced then
              base :: (levels.filter (fun l => l != base)).map fun l => Label.str (labelStr l ++ "-" ++ labelStr base)
            else levels)

def coefRowNames (c : Contrast) (levels : List Label) (reduced : Bool) : Except Err (List Label) :=
  match c with
  | .treatment b => treatmentRowNames false b levels reduced
  | .sas b => treatmentRowNames true b levels reduced
  | .sum =>
      .ok (if reduced then Label.str "avg" :: levels.dropLast.map fun l => Label.str (labelStr l ++ " - avg")
           else levels)
  | .helmert r _ =>
      .ok (if reduced then
             Label.str "avg" :: (if r then levels.drop 1 else levels.dropLast).map fun l =>
               Label.str (labelStr l ++ " - rolling_avg")
           else levels)
  | .diff b =>
      let f := fun (l ref : Label) => Label.str (labelStr l ++ " - " ++ labelStr ref)
      .ok (if reduced then
             Label.str "avg" :: (if b then List.zipWith f (levels.drop 1) levels else List.zipWith f levels (levels.drop 1))
           else levels)
  | .poly _ => do
      let names ← codingColumnNames c levels true
      pure (if reduced then Label.str "avg" :: names else levels)

/-- labels of the `DataFrame` returned by the dense `get_coding_matrix`: `(index, columns)`
= `(levels, get_coding_column_names(...))`; the matrix is built first, so its errors come first -/
def codingFrameLabels (c : Contrast) (levels : List Label) (reduced : Bool) : Except Err (List Label × List Label) := do
  let _ ← rawCodingMatrix c levels reduced
  let names ← codingColumnNames c levels reduced
  pure (levels, names)

/-- labels of the `DataFrame` returned by the dense `get_coefficient_matrix`: `(index, columns)`
= `(get_coefficient_row_names(...), levels)`; `_get_coefficient_matrix` (hence the dense coding matrix)
runs first -/
def coefFrameLabels (c : Contrast) (levels : List Label) (reduced : Bool) : Except Err (List Label × List Label) := do
  let _ ← getCodingMatrix c levels reduced false
  let rows ← coefRowNames c levels reduced
  pure (rows, levels)

/-! ## Errors of the extended surface -/

inductive XErr where
  | base (e : Err)
  | namesMismatch            -- ValueError: Names must be aligned with the columns of the contrast array.
  | ragged                   -- ValueError: numpy.array of rows of different lengths
  | shape1d                  -- IndexError: `contrasts.shape[1]` of a 1-d array
  | missingArgument          -- TypeError: `CustomContrasts()` without its required argument
  | cannotImpute             -- ValueError: Cannot impute output type for dummies of type …
  | badOutput                -- ValueError: Output type for contrasts must be one of …
  | shortCircuitOutput       -- ValueError: Short-circuiting is only implemented for output types: 'pandas', 'numpy' or 'sparse'.
  | frameShape               -- ValueError: pandas "Shape of passed values is …, indices imply …"
  | notSquare (sparse : Bool) -- numpy.linalg.LinAlgError / scipy ValueError: matrix must be square
  | singular (sparse : Bool)  -- numpy.linalg.LinAlgError: Singular matrix / scipy RuntimeError: Factor is exactly singular
  | nanResult                -- no exception: scipy solves a singular 1 x 1 system as a vector problem, warns, and returns NaN
  | uncertified              -- never produced by the code: the model's own elimination failed its check
  deriving DecidableEq, Repr

def liftB {α : Type} : Except Err α → Except XErr α
  | .ok a => .ok a
  | .error e => .error (.base e)

/-! ## `CustomContrasts` -/

/-- what the caller hands to `CustomContrasts(...)` / `encode_contrasts(contrasts=…)` / `C(x, …)` -/
inductive CustomInput where
  | dict (items : List (Label × List Rat))   -- {name: weights over the levels, …}
  | rows (rs : List (List Rat))              -- a sequence of rows, or a 2-d `numpy.ndarray`
  | flat (vs : List Rat)                     -- a flat sequence (1-d)
  deriving Repr

/-- `ndarray.shape` of the stored `contrasts` -/
inductive Shape where
  | d1 (m : Nat)
  | d2 (r c : Nat)
  deriving DecidableEq, Repr

structure Custom where
  shape : Shape
  /-- `d2 r c`: the `r` rows (each of length `c`); `d1 m`: the one row `scipy.sparse.csc_matrix` promotes a
  1-d array to -/
  rows : List (List Rat)
  /-- `self.contrast_names` -/
  names : Option (List Label)
  deriving Repr

/-- `numpy.array(rows)` for a sequence of sequences: `[]` is 1-d of length 0; rows of one common length
give a 2-d array; anything else is numpy's "inhomogeneous shape" ValueError -/
def npArray (rs : List (List Rat)) : Except XErr (Shape × List (List Rat)) :=
  match rs with
  | [] => .ok (.d1 0, [[]])
  | r :: rest =>
      if rest.all (fun x => x.length == r.length) then .ok (.d2 (rest.length + 1) r.length, r :: rest)
      else .error .ragged

/-- `a.T` of an `r × c` list of rows -/
def transposeRows (rs : List (List Rat)) (c : Nat) : List (List Rat) :=
  (List.range c).map fun j => rs.map fun row => listFn row j

/-- the first half of `CustomContrasts.__init__(contrasts, names=None)`: the names that will be checked and the
array that is stored. dict: `if names is None: names = list(contrasts)`; `numpy.array([*contrasts.values()]).T`;
anything else: `numpy.array(contrasts)` -/
def customArray (inp : CustomInput) (names : Option (List Label)) :
    Except XErr (Option (List Label) × Shape × List (List Rat)) :=
  match inp with
  | .dict items =>
      let names := match names with
        | some ns => some ns
        | none => some (items.map (·.1))
      match npArray (items.map (·.2)) with
      | .error e => .error e
      | .ok (.d1 m, rows) => .ok (names, .d1 m, rows)
      | .ok (.d2 r c, rows) => .ok (names, .d2 c r, transposeRows rows c)
  | .rows rs =>
      match npArray rs with
      | .error e => .error e
      | .ok (shape, rows) => .ok (names, shape, rows)
  | .flat vs => .ok (names, .d1 vs.length, [vs])

/-- the second half: `if names is not None and len(names) != contrasts.shape[1]: raise ValueError(...)` -/
def checkNames (names : Option (List Label)) (shape : Shape) (rows : List (List Rat)) : Except XErr Custom :=
  match names with
  | none => .ok ⟨shape, rows, none⟩
  | some ns =>
      match shape with
      | .d1 _ => .error .shape1d
      | .d2 _ c => if ns.length = c then .ok ⟨shape, rows, some ns⟩ else .error .namesMismatch

/-- `CustomContrasts.__init__(contrasts, names=None)` -/
def mkCustom (inp : CustomInput) (names : Option (List Label)) : Except XErr Custom :=
  match customArray inp names with
  | .error e => .error e
  | .ok (ns, shape, rows) => checkNames ns shape rows

/-- `self.contrasts.shape[1]` -/
def Custom.ncols (k : Custom) : Except XErr Nat :=
  match k.shape with
  | .d1 _ => .error .shape1d
  | .d2 _ c => .ok c

/-- `(rows, columns)` of the matrix the sparse path works with (`csc_matrix` promotes 1-d to `1 × m`) -/
def Shape.dims : Shape → Nat × Nat
  | .d1 m => (1, m)
  | .d2 r c => (r, c)

def Custom.dims (k : Custom) : Nat × Nat := k.shape.dims

/-- `get_coding_column_names`: `self.contrast_names` when truthy (a non-empty list), else `1 … k` -/
def customColumnNames (k : Custom) : Except XErr (List Label) :=
  match k.names with
  | some (n :: ns) => .ok (n :: ns)
  | _ => do
      let c ← k.ncols
      pure ((List.range c).map fun (i : Nat) => Label.int ((i : Int) + 1))

/-- `get_coefficient_row_names`: `list(range(1, len(levels) + (0 if not reduced_rank else 1)))` -/
def customRowNames (levels : List Label) (reduced : Bool) : List Label :=
  (List.range (levels.length + (if reduced then 1 else 0) - 1)).map fun (i : Nat) => Label.int ((i : Int) + 1)

/-- `get_coding_matrix(levels, reduced_rank, sparse)` of a custom coding: the stored array whatever the
rank; the dense form is wrapped in `DataFrame(…, columns=names, index=levels)`, which evaluates the names
(IndexError for a 1-d array) and requires as many rows as levels -/
def customCodingMatrix (k : Custom) (levels : List Label) (sparse : Bool) : Except XErr (List (List Rat)) :=
  if sparse then .ok k.rows
  else do
    let _ ← customColumnNames k
    match k.shape with
    | .d1 _ => .error .shape1d
    | .d2 r _ => if r = levels.length then .ok k.rows else .error .frameShape

/-- a built-in or a custom coding -/
inductive XContrast where
  | builtin (c : Contrast)
  | custom (k : Custom)
  deriving Repr

/-- `_apply` for a custom coding (the generic `dummies @ coding_matrix`); `dummies` has one column per level -/
def customApplyInner (k : Custom) (dummies : List (List Rat)) (levels : List Label) (sparse : Bool) :
    Except XErr (List (List Rat)) := do
  let m ← customCodingMatrix k levels sparse
  let (r, c) := k.dims
  if levels.length = r ∧ dummies.all (fun row => row.length == r) then pure (matMul dummies m c)
  else .error (.base .shapeMismatch)

def plainFormat : String := "{name}[{field}]"

/-- `Contrasts.apply(dummies, levels, reduced_rank, output)` after the output type is known -/
def xApply (x : XContrast) (dummies : List (List Rat)) (levels : List Label) (reduced sparse : Bool) :
    Except XErr Encoded :=
  match x with
  | .builtin c => liftB (apply c dummies levels reduced sparse)
  | .custom k =>
      if levels.isEmpty || (levels.length == 1 && reduced) then
        .ok { values := dummies.map fun _ => [], columnNames := [], spansIntercept := false,
              dropField := none, format := plainFormat, formatReduced := plainFormat }
      else do
        let values ← customApplyInner k dummies levels sparse
        let names ← customColumnNames k
        -- `CustomContrasts.get_spans_intercept` is `False`, `get_drop_field` is `None`
        pure { values := values, columnNames := names, spansIntercept := false, dropField := none,
               format := plainFormat, formatReduced := plainFormat }

/-! ## `Contrasts.apply` called directly: output inference -/

/-- the Python type of `dummies` -/
inductive DummiesType where
  | frame      -- pandas.DataFrame
  | ndarray    -- numpy.ndarray
  | spmatrix   -- scipy.sparse.spmatrix (csc_matrix, …)
  | other      -- anything else (a list, a scipy sparse *array*, …)
  deriving DecidableEq, Repr

def outputNames : List String := ["narwhals", "pandas", "numpy", "sparse"]

/-- the first statement of `Contrasts.apply` -/
def resolveOutput (output : Option String) (t : DummiesType) : Except XErr String :=
  match output with
  | none =>
      match t with
      | .frame => .ok "pandas"
      | .ndarray => .ok "numpy"
      | .spmatrix => .ok "sparse"
      | .other => .error .cannotImpute
  | some o => if outputNames.contains o then .ok o else .error .badOutput

/-- `contrasts.apply(dummies, levels, reduced_rank=…, output=…)`: the encoding and the output type used -/
def applyDirect (x : XContrast) (t : DummiesType) (dummies : List (List Rat)) (levels : List Label)
    (reduced : Bool) (output : Option String) : Except XErr (Encoded × String) := do
  let o ← resolveOutput output t
  -- (until repair 31b1146 the empty short-circuit knew only 'pandas', 'numpy', 'sparse' and raised for 'narwhals';
  -- it now builds the pandas encoding for 'narwhals' as well)
  let e ← xApply x dummies levels reduced (o == "sparse")
  pure (e, o)

/-! ## The `contrasts=` argument of `encode_contrasts` / `C(...)` -/

inductive ContrastArg where
  | unset                                                   -- `contrasts=None`
  | cls (name : String)                                     -- a `Contrasts` subclass, not an instance
  | builtin (c : Contrast)                                  -- an instance of a built-in coding
  | custom (inp : CustomInput) (names : Option (List Label)) -- `contr.custom(inp, names=…)`, or the bare dict / rows (`names = none`)
  deriving Repr

def lookup (k : String) : List (String × String) → Option String
  | [] => none
  | (a, b) :: t => if a = k then some b else lookup k t

/-- `cls()`: the instance with the dataclass defaults of the live package (`Gen.ContrastsTable.fieldDefaults`):
`base=UNSET`, `reverse=True, scale=False`, `backward=True`, `scores=None`; `CustomContrasts()` lacks its
required argument -/
def classDefault (name : String) : Except XErr Contrast :=
  match (Gen.ContrastsTable.fieldDefaults.find? (·.1 == name)).map (·.2) with
  | none => .error .missingArgument
  | some fields =>
      if fields.any (·.2 == "<required>") then .error .missingArgument
      else
        let flag := fun (f : String) => lookup f fields == some "True"
        match name with
        | "TreatmentContrasts" => .ok (.treatment none)
        | "SASContrasts" => .ok (.sas none)
        | "SumContrasts" => .ok .sum
        | "HelmertContrasts" => .ok (.helmert (flag "reverse") (flag "scale"))
        | "DiffContrasts" => .ok (.diff (flag "backward"))
        | "PolyContrasts" => .ok (.poly none)
        | _ => .error .missingArgument

/-- lines 144–158 of `encode_contrasts` -/
def resolveArg : ContrastArg → Except XErr XContrast
  | .unset => .ok (.builtin (.treatment none))
  | .cls name => (classDefault name).map .builtin
  | .builtin c => .ok (.builtin c)
  | .custom inp names => (mkCustom inp names).map .custom

/-- the body of `encode_contrasts` once `contrasts` is a `Contrasts` instance. For a built-in coding this IS
`Model.Contrasts.encodeContrasts`. -/
def xEncodeWith (x : XContrast) (data : List (Option Label)) (levels : Option (List Label))
    (reduced : Bool) (output : String) : Except XErr (Encoded × List Label) :=
  match x with
  | .builtin c => liftB (encodeContrasts data c levels reduced output)
  | .custom k => do
      let cats ← (match levels with
        | some ls => if hasDup ls then Except.error (XErr.base Err.duplicateLevels) else pure ls
        | none => pure (inferLevels data) : Except XErr (List Label))
      if !(outputNames.contains output) then Except.error (XErr.base Err.unknownOutput)
      let enc ← xApply (.custom k) (indicator cats data) cats reduced (output == "sparse")
      pure (enc, cats)

/-- `encode_contrasts(data, contrasts, levels=…, reduced_rank=…, output=…, _state=…)` for every kind of
`contrasts` argument -/
def xEncodeContrasts (data : List (Option Label)) (arg : ContrastArg) (levels : Option (List Label))
    (reduced : Bool) (output : String) : Except XErr (Encoded × List Label) :=
  match resolveArg arg with
  | .error e => .error e
  | .ok x => xEncodeWith x data levels reduced output

/-! ## The encoder closure that `C(data, contrasts, levels=…)` installs -/

/-- `drop_rows(values, indices)` on a pandas Series: by POSITION (index labels may repeat) -/
def dropRowsFrom {α : Type} (rows : List Nat) : Nat → List α → List α
  | _, [] => []
  | i, x :: xs => if rows.contains i then dropRowsFrom rows (i + 1) xs else x :: dropRowsFrom rows (i + 1) xs

def dropRows {α : Type} (rows : List Nat) (data : List α) : List α := dropRowsFrom rows 0 data

/-- `C(...)`'s `encoder(values, reduced_rank, drop_rows, encoder_state, model_spec)`: the rows the materializer decided
to drop are removed by position, then `encode_contrasts(values, contrasts=…, levels=…, reduced_rank=…, _state=encoder_state,
_spec=model_spec)`; `levels if levels is not None else _state.get("categories")` -/
def cEncoder (data : List (Option Label)) (arg : ContrastArg) (levels state : Option (List Label))
    (drop : List Nat) (reduced : Bool) (output : String) : Except XErr (Encoded × List Label) :=
  xEncodeContrasts (dropRows drop data) arg
    (match levels with
     | some l => some l
     | none => state) reduced output

/-! ## Exact inverse with a certificate -/

def isRect (a : List (List Rat)) (r c : Nat) : Bool := a.length == r && a.all (fun row => row.length == c)

def identity (n : Nat) : List (List Rat) := toRows eye n n

/-- `[A | I]` -/
def augmentI (a : List (List Rat)) (n : Nat) : List (List Rat) :=
  (List.zip a (identity n)).map fun (r, e) => r ++ e

/-- index of the first row at or after `p` whose entry in column `j` is non-zero -/
def findPivot (m : List (List Rat)) (j : Nat) : Nat → Nat → Option Nat
  | _, 0 => none
  | i, fuel + 1 =>
      match m[i]? with
      | none => none
      | some row => if listFn row j ≠ 0 then some i else findPivot m j (i + 1) fuel

def swapRows (m : List (List Rat)) (p i : Nat) : List (List Rat) :=
  match m[p]?, m[i]? with
  | some rp, some ri => (m.set p ri).set i rp
  | _, _ => m

/-- one column of Gauss–Jordan elimination: returns the matrix and the next pivot row -/
def eliminate (m : List (List Rat)) (j p : Nat) : List (List Rat) × Nat :=
  match findPivot m j p m.length with
  | none => (m, p)
  | some i =>
      let m := swapRows m p i
      match m[p]? with
      | none => (m, p)
      | some prow =>
          let piv := listFn prow j
          let prow := prow.map (· / piv)
          let m := (List.range m.length).map fun r =>
            match m[r]? with
            | none => []
            | some row =>
                if r = p then prow
                else
                  let f := listFn row j
                  List.zipWith (fun x y => x - f * y) row prow
          (m, p + 1)

def gaussJordan (m : List (List Rat)) : Nat → Nat → Nat → List (List Rat) × Nat
  | _, p, 0 => (m, p)
  | j, p, fuel + 1 =>
      let (m', p') := eliminate m j p
      gaussJordan m' (j + 1) p' fuel

inductive InvResult where
  | inverse (k : List (List Rat))
  | singular (w : List Rat)     -- a non-zero row vector with `w · A = 0`
  | uncertified
  deriving Repr

/-- row vector times matrix: `w · A` for `A` with `c` columns -/
def vecMat (w : List Rat) (a : List (List Rat)) (c : Nat) : List Rat :=
  (List.range c).map fun j => dot w (column a j)

/-- Exact inverse of an `n × n` matrix by Gauss–Jordan elimination on `[A | I]`. The answer is checked before
it is returned: an inverse `K` only if `K · A = I` (and both are `n × n`), a kernel vector `w` only if
`w ≠ 0` and `w · A = 0`. -/
def invert (a : List (List Rat)) (n : Nat) : InvResult :=
  if !(isRect a n n) then .uncertified
  else
    let (m, p) := gaussJordan (augmentI a n) 0 0 n
    if p = n then
      let k := m.map (·.drop n)
      if isRect k n n && matMul k a n == identity n then .inverse k else .uncertified
    else
      match m[p]? with
      | none => .uncertified
      | some row =>
          let w := row.drop n
          if w.length == n && w.any (· ≠ 0) && vecMat w a n == List.replicate n 0 then .singular w else .uncertified

/-- `numpy.hstack([numpy.ones((n, 1)), coding])` -/
def hstackOnes (m : List (List Rat)) : List (List Rat) := m.map fun row => (1 : Rat) :: row

/-- `numpy.linalg.inv` / `scipy.sparse.linalg.inv` of an `r × c` matrix -/
def linalgInv (a : List (List Rat)) (r c : Nat) (sparse : Bool) : Except XErr (List (List Rat)) :=
  if r ≠ c then .error (.notSquare sparse)
  else
    match invert a r with
    | .inverse k => .ok k
    | .singular _ => if sparse ∧ r = 1 then .error .nanResult else .error (.singular sparse)
    | .uncertified => .error .uncertified

/-- `get_coefficient_matrix(levels, reduced_rank, sparse)` of a custom coding. Dense: the coding `DataFrame`
(as many rows as levels), `[1 | coding]` when reduced, `numpy.linalg.inv`, then
`DataFrame(…, columns=levels, index=get_coefficient_row_names(...))`, whose index must have as many entries
as the matrix has rows. Sparse: the stored array, `scipy.sparse.hstack` with the ones column (row counts
must agree), `scipy.sparse.linalg.inv`. -/
def customCoefMatrix (k : Custom) (levels : List Label) (reduced sparse : Bool) : Except XErr (List (List Rat)) := do
  let m ← customCodingMatrix k levels sparse
  let (r, c) := k.dims
  let n := levels.length
  if sparse then
    if reduced then
      if r ≠ n then .error (.base .shapeMismatch)
      else linalgInv (hstackOnes m) n (c + 1) true
    else linalgInv m r c true
  else do
    let inv ← (if reduced then linalgInv (hstackOnes m) n (c + 1) false else linalgInv m r c false)
    if (customRowNames levels reduced).length = inv.length then pure inv else .error .frameShape

end FormulaicVerif.Model.ContrastsExt
