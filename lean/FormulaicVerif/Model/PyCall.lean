import FormulaicVerif.Gen.TransformTable
/-! Python's binding of the arguments a caller WRITES (`f(data, *pos, **kw)`) to the parameters of a
stateful transform `def f(data, p₁ = d₁, …, p_k = d_k, _state = …)` that is called through the
decorator of `formulaic/utils/stateful_transforms.py`:

    wrapper(data, *args, _metadata=None, _state=None, _spec=None, _context=None, **kwargs)
      → func(data, *args, _state=_state, **kwargs)

`_state` is always passed by keyword, so a positional argument beyond `p_k` collides with it
("got multiple values for argument '_state'"); a keyword that is no parameter, or that names a
parameter already bound positionally, is a `TypeError` too.  The parameter lists (names, order,
defaults) are not written here: they are `Gen.transformParams`, regenerated from the signatures of
the live functions on every run. -/
namespace FormulaicVerif.Model.PyCall
open FormulaicVerif

inductive BindErr
  | typeError     -- too many positional arguments / unexpected keyword / multiple values for one parameter
  | unmodelled    -- the live signature has a parameter or default this model has no reading for
deriving DecidableEq, Repr

variable {A : Type}

/-- positional arguments bind to the parameters in order; one more than there are written parameters
collides with the keyword `_state` -/
def bindPos : List String → List A → Except BindErr (List (String × A))
  | _, [] => .ok []
  | [], _ :: _ => .error .typeError
  | p :: ps, a :: as =>
    match bindPos ps as with
    | .error e => .error e
    | .ok r => .ok ((p, a) :: r)

/-- keyword arguments: each must name a parameter that has no value yet (a keyword written twice does
not get past the Python parser; here it is the same "multiple values" error) -/
def bindKw (params : List String) : List (String × A) → List (String × A) → Except BindErr (List (String × A))
  | bound, [] => .ok bound
  | bound, (k, a) :: r =>
    if !params.contains k then .error .typeError
    else if (bound.lookup k).isSome then .error .typeError
    else bindKw params (bound ++ [(k, a)]) r

/-- the written arguments, by parameter name -/
def bind (params : List String) (pos : List A) (kw : List (String × A)) : Except BindErr (List (String × A)) :=
  match bindPos params pos with
  | .error e => .error e
  | .ok b => bindKw params b kw

/-- the value of parameter `name`: what was written, else the default of the live signature read by
`ofLit` (a parameter the live signature does not have, or a default `ofLit` cannot read: `unmodelled`) -/
def valueOf (ofLit : Gen.PyLit → Option A) (sig : List (String × Gen.PyLit)) (bound : List (String × A))
    (name : String) : Except BindErr A :=
  match bound.lookup name with
  | some a => .ok a
  | none =>
    match sig.lookup name with
    | none => .error .unmodelled
    | some d =>
      match ofLit d with
      | some a => .ok a
      | none => .error .unmodelled

/-- the live signature of the preloaded transform `fn` -/
def signature (fn : String) : Except BindErr (List (String × Gen.PyLit)) :=
  match Gen.transformParams.lookup fn with
  | some s => .ok s
  | none => .error .unmodelled

end FormulaicVerif.Model.PyCall
