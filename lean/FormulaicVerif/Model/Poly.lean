/-! `formulaic/transforms/poly.py`.

Carrier-polymorphic like `Model/Scale.lean` (engine: `Rat`; theorems: any field / `ℝ`);
`numpy.sqrt` is the parameter `sqrt`.  The matrix `P` is kept as its list of columns, most recent
first (`P[:, i] :: P[:, i-1] :: … :: P[:, 0]`), because the code only ever reads and writes whole
columns.  The two memo dictionaries `alpha`/`norms2` are keyed `0,1,2,…` without gaps, so they are
lists indexed by key (dict insertion order is not an observable of the property and is not
modelled).  A missing value (`nan`) is `none`. -/
namespace FormulaicVerif.Model.Poly

inductive PolyErr
  | nonFinite    -- numpy yields nan/inf (0/0 or x/0 on a zero `norms2`); no exception in Python
  | keyError     -- `alpha[k]` / `norms2[k]` for a degree that was not recorded
  | typeError    -- `norms2[k]` when `_state` has "alpha" but no "norms2" (`None[k]`)
  | valueError   -- shape mismatch in `out[nonnull_indices, :] = P[:, 1:]` / ragged column access
deriving DecidableEq, Repr

/-- `_state`: `alpha`/`norms2` keys absent (`none`) or the recorded dictionaries -/
structure State (α : Type) where
  alpha : Option (List α) := none
  norms2 : Option (List α) := none
deriving Repr, DecidableEq

variable {α : Type} [Add α] [Sub α] [Mul α] [Div α] [Zero α] [One α]

/-- `numpy.sum(P[:, k] ** 2)` -/
def sumSq (p : List α) : α := (p.map (fun t => t * t)).sum

/-- `numpy.sum(x * P[:, k] ** 2)` -/
def sumXSq (x p : List α) : α := (List.zipWith (fun xi t => xi * (t * t)) x p).sum

/-- `numpy.power(x, k)` on one entry, by repeated multiplication -/
def pow (t : α) : Nat → α
  | 0 => 1
  | k + 1 => pow t k * t

/-- The closures `get_alpha(k)` / `get_norm(k)`, given the column `P[:, k]` they would read. -/
structure Coefs (α : Type) where
  alpha : Nat → List α → Except PolyErr α
  norm : Nat → List α → Except PolyErr α

variable [DecidableEq α]

/-- training mode: `alpha[k] = sum(x * P_k**2) / sum(P_k**2)`, `norms2[k] = sum(P_k**2)`.
(The memoisation is transparent: column `k` is final before either closure is first called on it.) -/
def training (x : List α) : Coefs α where
  alpha := fun _ p => if sumSq p = 0 then .error .nonFinite else .ok (sumXSq x p / sumSq p)
  norm := fun _ p => .ok (sumSq p)

/-- replay mode: the recorded dictionaries, `KeyError` beyond what was recorded -/
def recorded (al : List α) (nr : Option (List α)) : Coefs α where
  alpha := fun k _ => match al[k]? with
    | some a => .ok a
    | none => .error .keyError
  norm := fun k _ => match nr with
    | none => .error .typeError
    | some nr => match nr[k]? with
      | some n => .ok n
      | none => .error .keyError

/-- The loop `for i in range(1, degree + 1)`; `build x c i` is the list of columns after
iteration `i`, newest first.
  `P[:, i] = (x - get_alpha(i-1)) * P[:, i-1]`;  `if i >= 2: P[:, i] -= get_beta(i-1) * P[:, i-2]`
with `get_beta(k) = get_norm(k) / get_norm(k-1)`. -/
def build (x : List α) (c : Coefs α) : Nat → Except PolyErr (List (List α))
  | 0 => .ok [x.map (fun _ => 1)]
  | i + 1 =>
    match build x c i with
    | .error e => .error e
    | .ok [] => .error .valueError
    | .ok (p1 :: rest) =>
      match c.alpha i p1 with
      | .error e => .error e
      | .ok a =>
        let col := List.zipWith (fun xi t => (xi - a) * t) x p1
        match i, rest with
        | 0, _ => .ok (col :: p1 :: rest)
        | _ + 1, [] => .error .valueError
        | j + 1, p2 :: _ =>
          match c.norm (j + 1) p1, c.norm j p2 with
          | .error e, _ => .error e
          | _, .error e => .error e
          | .ok n1, .ok n2 =>
            if n2 = 0 then .error .nonFinite
            else .ok (List.zipWith (fun t u => t - (n1 / n2) * u) col p2 :: p1 :: rest)

/-- `[get_norm(k) for k in range(0, degree + 1)]` on the columns (given oldest first) -/
def norms (c : Coefs α) : Nat → List (List α) → Except PolyErr (List α)
  | _, [] => .ok []
  | k, p :: ps =>
    match c.norm k p, norms c (k + 1) ps with
    | .error e, _ => .error e
    | _, .error e => .error e
    | .ok n, .ok ns => .ok (n :: ns)

/-- `[get_alpha(k) for k in range(0, degree)]` as left behind in the `alpha` dict by the loop -/
def alphas (c : Coefs α) : Nat → List (List α) → Except PolyErr (List α)
  | _, [] => .ok []
  | k, p :: ps =>
    match c.alpha k p, alphas c (k + 1) ps with
    | .error e, _ => .error e
    | _, .error e => .error e
    | .ok a, .ok as => .ok (a :: as)

/-- `P /= numpy.array([sqrt(get_norm(k)) ...])`, column by column -/
def normalise (sqrt : α → α) : List (List α) → List α → Except PolyErr (List (List α))
  | [], [] => .ok []
  | p :: ps, n :: ns =>
    if sqrt n = 0 then .error .nonFinite
    else match normalise sqrt ps ns with
      | .error e => .error e
      | .ok r => .ok (p.map (fun t => t / sqrt n) :: r)
  | _, _ => .error .valueError

/-- `out[nonnull_indices] = col` into an all-`nan` column of the original length -/
def reinsert : List (Option α) → List α → Except PolyErr (List (Option α))
  | [], [] => .ok []
  | [], _ :: _ => .error .valueError
  | none :: xs, col =>
    match reinsert xs col with
    | .error e => .error e
    | .ok r => .ok (none :: r)
  | some _ :: _, [] => .error .valueError
  | some _ :: xs, v :: col =>
    match reinsert xs col with
    | .error e => .error e
    | .ok r => .ok (some v :: r)

def reinsertAll (xs : List (Option α)) : List (List α) → Except PolyErr (List (List (Option α)))
  | [] => .ok []
  | c :: cs =>
    match reinsert xs c, reinsertAll xs cs with
    | .error e, _ => .error e
    | _, .error e => .error e
    | .ok r, .ok rs => .ok (r :: rs)

/-- The orthogonal branch on the non-missing values `x = x[nonnull_indices]`: the normalised columns
`P[:, 1:]` and the `_state` afterwards. -/
def fit (sqrt : α → α) (x : List α) (degree : Nat) (st : State α) :
    Except PolyErr (List (List α) × State α) :=
  -- training = (_state.get("alpha") is None)
  let c : Coefs α := match st.alpha with
    | none => training x
    | some al => recorded al st.norms2
  match build x c degree with
  | .error e => .error e
  | .ok colsRev =>
    let cols := colsRev.reverse        -- P[:, 0], …, P[:, degree]
    match norms c 0 cols with
    | .error e => .error e
    | .ok ns =>
      match normalise sqrt cols ns with
      | .error e => .error e
      | .ok q =>
        -- if training: _state["alpha"] = alpha; _state["norms2"] = norms2
        match st.alpha with
        | some _ => .ok (q.drop 1, st)
        | none =>
          match alphas c 0 cols.dropLast with
          | .error e => .error e
          | .ok as => .ok (q.drop 1, { alpha := some as, norms2 := some ns })

/-- `poly(x, degree, raw, _state)`: the columns of the result (column `k` of the output is entry
`k` of the list) and the `_state` afterwards. -/
def run (sqrt : α → α) (xs : List (Option α)) (degree : Nat) (raw : Bool) (st : State α) :
    Except PolyErr (List (List (Option α)) × State α) :=
  if raw then
    -- numpy.stack([numpy.power(x, k) for k in range(1, degree + 1)], axis=1); nan ** k = nan (k ≥ 1);
    -- numpy.stack([]) raises ValueError("need at least one array to stack")
    if degree = 0 then .error .valueError else
    .ok ((List.range degree).map (fun k => xs.map (fun o => o.map (fun t => pow t (k + 1)))), st)
  else
    -- x = x[nonnull_indices]; …; out[nonnull_indices, :] = P[:, 1:]
    match fit sqrt xs.reduceOption degree st with
    | .error e => .error e
    | .ok (q, st') =>
      match reinsertAll xs q with
      | .error e => .error e
      | .ok out => .ok (out, st')

end FormulaicVerif.Model.Poly
