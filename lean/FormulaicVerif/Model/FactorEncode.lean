import FormulaicVerif.Model.Materialize
import FormulaicVerif.Gen.FactorMeta
/-! # C02 — evaluated factor values, their metadata, and `_encode_evaled_factor` with nesting

`formulaic/materializers/types/factor_values.py` (`FactorValuesMetadata`, the metadata rules of the
`FactorValues` constructor), `formulaic/utils/cast.py` (`as_columns`, `propagate_metadata`) and, of
`formulaic/materializers/base.py`, `_encode_evaled_factor` (the `map_dict` decorator, the
`metadata.encoded` branch, the re-wrapping with `encoded=True`, the drop-field step) and
`_flatten_encoded_evaled_factor` (recursive, with the default format for dictionaries that carry no
metadata) — for factor values of ANY shape the code accepts: a single column, a (nested) dict of
columns, a `FactorValues` dict with its own format strings / `drop_field` / `spans_intercept`, a
`pandas.DataFrame`, a 2-d array with or without `column_names`, an array with more dimensions
(`ValueError`), and pre-encoded values (`encoded=True`).

What still enters as data: for a factor whose encoder is NOT this file's business — a
`metadata.encoder` closure (`C(...)`), or `encode_contrasts` behind `_encode_categorical` — the
object stored in `encoded_cache` for `reduced_rank ∈ {False, True}` (`RFactor.ext`), as a value tree
with the metadata the encoder attached. A plain categorical column may instead be given by its
levels and per-row codes (`Raw.cat`): then the dummy coding is computed here (`dummyVal`).
For a numerical factor everything downstream of the evaluated values is computed here.

Core Lean only. Python operations that raise are modelled with `Except EErr`. -/
namespace FormulaicVerif.Model.Nest
open FormulaicVerif.Model

/-- exceptions of the modelled path (by class name) -/
inductive EErr
  | keyError      -- `factor_cache[expr]`, `del encoded[drop_field]`
  | typeError     -- `functools.reduce` of an empty sequence
  | indexError    -- `names[i]`, `column_names[i]`
  | valueError    -- `as_columns` of an array with more than two dimensions
  | unsupported   -- harness-level: an encoder that is neither modelled nor forwarded
  | fuel          -- the scoping model ran out of fuel (never: `simplify_fuel_sufficient`)
deriving DecidableEq, Repr

def EErr.name : EErr → String
  | .keyError => "KeyError" | .typeError => "TypeError" | .indexError => "IndexError"
  | .valueError => "ValueError" | .unsupported => "MODEL-UNSUPPORTED" | .fuel => "MODEL-OUT-OF-FUEL"

def EErr.ofM : MErr → EErr
  | .keyError => .keyError | .typeError => .typeError | .indexError => .indexError

def EErr.ofScope : ScopeErr → EErr
  | .py e => EErr.ofM e
  | .fuel => .fuel

/-! ### `FactorValuesMetadata` -/

/-- the fields of `FactorValuesMetadata` that the materializer consults (`kind` travels with the
factor; `encoder` is opaque: only whether there is one) -/
structure Meta where
  columnNames : Option (List Field)   -- `column_names` (`None` / empty: `none`)
  format : Fmt                        -- `format`
  encoded : Bool                      -- `encoded`
  hasEncoder : Bool                   -- `encoder is not None`
  spansIntercept : Bool               -- `spans_intercept`
  dropField : Option Field            -- `drop_field`
  reduced : Bool                      -- `reduced`
  formatReduced : Option Fmt          -- `format_reduced` (`None` / empty string: `none`)
deriving DecidableEq, Repr

/-- `FactorValuesMetadata()` with every field at its default (`Gen.FactorMeta`, regenerated from the
live dataclass) -/
def Meta.default : Meta :=
  { columnNames := none, format := Gen.defaultFormat, encoded := Gen.defaultEncoded,
    hasEncoder := false, spansIntercept := Gen.defaultSpansIntercept, dropField := none,
    reduced := Gen.defaultReduced, formatReduced := none }

/-- `FactorValuesMetadata.get_format`:
`self.format_reduced if self.reduced and self.format_reduced else self.format` -/
def Meta.getFormat (m : Meta) : Fmt :=
  match m.reduced, m.formatReduced with
  | true, some f => f
  | _, _ => m.format

/-! ### value trees -/

mutual
/-- what a factor evaluates / encodes to, as far as the materializer distinguishes: anything that is
not a `dict` is one column; a `dict` maps keys to values and is either plain (`meta = none`) or a
`FactorValues` proxy carrying metadata -/
inductive Val
  | col (c : Col)
  | dict (es : Ents) (md : Option Meta)
/-- the items of a `dict`, in insertion order -/
inductive Ents
  | nil
  | cons (k : Field) (v : Val) (rest : Ents)
end

/-- `d[k] = v` (position of an existing key is kept) -/
def Ents.set : Ents → Field → Val → Ents
  | .nil, k, v => .cons k v .nil
  | .cons k' v' r, k, v => if k' = k then .cons k v r else .cons k' v' (r.set k v)

/-- `del d[k]`; `none` = `KeyError` -/
def Ents.del : Ents → Field → Option Ents
  | .nil, _ => none
  | .cons k' v' r, k =>
    if k' = k then some r
    else match r.del k with
      | none => none
      | some r' => some (.cons k' v' r')

/-- `d[k]` -/
def Ents.get? : Ents → Field → Option Val
  | .nil, _ => none
  | .cons k' v' r, k => if k' = k then some v' else r.get? k

/-- the evaluated values of a factor (`factor.values.__wrapped__`) before `as_columns` -/
inductive Raw
  | val (v : Val)                         -- one column, or a dict (plain or `FactorValues`)
  | frame (cols : List (Field × Col))     -- `pandas.DataFrame`: `(label, column)` in order
  | arr2 (cols : List Col)                -- 2-d `numpy.ndarray` / `csc_matrix`, by column
  | arrN                                  -- `numpy.ndarray` with more than two dimensions
  | cat (levels : List Field) (codes : List (Option Nat))
      -- a categorical column given by its categories (`data.cat.categories` after
      -- `astype("category")` / recoding to the recorded levels) and per-row code (`none`: null)

/-- `factor_cache[expr]` with everything `_encode_evaled_factor` looks at -/
structure RFactor where
  expr : String
  present : Bool                 -- `values.__wrapped__ is not None`
  kind : Kind                    -- `metadata.kind` (a constant carries its value)
  md : Meta                      -- `factor.metadata`
  raw : Raw
  ext : Option (Val × Val)       -- forwarded `encoded_cache` objects for `reduced_rank` False / True

/-! ### literal factors (`ast.literal_eval(factor.expr)` in `_evaluate_factor`) -/

/-- the number a string of decimal digits denotes (`none` when a character is not a digit) -/
def digitsVal (cs : List Char) : Option Nat :=
  cs.foldl (fun acc c =>
    match acc with
    | none => none
    | some n => if c.isDigit then some (n * 10 + (c.toNat - '0'.toNat)) else none) (some 0)

/-- the value of a numeric literal of the formula grammar (the tokenizer's numeric characters are
`[0-9.]`): `digits`, `digits.digits`, `digits.`, `.digits`. `none`: not of that form (two dots, no
digit, an integer with a superfluous leading zero — Python rejects those). -/
def parseLiteral (s : String) : Option Rat :=
  match s.toList.splitOn '.' with
  | [ip] =>
    if ip.isEmpty then none
    else if ip.head? = some '0' && ip.length > 1 && ip.any (· ≠ '0') then none
    else (digitsVal ip).map (fun n => (n : Rat))
  | [ip, fp] =>
    if ip.isEmpty && fp.isEmpty then none
    else
      match digitsVal ip, digitsVal fp with
      | some a, some b => some (mkRat (a * 10 ^ fp.length + b) (10 ^ fp.length))
      | _, _ => none
  | _ => none

/-- the scale contribution of a literal factor: computed from its text when it is a numeric literal
of the modelled form, otherwise the value as evaluated (which then enters as data) -/
def constantValue (expr : String) (evaluated : Rat) : Rat :=
  match parseLiteral expr with
  | some v => v
  | none => evaluated

/-! ### `as_columns` (utils/cast.py) -/

/-- `dict(data.items())` / a dict comprehension: later duplicates of a key replace the value in place -/
def entsOfCols (cols : List (Field × Col)) : Ents :=
  cols.foldl (fun es kc => es.set kc.1 (.col kc.2)) .nil

/-- the keys of `{column_names[i]: data[:, i] for i in range(data.shape[1])}`; `column_names`
defaults to `list(range(ncols))` when the metadata has none -/
def arrKeys (names : Option (List Field)) : Nat → Nat → Except EErr (List Field)
  | _, 0 => .ok []
  | i, n + 1 =>
    match (match names with | none => some ⟨toString i, false⟩ | some ns => ns[i]?) with
    | none => .error .indexError
    | some k =>
      match arrKeys names (i + 1) n with
      | .error e => .error e
      | .ok ks => .ok (k :: ks)

/-- `as_columns(factor.values)`; `factor.values` is a `FactorValues`, so `propagate_metadata`
re-wraps a dict result with the factor's metadata -/
def asColumns (m : Meta) : Raw → Except EErr Val
  | .val (.col c) => .ok (.col c)
  | .val (.dict es _) => .ok (.dict es (some m))
  | .frame cols => .ok (.dict (entsOfCols cols) (some m))
  | .arr2 cols =>
    match arrKeys m.columnNames 0 cols.length with
    | .error e => .error e
    | .ok ks => .ok (.dict (entsOfCols (ks.zip cols)) (some m))
  | .arrN => .error .valueError
  | .cat _ _ => .error .unsupported

/-! ### the `map_dict` decorator around `_encode_numerical` -/

mutual
/-- `map_dict(self._encode_numerical)(values, …)`: a dict is mapped over, keys that are `str` and
start with `__` generate nothing, the metadata of a `FactorValues` dict is kept, a plain dict stays
plain; a column is passed through (`_encode_numerical` keeps the values: dropping rows is C06's
business, the sparse conversion keeps every entry) -/
def Val.mapDict : Val → Val
  | .col c => .col c
  | .dict es m => .dict es.mapDict m
def Ents.mapDict : Ents → Ents
  | .nil => .nil
  | .cons k v r => if k.hidden then r.mapDict else .cons k v.mapDict r.mapDict
end

/-! ### dummy coding of a plain categorical column (`_encode_categorical` → `encode_contrasts`
with the default treatment contrasts and `reduced_rank=False`) -/

/-- the indicator column of level number `j` -/
def indicator (codes : List (Option Nat)) (j : Nat) : Col :=
  codes.map (fun c => if c = some j then 1 else 0)

/-- `(level, indicator)` for every level, in level order -/
def dummyCols (levels : List Field) (codes : List (Option Nat)) : List (Field × Col) :=
  levels.zipIdx.map (fun lj => (lj.1, indicator codes lj.2))

/-- the metadata `TreatmentContrasts.apply(…, reduced_rank=False)` attaches: spans the intercept
when there are levels, the first level is the one to drop, the two format templates
(`Gen.treatmentFormat*`, read off the live class) -/
def dummyMeta (levels : List Field) : Meta :=
  { columnNames := some levels, format := Gen.treatmentFormat, encoded := true, hasEncoder := false,
    spansIntercept := !levels.isEmpty && Gen.treatmentSpansIntercept, dropField := levels.head?, reduced := false,
    formatReduced := some Gen.treatmentFormatReduced }

def dummyVal (levels : List Field) (codes : List (Option Nat)) : Val :=
  .dict (entsOfCols (dummyCols levels codes)) (some (dummyMeta levels))

/-! ### `_encode_evaled_factor` -/

/-- the object named `encoded` before it is re-wrapped -/
def encodedObject (f : RFactor) (reduced : Bool) : Except EErr Val :=
  if f.md.encoded then asColumns f.md f.raw          -- `as_columns(factor.values)`
  else
    match f.ext with
    | some (full, red) => .ok (if reduced then red else full)
    | none =>
      if f.md.hasEncoder then .error .unsupported
      else
        match f.kind, f.raw with
        | .numerical, raw =>
          match asColumns f.md raw with
          | .error e => .error e
          | .ok v => .ok v.mapDict
        | .categorical, .cat levels codes => .ok (dummyVal levels codes)
        | _, _ => .error .unsupported

/-- `FactorValues(encoded, metadata=getattr(encoded, "__formulaic_metadata__", factor.metadata), encoded=True)`
(only a dict's metadata is looked at afterwards) -/
def finalize (fm : Meta) : Val → Val
  | .col c => .col c
  | .dict es m => .dict es (some { (m.getD fm) with encoded := true })

/-- `if isinstance(encoded, dict) and metadata.spans_intercept and reduced_rank:` copy, mark
`reduced=True`, `del encoded[metadata.drop_field]` -/
def dropStep (reduced : Bool) : Val → Except EErr Val
  | .col c => .ok (.col c)
  | .dict es none => .ok (.dict es none)
  | .dict es (some m) =>
    if m.spansIntercept && reduced then
      match m.dropField with
      | none => .error .keyError
      | some k =>
        match es.del k with
        | none => .error .keyError
        | some es' => .ok (.dict es' (some { m with reduced := true }))
    else .ok (.dict es (some m))

/-- the encoded value tree of a factor for one rank setting, as handed to the flattening -/
def encodedTree (f : RFactor) (reduced : Bool) : Except EErr Val :=
  match encodedObject f reduced with
  | .error e => .error e
  | .ok v => dropStep reduced (finalize f.md v)

/-! ### `_flatten_encoded_evaled_factor` -/

/-- structural label of one encoded column: the factor, the key path inside its encoded value
(`[]`: the factor is a single column), and which rank setting was encoded -/
structure NPart where
  expr : String
  path : List Field
  reduced : Bool
deriving DecidableEq, Repr

structure NItem where
  name : String
  part : NPart
  col : Col
deriving DecidableEq, Repr

/-- `d[name] = …` on an insertion-ordered `{name: column}` dict -/
def nitemSet (d : List NItem) (e : NItem) : List NItem :=
  match d with
  | [] => [e]
  | x :: r => if x.name = e.name then e :: r else x :: nitemSet r e

/-- `d.update(other)` -/
def nitemUpdate (d new : List NItem) : List NItem := new.foldl nitemSet d

/-- the format of a dict: `values.__formulaic_metadata__.get_format()` when it has metadata,
`FactorValuesMetadata.format` (the class default) otherwise -/
def fmtOfMeta : Option Meta → Fmt
  | some m => m.getFormat
  | none => Gen.defaultFormat

mutual
/-- `_flatten_encoded_evaled_factor(name, values)`; a non-dict is `{name: values}` -/
def flattenVal (expr : String) (red : Bool) (name : String) (path : List Field) : Val → List NItem
  | .col c => [⟨name, ⟨expr, path, red⟩, c⟩]
  | .dict es m => flattenEnts expr red (fmtOfMeta m) name path es []
/-- the `for subfield, value in values.items()` loop with the running `flattened` dict
(`flattened[subname] = value` is `update` with a one-entry dict) -/
def flattenEnts (expr : String) (red : Bool) (fmt : Fmt) (name : String) (path : List Field) :
    Ents → List NItem → List NItem
  | .nil, acc => acc
  | .cons k v r, acc =>
    flattenEnts expr red fmt name path r
      (nitemUpdate acc (flattenVal expr red (fmt.format name k.text) (path ++ [k]) v))
end

/-- `_encode_evaled_factor(factor, spec, drop_rows, reduced_rank)` -/
def encodeFactor (f : RFactor) (reduced : Bool) : Except EErr (List NItem) :=
  match encodedTree f reduced with
  | .error e => .error e
  | .ok v => .ok (flattenVal f.expr reduced f.expr [] v)

end FormulaicVerif.Model.Nest
