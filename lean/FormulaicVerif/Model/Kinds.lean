/-! Factor kinds and the dtype probe rows of the generated kind table (`Gen/KindTable.lean`). -/
namespace FormulaicVerif.Model

inductive FKind | categorical | numerical | error
deriving DecidableEq, Repr, Inhabited

/-- what a dtype *is*, independently of the library's classification -/
inductive DFamily | text | categorical | numeric | bool
deriving DecidableEq, Repr, Inhabited

structure KindRow where
  dtype : String
  family : DFamily
  pandasKind : FKind
  narwhalsKind : FKind
  /-- `NarwhalsMaterializer._is_categorical` when the same column arrives as a `pyarrow.Table` column -/
  arrowKind : FKind
deriving DecidableEq, Repr, Inhabited

end FormulaicVerif.Model
