import FormulaicVerif.Model.SpecMeta
import FormulaicVerif.Model.Structured
/-! # Model of `ModelSpecs.subset` (`formulaic/model_spec.py`) — property C10

A `ModelSpecs` is a `Structured[ModelSpec]` (`Model/Structured.lean`: a tree of keyed nodes and
tuples, `St.Val`). `ModelSpecs.subset(terms_spec)` parses `terms_spec` into a formula; a formula
without structure is refused; otherwise `formula._map(f, as_type=ModelSpecs)` visits every
`SimpleFormula` leaf of the formula with its path (`context`) and replaces it by
`self[context].subset(leaf)`:

* `self[context]` is `Structured.__lookup_path`: a key that is missing or a step that does not fit
  the kind of the object raises `KeyError`; an index beyond the end of a tuple raises `IndexError`
  (`obj[path[idx]]` on the tuple itself);
* what is found at the path must be a `ModelSpec`: a tuple has no attribute `subset`
  (`AttributeError`), a nested `ModelSpecs` is handed a formula without structure (`ValueError`);
* the `try … except KeyError` around both steps turns every `KeyError` into `ValueError`;
* the dict comprehension of `_map` evaluates the items in `_structure` order, tuples by index, depth
  first, so the FIRST failing leaf in that order decides the exception;
* `_map` ends with the constructor `ModelSpecs(**items)`, which moves the key `root` last
  (`St.rootLast`).

The parse of `terms_spec` (C01, C19) is a parameter: the model receives the formula tree whose
leaves are term lists. Core Lean only. -/
namespace FormulaicVerif.Model.SpecsMeta
open FormulaicVerif.Model FormulaicVerif.Model.SpecMeta FormulaicVerif.Model.St

variable {α β γ : Type}

/-- `Structured.__lookup_path(path)` (what `self[context]` does for a tuple `context`) -/
def lookupPathPy : Path → Val α → Except PyErr (Val α)
  | [], v => .ok v
  | .key k :: p, .node kvs =>
    match kvs.lookup k with
    | some v => lookupPathPy p v
    | none => .error .keyError
  | .idx i :: p, .tup vs =>
    match vs[i]? with
    | some v => lookupPathPy p v
    | none => .error .indexError
  | _ :: _, _ => .error .keyError

mutual
/-- `Structured._map(func, as_type=cls)` for a `func` that may raise: items in `_structure` order,
tuples in index order, depth first; the first exception propagates; every `Structured` met on the way
is rebuilt by the constructor (`rootLast`) -/
def mapE (f : β → Path → Except PyErr γ) : Path → Val β → Except PyErr (Val γ)
  | ctx, .leaf a => (f a ctx).map .leaf
  | ctx, .tup vs => (mapET f ctx 0 vs).map .tup
  | ctx, .node kvs => (mapEI f ctx kvs).map (fun r => .node (rootLast r))
def mapET (f : β → Path → Except PyErr γ) : Path → Nat → List (Val β) → Except PyErr (List (Val γ))
  | _, _, [] => .ok []
  | ctx, i, v :: vs =>
    match mapE f (ctx ++ [.idx i]) v with
    | .error e => .error e
    | .ok w =>
      match mapET f ctx (i + 1) vs with
      | .error e => .error e
      | .ok ws => .ok (w :: ws)
def mapEI (f : β → Path → Except PyErr γ) : Path → Items β → Except PyErr (Items γ)
  | _, [] => .ok []
  | ctx, (k, v) :: r =>
    match mapE f (ctx ++ [.key k]) v with
    | .error e => .error e
    | .ok w =>
      match mapEI f ctx r with
      | .error e => .error e
      | .ok ws => .ok ((k, w) :: ws)
end

/-- `except KeyError: raise ValueError(...)` -/
def keyToValue {δ : Type} : Except PyErr δ → Except PyErr δ
  | .error .keyError => .error .valueError
  | r => r

/-- `map_formula_structure_onto_model_spec(formula, context)`: `self[context].subset(formula)` with
`KeyError` turned into `ValueError` -/
def leafSubset (specs : Val Spec) (formula : List Term) (ctx : Path) : Except PyErr Spec :=
  keyToValue (do
    let target ← lookupPathPy ctx specs
    match target with
    | .leaf sp => sp.subset .degree (.formula formula)
    | .tup _ => .error .attributeError
    | .node _ => .error .valueError)

/-- `ModelSpecs.subset(terms_spec)`; `parsed` = `SimpleFormula.from_spec(terms_spec)` as a tree whose
leaves are the term lists of its `SimpleFormula`s (a bare leaf = a formula without structure) -/
def specsSubset (specs : Val Spec) : Val (List Term) → Except PyErr (Val Spec)
  | .node kvs => mapE (leafSubset specs) [] (.node kvs)
  | _ => .error .valueError

/-- `ModelSpecs.required_variables`: `variables.update(ms.required_variables)` over every contained
spec (here: over the structures of materialized specs, in `_flatten` order) -/
def specsRequiredVariables (leaves : List Structure) : List Str :=
  leaves.foldl (fun acc st => (requiredVariables st).foldl addStr acc) []

end FormulaicVerif.Model.SpecsMeta
