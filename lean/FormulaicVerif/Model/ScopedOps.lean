import FormulaicVerif.Model.Materialize
/-! Python-level behaviour of `ScopedFactor` / `ScopedTerm` objects (`materializers/types/scoped_factor.py`,
`scoped_term.py`) when they meet each other and FOREIGN objects: `==`, `<`, `hash`, `sorted`, and the
de-duplicating constructor. The branches `return NotImplemented` are modelled through what CPython then
does: `==` falls back to identity (False for two different objects), `<` raises `TypeError`. -/
namespace FormulaicVerif.Model.ScopedOps
open FormulaicVerif.Model

/-- an operand: a scoped factor, a scoped term, or any object that is neither -/
inductive Obj
  | sf (f : SF)
  | st (t : ST)
  | other
deriving DecidableEq, Repr

inductive PyErr | typeError
deriving DecidableEq, Repr

/-- `a == b` for two different objects (`ScopedFactor.__eq__`, `ScopedTerm.__eq__`; `NotImplemented` from
both sides makes CPython compare identities) -/
def pyEq : Obj → Obj → Bool
  | .sf a, .sf b => decide (a = b)
  | .st a, .st b => ST.eq a b
  | _, _ => false

/-- `a < b` (`ScopedFactor.__lt__`; `ScopedTerm` defines no ordering; `NotImplemented` from both sides
raises `TypeError`) -/
def pyLt : Obj → Obj → Except PyErr Bool
  | .sf a, .sf b => .ok (SF.lt a b)
  | _, _ => .error .typeError

/-- `repr(ScopedFactor)`: the factor expression, `-` appended when reduced -/
def reprSF (f : SF) : String := f.expr ++ (if f.reduced then "-" else "")

/-- what `hash` is a function of: `hash(repr(self))` for a scoped factor (tag `false`),
`hash(tuple(sorted(self.factors)))` (a function of the element hashes, in order; tag `true`) for a scoped term -/
def hashKey : Obj → Option (Bool × List String)
  | .sf f => some (false, [reprSF f])
  | .st t => some (true, (SF.sort t.factors).map reprSF)
  | .other => none

def allSF : List Obj → Option (List SF)
  | [] => some []
  | .sf f :: r => (allSF r).map (f :: ·)
  | _ :: _ => none

/-- `sorted(xs)`: a list of fewer than two elements is never compared; otherwise every element takes part in
a comparison, which raises unless all of them are scoped factors -/
def pySorted (xs : List Obj) : Except PyErr (List Obj) :=
  if xs.length < 2 then .ok xs
  else
    match allSF xs with
    | some fs => .ok ((SF.sort fs).map Obj.sf)
    | none => .error .typeError

end FormulaicVerif.Model.ScopedOps
