import FormulaicVerif.Model.TokenOps
import FormulaicVerif.Model.PyAlias
/-! `sanitize_python_code` (`parser/algos/sanitize_tokens.py`) as the parser's normaliser `PyEnv.norm`.

The library's own string logic — `UNQUOTED_BACKTICK_MATCHER`, `sanitize_variable_names` /
`sanitize_variable_name` (`utils/code.py`: the split into text / string literals / whole back-quoted
names, the words reserved by the code, the ASCII base name, the alias-collision loop) and the one-pass
restoration of the aliases — is the model of the C15 work, `Model/PyAlias.lean` (`PyAlias.sanitizeNames`,
`PyAlias.restore`, `PyAlias.sanitizePythonCode`), used here as it is. This file only adds what C14 needs
around it: the `try … except (RecursionError, MemoryError, UnicodeError)` of `sanitize_python_code`,
which turns those failures of the Python parser into `SyntaxError` (the exception `format_expr` raised
enters with the classes of its MRO), and the translation into the parser model's error type `PyErr`.

What stays a parameter is `format_expr` alone (`ast.parse` + `ast.unparse`) and `str.isspace`. -/
namespace FormulaicVerif.Model.SanitizeNames
open FormulaicVerif.Model

/-- what `format_expr` raised: the classes of the exception's MRO -/
structure FmtErr where
  mro : List String
deriving Repr

/-- `except (RecursionError, MemoryError, UnicodeError)` -/
def wrapped (e : FmtErr) : Bool :=
  e.mro.contains "RecursionError" || e.mro.contains "MemoryError" || e.mro.contains "UnicodeError"

/-- the exception that leaves the `try` block of `sanitize_python_code`: a wrapped class is re-raised as a
plain `SyntaxError`, everything else propagates as it is -/
def toAliasErr (e : FmtErr) : PyAlias.Err :=
  if wrapped e || e.mro.head? == some "SyntaxError" then .syntaxError
  else .other (match e.mro.head? with | some n => n | none => "Exception")

/-- into the error type of the parser model; an exhausted loop bound of the alias pass (never:
`Proofs.C15Loop.sanitizeNames_total`) is kept as an internal outcome -/
def ofAliasErr : PyAlias.Err → PyErr
  | .syntaxError => .syntaxError
  | .other n => .other n
  | .loopBound => .other "alias-loop"

/-- `format_expr` inside the `try` block -/
def guardedFmt (fmt : List Char → Except FmtErr (List Char)) (u : List Char) : Except PyAlias.Err (List Char) :=
  match fmt u with
  | .error e => .error (toAliasErr e)
  | .ok r => .ok r

/-- `sanitize_python_code(expr)` with `format_expr` as the parameter `fmt`: the alias pass, the guarded
`format_expr`, the restoration (`PyAlias.sanitizePythonCode`) -/
def sanitizePythonCode (isSpace : Char → Bool) (fmt : List Char → Except FmtErr (List Char)) (expr : List Char) :
    Except PyErr (List Char) :=
  match PyAlias.sanitizePythonCode isSpace (guardedFmt fmt) expr with
  | .error e => .error (ofAliasErr e)
  | .ok r => .ok r

end FormulaicVerif.Model.SanitizeNames
