import FormulaicVerif.Model.LayeredMapping
import FormulaicVerif.Gen.Names
/-! Variable extraction, name resolution and required variables (property C17).

Mirrors, as written:
* `formulaic/utils/variables.py`: `_get_ast_node_name`, `_get_ast_node_variables` (breadth first over
  a `deque`; roles `value`/`callable`; dotted names; which children of a call are visited),
  `get_expression_variables` (result is a `set` of `str` subclasses: of several variables with the
  same name the FIRST in breadth-first order is kept, with its roles; the source is
  `context.get_layer_name_for_key(name.split(".", 1)[0])`), `Variable.union`;
* `formulaic/formula.py`: `SimpleFormula.required_variables` (lookup factors contribute their name,
  literal factors nothing, Python factors their value-role variables whose first dotted component
  is not a key of `TRANSFORMS`);
* `formulaic/parser/types/token.py`: `Token.required_variables`;
* `formulaic/materializers/base.py`: the layered context `data > context > transforms`
  (`FormulaMaterializer.__init__`), `_lookup`, `_evaluate`, the wrapping of every evaluation error
  into `FactorEvaluationError` (`_evaluate_factor`);
* `formulaic/utils/stateful_transforms.py`: `stateful_eval` as far as names are concerned: the local
  unnamed `LayeredMapping(env)` that receives the aliases of back-quoted names
  (`sanitize_variable_name`: `if name in env: env[new_name] = env[name]`), the variables recorded
  before evaluation, `eval(code, {}, locals)` (a name missing from the locals falls through to the
  empty globals and then to Python's builtins);
* `formulaic/model_spec.py`: `variables`, `variables_by_source`, `required_variables`.

Parameters (CPython, supplied per case by the harness): the `ast` tree of every Python fragment
(after `sanitize_variable_names`, with the alias table that function produced), the semantics of
every operation on values (`Ops`), the list of builtin names.

The expression language is the strict fragment: every sub-expression is evaluated exactly once,
left to right (no comprehensions, lambdas, conditional expressions, `and`/`or`, chained
comparisons, starred arguments). -/
namespace FormulaicVerif.Model.Variables
open FormulaicVerif.Model.LMap

/-! ## the expression language -/

/-- CPython `ast` expression nodes of the strict fragment. `const` carries `repr(value)`;
`unop`/`binop` carry the operator class name (a single `Compare` is a `binop`); `seq` is a
`Tuple`/`List`/`Set`/`Slice` with the present children in field order. -/
inductive Expr where
  | name (id : String)
  | const (repr : String)
  | attr (value : Expr) (attr : String)
  | call (func : Expr) (args : List Expr) (kwargs : List (String × Expr))
  | unop (op : String) (operand : Expr)
  | binop (op : String) (left right : Expr)
  | subscript (value index : Expr)
  | seq (kind : String) (elts : List Expr)
deriving Repr, Inhabited

/-- a `Variable`: the string, its roles, its source -/
structure Var where
  name : String
  value : Bool
  callable : Bool
  source : Option String
deriving DecidableEq, Repr, Inhabited

def Var.ofValue (n : String) (src : Option String := none) : Var := ⟨n, true, false, src⟩
def Var.ofCallable (n : String) (src : Option String := none) : Var := ⟨n, false, true, src⟩

/-- `name.split(".", 1)[0]` -/
def root (s : String) : String := String.ofList (s.toList.takeWhile (fun c => c != '.'))

/-- `aliases.get(name, name)` -/
def unalias (aliases : List (String × String)) (n : String) : String :=
  match aliases.lookup n with
  | some o => o
  | none => n

/-! ## `_get_ast_node_variables` -/

/-- `_get_ast_node_name` on a `Name`/`Attribute` chain (`none`: the node is not such a chain) -/
def chainName : Expr → Option String
  | .name id => some id
  | .attr v a => (chainName v).map (fun b => b ++ "." ++ a)
  | _ => none

/-- what sits in the `deque`: an expression node or an `ast.keyword` node (whose only child is its value) -/
inductive Item where
  | node (e : Expr)
  | kw (value : Expr)

/-- `ast.iter_child_nodes(node)` restricted to children that can contain names (operator and
context nodes have no children and are neither `Call`, `Attribute` nor `Name`) -/
def children : Expr → List Item
  | .name _ => []
  | .const _ => []
  | .attr v _ => [.node v]
  | .call f args kws => .node f :: (args.map Item.node ++ kws.map (fun k => Item.kw k.2))
  | .unop _ x => [.node x]
  | .binop _ l r => [.node l, .node r]
  | .subscript v i => [.node v, .node i]
  | .seq _ es => es.map Item.node

/-- one iteration of the `while todo:` loop body on the popped node: the variable appended (if any)
and what is appended to the queue -/
def visit (aliases : List (String × String)) : Item → Option Var × List Item
  | .kw v => (none, [.node v])
  | .node e =>
    match e with
    | .call f args kws =>
      match chainName f with
      | some n => (some (Var.ofCallable (unalias aliases n)),
                    args.map Item.node ++ kws.map (fun k => Item.kw k.2))
      | none => (none, children e)
    | .attr _ _ | .name _ =>
      match chainName e with
      | some n => (some (Var.ofValue (unalias aliases n)), [])
      | none => (none, children e)
    | _ => (none, children e)

/-- the `while todo:` loop with an explicit iteration budget (`none`: budget exhausted) -/
def bfs (aliases : List (String × String)) : Nat → List Item → List Var → Option (List Var)
  | _, [], acc => some acc
  | 0, _ :: _, _ => none
  | fuel + 1, it :: todo, acc =>
    let (v, more) := visit aliases it
    bfs aliases fuel (todo ++ more) (match v with | some v => acc ++ [v] | none => acc)

mutual
/-- number of `ast` nodes (keywords included) below and including the node -/
def Expr.size : Expr → Nat
  | .name _ => 1
  | .const _ => 1
  | .attr v _ => 1 + v.size
  | .call f args kws => 1 + f.size + sizeList args + sizeKws kws
  | .unop _ x => 1 + x.size
  | .binop _ l r => 1 + l.size + r.size
  | .subscript v i => 1 + v.size + i.size
  | .seq _ es => 1 + sizeList es
def sizeList : List Expr → Nat
  | [] => 0
  | e :: es => e.size + sizeList es
def sizeKws : List (String × Expr) → Nat
  | [] => 0
  | k :: ks => 1 + k.2.size + sizeKws ks
end

def Item.size : Item → Nat
  | .node e => e.size
  | .kw v => 1 + v.size

def itemsSize (q : List Item) : Nat := (q.map Item.size).sum

/-- `_get_ast_node_variables(node, aliases)`: the list in the order the code appends -/
def astVariables (e : Expr) (aliases : List (String × String)) : List Var :=
  match bfs aliases e.size [.node e] [] with
  | some vs => vs
  | none => []      -- unreachable: `bfs_fuel_sufficient`

/-- `set(variables)`: equal strings collapse, the element inserted first stays -/
def dedupFirst (vs : List Var) : List Var := dedupBy (·.name) vs

/-! ## `Variable.union` -/

/-- one `variables[variable] = …` step of `Variable.union` -/
def unionInsert (acc : List Var) (v : Var) : List Var :=
  if acc.any (fun u => u.name == v.name) then
    acc.map (fun u => if u.name == v.name then
      { name := v.name, value := u.value || v.value, callable := u.callable || v.callable,
        source := v.source } else u)
  else acc ++ [v]

/-- `Variable.union(*sets)` on the concatenation of the sets -/
def union (vs : List Var) : List Var := vs.foldl unionInsert []

/-! ## before materialisation: `SimpleFormula.required_variables`, `Token.required_variables` -/

/-- a Python fragment as CPython sees it after `sanitize_variable_names`: the tree and the alias
table `sanitised name ↦ back-quoted name` (in the order the names were met) -/
structure PyCode where
  ast : Expr
  aliases : List (String × String)
deriving Repr, Inhabited

inductive FKind where
  | lookup
  | literal
  /-- `none`: `ast.parse` raises `SyntaxError` -/
  | python (code : Option PyCode)
deriving Repr, Inhabited

/-- a factor together with what CPython's parser makes of its expression -/
structure PFactor where
  expr : String
  kind : FKind
deriving Repr, Inhabited

inductive PreErr | syntaxError
deriving DecidableEq, Repr

def isTransformRoot (n : String) : Bool := Gen.transformNames.contains (root n)

/-- the variables one factor contributes to `SimpleFormula.required_variables` -/
def factorRequired (f : PFactor) : Except PreErr (List Var) :=
  match f.kind with
  | .lookup => .ok [Var.ofValue f.expr]
  | .literal => .ok []
  | .python none => .error .syntaxError
  | .python (some c) =>
    .ok ((dedupFirst (astVariables c.ast c.aliases)).filter
      (fun v => v.value && !isTransformRoot v.name))

def factorsRequired : List PFactor → Except PreErr (List Var)
  | [] => .ok []
  | f :: fs =>
    match factorRequired f with
    | .error e => .error e
    | .ok vs => match factorsRequired fs with
      | .error e => .error e
      | .ok ws => .ok (vs ++ ws)

/-- `SimpleFormula.required_variables` / `StructuredFormula.required_variables` on the factors of
all terms of all parts, in order -/
def formulaRequired (fs : List PFactor) : Except PreErr (List Var) :=
  (factorsRequired fs).map union

inductive TokKind where
  | name
  | python (code : Option PyCode)
  | other
deriving Repr, Inhabited

structure PTok where
  text : String
  kind : TokKind
deriving Repr, Inhabited

/-- `Token.required_variables` (a Python token that cannot be parsed contributes nothing) -/
def tokenRequired (t : PTok) : List String :=
  match t.kind with
  | .name => [t.text]
  | .python (some c) =>
    ((dedupFirst (astVariables c.ast c.aliases)).filter (fun v => !isTransformRoot v.name)).map (·.name)
  | .python none => []
  | .other => []

/-- `context["__formulaic_variables_used_lhs__"]` -/
def lhsUsed (lhs : List PTok) : List String := lhs.flatMap tokenRequired

/-! ## name resolution: the three named layers -/

variable {ν : Type}

/-- what the materializer is given: the data columns and the transforms (insertion-ordered dicts),
the caller's context — a plain dict or itself a `LayeredMapping` (what `capture_context()` and the
frame capture of `model_matrix` produce: `LayeredMapping(locals, globals)`), possibly with named
sub-layers — and Python's builtins -/
structure Layers (ν : Type) where
  data : List (String × ν)
  context : Layer ν
  transforms : List (String × ν)
  builtins : List (String × ν)

/-- `FormulaMaterializer.layered_context`: `LayeredMapping(LayeredMapping(data, name="data"),
LayeredMapping(context, name="context"), LayeredMapping(TRANSFORMS, name="transforms"))` -/
def Layers.lm (L : Layers ν) : LM ν :=
  { name := none, muts := [],
    layers := [.lm (some "data") [] [.dict L.data],
               .lm (some "context") [] [L.context],
               .lm (some "transforms") [] [.dict L.transforms]] }

/-- `get_layer_name_for_key` -/
def layerNameFor (m : LM ν) (k : String) : Option String :=
  match m.getWithLayerName k with
  | some (_, n) => n
  | none => none

/-- `_lookup(name)` -/
inductive EvalErr where
  | nameError (n : String)
  | other (what : String)
deriving DecidableEq, Repr

def lookupFactor (L : Layers ν) (n : String) : Except EvalErr (ν × List Var) :=
  match L.lm.getWithLayerName n with
  | some (v, layer) => .ok (v, [Var.ofValue n layer])
  | none => .error (.nameError n)

/-- the `env = LayeredMapping(env)` of `stateful_eval` after `sanitize_variable_names`: for every
back-quoted name that is not an identifier, `if name in env: env[new_name] = env[name]` -/
def evalEnv (L : Layers ν) (aliases : List (String × String)) : LM ν :=
  aliases.foldl (fun (w : LM ν) (a : String × String) =>
      if a.1 == a.2 then w
      else match w.get a.2 with
        | some v => w.set a.1 v
        | none => w)
    { name := none, muts := [], layers := [L.lm.toLayer] }

/-- `get_expression_variables(code, env, aliases)` with a `LayeredMapping` context -/
def exprVariables (c : PyCode) (w : LM ν) : List Var :=
  dedupFirst ((astVariables c.ast c.aliases).map
    (fun v => { v with source := layerNameFor w (root v.name) }))

/-- how CPython resolves a free name of the compiled expression: the locals mapping, then the
(empty) globals, then the builtins -/
def resolve (L : Layers ν) (w : LM ν) (id : String) : Option ν :=
  match w.get id with
  | some v => some v
  | none => L.builtins.lookup id

/-! ## evaluation -/

/-- the semantics of the operations on values (CPython and the libraries; a parameter) -/
structure Ops (ν : Type) where
  const : String → ν
  attr : ν → String → Except String ν
  call : ν → List ν → List (String × ν) → Except String ν
  unop : String → ν → Except String ν
  binop : String → ν → ν → Except String ν
  subscript : ν → ν → Except String ν
  seq : String → List ν → ν

def liftOp (r : Except String ν) : Except EvalErr ν :=
  match r with
  | .ok v => .ok v
  | .error w => .error (.other w)

mutual
/-- `eval` of a strict expression: callee, then positional arguments, then keyword values; operands
left to right; an unbound name raises `NameError` -/
def eval (ops : Ops ν) (ρ : String → Option ν) : Expr → Except EvalErr ν
  | .name id => match ρ id with
    | some v => .ok v
    | none => .error (.nameError id)
  | .const r => .ok (ops.const r)
  | .attr v a => match eval ops ρ v with
    | .error e => .error e
    | .ok x => liftOp (ops.attr x a)
  | .call f args kws => match eval ops ρ f with
    | .error e => .error e
    | .ok fv => match evalList ops ρ args with
      | .error e => .error e
      | .ok avs => match evalKws ops ρ kws with
        | .error e => .error e
        | .ok kvs => liftOp (ops.call fv avs kvs)
  | .unop o x => match eval ops ρ x with
    | .error e => .error e
    | .ok v => liftOp (ops.unop o v)
  | .binop o l r => match eval ops ρ l with
    | .error e => .error e
    | .ok lv => match eval ops ρ r with
      | .error e => .error e
      | .ok rv => liftOp (ops.binop o lv rv)
  | .subscript v i => match eval ops ρ v with
    | .error e => .error e
    | .ok vv => match eval ops ρ i with
      | .error e => .error e
      | .ok iv => liftOp (ops.subscript vv iv)
  | .seq k es => match evalList ops ρ es with
    | .error e => .error e
    | .ok vs => .ok (ops.seq k vs)
def evalList (ops : Ops ν) (ρ : String → Option ν) : List Expr → Except EvalErr (List ν)
  | [] => .ok []
  | e :: es => match eval ops ρ e with
    | .error x => .error x
    | .ok v => match evalList ops ρ es with
      | .error x => .error x
      | .ok vs => .ok (v :: vs)
def evalKws (ops : Ops ν) (ρ : String → Option ν) : List (String × Expr) → Except EvalErr (List (String × ν))
  | [] => .ok []
  | k :: ks => match eval ops ρ k.2 with
    | .error x => .error x
    | .ok v => match evalKws ops ρ ks with
      | .error x => .error x
      | .ok vs => .ok ((k.1, v) :: vs)
end

mutual
/-- the identifiers of all `Name` nodes, in evaluation order -/
def freeNames : Expr → List String
  | .name id => [id]
  | .const _ => []
  | .attr v _ => freeNames v
  | .call f args kws => freeNames f ++ freeNamesList args ++ freeNamesKws kws
  | .unop _ x => freeNames x
  | .binop _ l r => freeNames l ++ freeNames r
  | .subscript v i => freeNames v ++ freeNames i
  | .seq _ es => freeNamesList es
def freeNamesList : List Expr → List String
  | [] => []
  | e :: es => freeNames e ++ freeNamesList es
def freeNamesKws : List (String × Expr) → List String
  | [] => []
  | k :: ks => freeNames k.2 ++ freeNamesKws ks
end

/-! ## factor evaluation and materialisation (names only) -/

/-- `FactorEvaluationError` with its cause -/
inductive MatErr where
  | factorEvaluation (cause : EvalErr)
deriving DecidableEq, Repr

/-- `_evaluate_factor` up to the `EvaluatedFactor`: the value and the recorded variables
(`none`: a literal factor has `variables=None`) -/
def evalFactor (ops : Ops ν) (L : Layers ν) (f : PFactor) : Except MatErr (ν × List Var) :=
  match f.kind with
  | .lookup =>
    match lookupFactor L f.expr with
    | .ok r => .ok r
    | .error e => .error (.factorEvaluation e)
  | .literal => .ok (ops.const f.expr, [])
  | .python none => .error (.factorEvaluation (.other "SyntaxError"))
  | .python (some c) =>
    let w := evalEnv L c.aliases
    match eval ops (resolve L w) c.ast with
    | .ok v => .ok (v, exprVariables c w)
    | .error e => .error (.factorEvaluation e)

/-- all factors of the formula, in order; the first failure aborts the materialisation -/
def evalFactors (ops : Ops ν) (L : Layers ν) : List PFactor → Except MatErr (List (ν × List Var))
  | [] => .ok []
  | f :: fs =>
    match evalFactor ops L f with
    | .error e => .error e
    | .ok r => match evalFactors ops L fs with
      | .error e => .error e
      | .ok rs => .ok (r :: rs)

/-- the outcome of a materialisation as far as C17 is concerned: the factor values and
`ModelSpec.variables` -/
def materialize (ops : Ops ν) (L : Layers ν) (fs : List PFactor) : Except MatErr (List ν × List Var) :=
  (evalFactors ops L fs).map (fun rs => (rs.map (·.1), union (rs.flatMap (·.2))))

/-- `ModelSpec.variables_by_source` (sources in order of first appearance) -/
def bySource (vs : List Var) : List (Option String × List String) :=
  (dedupBy id (vs.map (·.source))).map
    (fun s => (s, (vs.filter (fun v => v.source == s)).map (·.name)))

/-- `ModelSpec.required_variables` once the structure is populated:
`variables_by_source.get("data", set())` -/
def specRequired (vs : List Var) : List String :=
  (vs.filter (fun v => v.source == some "data")).map (·.name)

/-! ## data with columns removed -/

/-- the data restricted to the columns named in `keep` -/
def Layers.restrict (L : Layers ν) (keep : List String) : Layers ν :=
  { L with data := L.data.filter (fun kv => keep.contains kv.1) }

/-- the data without column `v` -/
def Layers.remove (L : Layers ν) (v : String) : Layers ν :=
  { L with data := L.data.filter (fun kv => !(kv.1 == v)) }

end FormulaicVerif.Model.Variables
