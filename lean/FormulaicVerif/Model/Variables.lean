import FormulaicVerif.Model.LayeredMapping
import FormulaicVerif.Gen.Names
import FormulaicVerif.Gen.C17Reserved
/-! Variable extraction, name resolution and required variables (property C17).

Mirrors, as written:
* `formulaic/utils/variables.py`: `_get_ast_node_name`, `_get_ast_node_variables` (breadth first over
  a `deque`; roles `value`/`callable`; dotted names; which children of a call are visited),
  `get_expression_variables` (result is a `set` of `str` subclasses: of several variables with the
  same name the FIRST in breadth-first order is kept, with its roles; the source is
  `context.get_layer_name_for_key(name.split(".", 1)[0])`), `Variable.union`;
* `formulaic/formula.py`: `SimpleFormula.required_variables` (lookup factors contribute their name,
  literal factors nothing, Python factors their value-role variables whose first dotted component
  is not a key of `TRANSFORMS`);
* `formulaic/parser/types/token.py`: `Token.required_variables`;
* `formulaic/materializers/base.py`: the layered context `data > context > transforms`
  (`FormulaMaterializer.__init__`), `_lookup`, `_evaluate`, the wrapping of every evaluation error
  into `FactorEvaluationError` (`_evaluate_factor`);
* `formulaic/utils/stateful_transforms.py`: `stateful_eval` as far as names are concerned: the local
  unnamed `LayeredMapping(env)` that receives the aliases of back-quoted names
  (`sanitize_variable_name`: `if name in env: env[new_name] = env[name]`), the variables recorded
  before evaluation, the `RuntimeError` when that environment binds one of the reserved names
  (`Gen/C17Reserved.lean`, read off the live function), `eval(code, globals, locals)` (a name missing
  from the locals falls through to the globals — which forward to the same namespace — and then to
  Python's builtins);
* `formulaic/model_spec.py`: `variables`, `variables_by_source`, `required_variables`.

Parameters (CPython, supplied per case by the harness): the `ast` tree of every Python fragment
(after `sanitize_variable_names`, with the alias table that function produced), the semantics of
every operation on values (`Ops`), the list of builtin names.

The expression language: the strict fragment (every sub-expression is evaluated exactly once, left
to right: names, attribute chains, calls, operators, subscripts, displays) plus the two binding
constructs of Python expressions, `lambda` and the four comprehensions (`ListComp`, `SetComp`,
`DictComp`, `GeneratorExp`). Lambda parameters and comprehension targets are LOCAL names: they are
never looked up in the evaluation context and never reported as variables (after repair 2e6de0e of
`_get_ast_node_variables`; before it they were reported like any other `Name` node). Scoping is that
of CPython 3.12: the defaults of a lambda and the iterable of the FIRST generator of a comprehension
are evaluated in the enclosing scope, everything else inside the local scope; a free name of a nested
scope resolves like a free name at top level (after repair 62c1b85 of `stateful_eval`: the globals of
`eval` forward to the evaluation namespace). Not in the language: conditional expressions, `and`/`or`,
chained comparisons, starred arguments, dict displays, f-strings, `:=`, attribute/subscript targets. -/
namespace FormulaicVerif.Model.Variables
open FormulaicVerif.Model.LMap

/-! ## the expression language -/

mutual
/-- CPython `ast` expression nodes. `const` carries `repr(value)`; `unop`/`binop` carry the operator
class name (a single `Compare` is a `binop`); `seq` is a `Tuple`/`List`/`Set`/`Slice` with the
present children in field order; `lambda` carries the parameter names (positional-only, positional,
`*args`, keyword-only, `**kwargs`) and the default expressions (`defaults` then the non-`None`
`kw_defaults`); `comp` is a `ListComp`/`SetComp`/`GeneratorExp` (`elts = [elt]`) or a `DictComp`
(`elts = [key, value]`). -/
inductive Expr where
  | name (id : String)
  | const (repr : String)
  | attr (value : Expr) (attr : String)
  | call (func : Expr) (args : List Expr) (kwargs : List (String × Expr))
  | unop (op : String) (operand : Expr)
  | binop (op : String) (left right : Expr)
  | subscript (value index : Expr)
  | seq (kind : String) (elts : List Expr)
  | lambda (params : List String) (defaults : List Expr) (body : Expr)
  | comp (kind : String) (elts : List Expr) (gens : List Gen)
deriving Repr, Inhabited
/-- an `ast.comprehension`: the names its target binds (a `Name` or a tuple of `Name`s), the iterable
and the conditions -/
inductive Gen where
  | mk (targets : List String) (iter : Expr) (ifs : List Expr)
deriving Repr, Inhabited
end

/-- a `Variable`: the string, its roles, its source -/
structure Var where
  name : String
  value : Bool
  callable : Bool
  source : Option String
deriving DecidableEq, Repr, Inhabited

def Var.ofValue (n : String) (src : Option String := none) : Var := ⟨n, true, false, src⟩
def Var.ofCallable (n : String) (src : Option String := none) : Var := ⟨n, false, true, src⟩

/-- `name.split(".", 1)[0]` -/
def root (s : String) : String := String.ofList (s.toList.takeWhile (fun c => c != '.'))

/-- `aliases.get(name, name)` -/
def unalias (aliases : List (String × String)) (n : String) : String :=
  match aliases.lookup n with
  | some o => o
  | none => n

/-! ## `_get_ast_node_variables` -/

/-- a `Name`/`Attribute` chain: the identifier of the `Name` at its root (the `while isinstance(chain,
ast.Attribute)` loop) and its dotted name (`_get_ast_node_name`); `none`: the node is not such a chain -/
def chain : Expr → Option (String × String)
  | .name id => some (id, id)
  | .attr v a => (chain v).map (fun p => (p.1, p.2 ++ "." ++ a))
  | _ => none

/-- the names all generators of a comprehension bind (`ast.walk(generator.target)`, `Store` names) -/
def gensTargets : List Gen → List String
  | [] => []
  | .mk ts _ _ :: gs => ts ++ gensTargets gs

/-- what sits in the `deque`: a node together with the names that are bound locally at that node; an
`ast.keyword` node has its value as only child -/
inductive Item where
  | node (e : Expr) (bound : List String)
  | kw (value : Expr) (bound : List String)

/-- the queue entries of the generators: the iterable of the first generator is visited with the names
bound OUTSIDE the comprehension, every other iterable and all conditions with the inner names. (The
code also queues the target nodes; they only hold bound names and never yield a variable or a child,
so they are left out.) -/
def genItems (outer inner : List String) : Bool → List Gen → List Item
  | _, [] => []
  | first, .mk _ it ifs :: gs =>
    Item.node it (if first then outer else inner) ::
      (ifs.map (fun c => Item.node c inner) ++ genItems outer inner false gs)

/-- what the loop body appends to the queue for a node that is not a variable: the two binding
constructs extend the bound names, every other node passes them on to `ast.iter_child_nodes(node)`
(restricted to children that can contain names: operator and context nodes have no children and are
neither `Call`, `Attribute` nor `Name`) -/
def children (b : List String) : Expr → List Item
  | .name _ => []
  | .const _ => []
  | .attr v _ => [.node v b]
  | .call f args kws => .node f b :: (args.map (fun a => Item.node a b) ++ kws.map (fun k => Item.kw k.2 b))
  | .unop _ x => [.node x b]
  | .binop _ l r => [.node l b, .node r b]
  | .subscript v i => [.node v b, .node i b]
  | .seq _ es => es.map (fun e => Item.node e b)
  | .lambda ps ds body => ds.map (fun d => Item.node d b) ++ [.node body (b ++ ps)]
  | .comp _ elts gens =>
    elts.map (fun e => Item.node e (b ++ gensTargets gens)) ++ genItems b (b ++ gensTargets gens) true gens

/-- one iteration of the `while todo:` loop body on the popped entry: the variable appended (if any)
and what is appended to the queue. A chain whose root is a locally bound name is not a variable (the
arguments of a call on it are still visited). -/
def visit (aliases : List (String × String)) : Item → Option Var × List Item
  | .kw v b => (none, [.node v b])
  | .node e b =>
    match e with
    | .call f args kws =>
      match chain f with
      | some (base, n) =>
        (if b.contains base then none else some (Var.ofCallable (unalias aliases n)),
          args.map (fun a => Item.node a b) ++ kws.map (fun k => Item.kw k.2 b))
      | none => (none, children b e)
    | .attr _ _ | .name _ =>
      match chain e with
      | some (base, n) => (if b.contains base then none else some (Var.ofValue (unalias aliases n)), [])
      | none => (none, children b e)
    | _ => (none, children b e)

/-- the `while todo:` loop with an explicit iteration budget (`none`: budget exhausted) -/
def bfs (aliases : List (String × String)) : Nat → List Item → List Var → Option (List Var)
  | _, [], acc => some acc
  | 0, _ :: _, _ => none
  | fuel + 1, it :: todo, acc =>
    let (v, more) := visit aliases it
    bfs aliases fuel (todo ++ more) (match v with | some v => acc ++ [v] | none => acc)

mutual
/-- number of `ast` nodes (keywords and comprehension nodes included) below and including the node -/
def Expr.size : Expr → Nat
  | .name _ => 1
  | .const _ => 1
  | .attr v _ => 1 + v.size
  | .call f args kws => 1 + f.size + sizeList args + sizeKws kws
  | .unop _ x => 1 + x.size
  | .binop _ l r => 1 + l.size + r.size
  | .subscript v i => 1 + v.size + i.size
  | .seq _ es => 1 + sizeList es
  | .lambda _ ds body => 1 + sizeList ds + body.size
  | .comp _ elts gens => 1 + sizeList elts + sizeGens gens
def sizeList : List Expr → Nat
  | [] => 0
  | e :: es => e.size + sizeList es
def sizeKws : List (String × Expr) → Nat
  | [] => 0
  | k :: ks => 1 + k.2.size + sizeKws ks
def sizeGens : List Gen → Nat
  | [] => 0
  | .mk _ it ifs :: gs => 1 + it.size + sizeList ifs + sizeGens gs
end

def Item.size : Item → Nat
  | .node e _ => e.size
  | .kw v _ => 1 + v.size

def itemsSize (q : List Item) : Nat := (q.map Item.size).sum

/-- `_get_ast_node_variables(node, aliases)`: the list in the order the code appends -/
def astVariables (e : Expr) (aliases : List (String × String)) : List Var :=
  match bfs aliases e.size [.node e []] [] with
  | some vs => vs
  | none => []      -- unreachable: `bfs_fuel_sufficient`

/-- `set(variables)`: equal strings collapse, the element inserted first stays -/
def dedupFirst (vs : List Var) : List Var := dedupBy (·.name) vs

/-! ## `Variable.union` -/

/-- one `variables[variable] = …` step of `Variable.union` -/
def unionInsert (acc : List Var) (v : Var) : List Var :=
  if acc.any (fun u => u.name == v.name) then
    acc.map (fun u => if u.name == v.name then
      { name := v.name, value := u.value || v.value, callable := u.callable || v.callable,
        source := v.source } else u)
  else acc ++ [v]

/-- `Variable.union(*sets)` on the concatenation of the sets -/
def union (vs : List Var) : List Var := vs.foldl unionInsert []

/-! ## before materialisation: `SimpleFormula.required_variables`, `Token.required_variables` -/

/-- a Python fragment as CPython sees it after `sanitize_variable_names`: the tree and the alias
table `sanitised name ↦ back-quoted name` (in the order the names were met) -/
structure PyCode where
  ast : Expr
  aliases : List (String × String)
deriving Repr, Inhabited

inductive FKind where
  | lookup
  | literal
  /-- `none`: `ast.parse` raises `SyntaxError` -/
  | python (code : Option PyCode)
deriving Repr, Inhabited

/-- a factor together with what CPython's parser makes of its expression -/
structure PFactor where
  expr : String
  kind : FKind
deriving Repr, Inhabited

inductive PreErr | syntaxError
deriving DecidableEq, Repr

def isTransformRoot (n : String) : Bool := Gen.transformNames.contains (root n)

/-- the variables one factor contributes to `SimpleFormula.required_variables` -/
def factorRequired (f : PFactor) : Except PreErr (List Var) :=
  match f.kind with
  | .lookup => .ok [Var.ofValue f.expr]
  | .literal => .ok []
  | .python none => .error .syntaxError
  | .python (some c) =>
    .ok ((dedupFirst (astVariables c.ast c.aliases)).filter
      (fun v => v.value && !isTransformRoot v.name))

def factorsRequired : List PFactor → Except PreErr (List Var)
  | [] => .ok []
  | f :: fs =>
    match factorRequired f with
    | .error e => .error e
    | .ok vs => match factorsRequired fs with
      | .error e => .error e
      | .ok ws => .ok (vs ++ ws)

/-- `SimpleFormula.required_variables` / `StructuredFormula.required_variables` on the factors of
all terms of all parts, in order -/
def formulaRequired (fs : List PFactor) : Except PreErr (List Var) :=
  (factorsRequired fs).map union

inductive TokKind where
  | name
  | python (code : Option PyCode)
  | other
deriving Repr, Inhabited

structure PTok where
  text : String
  kind : TokKind
deriving Repr, Inhabited

/-- `Token.required_variables` (a Python token that cannot be parsed contributes nothing) -/
def tokenRequired (t : PTok) : List String :=
  match t.kind with
  | .name => [t.text]
  | .python (some c) =>
    ((dedupFirst (astVariables c.ast c.aliases)).filter (fun v => !isTransformRoot v.name)).map (·.name)
  | .python none => []
  | .other => []

/-- `context["__formulaic_variables_used_lhs__"]` -/
def lhsUsed (lhs : List PTok) : List String := lhs.flatMap tokenRequired

/-! ## name resolution: the three named layers -/

variable {ν : Type}

/-- what the materializer is given: the data columns and the transforms (insertion-ordered dicts),
the caller's context — a plain dict or itself a `LayeredMapping` (what `capture_context()` and the
frame capture of `model_matrix` produce: `LayeredMapping(locals, globals)`), possibly with named
sub-layers — and what a name that no layer binds can still resolve to: Python's builtins and the four
objects `stateful_eval` injects under its reserved names (they sit in front of the namespace, but are
only reachable when no layer binds their names: otherwise the factor is rejected, `reservedHit`) -/
structure Layers (ν : Type) where
  data : List (String × ν)
  context : Layer ν
  transforms : List (String × ν)
  builtins : List (String × ν)

/-- `FormulaMaterializer.layered_context`: `LayeredMapping(LayeredMapping(data, name="data"),
LayeredMapping(context, name="context"), LayeredMapping(TRANSFORMS, name="transforms"))` -/
def Layers.lm (L : Layers ν) : LM ν :=
  { name := none, muts := [],
    layers := [.lm (some "data") [] [.dict L.data],
               .lm (some "context") [] [L.context],
               .lm (some "transforms") [] [.dict L.transforms]] }

/-- `get_layer_name_for_key` -/
def layerNameFor (m : LM ν) (k : String) : Option String :=
  match m.getWithLayerName k with
  | some (_, n) => n
  | none => none

/-- `_lookup(name)` / what an evaluation raises: `NameError` for a name bound nowhere,
`UnboundLocalError` for a local name (comprehension target) read before it is bound, anything else -/
inductive EvalErr where
  | nameError (n : String)
  | unboundLocal (n : String)
  | other (what : String)
deriving DecidableEq, Repr

def lookupFactor (L : Layers ν) (n : String) : Except EvalErr (ν × List Var) :=
  match L.lm.getWithLayerName n with
  | some (v, layer) => .ok (v, [Var.ofValue n layer])
  | none => .error (.nameError n)

/-- the `env = LayeredMapping(env)` of `stateful_eval` after `sanitize_variable_names`: for every
back-quoted name that is not an identifier, `if name in env: env[new_name] = env[name]` -/
def evalEnv (L : Layers ν) (aliases : List (String × String)) : LM ν :=
  aliases.foldl (fun (w : LM ν) (a : String × String) =>
      if a.1 == a.2 then w
      else match w.get a.2 with
        | some v => w.set a.1 v
        | none => w)
    { name := none, muts := [], layers := [L.lm.toLayer] }

/-- `get_expression_variables(code, env, aliases)` with a `LayeredMapping` context -/
def exprVariables (c : PyCode) (w : LM ν) : List Var :=
  dedupFirst ((astVariables c.ast c.aliases).map
    (fun v => { v with source := layerNameFor w (root v.name) }))

/-- how CPython resolves a free name of the compiled expression: the locals mapping, then the
(empty) globals, then the builtins -/
def resolve (L : Layers ν) (w : LM ν) (id : String) : Option ν :=
  match w.get id with
  | some v => some v
  | none => L.builtins.lookup id

/-! ## evaluation -/

/-- the semantics of the operations on values (CPython and the libraries; a parameter).
`closure kind params captured run` is the function object a `lambda` evaluates to (`captured` = the
values of its defaults) or the generator object of a generator expression (`captured` = the value of
its first iterable): `run bindings` is what calling it with the parameters bound to `bindings` (resp.
consuming it) evaluates — when and how often that happens is up to the operations. -/
structure Ops (ν : Type) where
  const : String → ν
  attr : ν → String → Except String ν
  call : ν → List ν → List (String × ν) → Except String ν
  unop : String → ν → Except String ν
  binop : String → ν → ν → Except String ν
  subscript : ν → ν → Except String ν
  seq : String → List ν → ν
  /-- `iter(v)` run to exhaustion -/
  iter : ν → Except String (List ν)
  /-- `bool(v)` -/
  truth : ν → Except String Bool
  /-- unpacking `v` into `n` targets -/
  unpack : Nat → ν → Except String (List ν)
  closure : String → List String → List ν → (List (String × ν) → Except EvalErr ν) → ν

def liftOp (r : Except String ν) : Except EvalErr ν :=
  match r with
  | .ok v => .ok v
  | .error w => .error (.other w)

/-- name lookup inside a local scope: a local name is found among the local bindings only, every
other name where the enclosing scope finds it -/
def bindEnv (locals : List String) (b : List (String × ν)) (ρ : String → Option ν) : String → Option ν :=
  fun id => if locals.contains id then b.lookup id else ρ id

/-- a failed lookup of a LOCAL name is an `UnboundLocalError` -/
def retag {α : Type} (locals : List String) (r : Except EvalErr α) : Except EvalErr α :=
  match r with
  | .error (.nameError x) => if locals.contains x then .error (.unboundLocal x) else .error (.nameError x)
  | r => r

/-- `for x in items: out.extend(body(x))` -/
def forItems (items : List ν) (body : ν → Except EvalErr (List ν)) : Except EvalErr (List ν) :=
  match items with
  | [] => .ok []
  | x :: xs => match body x with
    | .error e => .error e
    | .ok rs => match forItems xs body with
      | .error e => .error e
      | .ok rest => .ok (rs ++ rest)

/-- assignment of one item to the target of a generator -/
def bindTargets (ops : Ops ν) (ts : List String) (x : ν) : Except EvalErr (List (String × ν)) :=
  match ts with
  | [t] => .ok [(t, x)]
  | _ => match liftOp (ops.unpack ts.length x) with
    | .error e => .error e
    | .ok vs => if vs.length = ts.length then .ok (ts.zip vs) else .error (.other "unpack")

/-- one `for targets in itv if conds` clause: every item is bound to the targets (on top of the local
bindings `loc`), the conditions are evaluated, and where they hold the rest of the comprehension runs -/
def genLoop (ops : Ops ν) (ts : List String) (loc : List (String × ν)) (itv : ν)
    (conds : List (String × ν) → Except EvalErr Bool)
    (rest : List (String × ν) → Except EvalErr (List ν)) : Except EvalErr (List ν) :=
  match liftOp (ops.iter itv) with
  | .error e => .error e
  | .ok items => forItems items (fun x => match bindTargets ops ts x with
      | .error e => .error e
      | .ok bs => match conds (bs ++ loc) with
        | .error e => .error e
        | .ok false => .ok []
        | .ok true => rest (bs ++ loc))

mutual
/-- `eval` of an expression: callee, then positional arguments, then keyword values; operands left
to right; an unbound name raises `NameError`. A `lambda` evaluates its defaults and yields a closure
whose body sees the parameters as local names; a comprehension evaluates its first iterable in the
enclosing scope and runs the clauses with the targets as local names (a generator expression defers
that to the consumer of the generator object). -/
def eval (ops : Ops ν) (ρ : String → Option ν) : Expr → Except EvalErr ν
  | .name id => match ρ id with
    | some v => .ok v
    | none => .error (.nameError id)
  | .const r => .ok (ops.const r)
  | .attr v a => match eval ops ρ v with
    | .error e => .error e
    | .ok x => liftOp (ops.attr x a)
  | .call f args kws => match eval ops ρ f with
    | .error e => .error e
    | .ok fv => match evalList ops ρ args with
      | .error e => .error e
      | .ok avs => match evalKws ops ρ kws with
        | .error e => .error e
        | .ok kvs => liftOp (ops.call fv avs kvs)
  | .unop o x => match eval ops ρ x with
    | .error e => .error e
    | .ok v => liftOp (ops.unop o v)
  | .binop o l r => match eval ops ρ l with
    | .error e => .error e
    | .ok lv => match eval ops ρ r with
      | .error e => .error e
      | .ok rv => liftOp (ops.binop o lv rv)
  | .subscript v i => match eval ops ρ v with
    | .error e => .error e
    | .ok vv => match eval ops ρ i with
      | .error e => .error e
      | .ok iv => liftOp (ops.subscript vv iv)
  | .seq k es => match evalList ops ρ es with
    | .error e => .error e
    | .ok vs => .ok (ops.seq k vs)
  | .lambda ps ds body => match evalList ops ρ ds with
    | .error e => .error e
    | .ok dvs => .ok (ops.closure "Lambda" ps dvs (fun b => retag ps (eval ops (bindEnv ps b ρ) body)))
  | .comp k elts gens =>
    match gens with
    | [] => .ok (ops.seq k [])     -- `ast` never builds a comprehension without generators
    | .mk ts it ifs :: gs =>
      match eval ops ρ it with
      | .error e => .error e
      | .ok itv =>
        let run : List (String × ν) → Except EvalErr ν := fun _ =>
          (retag (ts ++ gensTargets gs) (genLoop ops ts [] itv
            (fun loc => evalConds ops (bindEnv (ts ++ gensTargets gs) loc ρ) ifs)
            (fun loc => evalGens ops (ts ++ gensTargets gs) ρ loc gs (fun loc' =>
              match evalList ops (bindEnv (ts ++ gensTargets gs) loc' ρ) elts with
              | .error x => .error x
              | .ok vs => .ok [ops.seq "elt" vs])))).map (ops.seq k)
        if k == "GeneratorExp" then .ok (ops.closure k [] [itv] run) else run []
def evalList (ops : Ops ν) (ρ : String → Option ν) : List Expr → Except EvalErr (List ν)
  | [] => .ok []
  | e :: es => match eval ops ρ e with
    | .error x => .error x
    | .ok v => match evalList ops ρ es with
      | .error x => .error x
      | .ok vs => .ok (v :: vs)
def evalKws (ops : Ops ν) (ρ : String → Option ν) : List (String × Expr) → Except EvalErr (List (String × ν))
  | [] => .ok []
  | k :: ks => match eval ops ρ k.2 with
    | .error x => .error x
    | .ok v => match evalKws ops ρ ks with
      | .error x => .error x
      | .ok vs => .ok ((k.1, v) :: vs)
/-- the `if` clauses of a generator, left to right, stopping at the first that is false -/
def evalConds (ops : Ops ν) (ρ : String → Option ν) : List Expr → Except EvalErr Bool
  | [] => .ok true
  | c :: cs => match eval ops ρ c with
    | .error x => .error x
    | .ok v => match liftOp (ops.truth v) with
      | .error x => .error x
      | .ok false => .ok false
      | .ok true => evalConds ops ρ cs
/-- the generators after the first (`T` = all targets of the comprehension, `loc` = the local
bindings so far, `k` = the evaluation of the element once every generator has bound its target) -/
def evalGens (ops : Ops ν) (T : List String) (ρ : String → Option ν) (loc : List (String × ν)) :
    List Gen → (List (String × ν) → Except EvalErr (List ν)) → Except EvalErr (List ν)
  | [], k => k loc
  | .mk ts it ifs :: gs, k => match eval ops (bindEnv T loc ρ) it with
    | .error x => .error x
    | .ok itv => genLoop ops ts loc itv
        (fun loc' => evalConds ops (bindEnv T loc' ρ) ifs)
        (fun loc' => evalGens ops T ρ loc' gs k)
end

/-- `xs` without the names in `b` -/
def without (b : List String) (xs : List String) : List String := xs.filter (fun x => !b.contains x)

mutual
/-- the FREE names of the expression: the identifiers of all `Name` nodes that are not bound by an
enclosing `lambda` or comprehension (the textbook definition: binders remove their names from what
they scope over) -/
def freeNames : Expr → List String
  | .name id => [id]
  | .const _ => []
  | .attr v _ => freeNames v
  | .call f args kws => freeNames f ++ freeNamesList args ++ freeNamesKws kws
  | .unop _ x => freeNames x
  | .binop _ l r => freeNames l ++ freeNames r
  | .subscript v i => freeNames v ++ freeNames i
  | .seq _ es => freeNamesList es
  | .lambda ps ds body => freeNamesList ds ++ without ps (freeNames body)
  | .comp _ elts gens =>
    without (gensTargets gens) (freeNamesList elts) ++ freeNamesGens (gensTargets gens) true gens
def freeNamesList : List Expr → List String
  | [] => []
  | e :: es => freeNames e ++ freeNamesList es
def freeNamesKws : List (String × Expr) → List String
  | [] => []
  | k :: ks => freeNames k.2 ++ freeNamesKws ks
/-- generators: the first iterable is outside the scope of the targets `T` -/
def freeNamesGens (T : List String) : Bool → List Gen → List String
  | _, [] => []
  | first, .mk _ it ifs :: gs =>
    (if first then freeNames it else without T (freeNames it)) ++ without T (freeNamesList ifs) ++
      freeNamesGens T false gs
end

mutual
/-- the free names in STRICT position: those whose lookup happens whenever the evaluation gets that
far, whatever the operations do (not inside a lambda body, not inside a comprehension apart from its
first iterable: a closure need not be called, an iterable may be empty, a condition may fail) -/
def strictNames : Expr → List String
  | .name id => [id]
  | .const _ => []
  | .attr v _ => strictNames v
  | .call f args kws => strictNames f ++ strictNamesList args ++ strictNamesKws kws
  | .unop _ x => strictNames x
  | .binop _ l r => strictNames l ++ strictNames r
  | .subscript v i => strictNames v ++ strictNames i
  | .seq _ es => strictNamesList es
  | .lambda _ ds _ => strictNamesList ds
  | .comp _ _ gens =>
    match gens with
    | [] => []
    | .mk _ it _ :: _ => strictNames it
def strictNamesList : List Expr → List String
  | [] => []
  | e :: es => strictNames e ++ strictNamesList es
def strictNamesKws : List (String × Expr) → List String
  | [] => []
  | k :: ks => strictNames k.2 ++ strictNamesKws ks
end

/-! ## factor evaluation and materialisation (names only) -/

/-- `FactorEvaluationError` with its cause -/
inductive MatErr where
  | factorEvaluation (cause : EvalErr)
deriving DecidableEq, Repr

/-- `{reserved names}.intersection(env)` is non-empty: the environment of the evaluation (the layers
and the aliases of back-quoted names) binds one of the names `stateful_eval` injects itself -/
def reservedHit (w : LM ν) : Bool := Gen.reservedNames.any (fun r => (w.get r).isSome)

/-- `_evaluate_factor` up to the `EvaluatedFactor`: the value and the recorded variables
(`none`: a literal factor has `variables=None`) -/
def evalFactor (ops : Ops ν) (L : Layers ν) (f : PFactor) : Except MatErr (ν × List Var) :=
  match f.kind with
  | .lookup =>
    match lookupFactor L f.expr with
    | .ok r => .ok r
    | .error e => .error (.factorEvaluation e)
  | .literal => .ok (ops.const f.expr, [])
  | .python none => .error (.factorEvaluation (.other "SyntaxError"))
  | .python (some c) =>
    let w := evalEnv L c.aliases
    if reservedHit w then .error (.factorEvaluation (.other "RuntimeError"))
    else match eval ops (resolve L w) c.ast with
    | .ok v => .ok (v, exprVariables c w)
    | .error e => .error (.factorEvaluation e)

/-- all factors of the formula, in order; the first failure aborts the materialisation -/
def evalFactors (ops : Ops ν) (L : Layers ν) : List PFactor → Except MatErr (List (ν × List Var))
  | [] => .ok []
  | f :: fs =>
    match evalFactor ops L f with
    | .error e => .error e
    | .ok r => match evalFactors ops L fs with
      | .error e => .error e
      | .ok rs => .ok (r :: rs)

/-- the outcome of a materialisation as far as C17 is concerned: the factor values and
`ModelSpec.variables` -/
def materialize (ops : Ops ν) (L : Layers ν) (fs : List PFactor) : Except MatErr (List ν × List Var) :=
  (evalFactors ops L fs).map (fun rs => (rs.map (·.1), union (rs.flatMap (·.2))))

/-- `ModelSpec.variables_by_source` (sources in order of first appearance) -/
def bySource (vs : List Var) : List (Option String × List String) :=
  (dedupBy id (vs.map (·.source))).map
    (fun s => (s, (vs.filter (fun v => v.source == s)).map (·.name)))

/-- `ModelSpec.required_variables` once the structure is populated:
`variables_by_source.get("data", set())` -/
def specRequired (vs : List Var) : List String :=
  (vs.filter (fun v => v.source == some "data")).map (·.name)

/-! ## several parts (`ModelSpecs`): `y ~ a | b`, two-sided formulas -/

/-- `ModelSpec.factor_variables`: the variables recorded for every (distinct) factor expression
(`none`: the factor could not be evaluated) -/
def factorVariables (ops : Ops ν) (L : Layers ν) (fs : List PFactor) : List (String × Option (List Var)) :=
  (dedupBy (·.expr) fs).map (fun f => match evalFactor ops L f with
    | .ok (_, vs) => (f.expr, some (union vs))
    | .error _ => (f.expr, none))

/-- the variables of one part, once all factors of the formula have been evaluated -/
def partVars (ops : Ops ν) (L : Layers ν) (p : List PFactor) : List Var :=
  match materialize ops L p with
  | .ok (_, vars) => vars
  | .error _ => []

/-- `ModelSpecs.required_variables`: the union of `ModelSpec.required_variables` of the parts -/
def specsRequired (ops : Ops ν) (L : Layers ν) (ps : List (List PFactor)) : List String :=
  dedupBy id (ps.flatMap (fun p => specRequired (partVars ops L p)))

/-- `variables_by_source` merged over the parts (sources in order of first appearance) -/
def specsBySource (ops : Ops ν) (L : Layers ν) (ps : List (List PFactor)) : List (Option String × List String) :=
  let all := ps.flatMap (fun p => bySource (partVars ops L p))
  (dedupBy id (all.map (·.1))).map
    (fun s => (s, dedupBy id ((all.filter (fun e => e.1 == s)).flatMap (·.2))))

/-- Factors are pooled in a `set` keyed by their expression before they are evaluated
(`_prepare_factor_evaluation_model_spec`; `Factor.__eq__`/`__hash__` only look at `expr`) and the
evaluated factor is cached under its expression: of several factors with the same expression — `x` and
`{x}` — the FIRST one met (parts in order, terms in order, factors in order) decides how all of them
are evaluated. -/
def poolParts (ps : List (List PFactor)) : List (List PFactor) :=
  ps.map (fun p => p.map (fun f => match ps.flatten.find? (fun g => g.expr == f.expr) with
    | some g => g
    | none => f))

/-- the materialisation of a formula with several parts: all factors are evaluated together (the
first failure aborts everything), then every part reads its variables off its own structure -/
def materializeParts (ops : Ops ν) (L : Layers ν) (ps : List (List PFactor)) :
    Except MatErr (List ν × List Var × List String) :=
  match materialize ops L ps.flatten with
  | .error e => .error e
  | .ok (vals, vars) => .ok (vals, vars, specsRequired ops L ps)

/-! ## data with columns removed -/

/-- the data restricted to the columns named in `keep` -/
def Layers.restrict (L : Layers ν) (keep : List String) : Layers ν :=
  { L with data := L.data.filter (fun kv => keep.contains kv.1) }

/-- the data without column `v` -/
def Layers.remove (L : Layers ν) (v : String) : Layers ν :=
  { L with data := L.data.filter (fun kv => !(kv.1 == v)) }

/-! ## named layers (`LayeredMapping.named_layers`, `__getattr__`) -/

/-- the named `LayeredMapping` objects directly among the layers (the `local` dict of `named_layers`) -/
def directNamed : List (Layer ν) → List (String × Layer ν)
  | [] => []
  | .lm name muts layers :: r =>
    (match named name with
      | some n => [(n, Layer.lm name muts layers)]
      | none => []) ++ directNamed r
  | .dict _ :: r => directNamed r

mutual
/-- `layer.named_layers` as an association list in which the FIRST entry for a name is the one the
`dict` ends up holding: the object itself (if named), then its directly nested named layers in layer
order (`named_layers.update(local)`; `local` is filled over `reversed(self._layers)`, so the first
layer of a name wins), then the named layers of the nested mappings, again first layer first -/
def namedLayers : Layer ν → List (String × Layer ν)
  | .dict _ => []
  | .lm name muts layers =>
    (match named name with
      | some n => [(n, Layer.lm name muts layers)]
      | none => []) ++ directNamed layers ++ namedLayersL layers
def namedLayersL : List (Layer ν) → List (String × Layer ν)
  | [] => []
  | l :: r => namedLayers l ++ namedLayersL r
end

inductive AttrErr | attributeError
deriving DecidableEq, Repr

/-- `mapping.<attr>` for a name that is not an ordinary attribute: `LayeredMapping.__getattr__` -/
def getNamedLayer (m : LM ν) (attr : String) : Except AttrErr (Layer ν) :=
  match (namedLayers m.toLayer).lookup attr with
  | some l => .ok l
  | none => .error .attributeError

/-- the variables available to `.` when the parser is handed the materializer's layered context:
`OrderedSet(context.named_layers["data"])` (`none`: no layer is called `data`) -/
def Layers.available (L : Layers ν) : Option (List String) :=
  ((namedLayers L.lm.toLayer).lookup "data").map Layer.keys

end FormulaicVerif.Model.Variables
