/-! Factors and terms (`formulaic/parser/types/factor.py`, `term.py`, `ordered_set.py`).

* `Factor.__eq__`/`__hash__` look at `expr` only, so "the same factor" is "the same expr".
* `Term.__init__` keeps `tuple(dict.fromkeys(factors))`: first occurrence of each expr, in order.
* `Term` identity (`_factor_key`) is the *sorted* tuple of exprs.
* `OrderedSet` is an insertion-ordered set: a list with first-occurrence de-duplication. -/
namespace FormulaicVerif.Model

inductive EvalMethod | literal | lookup | python
deriving DecidableEq, Repr, Inhabited

structure Factor where
  expr : String
  eval : EvalMethod
deriving DecidableEq, Repr, Inhabited

/-- `dict.fromkeys(xs)` for a key function: keep the first element of each key class, in order
(`seen` = keys already emitted) -/
def dedupAux {α κ} [BEq κ] (key : α → κ) : List κ → List α → List α
  | _, [] => []
  | seen, x :: xs =>
    if seen.contains (key x) then dedupAux key seen xs else x :: dedupAux key (key x :: seen) xs

def dedupBy {α κ} [BEq κ] (key : α → κ) (xs : List α) : List α := dedupAux key [] xs

/-- a term: ordered factors, unique by expr (invariant `Term.WF`, kept as a separate predicate) -/
abbrev Term := List Factor

def Term.ofFactors (fs : List Factor) : Term := dedupBy (·.expr) fs

def Term.WF (t : Term) : Prop := (t.map (·.expr)).Nodup

instance (t : Term) : Decidable (Term.WF t) := by unfold Term.WF; infer_instance

/-- `Term.degree`: literal factors do not count -/
def Term.degree (t : Term) : Nat := (t.filter (fun f => f.eval != .literal)).length

/-- `Term.__mul__` -/
def Term.mul (a b : Term) : Term := Term.ofFactors (a ++ b)

/-- insertion sort on strings by code-point order (Python `sorted` on str) -/
def insertSorted (x : String) : List String → List String
  | [] => [x]
  | y :: ys => if x ≤ y then x :: y :: ys else y :: insertSorted x ys

def sortStrings (xs : List String) : List String := xs.foldr insertSorted []

/-- `Term._factor_key` -/
def Term.key (t : Term) : List String := sortStrings (t.map (·.expr))

def litZero : Factor := ⟨"0", .literal⟩
def litOne : Factor := ⟨"1", .literal⟩

end FormulaicVerif.Model
