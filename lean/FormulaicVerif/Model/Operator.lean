/-! Operator specifications as the parser sees them (`formulaic/parser/types/operator.py`).
The *tables* built from these are generated from the live package (`Gen/OperatorTable.lean`). -/
namespace FormulaicVerif.Model

inductive Assoc | left | right | none
deriving DecidableEq, Repr, Inhabited

inductive Fixity | infix | prefix | postfix
deriving DecidableEq, Repr, Inhabited

/-- the `accepts_context` callables that occur in the code base, classified by the translator -/
inductive CtxRule
  | always        -- no `accepts_context`
  | emptyCtx      -- `len(context) == 0`
  | lastIsSquare  -- `bool(context) and context[-1] == "["`
  | allTildeBar   -- `all(isinstance(c, Operator) and c.symbol in "~|" for c in context)`
  | opsAllComma   -- `all(c.symbol == "," for c in context if isinstance(c, Operator))`
deriving DecidableEq, Repr, Inhabited

structure OpSpec where
  symbol : String
  arity : Nat
  prec : Int
  assoc : Assoc
  fixity : Fixity
  structural : Bool
  disabled : Bool
  ctx : CtxRule
deriving DecidableEq, Repr, Inhabited

/-- `OperatorResolver.operator_table`: symbol ↦ candidates sorted by (precedence, arity) descending -/
abbrev OpTable := List (String × List OpSpec)

def OpTable.lookup (t : OpTable) (sym : String) : Option (List OpSpec) :=
  match t.find? (fun p => p.1 == sym) with
  | some p => some p.2
  | none => none

end FormulaicVerif.Model
