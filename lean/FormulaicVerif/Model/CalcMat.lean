import FormulaicVerif.Model.Term
import FormulaicVerif.Model.Materialize
/-! Materialisation of a formula over NUMERIC factors (C20's second clause), through the model of
`FormulaMaterializer._build_model_matrix` that C02/C03 are about (`Model/Materialize.lean`).

What enters as data: for every factor expression of the formula its evaluated value — a number
(`Factor.Kind.CONSTANT`, literal factors) or one numeric column (`Factor.Kind.NUMERICAL`; the
encoder of a numeric factor returns the column itself, it neither spans the intercept nor has a
reduced form). Everything downstream (scoping with/without rank reduction, the `spanned` set,
`_get_columns_for_term`) is the C02 model run on that cache. -/
namespace FormulaicVerif.Model.CalcMat
open FormulaicVerif.Model

/-- the evaluated value of a numeric factor -/
inductive NumVal
  | const (v : Rat)
  | col (c : Col)
deriving DecidableEq, Repr

abbrev Env := List (String × NumVal)

/-- the (irrelevant) encoding slot of a constant factor: constants are never encoded -/
def encOf (c : Col) : Encoded :=
  { val := .single c, spansIntercept := false, dropField := none, reducedMeta := false,
    fmt := [.name, .lit "[", .field, .lit "]"], fmtReduced := none }

/-- the `factor_cache` entry of a numeric factor -/
def mkFactor (e : String) : NumVal → EvaledFactor
  | .const v => ⟨e, true, .constant v, false, encOf [], encOf []⟩
  | .col c => ⟨e, true, .numerical, false, encOf c, encOf c⟩

def mkCache (env : Env) : Cache := env.map (fun p => mkFactor p.1 p.2)

/-- the materializer's view of a term: its factor expressions -/
def exprs (t : Term) : MTerm := t.map (·.expr)

def config (env : Env) (terms : List Term) (efr : Bool) (nrows : Nat) : Config :=
  { cache := mkCache env, terms := terms.map exprs, ensureFullRank := efr,
    clusterByNumerical := false, variant := .fast, nrows := nrows }

/-- the per-term columns of `Formula(terms).get_model_matrix(data, ensure_full_rank=efr)` (the
`structure` of the resulting spec, with values) -/
def materialize (env : Env) (terms : List Term) (efr : Bool) (nrows : Nat) :
    Except ScopeErr (List TermResult) :=
  buildStructure (config env terms efr nrows)

end FormulaicVerif.Model.CalcMat
