import FormulaicVerif.Model.CubicSpline
/-! # The second-derivative map `F` computed by the model

`_get_natural_f` / `_get_cyclic_f` build the matrices `B`, `D` (`CubicSpline.natB/natD/cycB/cycD`)
and hand `B·X = D` to `scipy.linalg.solve_banded` / `numpy.linalg.solve`.  Here the same system is
solved EXACTLY over `Rat` (Gauss–Jordan elimination on the augmented rows, pivoting on the
diagonal), and the result is returned only after the contract `residualF = 0` and the shape have
been checked (`solveF`).  So whatever `solveF` returns satisfies the hypotheses of the
interpolation theorems by construction, and by `cr_F_unique` / `cc_F_unique` it is THE matrix the
linear solver of the code approximates.  Core Lean only.

Not proved: that the elimination never meets a zero pivot on strictly increasing knots (the
matrices are symmetric and strictly diagonally dominant, so it cannot; the correspondence observes
it per case — a failure of `solveF` is reported as a disagreement, never skipped). -/

namespace FormulaicVerif.Model.SplineSolve
open FormulaicVerif.Model.CubicSpline

/-- eliminate column `j` with the pivot row `prn` (already scaled to a unit pivot) -/
def eliminate (prn : List Rat) (j : Nat) (r : List Rat) : List Rat :=
  match r[j]? with
  | some f => List.zipWith (fun a b => a - f * b) r prn
  | none => r

/-- one Gauss–Jordan step: scale row `j` to a unit pivot in column `j`, clear that column in all
other rows; `none` on a zero (or missing) pivot -/
def pivotStep (rows : List (List Rat)) (j : Nat) : Option (List (List Rat)) :=
  match rows[j]? with
  | none => none
  | some pr =>
    match pr[j]? with
    | none => none
    | some p =>
      if p = 0 then none
      else
        let prn := pr.map (· / p)
        some (rows.zipIdx.map (fun ri => if ri.2 = j then prn else eliminate prn j ri.1))

/-- steps `j, j+1, …, j+fuel-1` -/
def gaussJordan (rows : List (List Rat)) (j : Nat) : Nat → Option (List (List Rat))
  | 0 => some rows
  | fuel + 1 =>
    match pivotStep rows j with
    | none => none
    | some rows' => gaussJordan rows' (j + 1) fuel

/-- the solution `X` of `A·X = Bm` for a square `A` (`k × k`, given by rows) -/
def solve (A Bm : List (List Rat)) : Option (List (List Rat)) :=
  match gaussJordan (List.zipWith (· ++ ·) A Bm) 0 A.length with
  | none => none
  | some rows => some (rows.map (·.drop A.length))

/-- `_get_natural_f(knots)`: zero first and last row around the solution of `natB·X = natD`
(for two knots there is nothing to solve and the result is the 2 × 2 zero matrix, which is the
special case the code spells out) -/
def natF (knots : List Rat) : Option (List (List Rat)) :=
  let h := spacings knots
  match solve (natB h) (natD h) with
  | none => none
  | some X =>
    let z := List.replicate knots.length (0 : Rat)
    some (z :: (X ++ [z]))

/-- `_get_cyclic_f(knots)`: the solution of `cycB·X = cycD` -/
def cycF (knots : List Rat) : Option (List (List Rat)) :=
  let h := spacings knots
  solve (cycB h) (cycD h)

def allZero (M : List (List Rat)) : Bool := M.all (fun r => r.all (fun v => decide (v = 0)))

/-- the `F` of the recorded knots, returned only with its certificate: right shape and exact
contract `residualF knots cyclic F = 0` -/
def solveF (knots : List Rat) (cyclic : Bool) : Option (List (List Rat)) :=
  let n := if cyclic then knots.length - 1 else knots.length
  match (if cyclic then cycF knots else natF knots) with
  | none => none
  | some F =>
    if F.length = n ∧ F.all (fun r => decide (r.length = n)) ∧ allZero (residualF knots cyclic F)
    then some F else none

end FormulaicVerif.Model.SplineSolve
