import FormulaicVerif.Model.Tokenize
import FormulaicVerif.Model.Shunt
import FormulaicVerif.Model.Constraints
import FormulaicVerif.Gen.OperatorTable
/-! `LinearConstraintParser.get_ast`: `tokenize(formula)` (default arguments) followed by
`tokens_to_ast` with `ConstraintOperatorResolver`, which inherits the BASE `OperatorResolver.resolve`
(the operator token's whole text is looked up; no sign-run collapsing, no splitting), and the reading
of the resulting tree as the `Node` type of `Model/Constraints.lean`. With this the model of
`LinearConstraints.from_spec` starts at the string. -/
namespace FormulaicVerif.Model.ConstraintParse
open FormulaicVerif.Model FormulaicVerif.Model.Constraints

/-- `OperatorResolver.resolve`: one group, the candidates registered under the token text -/
def resolveBase (tab : OpTable) (text : List Char) : Except ParseErr (List (List OpSpec)) :=
  match tab.lookup (String.ofList text) with
  | some cands => .ok [cands]
  | none => .error (.syntax "unknown operator")

def shuntStepBase (tab : OpTable) (s : ShState) (t : Tok) : Except ParseErr ShState :=
  match t.kind with
  | some .context =>
    if t.text == ['('] then .ok { s with stack := .ctx '(' s.out.length :: s.stack }
    else if t.text == ['['] then .ok { s with stack := .ctx '[' s.out.length :: s.stack }
    else if t.text == [')'] then closeCtx '(' s.out s.stack
    else if t.text == [']'] then closeCtx '[' s.out s.stack
    else .error (.syntax "unrecognised context token")
  | some .operator =>
    match resolveBase tab t.text with
    | .error e => .error e
    | .ok groups => runCands groups s
  | _ => .ok { s with out := s.out ++ [Ast.leaf t] }

def shuntRunBase (tab : OpTable) : List Tok → ShState → Except ParseErr ShState
  | [], s => .ok s
  | t :: ts, s =>
    match shuntStepBase tab s t with
    | .error e => .error e
    | .ok s' => shuntRunBase tab ts s'

def tokensToAstBase (tab : OpTable) (ts : List Tok) : Except ParseErr (Option Ast) :=
  match shuntRunBase tab ts {} with
  | .error e => .error e
  | .ok s =>
    match finish s.out s.stack with
    | .error e => .error e
    | .ok [] => .ok none
    | .ok [a] => .ok (some a)
    | .ok _ => .error (.syntax "missing operator")

/-- `LinearConstraintParser.get_ast`: the list comprehension over `tokenize` runs to the end before
`tokens_to_ast` starts, so a tokenizer error wins -/
def getAst (cs : List CharInfo) : Except ParseErr (Option Ast) :=
  match tokenize cs with
  | .error _ => .error (.syntax "tokenizer")
  | .ok ts => tokensToAstBase Gen.constraintTable ts

def op1Of : String → Option Op1
  | "+" => some .pos
  | "-" => some .neg
  | _ => none

def op2Of : String → Option Op2
  | "," => some .comma
  | "=" => some .eq
  | "+" => some .add
  | "-" => some .sub
  | "*" => some .mul
  | "/" => some .div
  | _ => none

def kindOf : Option TKind → Option Kind
  | some .name => some .name
  | some .python => some .python
  | some .value => some .value
  | _ => none

/-- the tree as `ASTNode.to_terms` sees it (`none`: a shape outside the constraint table, which the
shunting-yard cannot produce from `Gen.constraintTable`) -/
def nodeOfAst : Ast → Option Node
  | .leaf t => (kindOf t.kind).map (fun k => .leaf k (String.ofList t.text))
  | .node o [a] => do
    let op ← op1Of o.symbol
    let a ← nodeOfAst a
    pure (.un op a)
  | .node o [a, b] => do
    let op ← op2Of o.symbol
    let a ← nodeOfAst a
    let b ← nodeOfAst b
    pure (.bin op a b)
  | .node _ _ => none

/-- the parser of `Model.Constraints.fromSpec`, now a function of the string's characters -/
def parse (cs : List CharInfo) : Option Parsed :=
  match getAst cs with
  | .error (.syntax _) => some (.error "FormulaSyntaxError")
  | .error .pySyntax => some (.error "SyntaxError")
  | .error (.internal n) => some (.error n)
  | .ok none => some .empty
  | .ok (some a) => (nodeOfAst a).map .ast

end FormulaicVerif.Model.ConstraintParse
