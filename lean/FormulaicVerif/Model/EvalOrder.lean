import FormulaicVerif.Model.Parser
/-! Which error surfaces first. `ASTNode.to_terms` (`parser/types/ast_node.py`) evaluates the tree in
the order `graphlib.TopologicalSorter` hands out ready nodes, not depth-first left to right as
`Model.evalAst` does. Values do not depend on the order, but when SEVERAL nodes fail, the exception
that escapes is the one of the first failing node in that order — some node all of whose arguments
evaluate (a *minimal failing node*). `minimalErrors` collects the errors of all of them; the model's
own `evalAst` error is one of them (`Proofs/C14Order.lean`), and the implementation's must be one of
them. With equal classes (always, without the multistage feature) the prediction is deterministic. -/
namespace FormulaicVerif.Model.EvalOrder
open FormulaicVerif.Model

mutual
/-- the errors of the minimal failing nodes of a tree, left to right -/
def minimalErrors (dot : DotCtx) : Ast → List ParseErr
  | .leaf _ => []
  | .node o args =>
    match argErrors dot args with
    | [] => (match evalAst dot (.node o args) with | .error e => [e] | .ok _ => [])
    | e :: es => e :: es
def argErrors (dot : DotCtx) : List Ast → List ParseErr
  | [] => []
  | a :: as => minimalErrors dot a ++ argErrors dot as
end

/-- the errors that may escape from `get_terms`: if evaluation of the tree fails, any minimal failing
node's error; otherwise whatever `parseTerms` says -/
def possibleErrors (cfg : ParseCfg) (env : PyEnv) (cs : List CharInfo) : List ParseErr :=
  match getTokens cfg env cs with
  | .error e => [e]
  | .ok (ts, lhs) =>
    match tokensToAst cfg.table ts with
    | .error e => [e]
    | .ok none => []
    | .ok (some a) =>
      match minimalErrors { available := env.available, usedLhs := lhsVariables env lhs } a with
      | [] => (match parseTerms cfg env cs with | .error e => [e] | .ok _ => [])
      | es => es

end FormulaicVerif.Model.EvalOrder
