import FormulaicVerif.Model.HeapX
/-! # The `.` wildcard of a string spec (C18)

A spec given as a STRING is parsed again by every build; a `.` in it stands for "every variable of
the data set that this formula's own left-hand side does not use"
(`formulaic/parser/parser.py`: `get_tokens` records `__formulaic_variables_used_lhs__` for the string
being parsed, `insert_unused_terms` reads it and the `data` layer of the parsing context).  So the
terms a string with `.` denotes are a function of (the string, the columns of the data set of THIS
call) — of nothing that an earlier parse left behind, whichever materializer object or context
mapping the calls share.

The strings the generator uses are given as a TEMPLATE: the terms of the right-hand side with the
factor `"."` standing for the wildcard (`(.):b` is the template term `[".", "b"]`), and the terms
subtracted (`. - a`).  `expand` computes the formula object's terms: substitute every unused variable
for the wildcard (a term lists a factor once: `b:b = b`), drop the subtracted terms, keep the first
of equal terms (`OrderedSet`; terms are equal up to the order of their factors), sort by degree. -/

namespace FormulaicVerif.Model.HeapDot
open FormulaicVerif.Model.Heap FormulaicVerif.Model.HeapX

def wild : String := "."

/-- `tuple(dict.fromkeys(factors))` -/
def dedupStr : List String → List String
  | [] => []
  | x :: xs => x :: (dedupStr xs).filter (· ≠ x)

/-- `available_variables - used_variables` (both `OrderedSet`s: column order, each column once) -/
def unusedVars (cols lhsVars : List String) : List String :=
  dedupStr (cols.filter fun c => !lhsVars.contains c)

/-- the terms one template term denotes -/
def expandTerm (unused : List String) (t : Term) : List Term :=
  if t.contains wild then unused.map fun v => dedupStr (t.map fun f => if f = wild then v else f) else [t]

/-- `Term.__eq__`: the same factors in any order -/
def sameTerm (a b : Term) : Bool := a.isPerm b

/-- `OrderedSet(terms)`: the first of equal terms -/
def dedupTerms : List Term → List Term
  | [] => []
  | t :: ts => t :: (dedupTerms ts).filter fun u => !sameTerm u t

/-- the terms of the formula object a string spec with `.` is parsed to, on a data set with the columns
`cols`, when its own left-hand side uses the variables `lhsVars` -/
def expand (cols lhsVars : List String) (tmpl remove : Formula) : Formula :=
  reorder ((dedupTerms (tmpl.flatMap (expandTerm (unusedVars cols lhsVars)))).filter
    fun t => !remove.any fun r => sameTerm r t)

end FormulaicVerif.Model.HeapDot
