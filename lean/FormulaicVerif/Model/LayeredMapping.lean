import FormulaicVerif.Model.Term
import FormulaicVerif.Model.Structured
/-! `formulaic/utils/layered_mapping.py` — `LayeredMapping`.

A layer handed to a `LayeredMapping` is a plain mapping (an insertion-ordered dict) or another
`LayeredMapping` (which has a name, its own `_mutations` dict and its own layers). The model is
value based: a nested `LayeredMapping` is the snapshot of that object; the operation sequences of
the correspondence only ever act on the outermost object, for which this is exact.

Mirrored as written:
* `__getitem__`: first of `[_mutations, *layers]` that contains the key;
* `__iter__`: incremental first-occurrence de-duplication with a `seen` set;
* `__len__`: `len(set(chain(_mutations, *layers)))` (a nested `LayeredMapping` contributes its own
  already de-duplicated iteration);
* `__setitem__` writes `_mutations` only; `__delitem__` deletes from `_mutations` only and raises
  `KeyError` for a key that lives only in a supplied layer;
* `with_layers(inplace=True)` overwrites `self.name` with the `name` argument (default `None`);
* a name that is falsy (`None` or `""`) counts as "unnamed". -/
namespace FormulaicVerif.Model.LMap

variable {ν : Type}

inductive Layer (ν : Type) where
  | dict (d : List (String × ν))
  | lm (name : Option String) (muts : List (String × ν)) (layers : List (Layer ν))

instance {ν : Type} : Inhabited (Layer ν) := ⟨.dict []⟩

/-- the state of one `LayeredMapping` object -/
structure LM (ν : Type) where
  name : Option String
  muts : List (String × ν)
  layers : List (Layer ν)

def LM.toLayer (m : LM ν) : Layer ν := .lm m.name m.muts m.layers

inductive Err where
  | keyError
deriving DecidableEq, Repr, Inhabited

/-- `d[k] = v` on an insertion-ordered dict (shared with `Model.St`) -/
abbrev dictSet (d : List (String × ν)) (k : String) (v : ν) : List (String × ν) := St.dictSet d k v

/-- `del d[k]` (caller checked membership) -/
def dictDel (d : List (String × ν)) (k : String) : List (String × ν) :=
  d.filter (fun kv => !(kv.1 == k))

def dictHas (d : List (String × ν)) (k : String) : Bool := d.any (fun kv => kv.1 == k)

/-- first-occurrence de-duplication with a `seen` set (`__iter__`) -/
def dedup (xs : List String) : List String := dedupBy id xs

/-- `len(set(xs))`: size of the set after inserting every element -/
def distinctCount (xs : List String) : Nat :=
  (xs.foldl (fun s x => if s.contains x then s else x :: s) []).length

mutual
/-- `layer[key]` guarded by `key in layer` (`none` = not contained) -/
def Layer.get : Layer ν → String → Option ν
  | .dict d, k => d.lookup k
  | .lm _ muts layers, k =>
    match muts.lookup k with
    | some v => some v
    | none => getL layers k
/-- the `for layer in layers: if key in layer: return layer[key]` loop -/
def getL : List (Layer ν) → String → Option ν
  | [], _ => none
  | l :: r, k =>
    match l.get k with
    | some v => some v
    | none => getL r k
end

mutual
/-- `iter(layer)` -/
def Layer.keys : Layer ν → List String
  | .dict d => d.map (·.1)
  | .lm _ muts layers => dedup (muts.map (·.1) ++ keysL layers)
/-- `itertools.chain(*layers)` -/
def keysL : List (Layer ν) → List String
  | [] => []
  | l :: r => l.keys ++ keysL r
end

mutual
/-- reference: the layers written out top first as one association list (duplicates kept) -/
def Layer.flat : Layer ν → List (String × ν)
  | .dict d => d
  | .lm _ muts layers => muts ++ flatL layers
def flatL : List (Layer ν) → List (String × ν)
  | [] => []
  | l :: r => l.flat ++ flatL r
end

namespace LM

/-- `m[key]` (`none` = `KeyError`) -/
def get (m : LM ν) (k : String) : Option ν := m.toLayer.get k

/-- `list(m)` -/
def iter (m : LM ν) : List String := m.toLayer.keys

/-- `len(m)` -/
def len (m : LM ν) : Nat := distinctCount (m.muts.map (·.1) ++ keysL m.layers)

/-- `key in m` (the `Mapping` mixin: `try: self[key]`) -/
def contains (m : LM ν) (k : String) : Bool := (m.get k).isSome

/-- `dict(m)` -/
def view (m : LM ν) : List (String × Option ν) := m.iter.map (fun k => (k, m.get k))

/-- `m[key] = value` -/
def set (m : LM ν) (k : String) (v : ν) : LM ν := { m with muts := dictSet m.muts k v }

/-- `del m[key]` -/
def del (m : LM ν) (k : String) : Except Err (LM ν) :=
  if dictHas m.muts k then .ok { m with muts := dictDel m.muts k } else .error .keyError

/-- `m.with_layers(*new, prepend=, inplace=, name=)` where `None` layers are already filtered out.
Returns the mapping the call returns (for `inplace` it is also the new state of `m`). -/
def withLayers (m : LM ν) (new : List (Layer ν)) (prepend inplace : Bool) (name : Option String) :
    LM ν :=
  if new.isEmpty then m
  else if inplace then
    { name := name, muts := m.muts, layers := if prepend then new ++ m.layers else m.layers ++ new }
  else
    { name := name, muts := [], layers := if prepend then new ++ [m.toLayer] else m.toLayer :: new }

end LM

/-- truthiness of `self.name` -/
def named (n : Option String) : Option String :=
  match n with
  | some s => if s.isEmpty then none else some s
  | none => none

/-- `":".join(path)` or `None` -/
def joinPath (path : List String) : Option String :=
  if path.isEmpty then none else some (":".intercalate path)

mutual
/-- `get_with_layer_name(key, _path=path)` on the object `(name, muts, layers)`;
`none` = `(default, None)` -/
def Layer.getNamed : Layer ν → List String → Option String → String → Option (ν × Option String)
  | .dict d, _, here, k => (d.lookup k).map (fun v => (v, here))
  | .lm name muts layers, path, _, k =>
    let path' := match named name with
      | some n => path ++ [n]
      | none => path
    let here := joinPath path'
    match muts.lookup k with
    | some v => some (v, here)
    | none => getNamedL layers path' here k
def getNamedL : List (Layer ν) → List String → Option String → String → Option (ν × Option String)
  | [], _, _, _ => none
  | l :: r, path, here, k =>
    match l.getNamed path here k with
    | some x => some x
    | none => getNamedL r path here k
end

/-- `m.get_with_layer_name(key)` -/
def LM.getWithLayerName (m : LM ν) (k : String) : Option (ν × Option String) :=
  m.toLayer.getNamed [] none k

/-! ## operation sequences on one mapping -/

inductive Op (ν : Type) where
  | set (k : String) (v : ν)
  | del (k : String)
  | withLayers (new : List (Layer ν)) (prepend inplace : Bool) (name : Option String)

/-- one operation; a failing operation raises and leaves the object unchanged -/
def step (m : LM ν) : Op ν → Except Err (LM ν)
  | .set k v => .ok (m.set k v)
  | .del k => m.del k
  | .withLayers new p i n => .ok (m.withLayers new p i n)

/-- a whole sequence, exceptions caught by the caller (state unchanged on error) -/
def run (m : LM ν) : List (Op ν) → LM ν
  | [] => m
  | op :: ops =>
    match step m op with
    | .ok m' => run m' ops
    | .error _ => run m ops

end FormulaicVerif.Model.LMap
