import FormulaicVerif.Model.Contrasts
import FormulaicVerif.Model.LayeredMapping
/-! The shims of `formulaic/transforms/patsy_compat.py` that are not `standardize` (that one is in
`Model/ScaleEntry.lean`), and `formulaic/transforms/identity.py`.

    def Treatment(reference=UNSET):  return TreatmentContrasts(base=reference)

    @stateful_transform
    def Q(variable, _context=None):  return _context.data[variable]

    def identity(data):  return data          # preloaded as `I`

`_context` is the evaluation environment, a `LayeredMapping`; `.data` is
`LayeredMapping.__getattr__`, a look-up in `named_layers` (`AttributeError` when no layer has that
name — also when `_context` is `None`, i.e. `Q` called outside a formula); `[variable]` is
`LayeredMapping.__getitem__` on that layer (`KeyError`).  `named_layers` is modelled as written
(layered_mapping.py lines 102–119) on the layer trees of `Model/LayeredMapping.lean`:

    named_layers, local = {}, {}
    for layer in reversed(self._layers):
        if isinstance(layer, LayeredMapping):
            if layer.name: local[layer.name] = layer
            named_layers.update(layer.named_layers)
    named_layers.update(local)
    if self.name: named_layers[self.name] = self

so for ONE name: the object itself when it carries the name; else the first direct layer that
carries it; else what the first layer whose own `named_layers` has it maps it to. -/
namespace FormulaicVerif.Model.PatsyCompat
open FormulaicVerif.Model

/-- `Treatment(reference)`; `none` is `UNSET` -/
def Treatment (reference : Option Contrasts.Label) : Contrasts.Contrast := .treatment reference

/-- `identity(data)` -/
def identity {β : Type} (data : β) : β := data

variable {ν : Type}

/-- first direct `LayeredMapping` layer whose (truthy) name is `a` -/
def directNamed : List (LMap.Layer ν) → String → Option (LMap.Layer ν)
  | [], _ => none
  | .dict _ :: r, a => directNamed r a
  | .lm name muts layers :: r, a =>
    if LMap.named name = some a then some (.lm name muts layers) else directNamed r a

mutual
/-- `layer.named_layers.get(a)` -/
def findNamed : LMap.Layer ν → String → Option (LMap.Layer ν)
  | .dict _, _ => none
  | .lm name muts layers, a =>
    if LMap.named name = some a then some (.lm name muts layers)
    else
      match directNamed layers a with
      | some l => some l
      | none => nestedNamed layers a
/-- the `named_layers.update(layer.named_layers)` contributions, first layer winning -/
def nestedNamed : List (LMap.Layer ν) → String → Option (LMap.Layer ν)
  | [], _ => none
  | l :: r, a =>
    match findNamed l a with
    | some x => some x
    | none => nestedNamed r a
end

inductive QErr
  | attributeError   -- `'data' does not correspond to a named layer.` / `None.data`
  | keyError         -- the data layer has no such column
deriving DecidableEq, Repr

/-- `Q(name, _context=ctx)` (the Python parameter is called `variable`); `ctx = none` is `_context=None` -/
def Q (name : String) (ctx : Option (LMap.Layer ν)) : Except QErr ν :=
  match ctx with
  | none => .error .attributeError
  | some c =>
    match findNamed c "data" with
    | none => .error .attributeError
    | some d =>
      match d.get name with
      | some v => .ok v
      | none => .error .keyError

/-- the environment `stateful_eval` hands to `Q` when a materializer evaluates a factor:
`LayeredMapping(layered_context)` with
`layered_context = LayeredMapping(LayeredMapping(data, name="data"), LayeredMapping(context, name="context"), LayeredMapping(TRANSFORMS, name="transforms"))` -/
def materializerEnv (data context transforms : List (String × ν)) : LMap.Layer ν :=
  .lm none [] [.lm none [] [.lm (some "data") [] [.dict data], .lm (some "context") [] [.dict context],
    .lm (some "transforms") [] [.dict transforms]]]

end FormulaicVerif.Model.PatsyCompat
