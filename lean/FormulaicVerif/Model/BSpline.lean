/-! # Model of `formulaic/transforms/basis_spline.py` (`basis_spline`, alias `bs`)

Executable model over `Rat`, core Lean only.  It mirrors the code as it is:

* argument checks, bounds from the state / the arguments / the data (`nanmin`, `nanmax`);
* the `raise` check, the selection of the sample `knots_x` used for the quantile knots;
* knot preparation: interior knots (given, or supplied by the quantile routine, which is a
  PARAMETER `quant`), `insert(0, lower)`, `append(upper)`, `numpy.pad(knots, degree, "edge")`;
* the degree-0 indicator rows with the closed right boundary and the `extend` special cases;
* `alpha` with the `0/0 := 0` convention; the two-buffer (`cache[d % 2]`) Cox–de Boor sweep;
* the column selection `i > 0 or include_intercept`;
* the five extrapolation modes.

A null (`NaN`) input value is `none`; it produces a null row (`none`): after the repair of the
degree-0 indicator (`fix:` commit in the repo) every arithmetic path of the code propagates `NaN`.
One row is computed per input value because the NumPy code is element-wise in `x`. -/

namespace FormulaicVerif.Model.BSpline

inductive Mode where
  | raise | clip | na | zero | extend
deriving DecidableEq, Repr

/-- all modelled error exits of `basis_spline` are `ValueError`s -/
inductive Err where
  | valueError
  /-- `numpy.nanmin/nanmax` of a vector without any non-null value (NumPy returns `nan` with a
  warning); outside the model -/
  | noData
deriving DecidableEq, Repr

structure Args where
  df : Option Int
  knots : Option (List Rat)
  degree : Nat
  intercept : Bool
  lower : Option Rat
  upper : Option Rat
  mode : Mode
deriving Repr

/-- the recorded `_state` -/
structure State where
  lower : Rat
  upper : Rat
  knots : List Rat
deriving DecidableEq, Repr

def nonNull (xs : List (Option Rat)) : List Rat := xs.filterMap id

def minOf : List Rat → Option Rat
  | [] => none
  | a :: r => some (r.foldl min a)

def maxOf : List Rat → Option Rat
  | [] => none
  | a :: r => some (r.foldl max a)

/-- `(x < lower_bound) | (x > upper_bound)` -/
def outside (lower upper x : Rat) : Bool := decide (x < lower) || decide (x > upper)

/-- `(x >= lower_bound) & (x <= upper_bound)` -/
def inside (lower upper x : Rat) : Bool := decide (lower ≤ x) && decide (x ≤ upper)

/-- `knots.insert(0, lower); knots.append(upper); numpy.pad(knots, degree, mode="edge")` -/
def padKnots (lower : Rat) (interior : List Rat) (upper : Rat) (degree : Nat) : List Rat :=
  List.replicate degree lower ++ (lower :: (interior ++ [upper])) ++ List.replicate degree upper

/-- The non-null part of `knots_x` and `knots_x.shape[0]`.
`clip/na/zero`: `x[locs]` when some value is not in range (a null is never in range), else `x`;
other modes: `x`. -/
def knotsSample (mode : Mode) (lower upper : Rat) (xs : List (Option Rat)) : List Rat × Nat :=
  match mode with
  | .clip | .na | .zero =>
    let v := (nonNull xs).filter (inside lower upper)
    (v, v.length)
  | _ => (nonNull xs, xs.length)

/-- `_state[bound]` for an empty state: the argument if given, else `nanmin`/`nanmax` of the data
(`dflt` is `minOf`/`maxOf` of the non-null values; NumPy raises `ValueError` on an empty array) -/
def resolveBound (given : Option Rat) (dflt : Option Rat) (empty : Bool) : Except Err Rat :=
  match given with
  | some l => .ok l
  | none =>
    match dflt with
    | some m => .ok m
    | none => .error (if empty then .valueError else .noData)

/-- "Prepare knots", first part: the interior knots.  `quant s m` stands for
`numpy.nanquantile(s, numpy.linspace(0, 1, m + 2))[1:-1].tolist()`. -/
def interiorKnots (a : Args) (lower upper : Rat) (xs : List (Option Rat))
    (quant : List Rat → Nat → List Rat) : Except Err (List Rat) :=
  let given : List Rat := match a.knots with | none => [] | some k => k
  match a.df with
  | none => .ok given
  | some df =>
    -- `if df is not None:` (0 is a df like any other: refused unless degree = 0 without intercept)
    let nknots : Int := df - (a.degree : Int) - (if a.intercept then 1 else 0)
    if nknots < 0 then .error .valueError
    else
      let s := knotsSample a.mode lower upper xs
      if s.2 = 0 then .error .valueError
      else if s.1.isEmpty then .error .noData
      else .ok (quant s.1 nknots.toNat)

/-- "Prepare and check arguments", "Prepare data" (the raise check), "Prepare knots" for a call
with an empty `_state`. -/
def prepare (a : Args) (xs : List (Option Rat)) (quant : List Rat → Nat → List Rat) :
    Except Err State :=
  if a.df.isSome && a.knots.isSome then .error .valueError
  else
    let vals := nonNull xs
    match resolveBound a.lower (minOf vals) xs.isEmpty with
    | .error e => .error e
    | .ok lower =>
      match resolveBound a.upper (maxOf vals) xs.isEmpty with
      | .error e => .error e
      | .ok upper =>
        if a.mode = .raise && vals.any (outside lower upper) then .error .valueError
        else
          match interiorKnots a lower upper xs quant with
          | .error e => .error e
          | .ok interior =>
            .ok { lower := lower, upper := upper, knots := padKnots lower interior upper a.degree }

/-- `alpha(i, j)` with `ki = knots[i]`, `kij = knots[i + j]`: `0/0 := 0` -/
def alpha (x ki kij : Rat) : Rat := if kij ≠ ki then (x - ki) / (kij - ki) else 0

/-- One entry of `cache[0]`: `i` is the index, `n = len(knots)`, `ki = knots[i]`, `ki1 = knots[i+1]`.
The Python test `i + 1 != len(knots) - degree - 1` is on unbounded integers; it is written here
as `i + 1 + degree + 1 ≠ n`, which is the same comparison without truncated subtraction. -/
def ind0 (ext : Bool) (degree n i : Nat) (ki ki1 x : Rat) : Rat :=
  if ext then
    (if (i = degree ∨ ki ≤ x) ∧ (i + 1 + degree + 1 = n ∨ x < ki1) then 1 else 0)
  else
    (if ki ≤ x ∧ (if i + 1 + degree + 1 = n then x ≤ ki1 else x < ki1) then 1 else 0)

/-- `for i in range(len(knots) - 1): cache[0][i] = ...`; the list argument is `knots[i:]` -/
def level0Aux (ext : Bool) (degree n : Nat) (x : Rat) : Nat → List Rat → List Rat
  | i, ki :: ki1 :: ks => ind0 ext degree n i ki ki1 x :: level0Aux ext degree n x (i + 1) (ki1 :: ks)
  | _, _ => []

def level0 (ext : Bool) (degree : Nat) (knots : List Rat) (x : Rat) : List Rat :=
  level0Aux ext degree knots.length x 0 knots

/-- `for i in range(len(knots) - d - 1): alpha(i, d) * prev[i] + (1 - alpha(i+1, d)) * prev[i+1]`;
the three list arguments are `knots[i:]`, `knots[i+d:]`, `prev[i:]`. -/
def stepAux (x : Rat) : List Rat → List Rat → List Rat → List Rat
  | ki :: ki1 :: ks, kid :: kid1 :: kds, p :: p1 :: ps =>
    (alpha x ki kid * p + (1 - alpha x ki1 kid1) * p1)
      :: stepAux x (ki1 :: ks) (kid1 :: kds) (p1 :: ps)
  | _, _, _ => []

def step (knots : List Rat) (d : Nat) (x : Rat) (prev : List Rat) : List Rat :=
  stepAux x knots (knots.drop d) prev

/-- the two buffers `cache[0]`, `cache[1]` -/
structure Cache where
  c0 : List Rat
  c1 : List Rat
deriving Repr

def Cache.get (c : Cache) (p : Nat) : List Rat := if p % 2 = 0 then c.c0 else c.c1
def Cache.set (c : Cache) (p : Nat) (v : List Rat) : Cache :=
  if p % 2 = 0 then { c with c0 := v } else { c with c1 := v }

/-- `for d in range(d0, d0 + k): cache[d % 2].clear(); cache[d % 2] = step(cache[(d-1) % 2])` -/
def sweepFrom (knots : List Rat) (x : Rat) (c : Cache) (d : Nat) : Nat → Cache
  | 0 => c
  | k + 1 => sweepFrom knots x (c.set d (step knots d x (c.get (d - 1)))) (d + 1) k

/-- `cache[degree % 2]` after the sweep: all `len(knots) - degree - 1` basis functions at `x` -/
def rowAll (knots : List Rat) (degree : Nat) (ext : Bool) (x : Rat) : List Rat :=
  (sweepFrom knots x ⟨level0 ext degree knots x, []⟩ 1 degree).get degree

/-- `{i: v for i in sorted(cache) if i > 0 or include_intercept}` on an indexed row -/
def selectCols {α : Type} (intercept : Bool) (row : List α) : List (Nat × α) :=
  (row.zipIdx.filter (fun p => decide (p.2 > 0) || intercept)).map (fun p => (p.2, p.1))

/-- the adjustment of one input value by the extrapolation mode ("Prepare data") -/
def adjust (mode : Mode) (lower upper : Rat) : Option Rat → Option Rat
  | none => none
  | some v =>
    match mode with
    | .clip => some (min (max v lower) upper)        -- numpy.clip
    | .na => if outside lower upper v then none else some v
    | _ => some v

/-- one output row (all retained columns) for one input value; `none` = row of NaN -/
def rowFor (st : State) (degree : Nat) (intercept : Bool) (mode : Mode) (x : Option Rat) :
    Option (List Rat) :=
  match adjust mode st.lower st.upper x with
  | none => none
  | some v => some ((selectCols intercept (rowAll st.knots degree (mode == .extend) v)).map (·.2))

structure Output where
  /-- dictionary keys of the result, in order -/
  cols : List Nat
  rows : List (Option (List Rat))
deriving Repr

/-- `basis_spline(x, …, _state=st)` with a state that already holds bounds and knots -/
def transform (st : State) (degree : Nat) (intercept : Bool) (mode : Mode)
    (xs : List (Option Rat)) : Except Err Output :=
  if mode = .raise && (nonNull xs).any (outside st.lower st.upper) then .error .valueError
  else .ok {
    cols := (selectCols intercept (List.range (st.knots.length - degree - 1))).map (·.1)
    rows := xs.map (rowFor st degree intercept mode) }

/-- a first call (empty `_state`): returns the recorded state and the values -/
def fit (a : Args) (xs : List (Option Rat)) (quant : List Rat → Nat → List Rat) :
    Except Err (State × Output) :=
  match prepare a xs quant with
  | .error e => .error e
  | .ok st =>
    match transform st a.degree a.intercept a.mode xs with
    | .error e => .error e
    | .ok out => .ok (st, out)

end FormulaicVerif.Model.BSpline
