import FormulaicVerif.Model.Operator
import FormulaicVerif.Model.Tokenize
/-! `DefaultOperatorResolver.resolve` (`parser/parser.py`), `OperatorResolver._resolve`, and the
enriched shunting-yard `tokens_to_ast` (`parser/algos/tokens_to_ast.py`), as written:
stack entries carry the index into the output queue, `operate` splices by index, every candidate
operator pops *before* it is validated, context acceptance, disabled operators. -/
namespace FormulaicVerif.Model

inductive Ast
  | leaf (t : Tok)
  | node (op : OpSpec) (args : List Ast)
deriving Repr, Inhabited

/-- all parse-time failures are `FormulaSyntaxError` in the code; the tag only helps debugging.
`internal` marks Python exceptions of other types (they must be unreachable: property C14). -/
inductive ParseErr
  | syntax (why : String)
  | pySyntax
  | internal (exc : String)
deriving DecidableEq, Repr

inductive SEntry
  | ctx (c : Char) (idx : Nat)       -- an opening bracket token
  | op (o : OpSpec) (idx : Nat)
deriving Repr, Inhabited

def SEntry.idx : SEntry → Nat
  | .ctx _ i => i
  | .op _ i => i

structure ShState where
  out : List Ast := []
  stack : List SEntry := []      -- top of stack first
deriving Repr, Inhabited

/-! ### resolve -/

/-- collapse every maximal run of two or more sign characters to one sign by parity of `-`
(the `while re.search(r"[+\-]{2,}")` loop; after each replacement the new sign is isolated, so one
left-to-right pass computes the same string) -/
def collapseSignsAux : List Char → List Char → List Char
  | [], run => closeRun run
  | c :: cs, run =>
    if c == '+' || c == '-' then collapseSignsAux cs (c :: run)
    else closeRun run ++ c :: collapseSignsAux cs []
where
  closeRun (run : List Char) : List Char :=
    match run with
    | [] => []
    | [c] => [c]
    | _ => if (run.filter (· == '-')).length % 2 == 1 then ['-'] else ['+']

def collapseSigns (s : List Char) : List Char := collapseSignsAux s []

/-- `resolve(token)`: the sequence of candidate lists for one operator token -/
def resolveToken (tab : OpTable) (text : List Char) : Except ParseErr (List (List OpSpec)) :=
  match tab.lookup (String.ofList text) with
  | some cands => .ok [cands]
  | none =>
    let sym := collapseSigns text
    match tab.lookup (String.ofList sym) with
    | some cands => .ok [cands]
    | none =>
      sym.mapM (fun c => match tab.lookup (String.ofList [c]) with
        | some cands => .ok cands
        | none => .error (.syntax "unknown operator"))

/-! ### shunting yard -/

/-- `operate(ordered_operator, output_queue)` -/
def operate (o : OpSpec) (idx : Nat) (out : List Ast) : Except ParseErr (List Ast) :=
  let (lo, hi, neg) : Nat × Nat × Bool :=
    match o.fixity with
    | .infix => (idx - 1, idx + 1, idx < 1)
    | .prefix => (idx, idx + o.arity, false)
    | .postfix => (idx - o.arity, idx, idx < o.arity)
  if neg || hi > out.length then .error (.syntax "insufficient arguments")
  else .ok (out.take lo ++ [Ast.node o ((out.drop lo).take (hi - lo))] ++ out.drop hi)

/-- `Operator.accepts_context([s.operator for s in operator_stack])` -/
def acceptsContext (o : OpSpec) (stack : List SEntry) : Bool :=
  -- bottom → top, keeping tokens and operators with precedence ≤ ours
  let ctx := stack.reverse.filter (fun e => match e with
    | .ctx _ _ => true
    | .op p _ => p.prec ≤ o.prec)
  match o.ctx with
  | .always => true
  | .emptyCtx => ctx.isEmpty
  | .lastIsSquare => match ctx.getLast? with
    | some (.ctx c _) => c == '['
    | _ => false
  | .allTildeBar => ctx.all (fun e => match e with
    | .op p _ => p.symbol == "~" || p.symbol == "|" || p.symbol == "" || p.symbol == "~|"
    | .ctx _ _ => false)
  | .opsAllComma => ctx.all (fun e => match e with
    | .op p _ => p.symbol == ","
    | .ctx _ _ => true)

def popCond (top c : OpSpec) : Bool :=
  top.prec > c.prec || (top.prec == c.prec && c.assoc == .left)

/-- the `while operator_stack and … precedence …: operate(pop)` loop for an incoming candidate -/
def popWhile (c : OpSpec) : List Ast → List SEntry → Except ParseErr ShState
  | out, [] => .ok ⟨out, []⟩
  | out, .ctx ch i :: stk => .ok ⟨out, .ctx ch i :: stk⟩
  | out, .op o i :: stk =>
    if popCond o c then
      match operate o i out with
      | .ok out' => popWhile c out' stk
      | .error e => .error e
    else .ok ⟨out, .op o i :: stk⟩

def validHere (c : OpSpec) (maxPost : Nat) : Bool :=
  c.arity == 0 || c.fixity == .prefix || (maxPost == 1 && c.fixity == .infix)
    || (maxPost ≥ c.arity && c.fixity == .postfix)

/-- the `for operator in operators` loop with its `else` clause -/
def tryCands : List OpSpec → ShState → Except ParseErr ShState
  | [], _ => .error (.syntax "operator incorrectly used or disabled")
  | c :: cs, s =>
    if !acceptsContext c s.stack then tryCands cs s
    else if c.disabled then tryCands cs s
    else
      match popWhile c s.out s.stack with
      | .error e => .error e
      | .ok s' =>
        let maxPost := match s'.stack with
          | e :: _ => s'.out.length - e.idx
          | [] => s'.out.length
        if validHere c maxPost then .ok { s' with stack := .op c s'.out.length :: s'.stack }
        else tryCands cs s'

/-- closing bracket: reduce until the matching opener; a mismatched opener is a syntax error -/
def closeCtx (opener : Char) : List Ast → List SEntry → Except ParseErr ShState
  | _, [] => .error (.syntax "no matching context marker")
  | out, .ctx c _ :: stk => if c == opener then .ok ⟨out, stk⟩ else .error (.syntax "no matching context marker")
  | out, .op o i :: stk =>
    match operate o i out with
    | .ok out' => closeCtx opener out' stk
    | .error e => .error e

def runCands : List (List OpSpec) → ShState → Except ParseErr ShState
  | [], s => .ok s
  | cs :: rest, s =>
    match tryCands cs s with
    | .error e => .error e
    | .ok s' => runCands rest s'

def shuntStep (tab : OpTable) (s : ShState) (t : Tok) : Except ParseErr ShState :=
  match t.kind with
  | some .context =>
    if t.text == ['('] then .ok { s with stack := .ctx '(' s.out.length :: s.stack }
    else if t.text == ['['] then .ok { s with stack := .ctx '[' s.out.length :: s.stack }
    else if t.text == [')'] then closeCtx '(' s.out s.stack
    else if t.text == [']'] then closeCtx '[' s.out s.stack
    else .error (.syntax "unrecognised context token")
  | some .operator =>
    match resolveToken tab t.text with
    | .error e => .error e
    | .ok groups => runCands groups s
  | _ => .ok { s with out := s.out ++ [Ast.leaf t] }

def shuntRun (tab : OpTable) : List Tok → ShState → Except ParseErr ShState
  | [], s => .ok s
  | t :: ts, s =>
    match shuntStep tab s t with
    | .error e => .error e
    | .ok s' => shuntRun tab ts s'

def finish : List Ast → List SEntry → Except ParseErr (List Ast)
  | out, [] => .ok out
  | _, .ctx _ _ :: _ => .error (.syntax "no matching context marker")
  | out, .op o i :: stk =>
    match operate o i out with
    | .ok out' => finish out' stk
    | .error e => .error e

/-- `tokens_to_ast(tokens, operator_resolver)` -/
def tokensToAst (tab : OpTable) (ts : List Tok) : Except ParseErr (Option Ast) :=
  match shuntRun tab ts {} with
  | .error e => .error e
  | .ok s =>
    match finish s.out s.stack with
    | .error e => .error e
    | .ok [] => .ok none
    | .ok [a] => .ok (some a)
    | .ok _ => .error (.syntax "missing operator")

end FormulaicVerif.Model
