import FormulaicVerif.Model.Contrasts
import FormulaicVerif.Gen.ContrastFormats
/-! # Reuse of a recorded `ModelSpec` on new data  (property C09)

Mirrors, as written, the path `ModelSpec.get_model_matrix(new_data)` →
`FormulaMaterializer.get_model_matrix(spec)` of `formulaic/materializers/base.py`:

* `_prepare_factor_evaluation_model_spec`  → `pooledFactors`, `prepareEvalSpec`
  (the FRESH pooled spec that `_evaluate_factor` is handed: exactly the fields it carries)
* `_evaluate_factor` (value, both kind guards, `_check_for_nulls`)        → `evalFactor`, `evalPhase`
* the `spec.structure` branch of `_build_model_matrix`, `ScopedTerm.rehydrate`,
  `_encode_evaled_factor` with the encoder state of the REAL spec, `encode_contrasts` with pinned
  levels and its `DataMismatchWarning` condition (`transforms/contrasts.py`),
  `_get_columns_for_term`                                                    → `encodeFactor`, `termColumns`
* the arguments of a `C(data, contrasts, levels=…)` call and what `encode_contrasts` /
  `Contrasts.apply` make of them on reuse: explicit `levels=`, `CustomContrasts.__init__` (dict /
  array / `names=`; its `ValueError`/`IndexError`), `_find_base_index`, the coding matrices of
  `contr.treatment/SAS/sum/helmert/diff/poly` (taken from `Model/Contrasts.lean`, property C11),
  `get_coding_column_names`, the name formats (generated table `Gen/ContrastFormats.lean`), the
  empty short-circuit and `dummies @ coding_matrix`                          → `Contr`, `customInit`, `codedColumns`
* `ModelSpec.get_model_matrix(data, **attr_overrides)`                       → `Overrides`, `replayWith`
* `_enforce_structure`                                                       → `enforceTerm`
* histories between fit and reuse — `ModelSpec.subset` (`model_spec.py`), one part of a
  `ModelSpecs` used alone, a pickle round trip                               → `subsetSpec`, `derive`, `replayDerived`

Python dictionaries are association lists: `dget` returns the FIRST match, `d.update(o)` is
`o ++ d` (so later updates win), `d[k] = v` on an insertion-ordered dict is `dictSet`.

What enters as data (parameters): for every column of the new frame its kind as classified by
`_is_categorical` (generated table `Gen/KindTable.lean`, C08), its cells and — for a `category`
dtype — its declared categories; the order in which the pooled `set` of factors is iterated.
The `1/sqrt(norms2)` normalisation of `contr.poly` (libm) enters as a table of normalised coding
matrices per level count (`Contr.poly … tables`); every other coding matrix is computed here.
Core Lean only. -/
namespace FormulaicVerif.Model.Reuse

/-! ### basic types -/

/-- `Factor.Kind` of evaluated values (`UNKNOWN` never survives `_evaluate_factor`) -/
inductive Kind | categorical | numerical | constant
deriving DecidableEq, Repr, Inhabited

/-- a non-null cell of a data column / a category level -/
inductive Val
  | num (q : Rat)
  | str (s : String)
  | bool (b : Bool)     -- a cell of a bool column: pandas never matches it with a numeric level
deriving DecidableEq, Repr

/-- a cell; `none` is a null (`None` / `NaN`) -/
abbrev Cell := Option Val

inductive NaAction | drop | raise | ignore
deriving DecidableEq, Repr

inductive Output | pandas | numpy | sparse | narwhals     -- `narwhals`: of the narwhals materializer only
deriving DecidableEq, Repr

/-- exception classes the modelled path can raise -/
inductive Err
  | factorEncoding     -- `FactorEncodingError`
  | factorEvaluation   -- `FactorEvaluationError` (a name is not in the data)
  | valueError         -- `ValueError` of `_check_for_nulls` under `na_action='raise'`; of `subset` for an unknown term
  | runtimeError       -- `RuntimeError("Provided ModelSpec instances are not consistent.")`
  | keyError           -- `factor_values[expr]` in `ScopedTerm.rehydrate`, `scoped_cols[col]`
  | typeError          -- `functools.reduce` of nothing; also the sentinel for a non-number cell in a
                       --   numerical column (NOT MODELLED: pandas passes such cells through)
  | indexError         -- `contrasts.shape[1]` of a one-axis array in `CustomContrasts.__init__`;
                       --   `self[context]` past the last part in `ModelSpecs.subset`
deriving DecidableEq, Repr

/-- first match of a key (a Python dict has one entry per key) -/
def dget {α} (k : String) : List (String × α) → Option α
  | [] => none
  | (k', v) :: r => if k' = k then some v else dget k r

/-- `d.update(other)` under first-match lookup: the entries of `other` take precedence -/
def dupdate {α} (d other : List (String × α)) : List (String × α) := other ++ d

/-- a `for` loop / comprehension whose body may raise: stops at the first exception -/
def mapE {α β} (f : α → Except Err β) : List α → Except Err (List β)
  | [] => .ok []
  | a :: r =>
    match f a with
    | .error e => .error e
    | .ok b =>
      match mapE f r with
      | .error e => .error e
      | .ok bs => .ok (b :: bs)

/-! ### the recorded spec -/

/-! ### the arguments of a `C(...)` call -/

/-- what is handed to `CustomContrasts.__init__(contrasts, names)` -/
structure CustomArg where
  isDict : Bool                  -- a `dict` key → weight vector over the levels, or an array (rows = levels)
  vectors : List (List Rat)      -- dict: the values in key order; array: the rows
  keys : List String             -- dict: the keys, printed with `str` (`[]` for an array)
  names : Option (List String)   -- the `names=` argument, printed
  viaCtor : Bool                 -- written `contr.custom(…)` inside the factor (the object is built while the
                                 --   factor is evaluated) or handed to `C` as is (built inside `encode_contrasts`)
deriving DecidableEq, Repr

/-- the `contrasts` argument of `C` / `encode_contrasts` -/
inductive Contr
  | default                                       -- `None`: `TreatmentContrasts()`
  | treatment (sas : Bool) (base : Option Val)    -- `contr.treatment(base)` / `contr.SAS(base)`; `none` = UNSET
  | sum
  | helmert (reverse scale : Bool)
  | diff (backward : Bool)
  | poly (scores : Option (List Rat)) (tables : List (Nat × List (List Rat)))
        -- `tables`: PARAMETER — for a level count `n` the coding matrix `poly(scores, degree=n-1)[:, 1:]`
        -- as the real code normalised it (column `k` divided by `sqrt(norms2[k])`)
  | custom (a : CustomArg)
deriving DecidableEq, Repr

/-- how a factor obtains its values -/
inductive Via
  | lookup              -- a bare name: `_lookup`
  | cwrap (c : Contr) (levels : Option (List Val))
                        -- `C(name, contrasts, levels=…)`: python evaluation, values marked categorical, with an encoder
  | literal (v : Rat)   -- a numeric literal: `ast.literal_eval`, kind CONSTANT
deriving DecidableEq, Repr

/-- `self.contrasts`, its number of columns and `self.contrast_names` after `CustomContrasts.__init__` -/
structure CustomM where
  rows : List (List Rat)          -- one row per level
  ncols : Nat                     -- `contrasts.shape[1]`
  names : Option (List String)    -- `contrast_names`
deriving DecidableEq, Repr

/-- `numpy.array(nested lists)` accepts rows of one common length only (else: ValueError, inhomogeneous shape) -/
def rectangular : List (List Rat) → Bool
  | [] => true
  | v :: r => r.all (fun w => w.length == v.length)

/-- `array.T` of `k` vectors of length `m`: `m` rows of `k` entries -/
def transposeRows (vs : List (List Rat)) (m : Nat) : List (List Rat) :=
  (List.range m).map (fun i => vs.filterMap (fun v => v[i]?))

/-- `CustomContrasts.__init__(contrasts, names)`:
`dict` → `names = names or list(dict)`, `contrasts = numpy.array([*dict.values()]).T`; otherwise
`numpy.array(contrasts)`; then `names is not None and len(names) != contrasts.shape[1]` → ValueError.
An empty dict gives a one-axis array, on which `contrasts.shape[1]` is an IndexError (so does an
empty array when `names` is given). -/
def customInit (a : CustomArg) : Except Err CustomM :=
  if !rectangular a.vectors then .error .valueError
  else if a.isDict then
    match a.vectors with
    | [] => .error .indexError
    | v :: _ =>
      let names := match a.names with | some ns => ns | none => a.keys
      if names.length ≠ a.vectors.length then .error .valueError
      else .ok ⟨transposeRows a.vectors v.length, a.vectors.length, some names⟩
  else
    match a.vectors, a.names with
    | [], some _ => .error .indexError
    | [], none => .ok ⟨[], 0, none⟩
    | v :: _, some ns => if ns.length ≠ v.length then .error .valueError else .ok ⟨a.vectors, v.length, some ns⟩
    | v :: _, none => .ok ⟨a.vectors, v.length, none⟩

/-- what evaluating the `contrasts` argument inside the factor can raise: `contr.custom(…)` runs
`CustomContrasts.__init__` during factor evaluation; a dict / array literal is only wrapped later, inside
`encode_contrasts`; the built-in classes take their options without looking at them -/
def ctorCheck : Contr → Except Err Unit
  | .custom a => if a.viaCtor then (match customInit a with | .error e => .error e | .ok _ => .ok ()) else .ok ()
  | _ => .ok ()

/-- a `Factor` of the formula -/
structure FactorDecl where
  expr : String             -- `factor.expr` (identity of the factor)
  via : Via
  column : String           -- the data column read (`expr` itself for a lookup)
  declared : Option Kind    -- `factor.kind`; `none` = UNKNOWN (what the parser produces)
deriving DecidableEq, Repr

/-- `encoder_state[expr] = (kind, state)`; of `state` only `state.get("categories")` is consulted -/
structure RecState where
  kind : Kind
  levels : Option (List Val)
deriving DecidableEq, Repr

structure ScopedFactor where
  expr : String
  reduced : Bool
deriving DecidableEq, Repr

structure ScopedTerm where
  factors : List ScopedFactor
  scale : Rat
deriving DecidableEq, Repr

/-- `EncodedTermStructure(term, scoped_terms, columns)` -/
structure TermStruct where
  scopedTerms : List ScopedTerm
  columns : List String
deriving DecidableEq, Repr

/-- the fields of a recorded `ModelSpec` that the reuse path reads -/
structure Spec where
  terms : List (List FactorDecl)                 -- `spec.formula`: each term is its factor list
  structure_ : List TermStruct                   -- `spec.structure`
  encoderState : List (String × RecState)        -- `spec.encoder_state`
  transformState : List (String × String)        -- `spec.transform_state` (opaque payload)
  naAction : NaAction
  ensureFullRank : Bool
  output : Output
deriving DecidableEq, Repr

/-- `spec.column_names` -/
def Spec.columnNames (s : Spec) : List String := s.structure_.flatMap (·.columns)

/-! ### `_prepare_factor_evaluation_model_spec` -/

/-- the spec `_evaluate_factor` is ACTUALLY given: `ModelSpec.from_spec([], ensure_full_rank=…,
na_action=…, output=…, transform_state=…, encoder_state=…)`: the three settings (which must agree
across the parts), and `transform_state` / `encoder_state` pooled over the parts with `dict.update`;
every other field has its dataclass default (`structure = None`, no formula terms).
(Before the repair of D10 the pooled spec carried `transform_state` only, `encoder_state = {}`.) -/
structure EvalSpec where
  ensureFullRank : Bool
  naAction : NaAction
  output : Output
  transformState : List (String × String)
  encoderState : List (String × RecState)
deriving Repr

/-- `set.update` keeps the element already present: de-duplicate by `expr`, first wins -/
def dedupFactors : List FactorDecl → List FactorDecl
  | [] => []
  | f :: r => f :: (dedupFactors r).filter (fun g => g.expr != f.expr)

/-- the pooled `factors` set (as a list without repeats; Python iterates it in hash order, which
is the parameter `order` of `replay`) -/
def pooledFactors (specs : List Spec) : List FactorDecl :=
  dedupFactors (specs.flatMap (fun s => s.terms.flatten))

def prepareEvalSpec (specs : List Spec) : Except Err EvalSpec :=
  match specs with
  | [] => .error .runtimeError     -- the three sets are empty: `len(output) != 1`
  | s :: rest =>
    if rest.all (fun t => t.output == s.output && t.naAction == s.naAction
                          && t.ensureFullRank == s.ensureFullRank) then
      .ok { ensureFullRank := s.ensureFullRank
            naAction := s.naAction
            output := s.output
            transformState := specs.foldl (fun acc t => dupdate acc t.transformState) []
            encoderState := specs.foldl (fun acc t => dupdate acc t.encoderState) [] }
    else .error .runtimeError

/-! ### the new data -/

/-- a column of the follow-up frame: `kind` is what `_is_categorical` says about its dtype -/
structure NewCol where
  kind : Kind
  cells : List Cell
  cats : Option (List Val) := none   -- declared categories of a `category` dtype column
deriving DecidableEq, Repr

structure Frame where
  nrows : Nat
  cols : List (String × NewCol)
deriving Repr

/-! ### `_evaluate_factor` -/

/-- an entry of `factor_cache` -/
structure Evaled where
  decl : FactorDecl
  kind : Kind          -- `values.__formulaic_metadata__.kind` after both guards
  cells : List Cell    -- the values (`[]` for a constant)
  cats : Option (List Val) := none   -- declared categories when the values have `category` dtype
deriving DecidableEq, Repr

/-- the evaluated value and its kind before the guards (`UNKNOWN` resolved by `_is_categorical`) -/
def evalValue (fr : Frame) (d : FactorDecl) : Except Err (Kind × NewCol) :=
  match d.via with
  | .literal _ => .ok (.constant, ⟨.constant, [], none⟩)
  | .lookup =>
    match dget d.column fr.cols with
    | none => .error .factorEvaluation          -- NameError wrapped into FactorEvaluationError
    | some c => .ok (c.kind, c)
  | .cwrap c _ =>
    match ctorCheck c with
    | .error _ => .error .factorEvaluation      -- any exception of the evaluation is wrapped
    | .ok () =>
      match dget d.column fr.cols with
      | none => .error .factorEvaluation
      | some col => .ok (.categorical, col)     -- `C()` returns FactorValues(kind="categorical")

/-- first guard: `factor.kind is not UNKNOWN and factor.kind is not value.kind` →
a declared CATEGORICAL overrides, anything else raises -/
def guardDeclared (declared : Option Kind) (k : Kind) : Except Err Kind :=
  match declared with
  | none => .ok k
  | some dk =>
    if dk = k then .ok k
    else if dk = .categorical then .ok .categorical
    else .error .factorEncoding

/-- second guard: `factor.expr in spec.encoder_state and value.kind is not spec.encoder_state[expr][0]`
— evaluated against the POOLED evaluation spec -/
def guardRecorded (es : EvalSpec) (expr : String) (k : Kind) : Except Err Unit :=
  match dget expr es.encoderState with
  | none => .ok ()
  | some r => if k = r.kind then .ok () else .error .factorEncoding

/-- the kind the factor's values have on the new data (after the declared-kind override) -/
def newKind (fr : Frame) (d : FactorDecl) : Except Err Kind :=
  match evalValue fr d with
  | .error e => .error e
  | .ok (k, _) => guardDeclared d.declared k

/-- positions of null cells -/
def nullPositionsFrom : Nat → List Cell → List Nat
  | _, [] => []
  | i, none :: r => i :: nullPositionsFrom (i + 1) r
  | i, some _ :: r => nullPositionsFrom (i + 1) r

/-- `_check_for_nulls` -/
def checkNulls (na : NaAction) (cells : List Cell) (drop : List Nat) : Except Err (List Nat) :=
  match na with
  | .ignore => .ok drop
  | .raise => if (nullPositionsFrom 0 cells).isEmpty then .ok drop else .error .valueError
  | .drop => .ok (drop ++ nullPositionsFrom 0 cells)

def evalFactor (es : EvalSpec) (fr : Frame) (d : FactorDecl) (drop : List Nat) :
    Except Err (Evaled × List Nat) :=
  match evalValue fr d with
  | .error e => .error e
  | .ok (k0, col) =>
    match guardDeclared d.declared k0 with
    | .error e => .error e
    | .ok k =>
      match guardRecorded es d.expr k with
      | .error e => .error e
      | .ok () =>
        match checkNulls es.naAction col.cells drop with
        | .error e => .error e
        | .ok drop' => .ok (⟨d, k, col.cells, col.cats⟩, drop')

abbrev Cache := List (String × Evaled)

/-- Step 1 of `get_model_matrix`: `for factor in factors: self._evaluate_factor(…)`; a factor whose
expression is already a key of `factor_cache` is NOT evaluated again (`if factor.expr not in
self.factor_cache`) — neither guard runs for it -/
def evalPhase (es : EvalSpec) (fr : Frame) : List FactorDecl → Cache → List Nat → Except Err (Cache × List Nat)
  | [], cache, drop => .ok (cache, drop)
  | d :: r, cache, drop =>
    match dget d.expr cache with
    | some _ => evalPhase es fr r cache drop
    | none =>
      match evalFactor es fr d drop with
      | .error e => .error e
      | .ok (ev, drop') => evalPhase es fr r (cache ++ [(d.expr, ev)]) drop'

/-- the pooled factors in the order Python iterates the set -/
def orderedFactors (specs : List Spec) (order : List String) : List FactorDecl :=
  order.filterMap (fun e => (pooledFactors specs).find? (fun d => d.expr == e))

/-! ### encoding -/

/-- a named column; a value `none` is NaN -/
structure EncCol where
  name : String
  vals : List (Option Rat)
deriving DecidableEq, Repr

def dropAux {α} (drop : List Nat) : Nat → List α → List α
  | _, [] => []
  | i, x :: xs => if drop.contains i then dropAux drop (i + 1) xs else x :: dropAux drop (i + 1) xs

/-- remove the rows whose position is in `drop_rows` -/
def dropRows {α} (drop : List Nat) (xs : List α) : List α := dropAux drop 0 xs

/-- `self.nrows - len(drop_rows)` (`drop_rows` is the sorted list of a set) -/
def nRetained (fr : Frame) (drop : List Nat) : Nat := fr.nrows - drop.eraseDups.length

/-- `str(level)` inside the column-name template (integers print without a fraction) -/
def Val.render : Val → String
  | .str s => s
  | .num q => if q.den = 1 then toString q.num else toString q.num ++ "/" ++ toString q.den
  | .bool b => if b then "True" else "False"

/-- class of the contrast object `encode_contrasts` works with (key of the generated format table) -/
def Contr.cls : Contr → String
  | .default => "TreatmentContrasts"
  | .treatment false _ => "TreatmentContrasts"
  | .treatment true _ => "SASContrasts"
  | .sum => "SumContrasts"
  | .helmert _ _ => "HelmertContrasts"
  | .diff _ => "DiffContrasts"
  | .poly _ _ => "PolyContrasts"
  | .custom _ => "CustomContrasts"

/-- `get_factor_format(levels, reduced_rank)`: `FACTOR_FORMAT_REDUCED if reduced_rank else FACTOR_FORMAT`,
read from the GENERATED table of the live classes (`Contrasts.FACTOR_FORMAT` for an unknown class) -/
def formatOf (cls : String) (reduced : Bool) : FormulaicVerif.Gen.NameFormat :=
  match FormulaicVerif.Gen.contrastFormats.find? (fun r => r.cls == cls) with
  | some r => if reduced then r.reduced else r.full
  | none => ⟨"", "[", "]"⟩

/-- `fmt.format(name=name, field=field)` -/
def renderName (f : FormulaicVerif.Gen.NameFormat) (name field : String) : String :=
  f.pre ++ name ++ f.mid ++ field ++ f.post

/-- the name of one encoded column of factor `expr` under contrast `c` -/
def fieldName (c : Contr) (expr : String) (reduced : Bool) (field : String) : String :=
  renderName (formatOf c.cls reduced) expr field

/-- `"{name}[{field}]"` / `"{name}[T.{field}]"` (treatment coding, the default contrasts) -/
def levelName (expr : String) (reduced : Bool) (l : Val) : String :=
  fieldName .default expr reduced l.render

/-- one dummy column -/
def indicator (l : Val) (c : Cell) : Option Rat := if c = some l then some 1 else some 0

/-- `set(pandas.unique(data)).difference(levels)` is non-empty (a null is never a level) -/
def hasUnseen (levels : List Val) (cells : List Cell) : Bool :=
  cells.any (fun c => match c with | none => true | some v => !levels.contains v)

def Val.lt : Val → Val → Bool
  | .num a, .num b => decide (a < b)
  | .str a, .str b => decide (a < b)
  | .bool a, .bool b => !a && b
  | .bool _, _ => true
  | _, .bool _ => false
  | .num _, .str _ => true
  | .str _, .num _ => false

def insertLevel (v : Val) : List Val → List Val
  | [] => [v]
  | x :: r => if v = x then x :: r else if Val.lt v x then v :: x :: r else x :: insertLevel v r

/-- `pandas.Series(data).astype("category").cat.categories`: the declared categories of a
`category` dtype column, else the sorted distinct non-null values (homogeneous columns only;
pandas' sort is a parameter validated by the correspondence) -/
def freshLevels (cats : Option (List Val)) (cells : List Cell) : List Val :=
  match cats with
  | some cs => cs
  | none => cells.foldl (fun acc c => match c with | none => acc | some v => insertLevel v acc) []

def hasDupVal : List Val → Bool
  | [] => false
  | l :: ls => ls.contains l || hasDupVal ls

/-- the levels `encode_contrasts` uses and whether it warns: nominated levels go through
`pandas.Categorical(data, categories=levels)` (ValueError when they are not unique) and everything
that is not recoded is reported; without nominated levels the data decide -/
def pinnedLevels (pinned : Option (List Val)) (cats : Option (List Val)) (cells : List Cell) :
    Except Err (List Val × Bool) :=
  match pinned with
  | some ls => if hasDupVal ls then .error .valueError else .ok (ls, hasUnseen ls cells)
  | none => .ok (freshLevels cats cells, false)

/-- dummy coding of retained cells against `levels`; the reduced-rank form drops the first level
(both for the `_encode_categorical` path — full dummies, then `del encoded[drop_field]` — and for
the `C()` encoder with `reduced_rank=True`; an empty level list, or one level under reduced rank,
gives no column: the short-circuit of `Contrasts.apply`) -/
def dummyColumns (expr : String) (reduced : Bool) (levels : List Val) (cells : List Cell) : List EncCol :=
  (if reduced then levels.drop 1 else levels).map
    (fun l => ⟨levelName expr reduced l, cells.map (indicator l)⟩)

/-- a numerical cell as a number -/
def numCell : Cell → Except Err (Option Rat)
  | none => .ok none
  | some (.num q) => .ok (some q)
  | some (.bool b) => .ok (some (if b then 1 else 0))
  | some (.str _) => .error .typeError

/-! ### `Contrasts.apply` for an arbitrary contrast -/

/-- "Short-circuit when we know the output encoding will be empty" -/
def shortCircuit (L : List Val) (reduced : Bool) : Bool := L.isEmpty || (L.length == 1 && reduced)

def indexOfVal (b : Val) : List Val → Option Nat
  | [] => none
  | l :: ls => if l = b then some 0 else (indexOfVal b ls).map (· + 1)

/-- `_find_base_index`: 0 (treatment) / `len(levels) - 1` (SAS) when `base` is UNSET, else
`levels.index(base)` with its ValueError -/
def findBase (sas : Bool) (base : Option Val) (L : List Val) : Except Err Nat :=
  match base with
  | none => .ok (if sas then L.length - 1 else 0)
  | some b =>
    match indexOfVal b L with
    | some i => .ok i
    | none => .error .valueError

/-- `numpy.eye(n)` as rows -/
def eyeRows (n : Nat) : List (List Rat) := Contrasts.toRows Contrasts.eye n n

/-- `_get_coding_matrix(levels, reduced_rank)`, one row per level. The built-in matrices are the
entry functions of `Model/Contrasts.lean` (C11 proves them equal to the textbook codings); the
polynomial one is looked up in the parameter table after the cardinality check of the scores (the
unnormalised three-term recurrence stands in when the table has no entry for this level count);
a custom contrast returns its array whatever the levels. -/
def codingMatrix (c : Contr) (L : List Val) (reduced : Bool) : Except Err (List (List Rat)) :=
  let n := L.length
  match c with
  | .custom a =>
    match customInit a with
    | .error e => .error e
    | .ok m => .ok m.rows
  | .default => .ok (if reduced then Contrasts.toRows (Contrasts.coding (.treatment 0) n) n (n - 1) else eyeRows n)
  | .treatment sas base =>
    if reduced then
      match findBase sas base L with
      | .error e => .error e
      | .ok i => .ok (Contrasts.toRows (Contrasts.coding (.treatment i) n) n (n - 1))
    else .ok (eyeRows n)
  | .sum => .ok (if reduced then Contrasts.toRows (Contrasts.coding .sum n) n (n - 1) else eyeRows n)
  | .helmert r sc => .ok (if reduced then Contrasts.toRows (Contrasts.coding (.helmert r sc) n) n (n - 1) else eyeRows n)
  | .diff b => .ok (if reduced then Contrasts.toRows (Contrasts.coding (.diff b) n) n (n - 1) else eyeRows n)
  | .poly scores tables =>
    if reduced then
      match Contrasts.polyScores scores n with
      | .error _ => .error .valueError
      | .ok sc =>
        match tables.find? (fun t => t.1 == n) with
        | some t => .ok t.2
        | none =>
          let cols := (Contrasts.polyTable sc (n - 1)).drop 1
          .ok ((List.range n).map (fun i => cols.map (fun col => Contrasts.listFn col i)))
    else .ok (eyeRows n)

/-- `.L`, `.Q`, `.C`, then `^d` (generated `NAME_ALIASES`) -/
def polyFieldName (d : Nat) : String :=
  match FormulaicVerif.Gen.polyNameAliases.find? (fun p => p.1 == d) with
  | some p => p.2
  | none => "^" ++ toString d

/-- `get_coding_column_names(levels, reduced_rank)`, printed (they are substituted for `{field}`) -/
def codingFields (c : Contr) (L : List Val) (reduced : Bool) : Except Err (List String) :=
  match c with
  | .default => .ok ((if reduced then L.drop 1 else L).map Val.render)
  | .treatment sas base =>
    match findBase sas base L with      -- evaluated for the full-rank names as well
    | .error e => .error e
    | .ok i => .ok ((if reduced then L.eraseIdx i else L).map Val.render)
  | .sum => .ok ((if reduced then L.dropLast else L).map Val.render)
  | .helmert r _ => .ok ((if reduced then (if r then L.drop 1 else L.dropLast) else L).map Val.render)
  | .diff b => .ok ((if reduced then (if b then L.drop 1 else L.dropLast) else L).map Val.render)
  | .poly _ _ =>
    .ok (if reduced then (List.range (L.length - 1)).map (fun d => polyFieldName (d + 1)) else L.map Val.render)
  | .custom a =>
    match customInit a with
    | .error e => .error e
    | .ok m =>
      match m.names with
      | some (x :: xs) => .ok (x :: xs)                                     -- `if self.contrast_names:`
      | _ => .ok ((List.range m.ncols).map (fun j => toString (j + 1)))

/-- one row of `pandas.get_dummies(Categorical(data, categories=levels))`: a cell that is not a level
(an unseen value, a null) is the zero row -/
def indRow (L : List Val) (c : Cell) : List Rat := L.map (fun l => if c = some l then 1 else 0)

/-- entry `j` of the row `dummies[r, :] @ coding_matrix` -/
def codedCell (L : List Val) (M : List (List Rat)) (j : Nat) (c : Cell) : Option Rat :=
  some (Contrasts.dot (indRow L c) (Contrasts.column M j))

/-- the encoded columns, one per coding column name -/
def matrixColsFrom (mk : String → String) (cellsOf : Nat → List (Option Rat)) : Nat → List String → List EncCol
  | _, [] => []
  | j, f :: r => ⟨mk f, cellsOf j⟩ :: matrixColsFrom mk cellsOf (j + 1) r

/-- `Contrasts.apply(dummies, levels, reduced_rank)` after the dummy coding of `cells` against
`levels`, flattened with the factor's name format:
* default / treatment / SAS: the `_apply` fast path — the dummy columns, minus the base level's;
* every other contrast: `dummies @ coding_matrix` (ValueError when the matrix does not have one row
  per level), named by `get_coding_column_names`;
* no column at all for no level, or for one level under reduced rank. -/
def codedColumns (expr : String) (c : Contr) (reduced : Bool) (L : List Val) (cells : List Cell) :
    Except Err (List EncCol) :=
  match c with
  | .default => .ok (dummyColumns expr reduced L cells)
  | .treatment sas base =>
    if shortCircuit L reduced then .ok []
    else
      match findBase sas base L with
      | .error e => .error e
      | .ok i => .ok ((if reduced then L.eraseIdx i else L).map
          (fun l => ⟨fieldName c expr reduced l.render, cells.map (indicator l)⟩))
  | _ =>
    if shortCircuit L reduced then .ok []
    else
      match codingMatrix c L reduced with
      | .error e => .error e
      | .ok M =>
        if M.length ≠ L.length then .error .valueError
        else
          match codingFields c L reduced with
          | .error e => .error e
          | .ok fields =>
            .ok (matrixColsFrom (fieldName c expr reduced) (fun j => cells.map (codedCell L M j)) 0 fields)

/-- the `contrasts` and `levels` arguments `encode_contrasts` receives: those of the `C(…)` call; a bare
categorical column goes through `_encode_categorical` with neither -/
def callArgs (d : FactorDecl) : Contr × Option (List Val) :=
  match d.via with
  | .cwrap c ls => (c, ls)
  | _ => (.default, none)

/-- `levels if levels is not None else _state.get("categories")`, `_state` being
`spec.encoder_state.get(expr, [None, {}])[1]` of the REAL spec -/
def nominatedLevels (s : Spec) (d : FactorDecl) : Option (List Val) :=
  match (callArgs d).2 with
  | some ls => some ls
  | none => (dget d.expr s.encoderState).bind (·.levels)

/-- `CustomContrasts(contrasts)` for a dict / array handed to `C` (first thing `encode_contrasts` does) -/
def contrInit : Contr → Except Err Unit
  | .custom a =>
    match customInit a with
    | .error e => .error e
    | .ok _ => .ok ()
  | _ => .ok ()

/-- the encoder of `C(…)` hands `encode_contrasts` no `output`, so `Contrasts.apply` sees the spec's own;
its empty short-circuit is "only implemented for output types: 'pandas', 'numpy' or 'sparse'" and
raises ValueError for `narwhals` (a bare categorical column goes through `_encode_categorical`, which
asks for `pandas` instead) -/
def encoderShortCircuitFails (_out : Output) (_via : Via) (_L : List Val) (_reduced : Bool) : Bool :=
  -- since repair 31b1146 the empty encoding is built for `narwhals` as for `pandas`: no failing combination is left
  false

/-- `_encode_evaled_factor(factor, spec, drop_rows, reduced_rank)` followed by
`_flatten_encoded_evaled_factor`: the columns and whether a `DataMismatchWarning` was issued.
The encoder state is read from the REAL spec: `spec.encoder_state.get(expr, [None, {}])[1]`. -/
def encodeFactor (s : Spec) (fr : Frame) (drop : List Nat) (ev : Evaled) (reduced : Bool) :
    Except Err (List EncCol × Bool) :=
  match ev.kind with
  | .categorical =>
    let cells := dropRows drop ev.cells
    match contrInit (callArgs ev.decl).1 with
    | .error e => .error e
    | .ok () =>
      match pinnedLevels (nominatedLevels s ev.decl) ev.cats cells with
      | .error e => .error e
      | .ok lw =>
        if encoderShortCircuitFails s.output ev.decl.via lw.1 reduced then .error .valueError
        else
          match codedColumns ev.decl.expr (callArgs ev.decl).1 reduced lw.1 cells with
          | .error e => .error e
          | .ok cols => .ok (cols, lw.2)
  | .numerical =>
    match mapE numCell (dropRows drop ev.cells) with
    | .error e => .error e
    | .ok vs => .ok ([⟨ev.decl.expr, vs⟩], false)
  | .constant =>
    match ev.decl.via with
    | .literal v => .ok ([⟨ev.decl.expr, List.replicate (nRetained fr drop) (some v)⟩], false)
    | _ => .error .typeError

/-! ### `_get_columns_for_term` -/

/-- `itertools.product(*xss)`: the LAST iterable varies fastest -/
def iproduct {α} : List (List α) → List (List α)
  | [] => [[]]
  | xs :: rest => xs.flatMap (fun x => (iproduct rest).map (x :: ·))

/-- NaN-propagating product -/
def mulCell (a b : Option Rat) : Option Rat :=
  match a, b with
  | some x, some y => some (x * y)
  | _, _ => none

def mulCol (a b : List (Option Rat)) : List (Option Rat) := List.zipWith mulCell a b
def smulCol (s : Rat) (a : List (Option Rat)) : List (Option Rat) := a.map (fun x => x.map (s * ·))

/-- `functools.reduce(operator.mul, cols)` (no initial value) -/
def reduceMul : List (List (Option Rat)) → Except Err (List (Option Rat))
  | [] => .error .typeError
  | c :: cs => .ok (cs.foldl mulCol c)

/-- `d[k] = v` on an insertion-ordered dict -/
def dictSet (d : List EncCol) (e : EncCol) : List EncCol :=
  match d with
  | [] => [e]
  | x :: r => if x.name = e.name then e :: r else x :: dictSet r e

def dictUpdate (d new : List EncCol) : List EncCol := new.foldl dictSet d

def joinColon (xs : List String) : String := String.intercalate ":" xs

/-- one entry of the loop: `product = reverse_product[::-1]`, name and scaled product -/
def productEntry (scale : Rat) (rp : List EncCol) : Except Err EncCol :=
  let p := rp.reverse
  match reduceMul (p.map (·.vals)) with
  | .error e => .error e
  | .ok v => .ok ⟨joinColon (p.map (·.name)), smulCol scale v⟩

/-- the columns before they are collected into the `out` dict, in generation order -/
def rawProducts (factors : List (List EncCol)) (scale : Rat) : Except Err (List EncCol) :=
  mapE (productEntry scale) (iproduct factors.reverse)

/-- `_get_columns_for_term(factors, spec, scale)` (base-class semantics; the pandas fast path is
observably the same unless two factors share an encoded column name — C02 `fastpath_eq_base`) -/
def productColumns (factors : List (List EncCol)) (scale : Rat) : Except Err (List EncCol) :=
  match rawProducts factors scale with
  | .error e => .error e
  | .ok raw => .ok (dictUpdate [] raw)

/-! ### the `spec.structure` branch of `_build_model_matrix` -/

/-- `ScopedTerm.__init__`: `tuple(dict.fromkeys(factors))` (a `ScopedFactor` is identified by its
factor and its `reduced` flag) -/
def dedupScoped : List ScopedFactor → List ScopedFactor
  | [] => []
  | f :: r => f :: (dedupScoped r).filter (fun g => g != f)

/-- `ScopedTerm.rehydrate(factor_cache)`: `factor_values[factor.factor.expr]` may raise KeyError -/
def rehydrate (cache : Cache) (st : ScopedTerm) : Except Err (List (Evaled × Bool)) :=
  mapE (fun sf =>
    match dget sf.expr cache with
    | none => .error .keyError
    | some ev => .ok (ev, sf.reduced)) (dedupScoped st.factors)

/-- encode every scoped factor of one scoped term: the encodings and the warning flag -/
def encodeAll (s : Spec) (fr : Frame) (drop : List Nat) :
    List (Evaled × Bool) → Except Err (List (List EncCol) × Bool)
  | [] => .ok ([], false)
  | (ev, red) :: r =>
    match encodeFactor s fr drop ev red with
    | .error e => .error e
    | .ok (cols, w) =>
      match encodeAll s fr drop r with
      | .error e => .error e
      | .ok (rest, w') => .ok (cols :: rest, w || w')

/-- the body of the `for scoped_term in scoped_terms` loop: the columns this scoped term adds -/
def scopedTermColumns (s : Spec) (fr : Frame) (drop : List Nat) (scale : Rat)
    (fs : List (Evaled × Bool)) : Except Err (List EncCol × Bool) :=
  match fs with
  | [] => .ok ([⟨"Intercept", List.replicate (nRetained fr drop) (some scale)⟩], false)
  | _ =>
    match encodeAll s fr drop fs with
    | .error e => .error e
    | .ok (encs, w) =>
      match productColumns encs scale with
      | .error e => .error e
      | .ok cols => .ok (cols, w)

/-- `scoped_cols` of one term (Step 2), accumulating with `dict.update` -/
def termLoop (s : Spec) (fr : Frame) (drop : List Nat) :
    List (Rat × List (Evaled × Bool)) → List EncCol → Bool → Except Err (List EncCol × Bool)
  | [], acc, w => .ok (acc, w)
  | (scale, fs) :: r, acc, w =>
    match scopedTermColumns s fr drop scale fs with
    | .error e => .error e
    | .ok (cols, w') => termLoop s fr drop r (dictUpdate acc cols) (w || w')

/-- one term of the recorded structure: rehydrate all its scoped terms, then generate columns -/
def termColumns (s : Spec) (fr : Frame) (drop : List Nat) (cache : Cache) (t : TermStruct) :
    Except Err (List EncCol × Bool) :=
  match mapE (fun st => match rehydrate cache st with
                        | .error e => .error e
                        | .ok fs => .ok (st.scale, fs)) t.scopedTerms with
  | .error e => .error e
  | .ok sts => termLoop s fr drop sts [] false

/-! ### `_enforce_structure` -/

/-- which branch of `_enforce_structure` a term went through -/
inductive Branch
  | exact        -- same number of columns and the same set of names
  | zeroFill     -- 0 generated columns: a zero column under every target name
  | broadcast    -- 1 generated column copied under every target name
deriving DecidableEq, Repr

def sameNameSet (a b : List String) : Bool := a.all (b.contains ·) && b.all (a.contains ·)

/-- `{col: scoped_cols[col] for col in target_cols}` -/
def pickColumns (sc : List EncCol) : List String → List EncCol → Except Err (List EncCol)
  | [], acc => .ok acc
  | c :: r, acc =>
    match sc.find? (fun e => e.name == c) with
    | none => .error .keyError
    | some e => pickColumns sc r (dictSet acc ⟨c, e.vals⟩)

/-- the loop body of `_enforce_structure` for one term: `gen` are the generated `scoped_cols`,
`target` the recorded `structure[i].columns`, `zero` is `_encode_constant(0, …)` -/
def enforceTerm (zero : List (Option Rat)) (gen : List EncCol) (target : List String) :
    Except Err (Branch × List EncCol) :=
  if gen.length > target.length then .error .factorEncoding
  else
    let adjusted : Except Err (Branch × List EncCol) :=
      if gen.length < target.length then
        match gen with
        | [] => .ok (.zeroFill, dictUpdate [] (target.map (fun n => ⟨n, zero⟩)))
        | [c] => .ok (.broadcast, dictUpdate [] (target.map (fun n => ⟨n, c.vals⟩)))
        | _ => .error .factorEncoding
      else if !sameNameSet (gen.map (·.name)) target then .error .factorEncoding
      else .ok (.exact, gen)
    match adjusted with
    | .error e => .error e
    | .ok (b, sc) =>
      match pickColumns sc target [] with
      | .error e => .error e
      | .ok cols => .ok (b, cols)

/-! ### the whole replay -/

/-- the outcome for one `ModelSpec`: final columns in order, the warning flag, the branch of
`_enforce_structure` per term, and the generated column names per term (before enforcement) -/
structure Result where
  cols : List EncCol
  warn : Bool
  branches : List Branch
  generated : List (List String)
deriving DecidableEq, Repr

def Result.names (r : Result) : List String := r.cols.map (·.name)

/-- Step 2 for every term of the structure (all terms are generated before `_enforce_structure`
runs) -/
def generateAll (s : Spec) (fr : Frame) (drop : List Nat) (cache : Cache) :
    List TermStruct → Except Err (List (List EncCol × List String) × Bool)
  | [] => .ok ([], false)
  | t :: r =>
    match termColumns s fr drop cache t with
    | .error e => .error e
    | .ok (cols, w) =>
      match generateAll s fr drop cache r with
      | .error e => .error e
      | .ok (rest, w') => .ok ((cols, t.columns) :: rest, w || w')

def enforceAll (zero : List (Option Rat)) :
    List (List EncCol × List String) → Except Err (List (Branch × List EncCol))
  | [] => .ok []
  | (gen, target) :: r =>
    match enforceTerm zero gen target with
    | .error e => .error e
    | .ok x =>
      match enforceAll zero r with
      | .error e => .error e
      | .ok xs => .ok (x :: xs)

/-- `_build_model_matrix(spec, drop_rows)` for a spec with a recorded structure -/
def buildMatrix (s : Spec) (fr : Frame) (drop : List Nat) (cache : Cache) : Except Err Result :=
  match generateAll s fr drop cache s.structure_ with
  | .error e => .error e
  | .ok (gens, w) =>
    match enforceAll (List.replicate (nRetained fr drop) (some 0)) gens with
    | .error e => .error e
    | .ok fin =>
      -- (until repair 231efbe the narwhals materializer could not return a matrix with no column at all
      -- as `output='narwhals'`: `nw.from_native(numpy.empty((n, 0)))` raised TypeError; now an empty frame)
      .ok { cols := fin.flatMap (·.2)
            warn := w
            branches := fin.map (·.1)
            generated := gens.map (fun g => g.1.map (·.name)) }

def buildAll (fr : Frame) (drop : List Nat) (cache : Cache) : List Spec → Except Err (List Result)
  | [] => .ok []
  | s :: r =>
    match buildMatrix s fr drop cache with
    | .error e => .error e
    | .ok m =>
      match buildAll fr drop cache r with
      | .error e => .error e
      | .ok ms => .ok (m :: ms)

/-- the state a materializer OBJECT carries from one `get_model_matrix` call to the next (the object
is built for one data set): its `factor_cache` (the encoded caches are not modelled) -/
structure MatState where
  factorCache : Cache
deriving Repr

/-- `materializer.get_model_matrix(specs)` on recorded specs, on a materializer object in state `m`:
FIRST `self.factor_cache = {}` (the caches are valid within one call only), then the pooled
evaluation spec, factor evaluation in the set's iteration order `order`, then one matrix per spec.
Returns the state the object is left in (also when the call fails after the evaluation phase).
(The `encoded_cache` shared between the parts of a multi-part spec is not modelled: it is
unobservable unless two parts record different encoder state for the same factor.) -/
def getModelMatrix (_m : MatState) (specs : List Spec) (fr : Frame) (order : List String) :
    MatState × Except Err (List Result) :=
  let cache0 : Cache := []                                  -- `self.factor_cache = {}`
  match prepareEvalSpec specs with
  | .error e => (⟨cache0⟩, .error e)
  | .ok es =>
    match evalPhase es fr (orderedFactors specs order) cache0 [] with
    | .error e => (⟨cache0⟩, .error e)                      -- (entries made before the failure are not tracked)
    | .ok (cache, drop) => (⟨cache⟩, buildAll fr drop cache specs)

/-- the same call WITHOUT the reset (the behaviour the reset exists to prevent; used only as a
negative witness in `Props/C09.lean`) -/
def getModelMatrixNoReset (m : MatState) (specs : List Spec) (fr : Frame) (order : List String) :
    Except Err (List Result) :=
  match prepareEvalSpec specs with
  | .error e => .error e
  | .ok es =>
    match evalPhase es fr (orderedFactors specs order) m.factorCache [] with
    | .error e => .error e
    | .ok (cache, drop) => buildAll fr drop cache specs

/-- `spec.get_model_matrix(data)`: a NEW materializer for the data, then `get_model_matrix(spec)` -/
def replay (specs : List Spec) (fr : Frame) (order : List String) : Except Err (List Result) :=
  match prepareEvalSpec specs with
  | .error e => .error e
  | .ok es =>
    match evalPhase es fr (orderedFactors specs order) [] [] with
    | .error e => .error e
    | .ok (cache, drop) => buildAll fr drop cache specs

/-! ### what an application leaves behind in the caller's spec

`_prepare_model_specs` works on a copy of the `encoder_state` dictionary, but the per-factor state
dictionaries inside it are shared with the caller's spec, and `encode_contrasts` ends with
`_state["categories"] = categories`. -/

/-- the categories `encode_contrasts` writes back for an evaluated factor (`none`: not categorical, or
the encoding fails before the write) -/
def levelsUsed (s : Spec) (drop : List Nat) (ev : Evaled) : Option (List Val) :=
  match ev.kind with
  | .categorical =>
    match contrInit (callArgs ev.decl).1 with
    | .error _ => none
    | .ok () =>
      match pinnedLevels (nominatedLevels s ev.decl) ev.cats (dropRows drop ev.cells) with
      | .error _ => none
      | .ok lw => some lw.1
  | _ => none

/-- `_state["categories"] = L` on the state dictionary the spec holds for `expr` (a factor without an
entry gets a fresh dictionary that the caller's spec never sees) -/
def writeBack (enc : List (String × RecState)) (expr : String) (L : List Val) : List (String × RecState) :=
  enc.map (fun kr => if kr.1 = expr then (kr.1, { kr.2 with levels := some L }) else kr)

/-- the scoped factors of the recorded structure: each is encoded against the spec's own state -/
def encodedFactors (s : Spec) : List ScopedFactor :=
  s.structure_.flatMap (fun t => t.scopedTerms.flatMap (fun st => st.factors))

/-- what encoding one scoped factor does to the state dictionaries the caller's spec holds -/
def writeStep (s : Spec) (drop : List Nat) (cache : Cache) (enc : List (String × RecState)) (sf : ScopedFactor) :
    List (String × RecState) :=
  match dget sf.expr cache with
  | none => enc
  | some ev =>
    match levelsUsed s drop ev with
    | none => enc
    | some L => writeBack enc sf.expr L

/-- the caller's spec after a SUCCESSFUL application. (Every factor is encoded against the spec as it
was handed over: NOT MODELLED is that, within one application, a second encoding of a factor without
recorded categories — the other rank — already sees what the first one wrote, and therefore reports a
retained null as unmatched.) -/
def specAfter (s : Spec) (drop : List Nat) (cache : Cache) : Spec :=
  { s with encoderState := (encodedFactors s).foldl (writeStep s drop cache) s.encoderState }

/-- `replay`, together with the specs as the application leaves them -/
def replayState (specs : List Spec) (fr : Frame) (order : List String) :
    Except Err (List Result × List Spec) :=
  match prepareEvalSpec specs with
  | .error e => .error e
  | .ok es =>
    match evalPhase es fr (orderedFactors specs order) [] [] with
    | .error e => .error e
    | .ok (cache, drop) =>
      match buildAll fr drop cache specs with
      | .error e => .error e
      | .ok rs => .ok (rs, specs.map (fun s => specAfter s drop cache))

/-- a session: one recorded spec list applied to several data sets in turn, each application
starting from the specs as the previous one left them (a failed application leaves them as they were:
NOT MODELLED — a failure after some factors were encoded may have written their categories) -/
def session (specs : List Spec) : List (Frame × List String) → List (Except Err (List Result))
  | [] => []
  | (fr, order) :: rest =>
    match replayState specs fr order with
    | .error e => .error e :: session specs rest
    | .ok (rs, specs') => .ok rs :: session specs' rest

/-! ### `get_model_matrix(data, **attr_overrides)` -/

/-- the overrides of the reuse call: `self.update(**attr_overrides)` on every spec before anything else -/
structure Overrides where
  naAction : Option NaAction := none
  output : Option Output := none
  ensureFullRank : Option Bool := none
deriving DecidableEq, Repr

def Overrides.apply (o : Overrides) (s : Spec) : Spec :=
  { s with
    naAction := match o.naAction with
      | some v => v
      | none => s.naAction
    output := match o.output with
      | some v => v
      | none => s.output
    ensureFullRank := match o.ensureFullRank with
      | some v => v
      | none => s.ensureFullRank }

def replayWith (o : Overrides) (specs : List Spec) (fr : Frame) (order : List String) :
    Except Err (List Result) :=
  replay (specs.map o.apply) fr order

/-! ### histories between the fit and the reuse: specs DERIVED from a recorded spec

A recorded spec is rarely reused verbatim only: one part of a multi-part spec is used on its own
(`mm[1].model_spec`, `specs.rhs`), a spec is restricted to some of its terms with
`ModelSpec.subset(terms)`, or it is stored and loaded again (pickle). Each derivation must hand
the reuse path the state recorded at fit time. -/

/-- `Term.degree`: literal factors do not count -/
def termDegree (t : List FactorDecl) : Nat :=
  (t.filter (fun d => match d.via with | .literal _ => false | _ => true)).length

/-- insertion by degree, BEFORE the entries of equal degree: `sortByDegree` inserts from the right,
so the result is the stable `sorted(terms, key=degree)` of the default `OrderingMethod.DEGREE` -/
def insertByDegree (x : List FactorDecl × TermStruct) :
    List (List FactorDecl × TermStruct) → List (List FactorDecl × TermStruct)
  | [] => [x]
  | y :: r => if termDegree x.1 ≤ termDegree y.1 then x :: y :: r else y :: insertByDegree x r

def sortByDegree (l : List (List FactorDecl × TermStruct)) : List (List FactorDecl × TermStruct) :=
  l.foldr insertByDegree []

/-- `ModelSpec.subset(terms_spec)` with the nominated terms given by their positions in
`spec.formula` (distinct; the harness resolves them): the restricted formula is re-ordered by
degree, `structure` keeps the rows of the nominated terms (row `i` of a fitted structure belongs to
term `i`), and EVERY other field — in particular `encoder_state` and `transform_state` — is carried
over by `self.update(formula=…, structure=…)`. A position outside the formula is the `ValueError`
("terms not present in the original model spec"). -/
def subsetSpec (s : Spec) (picks : List Nat) : Except Err Spec :=
  match mapE (fun i => match s.terms[i]?, s.structure_[i]? with
                       | some t, some ts => .ok (t, ts)
                       | _, _ => .error .valueError) picks with
  | .error e => .error e
  | .ok rows =>
    let sorted := sortByDegree rows
    .ok { s with terms := sorted.map (·.1), structure_ := sorted.map (·.2) }

/-- one derivation step applied to the recorded spec(s) -/
inductive Step
  | part (i : Nat)               -- one part of a multi-part spec used on its own
  | subset (picks : List Nat)    -- `ModelSpec.subset` (a single spec only)
  | roundTrip                    -- `pickle.loads(pickle.dumps(spec))`: the dataclass fields verbatim
  | subsetAll (picks : List (List Nat))
                                 -- `ModelSpecs.subset(formula of the same layout)`: part `i` restricted to `picks[i]`
deriving DecidableEq, Repr

def applyStep (specs : List Spec) : Step → Except Err (List Spec)
  | .part i =>
    match specs[i]? with
    | some s => .ok [s]
    | none => .error .keyError
  | .subset picks =>
    match specs with
    | [s] =>
      match subsetSpec s picks with
      | .error e => .error e
      | .ok s' => .ok [s']
    | _ => .error .typeError      -- a `ModelSpecs` container has no `subset`
  | .roundTrip => .ok specs
  | .subsetAll pss =>
    -- `formula._map(lambda f, ctx: self[ctx].subset(f))`: the result has the parts of the nominating
    -- formula; a part the specs do not have is an IndexError (only KeyError is translated to ValueError)
    if pss.length > specs.length then .error .indexError
    else mapE (fun sp => subsetSpec sp.1 sp.2) (specs.zip pss)

def derive : List Spec → List Step → Except Err (List Spec)
  | specs, [] => .ok specs
  | specs, st :: r =>
    match applyStep specs st with
    | .error e => .error e
    | .ok specs' => derive specs' r

/-- reuse of a derived spec: the derivation history, then `replay` -/
def replayDerived (specs : List Spec) (steps : List Step) (fr : Frame) (order : List String) :
    Except Err (List Result) :=
  match derive specs steps with
  | .error e => .error e
  | .ok specs' => replay specs' fr order

/-- reuse of a derived spec with `attr_overrides` on the call -/
def replayDerivedWith (o : Overrides) (specs : List Spec) (steps : List Step) (fr : Frame)
    (order : List String) : Except Err (List Result) :=
  match derive specs steps with
  | .error e => .error e
  | .ok specs' => replayWith o specs' fr order

end FormulaicVerif.Model.Reuse
