/-! # Reuse of a recorded `ModelSpec` on new data  (property C09)

Mirrors, as written, the path `ModelSpec.get_model_matrix(new_data)` →
`FormulaMaterializer.get_model_matrix(spec)` of `formulaic/materializers/base.py`:

* `_prepare_factor_evaluation_model_spec`  → `pooledFactors`, `prepareEvalSpec`
  (the FRESH pooled spec that `_evaluate_factor` is handed: exactly the fields it carries)
* `_evaluate_factor` (value, both kind guards, `_check_for_nulls`)        → `evalFactor`, `evalPhase`
* the `spec.structure` branch of `_build_model_matrix`, `ScopedTerm.rehydrate`,
  `_encode_evaled_factor` with the encoder state of the REAL spec, `encode_contrasts` with pinned
  levels and its `DataMismatchWarning` condition (`transforms/contrasts.py`),
  `_get_columns_for_term`                                                    → `encodeFactor`, `termColumns`
* `_enforce_structure`                                                       → `enforceTerm`
* histories between fit and reuse — `ModelSpec.subset` (`model_spec.py`), one part of a
  `ModelSpecs` used alone, a pickle round trip                               → `subsetSpec`, `derive`, `replayDerived`

Python dictionaries are association lists: `dget` returns the FIRST match, `d.update(o)` is
`o ++ d` (so later updates win), `d[k] = v` on an insertion-ordered dict is `dictSet`.

What enters as data (parameters): for every column of the new frame its kind as classified by
`_is_categorical` (generated table `Gen/KindTable.lean`, C08), its cells and — for a `category`
dtype — its declared categories; the order in which the pooled `set` of factors is iterated.
Treatment coding only (the default contrasts, also of `C(x)`). Core Lean only. -/
namespace FormulaicVerif.Model.Reuse

/-! ### basic types -/

/-- `Factor.Kind` of evaluated values (`UNKNOWN` never survives `_evaluate_factor`) -/
inductive Kind | categorical | numerical | constant
deriving DecidableEq, Repr, Inhabited

/-- a non-null cell of a data column / a category level -/
inductive Val
  | num (q : Rat)
  | str (s : String)
  | bool (b : Bool)     -- a cell of a bool column: pandas never matches it with a numeric level
deriving DecidableEq, Repr

/-- a cell; `none` is a null (`None` / `NaN`) -/
abbrev Cell := Option Val

inductive NaAction | drop | raise | ignore
deriving DecidableEq, Repr

inductive Output | pandas | numpy | sparse
deriving DecidableEq, Repr

/-- exception classes the modelled path can raise -/
inductive Err
  | factorEncoding     -- `FactorEncodingError`
  | factorEvaluation   -- `FactorEvaluationError` (a name is not in the data)
  | valueError         -- `ValueError` of `_check_for_nulls` under `na_action='raise'`; of `subset` for an unknown term
  | runtimeError       -- `RuntimeError("Provided ModelSpec instances are not consistent.")`
  | keyError           -- `factor_values[expr]` in `ScopedTerm.rehydrate`, `scoped_cols[col]`
  | typeError          -- `functools.reduce` of nothing; also the sentinel for a non-number cell in a
                       --   numerical column (NOT MODELLED: pandas passes such cells through)
deriving DecidableEq, Repr

/-- first match of a key (a Python dict has one entry per key) -/
def dget {α} (k : String) : List (String × α) → Option α
  | [] => none
  | (k', v) :: r => if k' = k then some v else dget k r

/-- `d.update(other)` under first-match lookup: the entries of `other` take precedence -/
def dupdate {α} (d other : List (String × α)) : List (String × α) := other ++ d

/-- a `for` loop / comprehension whose body may raise: stops at the first exception -/
def mapE {α β} (f : α → Except Err β) : List α → Except Err (List β)
  | [] => .ok []
  | a :: r =>
    match f a with
    | .error e => .error e
    | .ok b =>
      match mapE f r with
      | .error e => .error e
      | .ok bs => .ok (b :: bs)

/-! ### the recorded spec -/

/-- how a factor obtains its values -/
inductive Via
  | lookup              -- a bare name: `_lookup`
  | cwrap               -- `C(name)`: python evaluation, values marked categorical, with an encoder
  | literal (v : Rat)   -- a numeric literal: `ast.literal_eval`, kind CONSTANT
deriving DecidableEq, Repr

/-- a `Factor` of the formula -/
structure FactorDecl where
  expr : String             -- `factor.expr` (identity of the factor)
  via : Via
  column : String           -- the data column read (`expr` itself for a lookup)
  declared : Option Kind    -- `factor.kind`; `none` = UNKNOWN (what the parser produces)
deriving DecidableEq, Repr

/-- `encoder_state[expr] = (kind, state)`; of `state` only `state.get("categories")` is consulted -/
structure RecState where
  kind : Kind
  levels : Option (List Val)
deriving DecidableEq, Repr

structure ScopedFactor where
  expr : String
  reduced : Bool
deriving DecidableEq, Repr

structure ScopedTerm where
  factors : List ScopedFactor
  scale : Rat
deriving DecidableEq, Repr

/-- `EncodedTermStructure(term, scoped_terms, columns)` -/
structure TermStruct where
  scopedTerms : List ScopedTerm
  columns : List String
deriving DecidableEq, Repr

/-- the fields of a recorded `ModelSpec` that the reuse path reads -/
structure Spec where
  terms : List (List FactorDecl)                 -- `spec.formula`: each term is its factor list
  structure_ : List TermStruct                   -- `spec.structure`
  encoderState : List (String × RecState)        -- `spec.encoder_state`
  transformState : List (String × String)        -- `spec.transform_state` (opaque payload)
  naAction : NaAction
  ensureFullRank : Bool
  output : Output
deriving DecidableEq, Repr

/-- `spec.column_names` -/
def Spec.columnNames (s : Spec) : List String := s.structure_.flatMap (·.columns)

/-! ### `_prepare_factor_evaluation_model_spec` -/

/-- the spec `_evaluate_factor` is ACTUALLY given: `ModelSpec.from_spec([], ensure_full_rank=…,
na_action=…, output=…, transform_state=…, encoder_state=…)`: the three settings (which must agree
across the parts), and `transform_state` / `encoder_state` pooled over the parts with `dict.update`;
every other field has its dataclass default (`structure = None`, no formula terms).
(Before the repair of D10 the pooled spec carried `transform_state` only, `encoder_state = {}`.) -/
structure EvalSpec where
  ensureFullRank : Bool
  naAction : NaAction
  output : Output
  transformState : List (String × String)
  encoderState : List (String × RecState)
deriving Repr

/-- `set.update` keeps the element already present: de-duplicate by `expr`, first wins -/
def dedupFactors : List FactorDecl → List FactorDecl
  | [] => []
  | f :: r => f :: (dedupFactors r).filter (fun g => g.expr != f.expr)

/-- the pooled `factors` set (as a list without repeats; Python iterates it in hash order, which
is the parameter `order` of `replay`) -/
def pooledFactors (specs : List Spec) : List FactorDecl :=
  dedupFactors (specs.flatMap (fun s => s.terms.flatten))

def prepareEvalSpec (specs : List Spec) : Except Err EvalSpec :=
  match specs with
  | [] => .error .runtimeError     -- the three sets are empty: `len(output) != 1`
  | s :: rest =>
    if rest.all (fun t => t.output == s.output && t.naAction == s.naAction
                          && t.ensureFullRank == s.ensureFullRank) then
      .ok { ensureFullRank := s.ensureFullRank
            naAction := s.naAction
            output := s.output
            transformState := specs.foldl (fun acc t => dupdate acc t.transformState) []
            encoderState := specs.foldl (fun acc t => dupdate acc t.encoderState) [] }
    else .error .runtimeError

/-! ### the new data -/

/-- a column of the follow-up frame: `kind` is what `_is_categorical` says about its dtype -/
structure NewCol where
  kind : Kind
  cells : List Cell
  cats : Option (List Val) := none   -- declared categories of a `category` dtype column
deriving DecidableEq, Repr

structure Frame where
  nrows : Nat
  cols : List (String × NewCol)
deriving Repr

/-! ### `_evaluate_factor` -/

/-- an entry of `factor_cache` -/
structure Evaled where
  decl : FactorDecl
  kind : Kind          -- `values.__formulaic_metadata__.kind` after both guards
  cells : List Cell    -- the values (`[]` for a constant)
  cats : Option (List Val) := none   -- declared categories when the values have `category` dtype
deriving DecidableEq, Repr

/-- the evaluated value and its kind before the guards (`UNKNOWN` resolved by `_is_categorical`) -/
def evalValue (fr : Frame) (d : FactorDecl) : Except Err (Kind × NewCol) :=
  match d.via with
  | .literal _ => .ok (.constant, ⟨.constant, [], none⟩)
  | .lookup =>
    match dget d.column fr.cols with
    | none => .error .factorEvaluation          -- NameError wrapped into FactorEvaluationError
    | some c => .ok (c.kind, c)
  | .cwrap =>
    match dget d.column fr.cols with
    | none => .error .factorEvaluation
    | some c => .ok (.categorical, c)           -- `C()` returns FactorValues(kind="categorical")

/-- first guard: `factor.kind is not UNKNOWN and factor.kind is not value.kind` →
a declared CATEGORICAL overrides, anything else raises -/
def guardDeclared (declared : Option Kind) (k : Kind) : Except Err Kind :=
  match declared with
  | none => .ok k
  | some dk =>
    if dk = k then .ok k
    else if dk = .categorical then .ok .categorical
    else .error .factorEncoding

/-- second guard: `factor.expr in spec.encoder_state and value.kind is not spec.encoder_state[expr][0]`
— evaluated against the POOLED evaluation spec -/
def guardRecorded (es : EvalSpec) (expr : String) (k : Kind) : Except Err Unit :=
  match dget expr es.encoderState with
  | none => .ok ()
  | some r => if k = r.kind then .ok () else .error .factorEncoding

/-- the kind the factor's values have on the new data (after the declared-kind override) -/
def newKind (fr : Frame) (d : FactorDecl) : Except Err Kind :=
  match evalValue fr d with
  | .error e => .error e
  | .ok (k, _) => guardDeclared d.declared k

/-- positions of null cells -/
def nullPositionsFrom : Nat → List Cell → List Nat
  | _, [] => []
  | i, none :: r => i :: nullPositionsFrom (i + 1) r
  | i, some _ :: r => nullPositionsFrom (i + 1) r

/-- `_check_for_nulls` -/
def checkNulls (na : NaAction) (cells : List Cell) (drop : List Nat) : Except Err (List Nat) :=
  match na with
  | .ignore => .ok drop
  | .raise => if (nullPositionsFrom 0 cells).isEmpty then .ok drop else .error .valueError
  | .drop => .ok (drop ++ nullPositionsFrom 0 cells)

def evalFactor (es : EvalSpec) (fr : Frame) (d : FactorDecl) (drop : List Nat) :
    Except Err (Evaled × List Nat) :=
  match evalValue fr d with
  | .error e => .error e
  | .ok (k0, col) =>
    match guardDeclared d.declared k0 with
    | .error e => .error e
    | .ok k =>
      match guardRecorded es d.expr k with
      | .error e => .error e
      | .ok () =>
        match checkNulls es.naAction col.cells drop with
        | .error e => .error e
        | .ok drop' => .ok (⟨d, k, col.cells, col.cats⟩, drop')

abbrev Cache := List (String × Evaled)

/-- Step 1 of `get_model_matrix`: `for factor in factors: self._evaluate_factor(…)` -/
def evalPhase (es : EvalSpec) (fr : Frame) : List FactorDecl → Cache → List Nat → Except Err (Cache × List Nat)
  | [], cache, drop => .ok (cache, drop)
  | d :: r, cache, drop =>
    match evalFactor es fr d drop with
    | .error e => .error e
    | .ok (ev, drop') => evalPhase es fr r (cache ++ [(d.expr, ev)]) drop'

/-- the pooled factors in the order Python iterates the set -/
def orderedFactors (specs : List Spec) (order : List String) : List FactorDecl :=
  order.filterMap (fun e => (pooledFactors specs).find? (fun d => d.expr == e))

/-! ### encoding -/

/-- a named column; a value `none` is NaN -/
structure EncCol where
  name : String
  vals : List (Option Rat)
deriving DecidableEq, Repr

def dropAux {α} (drop : List Nat) : Nat → List α → List α
  | _, [] => []
  | i, x :: xs => if drop.contains i then dropAux drop (i + 1) xs else x :: dropAux drop (i + 1) xs

/-- remove the rows whose position is in `drop_rows` -/
def dropRows {α} (drop : List Nat) (xs : List α) : List α := dropAux drop 0 xs

/-- `self.nrows - len(drop_rows)` (`drop_rows` is the sorted list of a set) -/
def nRetained (fr : Frame) (drop : List Nat) : Nat := fr.nrows - drop.eraseDups.length

/-- `str(level)` inside the column-name template (integers print without a fraction) -/
def Val.render : Val → String
  | .str s => s
  | .num q => if q.den = 1 then toString q.num else toString q.num ++ "/" ++ toString q.den
  | .bool b => if b then "True" else "False"

/-- `"{name}[{field}]"` / `"{name}[T.{field}]"` (treatment coding, the default contrasts) -/
def levelName (expr : String) (reduced : Bool) (l : Val) : String :=
  expr ++ (if reduced then "[T." else "[") ++ l.render ++ "]"

/-- one dummy column -/
def indicator (l : Val) (c : Cell) : Option Rat := if c = some l then some 1 else some 0

/-- `set(pandas.unique(data)).difference(levels)` is non-empty (a null is never a level) -/
def hasUnseen (levels : List Val) (cells : List Cell) : Bool :=
  cells.any (fun c => match c with | none => true | some v => !levels.contains v)

def Val.lt : Val → Val → Bool
  | .num a, .num b => decide (a < b)
  | .str a, .str b => decide (a < b)
  | .bool a, .bool b => !a && b
  | .bool _, _ => true
  | _, .bool _ => false
  | .num _, .str _ => true
  | .str _, .num _ => false

def insertLevel (v : Val) : List Val → List Val
  | [] => [v]
  | x :: r => if v = x then x :: r else if Val.lt v x then v :: x :: r else x :: insertLevel v r

/-- `pandas.Series(data).astype("category").cat.categories`: the declared categories of a
`category` dtype column, else the sorted distinct non-null values (homogeneous columns only;
pandas' sort is a parameter validated by the correspondence) -/
def freshLevels (cats : Option (List Val)) (cells : List Cell) : List Val :=
  match cats with
  | some cs => cs
  | none => cells.foldl (fun acc c => match c with | none => acc | some v => insertLevel v acc) []

/-- the levels `encode_contrasts` uses and whether it warns: `levels = _state.get("categories")` -/
def pinnedLevels (pinned : Option (List Val)) (cats : Option (List Val)) (cells : List Cell) : List Val × Bool :=
  match pinned with
  | some ls => (ls, hasUnseen ls cells)
  | none => (freshLevels cats cells, false)

/-- dummy coding of retained cells against `levels`; the reduced-rank form drops the first level
(both for the `_encode_categorical` path — full dummies, then `del encoded[drop_field]` — and for
the `C()` encoder with `reduced_rank=True`; an empty level list, or one level under reduced rank,
gives no column: the short-circuit of `Contrasts.apply`) -/
def dummyColumns (expr : String) (reduced : Bool) (levels : List Val) (cells : List Cell) : List EncCol :=
  (if reduced then levels.drop 1 else levels).map
    (fun l => ⟨levelName expr reduced l, cells.map (indicator l)⟩)

/-- a numerical cell as a number -/
def numCell : Cell → Except Err (Option Rat)
  | none => .ok none
  | some (.num q) => .ok (some q)
  | some (.bool b) => .ok (some (if b then 1 else 0))
  | some (.str _) => .error .typeError

/-- `_encode_evaled_factor(factor, spec, drop_rows, reduced_rank)` followed by
`_flatten_encoded_evaled_factor`: the columns and whether a `DataMismatchWarning` was issued.
The encoder state is read from the REAL spec: `spec.encoder_state.get(expr, [None, {}])[1]`. -/
def encodeFactor (s : Spec) (fr : Frame) (drop : List Nat) (ev : Evaled) (reduced : Bool) :
    Except Err (List EncCol × Bool) :=
  match ev.kind with
  | .categorical =>
    let cells := dropRows drop ev.cells
    let pinned := (dget ev.decl.expr s.encoderState).bind (·.levels)
    let lw := pinnedLevels pinned ev.cats cells
    .ok (dummyColumns ev.decl.expr reduced lw.1 cells, lw.2)
  | .numerical =>
    match mapE numCell (dropRows drop ev.cells) with
    | .error e => .error e
    | .ok vs => .ok ([⟨ev.decl.expr, vs⟩], false)
  | .constant =>
    match ev.decl.via with
    | .literal v => .ok ([⟨ev.decl.expr, List.replicate (nRetained fr drop) (some v)⟩], false)
    | _ => .error .typeError

/-! ### `_get_columns_for_term` -/

/-- `itertools.product(*xss)`: the LAST iterable varies fastest -/
def iproduct {α} : List (List α) → List (List α)
  | [] => [[]]
  | xs :: rest => xs.flatMap (fun x => (iproduct rest).map (x :: ·))

/-- NaN-propagating product -/
def mulCell (a b : Option Rat) : Option Rat :=
  match a, b with
  | some x, some y => some (x * y)
  | _, _ => none

def mulCol (a b : List (Option Rat)) : List (Option Rat) := List.zipWith mulCell a b
def smulCol (s : Rat) (a : List (Option Rat)) : List (Option Rat) := a.map (fun x => x.map (s * ·))

/-- `functools.reduce(operator.mul, cols)` (no initial value) -/
def reduceMul : List (List (Option Rat)) → Except Err (List (Option Rat))
  | [] => .error .typeError
  | c :: cs => .ok (cs.foldl mulCol c)

/-- `d[k] = v` on an insertion-ordered dict -/
def dictSet (d : List EncCol) (e : EncCol) : List EncCol :=
  match d with
  | [] => [e]
  | x :: r => if x.name = e.name then e :: r else x :: dictSet r e

def dictUpdate (d new : List EncCol) : List EncCol := new.foldl dictSet d

def joinColon (xs : List String) : String := String.intercalate ":" xs

/-- one entry of the loop: `product = reverse_product[::-1]`, name and scaled product -/
def productEntry (scale : Rat) (rp : List EncCol) : Except Err EncCol :=
  let p := rp.reverse
  match reduceMul (p.map (·.vals)) with
  | .error e => .error e
  | .ok v => .ok ⟨joinColon (p.map (·.name)), smulCol scale v⟩

/-- the columns before they are collected into the `out` dict, in generation order -/
def rawProducts (factors : List (List EncCol)) (scale : Rat) : Except Err (List EncCol) :=
  mapE (productEntry scale) (iproduct factors.reverse)

/-- `_get_columns_for_term(factors, spec, scale)` (base-class semantics; the pandas fast path is
observably the same unless two factors share an encoded column name — C02 `fastpath_eq_base`) -/
def productColumns (factors : List (List EncCol)) (scale : Rat) : Except Err (List EncCol) :=
  match rawProducts factors scale with
  | .error e => .error e
  | .ok raw => .ok (dictUpdate [] raw)

/-! ### the `spec.structure` branch of `_build_model_matrix` -/

/-- `ScopedTerm.__init__`: `tuple(dict.fromkeys(factors))` (a `ScopedFactor` is identified by its
factor and its `reduced` flag) -/
def dedupScoped : List ScopedFactor → List ScopedFactor
  | [] => []
  | f :: r => f :: (dedupScoped r).filter (fun g => g != f)

/-- `ScopedTerm.rehydrate(factor_cache)`: `factor_values[factor.factor.expr]` may raise KeyError -/
def rehydrate (cache : Cache) (st : ScopedTerm) : Except Err (List (Evaled × Bool)) :=
  mapE (fun sf =>
    match dget sf.expr cache with
    | none => .error .keyError
    | some ev => .ok (ev, sf.reduced)) (dedupScoped st.factors)

/-- encode every scoped factor of one scoped term: the encodings and the warning flag -/
def encodeAll (s : Spec) (fr : Frame) (drop : List Nat) :
    List (Evaled × Bool) → Except Err (List (List EncCol) × Bool)
  | [] => .ok ([], false)
  | (ev, red) :: r =>
    match encodeFactor s fr drop ev red with
    | .error e => .error e
    | .ok (cols, w) =>
      match encodeAll s fr drop r with
      | .error e => .error e
      | .ok (rest, w') => .ok (cols :: rest, w || w')

/-- the body of the `for scoped_term in scoped_terms` loop: the columns this scoped term adds -/
def scopedTermColumns (s : Spec) (fr : Frame) (drop : List Nat) (scale : Rat)
    (fs : List (Evaled × Bool)) : Except Err (List EncCol × Bool) :=
  match fs with
  | [] => .ok ([⟨"Intercept", List.replicate (nRetained fr drop) (some scale)⟩], false)
  | _ =>
    match encodeAll s fr drop fs with
    | .error e => .error e
    | .ok (encs, w) =>
      match productColumns encs scale with
      | .error e => .error e
      | .ok cols => .ok (cols, w)

/-- `scoped_cols` of one term (Step 2), accumulating with `dict.update` -/
def termLoop (s : Spec) (fr : Frame) (drop : List Nat) :
    List (Rat × List (Evaled × Bool)) → List EncCol → Bool → Except Err (List EncCol × Bool)
  | [], acc, w => .ok (acc, w)
  | (scale, fs) :: r, acc, w =>
    match scopedTermColumns s fr drop scale fs with
    | .error e => .error e
    | .ok (cols, w') => termLoop s fr drop r (dictUpdate acc cols) (w || w')

/-- one term of the recorded structure: rehydrate all its scoped terms, then generate columns -/
def termColumns (s : Spec) (fr : Frame) (drop : List Nat) (cache : Cache) (t : TermStruct) :
    Except Err (List EncCol × Bool) :=
  match mapE (fun st => match rehydrate cache st with
                        | .error e => .error e
                        | .ok fs => .ok (st.scale, fs)) t.scopedTerms with
  | .error e => .error e
  | .ok sts => termLoop s fr drop sts [] false

/-! ### `_enforce_structure` -/

/-- which branch of `_enforce_structure` a term went through -/
inductive Branch
  | exact        -- same number of columns and the same set of names
  | zeroFill     -- 0 generated columns: a zero column under every target name
  | broadcast    -- 1 generated column copied under every target name
deriving DecidableEq, Repr

def sameNameSet (a b : List String) : Bool := a.all (b.contains ·) && b.all (a.contains ·)

/-- `{col: scoped_cols[col] for col in target_cols}` -/
def pickColumns (sc : List EncCol) : List String → List EncCol → Except Err (List EncCol)
  | [], acc => .ok acc
  | c :: r, acc =>
    match sc.find? (fun e => e.name == c) with
    | none => .error .keyError
    | some e => pickColumns sc r (dictSet acc ⟨c, e.vals⟩)

/-- the loop body of `_enforce_structure` for one term: `gen` are the generated `scoped_cols`,
`target` the recorded `structure[i].columns`, `zero` is `_encode_constant(0, …)` -/
def enforceTerm (zero : List (Option Rat)) (gen : List EncCol) (target : List String) :
    Except Err (Branch × List EncCol) :=
  if gen.length > target.length then .error .factorEncoding
  else
    let adjusted : Except Err (Branch × List EncCol) :=
      if gen.length < target.length then
        match gen with
        | [] => .ok (.zeroFill, dictUpdate [] (target.map (fun n => ⟨n, zero⟩)))
        | [c] => .ok (.broadcast, dictUpdate [] (target.map (fun n => ⟨n, c.vals⟩)))
        | _ => .error .factorEncoding
      else if !sameNameSet (gen.map (·.name)) target then .error .factorEncoding
      else .ok (.exact, gen)
    match adjusted with
    | .error e => .error e
    | .ok (b, sc) =>
      match pickColumns sc target [] with
      | .error e => .error e
      | .ok cols => .ok (b, cols)

/-! ### the whole replay -/

/-- the outcome for one `ModelSpec`: final columns in order, the warning flag, the branch of
`_enforce_structure` per term, and the generated column names per term (before enforcement) -/
structure Result where
  cols : List EncCol
  warn : Bool
  branches : List Branch
  generated : List (List String)
deriving DecidableEq, Repr

def Result.names (r : Result) : List String := r.cols.map (·.name)

/-- Step 2 for every term of the structure (all terms are generated before `_enforce_structure`
runs) -/
def generateAll (s : Spec) (fr : Frame) (drop : List Nat) (cache : Cache) :
    List TermStruct → Except Err (List (List EncCol × List String) × Bool)
  | [] => .ok ([], false)
  | t :: r =>
    match termColumns s fr drop cache t with
    | .error e => .error e
    | .ok (cols, w) =>
      match generateAll s fr drop cache r with
      | .error e => .error e
      | .ok (rest, w') => .ok ((cols, t.columns) :: rest, w || w')

def enforceAll (zero : List (Option Rat)) :
    List (List EncCol × List String) → Except Err (List (Branch × List EncCol))
  | [] => .ok []
  | (gen, target) :: r =>
    match enforceTerm zero gen target with
    | .error e => .error e
    | .ok x =>
      match enforceAll zero r with
      | .error e => .error e
      | .ok xs => .ok (x :: xs)

/-- `_build_model_matrix(spec, drop_rows)` for a spec with a recorded structure -/
def buildMatrix (s : Spec) (fr : Frame) (drop : List Nat) (cache : Cache) : Except Err Result :=
  match generateAll s fr drop cache s.structure_ with
  | .error e => .error e
  | .ok (gens, w) =>
    match enforceAll (List.replicate (nRetained fr drop) (some 0)) gens with
    | .error e => .error e
    | .ok fin =>
      .ok { cols := fin.flatMap (·.2)
            warn := w
            branches := fin.map (·.1)
            generated := gens.map (fun g => g.1.map (·.name)) }

def buildAll (fr : Frame) (drop : List Nat) (cache : Cache) : List Spec → Except Err (List Result)
  | [] => .ok []
  | s :: r =>
    match buildMatrix s fr drop cache with
    | .error e => .error e
    | .ok m =>
      match buildAll fr drop cache r with
      | .error e => .error e
      | .ok ms => .ok (m :: ms)

/-- `materializer.get_model_matrix(specs)` on recorded specs: pooled evaluation spec, factor
evaluation in the set's iteration order `order`, then one matrix per spec.
(The `encoded_cache` shared between the parts of a multi-part spec is not modelled: it is
unobservable unless two parts record different encoder state for the same factor.) -/
def replay (specs : List Spec) (fr : Frame) (order : List String) : Except Err (List Result) :=
  match prepareEvalSpec specs with
  | .error e => .error e
  | .ok es =>
    match evalPhase es fr (orderedFactors specs order) [] [] with
    | .error e => .error e
    | .ok (cache, drop) => buildAll fr drop cache specs

/-! ### histories between the fit and the reuse: specs DERIVED from a recorded spec

A recorded spec is rarely reused verbatim only: one part of a multi-part spec is used on its own
(`mm[1].model_spec`, `specs.rhs`), a spec is restricted to some of its terms with
`ModelSpec.subset(terms)`, or it is stored and loaded again (pickle). Each derivation must hand
the reuse path the state recorded at fit time. -/

/-- `Term.degree`: literal factors do not count -/
def termDegree (t : List FactorDecl) : Nat :=
  (t.filter (fun d => match d.via with | .literal _ => false | _ => true)).length

/-- insertion by degree, BEFORE the entries of equal degree: `sortByDegree` inserts from the right,
so the result is the stable `sorted(terms, key=degree)` of the default `OrderingMethod.DEGREE` -/
def insertByDegree (x : List FactorDecl × TermStruct) :
    List (List FactorDecl × TermStruct) → List (List FactorDecl × TermStruct)
  | [] => [x]
  | y :: r => if termDegree x.1 ≤ termDegree y.1 then x :: y :: r else y :: insertByDegree x r

def sortByDegree (l : List (List FactorDecl × TermStruct)) : List (List FactorDecl × TermStruct) :=
  l.foldr insertByDegree []

/-- `ModelSpec.subset(terms_spec)` with the nominated terms given by their positions in
`spec.formula` (distinct; the harness resolves them): the restricted formula is re-ordered by
degree, `structure` keeps the rows of the nominated terms (row `i` of a fitted structure belongs to
term `i`), and EVERY other field — in particular `encoder_state` and `transform_state` — is carried
over by `self.update(formula=…, structure=…)`. A position outside the formula is the `ValueError`
("terms not present in the original model spec"). -/
def subsetSpec (s : Spec) (picks : List Nat) : Except Err Spec :=
  match mapE (fun i => match s.terms[i]?, s.structure_[i]? with
                       | some t, some ts => .ok (t, ts)
                       | _, _ => .error .valueError) picks with
  | .error e => .error e
  | .ok rows =>
    let sorted := sortByDegree rows
    .ok { s with terms := sorted.map (·.1), structure_ := sorted.map (·.2) }

/-- one derivation step applied to the recorded spec(s) -/
inductive Step
  | part (i : Nat)               -- one part of a multi-part spec used on its own
  | subset (picks : List Nat)    -- `ModelSpec.subset` (a single spec only)
  | roundTrip                    -- `pickle.loads(pickle.dumps(spec))`: the dataclass fields verbatim
deriving DecidableEq, Repr

def applyStep (specs : List Spec) : Step → Except Err (List Spec)
  | .part i =>
    match specs[i]? with
    | some s => .ok [s]
    | none => .error .keyError
  | .subset picks =>
    match specs with
    | [s] =>
      match subsetSpec s picks with
      | .error e => .error e
      | .ok s' => .ok [s']
    | _ => .error .typeError      -- a `ModelSpecs` container has no `subset`
  | .roundTrip => .ok specs

def derive : List Spec → List Step → Except Err (List Spec)
  | specs, [] => .ok specs
  | specs, st :: r =>
    match applyStep specs st with
    | .error e => .error e
    | .ok specs' => derive specs' r

/-- reuse of a derived spec: the derivation history, then `replay` -/
def replayDerived (specs : List Spec) (steps : List Step) (fr : Frame) (order : List String) :
    Except Err (List Result) :=
  match derive specs steps with
  | .error e => .error e
  | .ok specs' => replay specs' fr order

end FormulaicVerif.Model.Reuse
