import FormulaicVerif.Model.Structured
/-! `formulaic/formula.py` — the `StructuredFormula` constructor, i.e. `Structured.__init__` for a
subclass that re-prepares its items, followed by `_simplify(unwrap=False, inplace=True)`.

Leaves are `Formula` objects (`_prepare_item` returns them unchanged; specs that need parsing are
outside this model). Mirrored as written:
* `__prepare_item`: a nested `Structured` of another class is rebuilt node by node as a
  `StructuredFormula` (`item._map(…, as_type=StructuredFormula)`: every nested node goes through the
  constructor again, so its `root` key moves last and it is simplified in place without unwrapping);
  a nested `StructuredFormula` is kept as it is — it went through exactly the same constructor when it
  was built, which is why the model does not distinguish the two; tuples are prepared element-wise;
* the constructor then simplifies the new object in place with `recurse=True, unwrap=False`;
* `Formula(root, **structure)` with non-empty `structure` is `StructuredFormula(…)._simplify()`. -/
namespace FormulaicVerif.Model.StF
open FormulaicVerif.Model.St

variable {α : Type}

/-- `StructuredFormula(**kvs)` for items that are already prepared: the constructor's `root`-last
re-insertion followed by `_simplify(recurse=True, unwrap=False, inplace=True)` -/
def sfNode (kvs : Items α) : Val α :=
  match unwrapLoop false (.node (rootLast kvs)) with
  | .node s => .node (simpI s)
  | w => w

mutual
/-- `__prepare_item(key, item)` -/
def prepV : Val α → Val α
  | .leaf a => .leaf a
  | .tup vs => .tup (prepT vs)
  | .node kvs => sfNode (prepI kvs)
def prepT : List (Val α) → List (Val α)
  | [] => []
  | v :: vs => prepV v :: prepT vs
def prepI : Items α → Items α
  | [] => []
  | (k, v) :: r => (k, prepV v) :: prepI r
end

/-- `StructuredFormula(root, **structure)` (`ValueError` for a key that starts with `_`) -/
def sfCtor (kvs : Items α) : Except Err (Val α) :=
  if kvs.any (fun kv => badKey kv.1) then .error .valueError else .ok (sfNode (prepI kvs))

/-- `Formula(root, **structure)` with non-empty `structure` -/
def formulaCall (kvs : Items α) : Except Err (Val α) :=
  match sfCtor kvs with
  | .ok (.node s) => simplify true true false s
  | .ok v => .ok v
  | .error e => .error e

end FormulaicVerif.Model.StF
