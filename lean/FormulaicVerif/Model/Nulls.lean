import FormulaicVerif.Gen.NullTables
/-! # Missing-data handling: which rows survive, and what the caller's drop set becomes (C06)

Mirrors, as the code is,

* `formulaic/materializers/base.py`: `FormulaMaterializer.get_model_matrix` steps 0–3 (pooled factor
  evaluation with one shared mutable `drop_rows` set, `sorted(drop_rows)`, one `_build_model_matrix`
  per part of a structured spec), `_check_for_nulls` (DROP / RAISE / IGNORE), the intercept column
  of `_encode_constant` (`nrows - len(drop_rows)` ones);
* `formulaic/utils/null_handling.py`: `drop_rows` for `list`, `narwhals.Series` (row filter, silently
  ignores positions that do not exist), `numpy.ndarray` (`numpy.delete`, raises `IndexError` on a
  position that does not exist) and `pandas.Series`;
* `formulaic/transforms/contrasts.py` `C().encoder`, `formulaic/transforms/hashed.py` `hashed().encoder`;
* `PandasMaterializer._combine_columns` / `NarwhalsMaterializer._combine_columns`: index
  reconstruction for pandas output, equal-length requirement of `numpy.stack` / `hstack` /
  `DataFrame(dict, index=…)`, and the "no columns" special case;
* the plumbing of the `drop_rows` keyword through `sugar.model_matrix`, `Formula.get_model_matrix`
  (simple / structured), `ModelSpec.get_model_matrix` (with / without overrides),
  `ModelSpecs.get_model_matrix` (joint / one call per part) down to
  `FormulaMaterializer.get_model_matrix`.

An evaluated factor is a `Value`: the SHAPE of what the expression evaluated to (scalar constant,
list, pandas / narwhals Series, 0/1/2/n-d ndarray, DataFrame, scipy sparse matrix, dict of the
former — nested, with hidden `__…` members —, or an object of an unknown type) with, per cell, the
outcome of the container's cell-level null test (`numpy.isnan` / `Series.isnull` / `is_null`; the
PARAMETER, supplied per case from an independent per-cell definition of "null"). `find_nulls`
(which rows are flagged, which values make it raise), `as_columns`, the `map_dict` traversal of
`_encode_evaled_factor` and the `drop_rows` overload each column reaches are COMPUTED here.

The behaviours that differed between the tree as first examined (`legacy`) and the tree after the
`fix:` commits (`current`) are switches of `Variant`, so that the old label-based semantics
(`Series.drop(index=index[positions])` removes EVERY row that carries one of the labels found at
those positions) stays executable and the negative witnesses in `Props/C06.lean` are about real code.
The engine runs `current`.

Cell contents are abstract (`ρ`); index labels are abstract (`L`). Core Lean only (plus the
generated table `Gen/NullTables.lean`: the members of `NAAction`). -/
namespace FormulaicVerif.Model.Nulls

/-- `NAAction` -/
inductive Policy where
  | drop | raise | ignore
deriving DecidableEq, Repr, Inhabited

/-- the name of the `NAAction` member -/
def Policy.name : Policy → String
  | .drop => "DROP"
  | .raise => "RAISE"
  | .ignore => "IGNORE"

def policyOfName : String → Option Policy
  | "DROP" => some .drop
  | "RAISE" => some .raise
  | "IGNORE" => some .ignore
  | _ => none

inductive Err where
  /-- `ValueError`: "`x` contains null values after evaluation" (na_action = raise) -/
  | nullsPresent
  /-- `IndexError`: a drop position that is not a row of the data reached `numpy.delete` /
  a boolean mask / `Index.delete` / `index[positions]` -/
  | indexError
  /-- `ValueError` (pandas/numpy/scipy) or `ArrowInvalid`: columns of different lengths reach
  `_combine_columns` -/
  | lengthMismatch
  /-- `ValueError: negative dimensions are not allowed`: more drop positions than rows reach
  `numpy.ones(nrows - len(drop_rows))` -/
  | negativeDimensions
  /-- `ValueError: Constant value is null, invalidating all rows.` (`find_nulls` of a scalar or a
  0-d array that is NaN) -/
  | constantNull
  /-- `ValueError: Cannot check for null indices for arrays of more than 2 dimensions.` -/
  | tooManyDims
  /-- `ValueError: No implementation of `find_nulls()` for type …` -/
  | noFindNulls
  /-- `ValueError: No implementation of `drop_rows()` for values of type …` -/
  | noDropRows
  /-- the value cannot become columns of a model matrix whatever the drop set is (0-d or >2-d
  array, sparse matrix, 2-d member of a dict, unknown object): `as_columns`, an encoder or
  `_combine_columns` fails on it. The model does not follow such a value any further. -/
  | notColumns
  /-- `ValueError: 'x' is not a valid NAAction` -/
  | invalidNAAction
deriving DecidableEq, Repr, Inhabited

/-- The switches that the `fix:` commits flipped. -/
structure Variant where
  /-- `pandas.Series` rows and the output index are removed BY LABEL (`x.drop(index=x.index[pos])`) -/
  labelDrops : Bool
  /-- `hashed().encoder` removes the rows in `drop_rows` -/
  hashedHonours : Bool
  /-- `ModelSpecs.get_model_matrix` forwards `drop_rows` on the joint path -/
  jointForwards : Bool
  /-- `ModelSpec.get_model_matrix` forwards `drop_rows` when attribute overrides are given -/
  overrideForwards : Bool
  /-- a part without columns has `nrows - len(drop_rows)` rows for numpy / sparse output -/
  emptyHonours : Bool
  /-- NarwhalsMaterializer restores the (positionally reduced) pandas index on pandas output, and on
  the native pandas frame that output "narwhals" hands back for pandas-backed data -/
  nwIndex : Bool
  /-- constants: `find_nulls` accepts numpy scalars that derive from neither `int` nor `float`,
  and `drop_rows` hands a scalar (`int`, `float`, `str`, numpy number) back unchanged -/
  scalarOK : Bool
  /-- `find_nulls` has an overload for `pandas.DataFrame` (rows with a null cell) -/
  frameNulls : Bool
  /-- `ModelSpecs.get_model_matrix`, per-spec branch: every spec is generated with ONE shared set
  (a fresh one when the caller passed none), and all specs are generated again once the set grew -/
  sharedPerSpec : Bool
deriving DecidableEq, Repr

/-- the tree before the C06 repairs -/
def legacy : Variant := ⟨true, false, false, false, false, false, false, false, false⟩
/-- the tree before the two value-shape repairs (scalar constants, data frames) -/
def beforeValues : Variant := ⟨false, true, true, true, true, true, false, false, false⟩
/-- the tree before the per-spec branch of `ModelSpecs.get_model_matrix` shared one drop set -/
def beforeShared : Variant := ⟨false, true, true, true, true, true, true, true, false⟩
/-- the tree under test (what the engine runs, what the property theorems are about) -/
def current : Variant := ⟨false, true, true, true, true, true, true, true, true⟩

/-! ## The drop set (a Python `set[int]`) -/

/-- duplicate-free by construction: elements are only ever added with `setAdd` -/
abbrev DropSet := List Nat

def setAdd (s : DropSet) (x : Nat) : DropSet := if x ∈ s then s else s ++ [x]

/-- `set.update` -/
def setUpdate (s : DropSet) (xs : List Nat) : DropSet := xs.foldl setAdd s

def insertSorted (x : Nat) : List Nat → List Nat
  | [] => [x]
  | y :: r => if x ≤ y then x :: y :: r else y :: insertSorted x r

/-- `sorted(drop_rows)` -/
def sorted (s : DropSet) : List Nat := s.foldr insertSorted []

/-- the body of `_check_for_nulls` once `nulls = find_nulls(values)` is known. Returns the
(mutated) set. -/
def checkForNulls (p : Policy) (nulls : List Nat) (d : DropSet) : Except Err DropSet :=
  match p with
  | .ignore => .ok d
  | .raise => if nulls.isEmpty then .ok d else .error .nullsPresent
  | .drop => .ok (setUpdate d nulls)

/-! ## Row removal, as each routine does it -/

/-- the elements of `xs`, numbered from `i`, whose number is not in `d` -/
def dropFrom {ρ : Type} (d : List Nat) : Nat → List ρ → List ρ
  | _, [] => []
  | i, x :: r => if i ∈ d then dropFrom d (i + 1) r else x :: dropFrom d (i + 1) r

/-- `[v for i, v in enumerate(values) if i not in indices]`; the narwhals row-index filter -/
def dropFilter {ρ : Type} (xs : List ρ) (d : List Nat) : List ρ := dropFrom d 0 xs

/-- `numpy.delete(values, indices, axis=0)`; `mask[indices] = False; values[mask]`; `Index.delete` -/
def dropPositional {ρ : Type} (xs : List ρ) (d : List Nat) : Except Err (List ρ) :=
  if d.all (fun i => decide (i < xs.length)) then .ok (dropFrom d 0 xs) else .error .indexError

/-- `index[positions]` -/
def labelsAt {L : Type} (labels : List L) : List Nat → Except Err (List L)
  | [] => .ok []
  | i :: r =>
    match labels[i]? with
    | none => .error .indexError
    | some l =>
      match labelsAt labels r with
      | .error e => .error e
      | .ok ls => .ok (l :: ls)

/-- `values.drop(index=values.index[positions])`: every row whose label is among the labels found
at `positions` goes. -/
def dropByLabel {L ρ : Type} [DecidableEq L] (labels : List L) (xs : List ρ) (d : List Nat) :
    Except Err (List ρ) :=
  match labelsAt labels d with
  | .error e => .error e
  | .ok bad => .ok (((labels.zip xs).filter (fun p => !(bad.contains p.1))).map (·.2))

def mapE {α β ε : Type} (f : α → Except ε β) : List α → Except ε (List β)
  | [] => .ok []
  | a :: r =>
    match f a with
    | .error e => .error e
    | .ok b =>
      match mapE f r with
      | .error e => .error e
      | .ok bs => .ok (b :: bs)

/-! ## Evaluated factor values -/

/-- One cell of an evaluated factor: its content, and what the cell-level null test of the
container it sits in (`numpy.isnan`, `Series.isnull`, `is_null`) says about it. -/
structure Cell (ρ : Type) where
  val : ρ
  null : Bool
deriving DecidableEq, Repr

/-- which scalar overload of `find_nulls` a constant reaches -/
inductive ScalarKind where
  /-- `int` / `float` (and what derives from them: `bool`, `numpy.float64`) — `numpy.isnan` decides -/
  | pyNum
  /-- `str` — never null -/
  | pyStr
  /-- a numpy number / `numpy.bool_` that derives from neither (`numpy.int64`, `numpy.float32`), or one
  of pandas' null scalars (`pandas.NA`, `pandas.NaT`) -/
  | npNum
deriving DecidableEq, Repr, Inhabited

/-- What a factor expression evaluated to (the object inside `FactorValues`), by the type that
`find_nulls` / `as_columns` / `drop_rows` dispatch on. Tables are stored by column. -/
inductive Value (ρ : Type) where
  /-- `None` -/
  | none
  /-- a scalar constant -/
  | scalar (k : ScalarKind) (c : Cell ρ)
  /-- Python `list` -/
  | pylist (cells : List (Cell ρ))
  /-- `narwhals.Series` -/
  | nwSeries (cells : List (Cell ρ))
  /-- `pandas.Series` -/
  | series (cells : List (Cell ρ))
  /-- 0-d `numpy.ndarray` -/
  | array0 (c : Cell ρ)
  /-- 1-d `numpy.ndarray` (any dtype: numbers, strings, Python objects), and pandas' own 1-d arrays
  without row labels — `pandas.Categorical` and every other `ExtensionArray`, `pandas.Index` —: their
  `find_nulls` / `drop_rows` overloads do what the ndarray ones do (cell-wise null test; removal by
  position through a boolean mask, `IndexError` for a position that is not a row), `as_columns`
  hands them on as they are, `C()` wraps them in a fresh `pandas.Series`, `hashed()` in `numpy.array` -/
  | array1 (cells : List (Cell ρ))
  /-- 2-d `numpy.ndarray` of shape `(nrows, cols.length)` -/
  | array2 (nrows : Nat) (cols : List (List (Cell ρ)))
  /-- `numpy.ndarray` with more than two dimensions, `shape[0] = nrows` -/
  | arrayN (nrows : Nat)
  /-- `pandas.DataFrame` -/
  | frame (nrows : Nat) (cols : List (List (Cell ρ)))
  /-- `scipy.sparse.spmatrix` (`csc`: it is a `csc_matrix`); implicit zeros are cells that are not null -/
  | sparse (csc : Bool) (nrows : Nat) (cols : List (List (Cell ρ)))
  /-- `dict` of values; the flag says that the key is a `str` starting with `__` (a hidden member) -/
  | dict (items : List (Bool × Value ρ))
  /-- an object of any other type -/
  | other

/-! ### `null_handling.find_nulls` -/

/-- the positions, counted from `i`, of the cells that are null -/
def nullFrom {ρ : Type} : Nat → List (Cell ρ) → List Nat
  | _, [] => []
  | i, c :: r => if c.null then i :: nullFrom (i + 1) r else nullFrom (i + 1) r

/-- `numpy.flatnonzero(values.isnull())` / `numpy.flatnonzero(numpy.isnan(values))` /
`values.is_null().arg_true()` -/
def nullPositions {ρ : Type} (cells : List (Cell ρ)) : List Nat := nullFrom 0 cells

/-- does row `i` of the table have a null cell? -/
def rowAny {ρ : Type} (cols : List (List (Cell ρ))) (i : Nat) : Bool :=
  cols.any (fun col => match col[i]? with | some c => c.null | none => false)

/-- `numpy.flatnonzero(numpy.any(numpy.isnan(values), axis=1))`; for a sparse matrix the rows of
the stored entries that are NaN -/
def nullRows2 {ρ : Type} (n : Nat) (cols : List (List (Cell ρ))) : List Nat :=
  (List.range n).filter (rowAny cols)

/-- `_drop_nulls_scalar` -/
def scalarNulls {ρ : Type} (c : Cell ρ) : Except Err (List Nat) :=
  if c.null then .error .constantNull else .ok []

mutual
/-- `find_nulls(values)` (single dispatch on the type of the value) -/
def findNulls {ρ : Type} (v : Variant) : Value ρ → Except Err (List Nat)
  | .none => .ok []
  | .scalar .pyNum c => scalarNulls c
  | .scalar .pyStr _ => .ok []
  | .scalar .npNum c => if v.scalarOK then scalarNulls c else .error .noFindNulls
  | .pylist cells => .ok (nullPositions cells)      -- `find_nulls(pandas.Series(values))`
  | .nwSeries cells => .ok (nullPositions cells)
  | .series cells => .ok (nullPositions cells)
  | .array0 c => scalarNulls c
  | .array1 cells => .ok (nullPositions cells)
  | .array2 n cols => .ok (nullRows2 n cols)
  | .arrayN _ => .error .tooManyDims
  | .frame n cols => if v.frameNulls then .ok (nullRows2 n cols) else .error .noFindNulls
  | .sparse _ n cols => .ok (nullRows2 n cols)
  | .dict items => findNullsItems v items
  | .other => .error .noFindNulls
/-- `for vs in values.values(): indices.update(find_nulls(vs))` -/
def findNullsItems {ρ : Type} (v : Variant) : List (Bool × Value ρ) → Except Err (List Nat)
  | [] => .ok []
  | (_, x) :: r =>
    match findNulls v x with
    | .error e => .error e
    | .ok a =>
      match findNullsItems v r with
      | .error e => .error e
      | .ok b => .ok (a ++ b)
end

/-! ### `null_handling.drop_rows` -/

/-- how a column is stored, i.e. which row-removing `drop_rows` overload it reaches -/
inductive Store where
  /-- `pandas.Series` carrying the data frame's index (also the columns of a `DataFrame`) -/
  | series
  /-- `numpy.ndarray` -/
  | ndarray
  /-- `narwhals.Series` -/
  | nwSeries
  /-- Python `list` -/
  | pylist
deriving DecidableEq, Repr, Inhabited

/-- which encoder removes the rows -/
inductive Encoder where
  /-- the materializer's `_encode_numerical` / `_encode_categorical`: `if drop_rows: drop_nulls(...)` -/
  | default
  /-- `C(...)`: `pandas.Series(values)` then the Series routine -/
  | contrastsC
  /-- `hashed(...)`: `numpy.array(values)` -/
  | hashed
  /-- no encoder of its own, but the value is declared to be of kind `constant`
  (`FactorValues(x, kind="constant")`): `_encode_constant` builds `x * numpy.ones(nrows - len(drop_rows))`
  and `drop_rows` is never called on it -/
  | constant
deriving DecidableEq, Repr, Inhabited

/-- `pandas.Series` overload of `null_handling.drop_rows` -/
def dropSeries {L ρ : Type} [DecidableEq L] (v : Variant) (labels : List L) (xs : List ρ)
    (d : List Nat) : Except Err (List ρ) :=
  if v.labelDrops then dropByLabel labels xs d else dropPositional xs d

/-- the row-removing overloads of `null_handling.drop_rows`, by storage type -/
def dropRows {L ρ : Type} [DecidableEq L] (v : Variant) (labels : List L) (s : Store) (xs : List ρ)
    (d : List Nat) : Except Err (List ρ) :=
  match s with
  | .series => dropSeries v labels xs d
  | .ndarray => dropPositional xs d
  | .nwSeries => .ok (dropFilter xs d)
  | .pylist => .ok (dropFilter xs d)

/-- `numpy.delete(values, indices, axis=0)` on a 2-d array / `values[mask]` on a CSR matrix: the
same rows go from every column; a position that is not a row raises `IndexError` -/
def dropTable {ρ : Type} (n : Nat) (cols : List (List ρ)) (d : List Nat) :
    Except Err (Nat × List (List ρ)) :=
  if d.all (fun i => decide (i < n)) then
    .ok ((dropFrom d 0 (List.range n)).length, cols.map (fun c => dropFrom d 0 c))
  else .error .indexError

/-- `null_handling.drop_rows(values, indices)` (single dispatch on the type of the value) -/
def dropRowsV {L ρ : Type} [DecidableEq L] (v : Variant) (labels : List L) :
    Value ρ → List Nat → Except Err (Value ρ)
  | .pylist cells, d =>
    match dropRows v labels .pylist cells d with
    | .error e => .error e
    | .ok r => .ok (.pylist r)
  | .nwSeries cells, d =>
    match dropRows v labels .nwSeries cells d with
    | .error e => .error e
    | .ok r => .ok (.nwSeries r)
  | .series cells, d =>
    match dropRows v labels .series cells d with
    | .error e => .error e
    | .ok r => .ok (.series r)
  | .array1 cells, d =>
    match dropRows v labels .ndarray cells d with
    | .error e => .error e
    | .ok r => .ok (.array1 r)
  | .array0 _, _ => .error .indexError   -- `numpy.delete(…, axis=0)` on a 0-d array: `AxisError`
  | .array2 n cols, d =>
    match dropTable n cols d with
    | .error e => .error e
    | .ok (k, cs) => .ok (.array2 k cs)
  | .arrayN n, d =>
    match dropTable n ([] : List (List (Cell ρ))) d with
    | .error e => .error e
    | .ok (k, _) => .ok (.arrayN k)
  | .sparse csc n cols, d =>   -- (a `csc_matrix` goes through CSR and back)
    match dropTable n cols d with
    | .error e => .error e
    | .ok (k, cs) => .ok (.sparse csc k cs)
  | .scalar k c, _ => if v.scalarOK then .ok (.scalar k c) else .error .noDropRows
  | .none, _ => .error .noDropRows
  | .frame _ _, _ => .error .noDropRows
  | .dict _, _ => .error .noDropRows
  | .other, _ => .error .noDropRows

/-! ### From an evaluated factor to the columns it contributes -/

/-- `as_columns(values)`: a 2-d array, a data frame and a `csc_matrix` become a dict of their
columns; 0-d and >2-d arrays raise; everything else is handed on as it is -/
def asColumns {ρ : Type} : Value ρ → Except Err (Value ρ)
  | .array2 _ cols => .ok (.dict (cols.map (fun c => (false, .array1 c))))
  | .frame _ cols => .ok (.dict (cols.map (fun c => (false, .series c))))
  | .sparse true n cols => .ok (.dict (cols.map (fun c => (false, .sparse true n [c]))))
  | .array0 _ => .error .notColumns
  | .arrayN _ => .error .notColumns
  | x => .ok x

mutual
/-- the members the `map_dict` wrapper of `_encode_evaled_factor` applies the encoder to: every
non-dict member of a (nested) dict except the hidden ones, in order; a non-dict value itself -/
def leaves {ρ : Type} : Value ρ → List (Value ρ)
  | .dict items => leavesItems items
  | .none => [.none]
  | .scalar k c => [.scalar k c]
  | .pylist cells => [.pylist cells]
  | .nwSeries cells => [.nwSeries cells]
  | .series cells => [.series cells]
  | .array0 c => [.array0 c]
  | .array1 cells => [.array1 cells]
  | .array2 n cols => [.array2 n cols]
  | .arrayN n => [.arrayN n]
  | .frame n cols => [.frame n cols]
  | .sparse csc n cols => [.sparse csc n cols]
  | .other => [.other]
def leavesItems {ρ : Type} : List (Bool × Value ρ) → List (Value ρ)
  | [] => []
  | (hidden, x) :: r => (if hidden then [] else leaves x) ++ leavesItems r
end

/-- a single column: its cells -/
def colCells {ρ : Type} : Value ρ → Option (Store × List (Cell ρ))
  | .pylist cells => some (.pylist, cells)
  | .nwSeries cells => some (.nwSeries, cells)
  | .series cells => some (.series, cells)
  | .array1 cells => some (.ndarray, cells)
  | _ => none

/-- One evaluated factor: its value and the encoder it carries. -/
structure Factor (ρ : Type) where
  value : Value ρ
  encoder : Encoder

def isNone {ρ : Type} : Value ρ → Bool
  | .none => true
  | _ => false

/-- `_encode_evaled_factor`: the column objects the factor's encoder produces after removing rows
`d` (= `sorted(drop_rows)`) -/
def encodeValue {L ρ : Type} [DecidableEq L] (v : Variant) (labels : List L) (n : Nat)
    (sparseOut : Bool) (f : Factor ρ) (d : List Nat) : Except Err (List (Value ρ)) :=
  match f.encoder with
  | .default =>
    -- `_extract_columns_for_encoding`, then `if drop_rows: values = drop_nulls(values, indices=drop_rows)`
    -- on every member
    match asColumns f.value with
    | .error e => .error e
    | .ok x => mapE (fun leaf => if d.isEmpty then .ok leaf else dropRowsV v labels leaf d) (leaves x)
  | .contrastsC =>
    -- `pandas.Series(values)` keeps the index of a Series and gives anything else a RangeIndex
    match colCells f.value with
    | some (.series, cells) =>
      match dropSeries v labels cells d with
      | .error e => .error e
      | .ok r => .ok [.series r]
    | some (_, cells) =>
      match dropSeries v (List.range cells.length) cells d with
      | .error e => .error e
      | .ok r => .ok [.series r]
    | none => .error .notColumns
  | .hashed =>
    match colCells f.value with
    | some (_, cells) =>
      if v.hashedHonours then
        match dropPositional cells d with
        | .error e => .error e
        | .ok r => .ok [.array1 r]
      else .ok [.array1 cells]
    | none => .error .notColumns
  | .constant =>
    -- `_encode_constant`: `nrows = self.nrows - len(drop_rows)`; `numpy.ones(nrows)` raises for a negative length,
    -- the sparse branch builds `[value] * nrows`, which is just empty then
    match f.value with
    | .scalar _ c =>
      if !sparseOut && decide (n < d.length) then .error .negativeDimensions
      else .ok [.array1 (List.replicate (n - d.length) c)]
    | _ => .error .notColumns

/-- the column objects a factor hands to `_combine_columns`. A factor whose value is `None` is left
out of its terms (`_get_scoped_terms`: `if ….values.__wrapped__ is not None`) and is never encoded. -/
def encodeFactor {L ρ : Type} [DecidableEq L] (v : Variant) (labels : List L) (n : Nat)
    (sparseOut : Bool) (f : Factor ρ) (d : List Nat) : Except Err (List (Value ρ)) :=
  if isNone f.value then .ok [] else encodeValue v labels n sparseOut f d

/-! ## One part of the (structured) spec -/

inductive Mat where
  /-- PandasMaterializer -/
  | pandas
  /-- NarwhalsMaterializer over a pandas frame -/
  | narwhals
  /-- NarwhalsMaterializer over a frame without row labels (pyarrow, polars) -/
  | arrow
deriving DecidableEq, Repr, Inhabited

inductive Output where
  | pandas | numpy | sparse | narwhals
deriving DecidableEq, Repr, Inhabited

inductive IndexOut (L : Type) where
  /-- the output type has no row labels -/
  | none
  /-- pandas output carrying labels taken from the data -/
  | labels (ls : List L)
  /-- pandas output with a fresh `RangeIndex(k)` -/
  | range (k : Nat)
deriving DecidableEq, Repr

structure Part (ρ : Type) where
  mat : Mat
  intercept : Bool
  factors : List (Factor ρ)

structure Matrix (L ρ : Type) where
  nrows : Nat
  /-- length of the `Intercept` column when the part has one -/
  intercept : Option Nat
  /-- per factor, per column it contributes, the cells that survived (in output order) -/
  cols : List (List (List (Cell ρ)))
  index : IndexOut L
deriving DecidableEq, Repr

/-- the index `_combine_columns` attaches for pandas output -/
def outIndex {L : Type} [DecidableEq L] (v : Variant) (labels : List L) (n : Nat) (m : Mat)
    (o : Output) (d : List Nat) : Except Err (IndexOut L) :=
  match o, m with
  | .pandas, .pandas =>
    if d.isEmpty then .ok (.labels labels)
    else match dropSeries v labels labels d with
      | .error e => .error e
      | .ok ls => .ok (.labels ls)
  | .pandas, .narwhals =>
    if v.nwIndex then
      (if d.isEmpty then .ok (.labels labels)
       else match dropPositional labels d with
        | .error e => .error e
        | .ok ls => .ok (.labels ls))
    else .ok (.range (n - d.length))  -- placeholder length; fixed up by `combine`
  | .pandas, .arrow => .ok (.range (n - d.length))
  | .narwhals, .narwhals =>
    -- output "narwhals" over a pandas frame hands back the NATIVE frame — a pandas frame (or a
    -- narwhals frame around one): `_restore_pandas_index` puts the labels of the kept rows on it,
    -- also in the no-columns branch (the rows not in `drop_rows`, not the first `n - len(drop_rows)`)
    if v.nwIndex then
      (if d.isEmpty then .ok (.labels labels)
       else match dropPositional labels d with
        | .error e => .error e
        | .ok ls => .ok (.labels ls))
    else .ok .none
  | _, _ => .ok .none

/-- what `_combine_columns` can make of a column object -/
inductive ColShape (ρ : Type) where
  /-- a vector of cells -/
  | vec (cells : List (Cell ρ))
  /-- a constant, broadcast over the rows of the matrix -/
  | const (c : Cell ρ)
  /-- nothing that can be a column -/
  | bad

def colShape {ρ : Type} (x : Value ρ) : ColShape ρ :=
  match colCells x with
  | some (_, cells) => .vec cells
  | none =>
    match x with
    | .scalar _ c => .const c
    | _ => .bad

def isBad {ρ : Type} (x : Value ρ) : Bool :=
  match colShape x with
  | .bad => true
  | _ => false

/-- the length of a column object that has one -/
def colLen? {ρ : Type} (x : Value ρ) : Option Nat :=
  match colShape x with
  | .vec cells => some cells.length
  | _ => none

/-- the lengths of the columns handed to `_combine_columns` (intercept first); constants have none -/
def colLens {ρ : Type} (icpt : Option Nat) (cols : List (Value ρ)) : List Nat :=
  (match icpt with | some k => [k] | none => []) ++ cols.filterMap colLen?

/-- the cells of a column in a matrix of `k` rows -/
def cellsOf {ρ : Type} (k : Nat) (x : Value ρ) : List (Cell ρ) :=
  match colShape x with
  | .vec cells => cells
  | .const c => List.replicate k c
  | .bad => []

/-- `_combine_columns`: every column (and the index, when there is one) must have one common
length; constants are broadcast. (Whether the container of a given output type accepts a constant
is not modelled: where it does not, the call fails whatever the drop set is.) -/
def combine {L ρ : Type} (v : Variant) (n : Nat) (d : List Nat) (icpt : Option Nat)
    (cols : List (List (Value ρ))) (idx : IndexOut L) : Except Err (Matrix L ρ) :=
  if cols.flatten.any isBad then .error .notColumns else
  match colLens icpt cols.flatten with
  | [] =>
    -- `if not cols:` an empty frame on the index / `numpy.empty((nrows, 0))`
    match idx with
    | .labels ls => .ok ⟨ls.length, icpt, cols.map (·.map (cellsOf ls.length)), idx⟩
    | .range _ =>
      let k := if v.emptyHonours then n - d.length else n
      .ok ⟨k, icpt, cols.map (·.map (cellsOf k)), .range k⟩
    | .none =>
      let k := if v.emptyHonours then n - d.length else n
      .ok ⟨k, icpt, cols.map (·.map (cellsOf k)), idx⟩
  | l :: rest =>
    if rest.all (fun k => k == l) then
      match idx with
      | .labels ls =>
        if ls.length == l then .ok ⟨l, icpt, cols.map (·.map (cellsOf l)), idx⟩
        else .error .lengthMismatch
      | .range _ => .ok ⟨l, icpt, cols.map (·.map (cellsOf l)), .range l⟩
      | .none => .ok ⟨l, icpt, cols.map (·.map (cellsOf l)), idx⟩
    else .error .lengthMismatch

/-- `_build_model_matrix(spec, drop_rows=d)` for one part, as far as rows are concerned -/
def buildModelMatrix {L ρ : Type} [DecidableEq L] (v : Variant) (labels : List L) (n : Nat)
    (o : Output) (d : List Nat) (p : Part ρ) : Except Err (Matrix L ρ) :=
  match mapE (fun f => encodeFactor v labels n (o == .sparse) f d) p.factors with
  | .error e => .error e
  | .ok cols =>
    -- `_encode_constant(1, …)`: `numpy.ones(nrows - len(drop_rows))` fails for a negative length; the sparse
    -- branch builds `[1] * (nrows - len(drop_rows))`, which is just empty then
    if p.intercept && o != .sparse && decide (n < d.length) then .error .negativeDimensions else
    let icpt := if p.intercept then some (n - d.length) else none
    match outIndex v labels n p.mat o d with
    | .error e => .error e
    | .ok idx => combine v n d icpt cols idx

/-! ## `FormulaMaterializer.get_model_matrix` -/

/-- `_check_for_nulls(name, values, na_action, drop_rows)` on an evaluated factor: nothing is looked
at under IGNORE; otherwise `find_nulls(values)` runs first (and may raise) -/
def checkFactor {ρ : Type} (v : Variant) (p : Policy) (f : Factor ρ) (d : DropSet) :
    Except Err DropSet :=
  match p with
  | .ignore => .ok d
  | _ =>
    match findNulls v f.value with
    | .error e => .error e
    | .ok nulls => checkForNulls p nulls d

/-- step 1: evaluate every factor once, threading the shared set through `_check_for_nulls` -/
def evalFactors {ρ : Type} (v : Variant) (p : Policy) : List (Factor ρ) → DropSet → Except Err DropSet
  | [], d => .ok d
  | f :: r, d =>
    match checkFactor v p f d with
    | .error e => .error e
    | .ok d' => evalFactors v p r d'

/-- `drop_rows if drop_rows is not None else set()` -/
def initialSet : Option DropSet → DropSet
  | some s => s
  | none => []

/-- Steps 0–3. `dropIn = none`: a fresh set is used. Returns the matrices of the parts and the
final content of the set object that was used (the caller's object when one was passed in). -/
def getModelMatrix {L ρ : Type} [DecidableEq L] (v : Variant) (labels : List L) (n : Nat)
    (pol : Policy) (o : Output) (parts : List (Part ρ)) (dropIn : Option DropSet) :
    Except Err (List (Matrix L ρ) × DropSet) :=
  match evalFactors v pol (parts.flatMap (·.factors)) (initialSet dropIn) with
  | .error e => .error e
  | .ok d1 =>
    match mapE (buildModelMatrix v labels n o (sorted d1)) parts with
    | .error e => .error e
    | .ok ms => .ok (ms, d1)

/-! ## Entry points: what reaches `FormulaMaterializer.get_model_matrix` as `drop_rows` -/

inductive Entry where
  /-- `formulaic.model_matrix(spec, data, drop_rows=…, **overrides)` -/
  | sugar
  /-- `Formula(...).get_model_matrix(data, drop_rows=…, **overrides)` (simple or structured) -/
  | formula
  /-- `ModelSpec.get_model_matrix(data, drop_rows=…, **overrides)` -/
  | modelSpec
  /-- `ModelSpecs.get_model_matrix(data, drop_rows=…, **overrides)` -/
  | modelSpecs
  /-- `materializer.get_model_matrix(spec, drop_rows=…, **overrides)` -/
  | materializer
deriving DecidableEq, Repr, Inhabited

structure CallRec where
  entry : Entry
  /-- the formula has structure (two-sided / multi-part), so `ModelSpec.from_spec` yields `ModelSpecs` -/
  structured : Bool
  /-- keyword overrides were passed to the `get_model_matrix` method of a spec object -/
  overrides : Bool
  /-- `ModelSpecs`: all parts name the same (or no) materializer -/
  joint : Bool
  /-- the `drop_rows` argument (`none`: not given) -/
  caller : Option DropSet
deriving Repr

inductive Route where
  /-- one `FormulaMaterializer.get_model_matrix` call over all parts with this `drop_rows` -/
  | joint (d : Option DropSet)
  /-- the per-spec branch of `ModelSpecs.get_model_matrix`: one materializer call per part, in
  order, each receiving this same object (see `call`) -/
  | perPart (d : Option DropSet)
deriving DecidableEq, Repr

/-- `ModelSpec.get_model_matrix` -/
def modelSpecGMM (v : Variant) (overrides : Bool) (d : Option DropSet) : Option DropSet :=
  if overrides then (if v.overrideForwards then d else none) else d

/-- `ModelSpecs.get_model_matrix`; with overrides it re-enters itself once without them, keeping
`drop_rows` -/
def modelSpecsGMM (v : Variant) (_overrides joint : Bool) (d : Option DropSet) : Route :=
  if joint then .joint (if v.jointForwards then d else none)
  else .perPart (modelSpecGMM v false d)

/-- `ModelSpec.from_spec(spec, **overrides).get_model_matrix(data, context=…, drop_rows=d)`
(the body of `sugar.model_matrix` and of both `Formula.get_model_matrix`) -/
def fromSpecGMM (v : Variant) (structured joint : Bool) (d : Option DropSet) : Route :=
  if structured then modelSpecsGMM v false joint d else .joint (modelSpecGMM v false d)

def route (v : Variant) (c : CallRec) : Route :=
  match c.entry with
  | .sugar => fromSpecGMM v c.structured c.joint c.caller
  | .formula => fromSpecGMM v c.structured c.joint c.caller
  | .modelSpec => .joint (modelSpecGMM v c.overrides c.caller)
  | .modelSpecs => modelSpecsGMM v c.overrides c.joint c.caller
  | .materializer => .joint c.caller

structure CallOut (L ρ : Type) where
  mats : List (Matrix L ρ)
  /-- content of the caller's set object after the call (`none`: the caller passed none) -/
  callerAfter : Option DropSet
deriving DecidableEq, Repr

/-- the `drop_rows` argument of the next per-part call: the same object, now holding `d1`
(or again nothing) -/
def carry (d : Option DropSet) (d1 : DropSet) : Option DropSet :=
  match d with
  | some _ => some d1
  | none => none

/-- ONE PASS over the parts: one materializer call per part; the same set object (when there is
one) is threaded through -/
def perPartCalls {L ρ : Type} [DecidableEq L] (v : Variant) (labels : List L) (n : Nat)
    (pol : Policy) (o : Output) : List (Part ρ) → Option DropSet →
    Except Err (List (Matrix L ρ) × Option DropSet)
  | [], d => .ok ([], d)
  | p :: r, d =>
    match getModelMatrix v labels n pol o [p] d with
    | .error e => .error e
    | .ok (ms, d1) =>
      match perPartCalls v labels n pol o r (carry d d1) with
      | .error e => .error e
      | .ok (rest, dEnd) => .ok (ms ++ rest, dEnd)

/-- A complete call through an entry point. -/
def call {L ρ : Type} [DecidableEq L] (v : Variant) (labels : List L) (n : Nat) (pol : Policy)
    (o : Output) (parts : List (Part ρ)) (c : CallRec) : Except Err (CallOut L ρ) :=
  match route v c with
  | .joint d =>
    match getModelMatrix v labels n pol o parts d with
    | .error e => .error e
    | .ok (ms, d1) =>
      .ok ⟨ms, match c.caller, d with
               | none, _ => none
               | some _, some _ => some d1   -- the caller's object was the one that got updated
               | some s, none => some s⟩      -- the caller's object never reached the materializer
  | .perPart d =>
    if v.sharedPerSpec then
      -- `if drop_rows is None: drop_rows = set()`; `n_dropped = len(drop_rows)`; `generate()`;
      -- `if len(drop_rows) != n_dropped: generate()` (all specs again, with the complete set)
      let d0 := initialSet d
      match perPartCalls v labels n pol o parts (some d0) with
      | .error e => .error e
      | .ok (ms, dEnd) =>
        let d1 := initialSet dEnd
        if d1.length != d0.length then
          match perPartCalls v labels n pol o parts (some d1) with
          | .error e => .error e
          | .ok (ms2, dEnd2) =>
            .ok ⟨ms2, match c.caller, d with
                      | none, _ => none
                      | some _, some _ => some (initialSet dEnd2)
                      | some s, none => some s⟩
        else
          .ok ⟨ms, match c.caller, d with
                   | none, _ => none
                   | some _, some _ => some d1
                   | some s, none => some s⟩
    else
    -- (before the repair: one pass, every part with what had accumulated so far)
    match perPartCalls v labels n pol o parts d with
    | .error e => .error e
    | .ok (ms, dEnd) =>
      .ok ⟨ms, match c.caller, dEnd with
               | none, _ => none
               | some _, some d1 => some d1
               | some s, none => some s⟩

/-! ## The caller's set object after a call, whatever its outcome

`drop_rows` is a mutable set that the caller keeps: what a call has put into it stays there also
when the call raises afterwards, and the same object may be handed to later calls. -/

/-- step 1 with the state of the shared set made explicit: the set as step 1 leaves it — also when
a null check raises (then: as it was when that check began) — and the error -/
def evalFactorsSt {ρ : Type} (v : Variant) (p : Policy) :
    List (Factor ρ) → DropSet → DropSet × Option Err
  | [], d => (d, none)
  | f :: r, d =>
    match checkFactor v p f d with
    | .error e => (d, some e)
    | .ok d' => evalFactorsSt v p r d'

/-- the set object after ONE materializer call over `parts` that was handed the set holding `d`
(steps 2 and 3 do not touch the set) -/
def gmmSetAfter {ρ : Type} (v : Variant) (pol : Policy) (parts : List (Part ρ)) (d : DropSet) :
    DropSet :=
  (evalFactorsSt v pol (parts.flatMap (·.factors)) d).1

/-- the set object after one pass of per-part calls (and whether every call of the pass succeeded) -/
def passSetAfter {L ρ : Type} [DecidableEq L] (v : Variant) (labels : List L) (n : Nat)
    (pol : Policy) (o : Output) : List (Part ρ) → DropSet → DropSet × Bool
  | [], d => (d, true)
  | p :: r, d =>
    match getModelMatrix v labels n pol o [p] (some d) with
    | .error _ => (gmmSetAfter v pol [p] d, false)
    | .ok (_, d1) => passSetAfter v labels n pol o r d1

/-- The content of the caller's set object after a call through an entry point — whether the call
returned or raised (`none`: the caller passed no set). -/
def setAfterCall {L ρ : Type} [DecidableEq L] (v : Variant) (labels : List L) (n : Nat)
    (pol : Policy) (o : Output) (parts : List (Part ρ)) (c : CallRec) : Option DropSet :=
  match c.caller with
  | none => none
  | some s =>
    match route v c with
    | .joint none => some s          -- the caller's object never reached the materializer
    | .joint (some d) => some (gmmSetAfter v pol parts d)
    | .perPart none => some s
    | .perPart (some d) =>
      if v.sharedPerSpec then
        match passSetAfter v labels n pol o parts d with
        | (d1, ok) =>
          if ok && d1.length != d.length then some (passSetAfter v labels n pol o parts d1).1
          else some d1
      else some (passSetAfter v labels n pol o parts d).1

/-! ## `na_action` as the caller writes it -/

/-- the `na_action` argument: an `NAAction` member, or a string -/
inductive NAInput where
  | member (p : Policy)
  | text (s : String)
deriving DecidableEq, Repr

/-- `NAAction(na_action)` in `ModelSpec.__attrs_post_init__`: a member is itself; a string is looked
up among the VALUES of the enum's members (`Gen.naActionMembers`, generated from the live package);
anything else is `ValueError: … is not a valid NAAction` -/
def parseNAAction : NAInput → Except Err Policy
  | .member p => .ok p
  | .text s =>
    match FormulaicVerif.Gen.naActionMembers.find? (fun m => m.2 == s) with
    | some m =>
      match policyOfName m.1 with
      | some p => .ok p
      | none => .error .invalidNAAction
    | none => .error .invalidNAAction

/-- a complete call with the null policy as the caller wrote it (the spec is built first) -/
def callNA {L ρ : Type} [DecidableEq L] (v : Variant) (labels : List L) (n : Nat) (na : NAInput)
    (o : Output) (parts : List (Part ρ)) (c : CallRec) : Except Err (CallOut L ρ) :=
  match parseNAAction na with
  | .error e => .error e
  | .ok pol => call v labels n pol o parts c

/-- … an invalid `na_action` is rejected before anything touches the set -/
def setAfterCallNA {L ρ : Type} [DecidableEq L] (v : Variant) (labels : List L) (n : Nat)
    (na : NAInput) (o : Output) (parts : List (Part ρ)) (c : CallRec) : Option DropSet :=
  match parseNAAction na with
  | .error _ => c.caller
  | .ok pol => setAfterCall v labels n pol o parts c

/-! ## One caller set object handed to several calls -/

/-- one call of such a history: its own data, formula, policy, output and entry point; the
`caller` field of `c` is replaced by the shared object -/
structure SetCall (L ρ : Type) where
  labels : List L
  n : Nat
  na : NAInput
  out : Output
  parts : List (Part ρ)
  c : CallRec

/-- the call record with the shared object as `drop_rows` -/
def SetCall.withSet {L ρ : Type} (k : SetCall L ρ) (s : Option DropSet) : CallRec :=
  { k.c with caller := s }

/-- The same set object is passed as `drop_rows` to every call, in order: per call its result (or
error) and the content of the object afterwards. -/
def runSetHistory {L ρ : Type} [DecidableEq L] (v : Variant) :
    List (SetCall L ρ) → Option DropSet → List (Except Err (CallOut L ρ) × Option DropSet)
  | [], _ => []
  | k :: r, s =>
    let res := callNA v k.labels k.n k.na k.out k.parts (k.withSet s)
    let s' := setAfterCallNA v k.labels k.n k.na k.out k.parts (k.withSet s)
    (res, s') :: runSetHistory v r s'

end FormulaicVerif.Model.Nulls
