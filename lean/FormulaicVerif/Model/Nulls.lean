/-! # Missing-data handling: which rows survive, and what the caller's drop set becomes (C06)

Mirrors, as the code is,

* `formulaic/materializers/base.py`: `FormulaMaterializer.get_model_matrix` steps 0–3 (pooled factor
  evaluation with one shared mutable `drop_rows` set, `sorted(drop_rows)`, one `_build_model_matrix`
  per part of a structured spec), `_check_for_nulls` (DROP / RAISE / IGNORE), the intercept column
  of `_encode_constant` (`nrows - len(drop_rows)` ones);
* `formulaic/utils/null_handling.py`: `drop_rows` for `list`, `narwhals.Series` (row filter, silently
  ignores positions that do not exist), `numpy.ndarray` (`numpy.delete`, raises `IndexError` on a
  position that does not exist) and `pandas.Series`;
* `formulaic/transforms/contrasts.py` `C().encoder`, `formulaic/transforms/hashed.py` `hashed().encoder`;
* `PandasMaterializer._combine_columns` / `NarwhalsMaterializer._combine_columns`: index
  reconstruction for pandas output, equal-length requirement of `numpy.stack` / `hstack` /
  `DataFrame(dict, index=…)`, and the "no columns" special case;
* the plumbing of the `drop_rows` keyword through `sugar.model_matrix`, `Formula.get_model_matrix`
  (simple / structured), `ModelSpec.get_model_matrix` (with / without overrides),
  `ModelSpecs.get_model_matrix` (joint / one call per part) down to
  `FormulaMaterializer.get_model_matrix`.

What `find_nulls` flags for an evaluated factor is a PARAMETER (`Factor.nulls`), supplied per case
from the implementation and checked there against an independent per-dtype definition of "null".

The behaviours that differed between the tree as first examined (`legacy`) and the tree after the
`fix:` commits (`current`) are switches of `Variant`, so that the old label-based semantics
(`Series.drop(index=index[positions])` removes EVERY row that carries one of the labels found at
those positions) stays executable and the negative witnesses in `Props/C06.lean` are about real code.
The engine runs `current`.

Cell values are abstract (`ρ`); index labels are abstract (`L`). Core Lean only. -/
namespace FormulaicVerif.Model.Nulls

/-- `NAAction` -/
inductive Policy where
  | drop | raise | ignore
deriving DecidableEq, Repr, Inhabited

inductive Err where
  /-- `ValueError`: "`x` contains null values after evaluation" (na_action = raise) -/
  | nullsPresent
  /-- `IndexError`: a drop position that is not a row of the data reached `numpy.delete` /
  a boolean mask / `Index.delete` / `index[positions]` -/
  | indexError
  /-- `ValueError` (pandas/numpy/scipy) or `ArrowInvalid`: columns of different lengths reach
  `_combine_columns` -/
  | lengthMismatch
  /-- `ValueError: negative dimensions are not allowed`: more drop positions than rows reach
  `numpy.ones(nrows - len(drop_rows))` -/
  | negativeDimensions
deriving DecidableEq, Repr, Inhabited

/-- The switches that the `fix:` commits flipped. -/
structure Variant where
  /-- `pandas.Series` rows and the output index are removed BY LABEL (`x.drop(index=x.index[pos])`) -/
  labelDrops : Bool
  /-- `hashed().encoder` removes the rows in `drop_rows` -/
  hashedHonours : Bool
  /-- `ModelSpecs.get_model_matrix` forwards `drop_rows` on the joint path -/
  jointForwards : Bool
  /-- `ModelSpec.get_model_matrix` forwards `drop_rows` when attribute overrides are given -/
  overrideForwards : Bool
  /-- a part without columns has `nrows - len(drop_rows)` rows for numpy / sparse output -/
  emptyHonours : Bool
  /-- NarwhalsMaterializer restores the (positionally reduced) pandas index on pandas output -/
  nwIndex : Bool
deriving DecidableEq, Repr

/-- the tree before the C06 repairs -/
def legacy : Variant := ⟨true, false, false, false, false, false⟩
/-- the tree under test (what the engine runs, what the property theorems are about) -/
def current : Variant := ⟨false, true, true, true, true, true⟩

/-! ## The drop set (a Python `set[int]`) -/

/-- duplicate-free by construction: elements are only ever added with `setAdd` -/
abbrev DropSet := List Nat

def setAdd (s : DropSet) (x : Nat) : DropSet := if x ∈ s then s else s ++ [x]

/-- `set.update` -/
def setUpdate (s : DropSet) (xs : List Nat) : DropSet := xs.foldl setAdd s

def insertSorted (x : Nat) : List Nat → List Nat
  | [] => [x]
  | y :: r => if x ≤ y then x :: y :: r else y :: insertSorted x r

/-- `sorted(drop_rows)` -/
def sorted (s : DropSet) : List Nat := s.foldr insertSorted []

/-- `_check_for_nulls(name, values, na_action, drop_rows)`; `nulls` is what `find_nulls(values)`
returned. Returns the (mutated) set. -/
def checkForNulls (p : Policy) (nulls : List Nat) (d : DropSet) : Except Err DropSet :=
  match p with
  | .ignore => .ok d
  | .raise => if nulls.isEmpty then .ok d else .error .nullsPresent
  | .drop => .ok (setUpdate d nulls)

/-! ## Row removal, as each routine does it -/

/-- the elements of `xs`, numbered from `i`, whose number is not in `d` -/
def dropFrom {ρ : Type} (d : List Nat) : Nat → List ρ → List ρ
  | _, [] => []
  | i, x :: r => if i ∈ d then dropFrom d (i + 1) r else x :: dropFrom d (i + 1) r

/-- `[v for i, v in enumerate(values) if i not in indices]`; the narwhals row-index filter -/
def dropFilter {ρ : Type} (xs : List ρ) (d : List Nat) : List ρ := dropFrom d 0 xs

/-- `numpy.delete(values, indices, axis=0)`; `mask[indices] = False; values[mask]`; `Index.delete` -/
def dropPositional {ρ : Type} (xs : List ρ) (d : List Nat) : Except Err (List ρ) :=
  if d.all (fun i => decide (i < xs.length)) then .ok (dropFrom d 0 xs) else .error .indexError

/-- `index[positions]` -/
def labelsAt {L : Type} (labels : List L) : List Nat → Except Err (List L)
  | [] => .ok []
  | i :: r =>
    match labels[i]? with
    | none => .error .indexError
    | some l =>
      match labelsAt labels r with
      | .error e => .error e
      | .ok ls => .ok (l :: ls)

/-- `values.drop(index=values.index[positions])`: every row whose label is among the labels found
at `positions` goes. -/
def dropByLabel {L ρ : Type} [DecidableEq L] (labels : List L) (xs : List ρ) (d : List Nat) :
    Except Err (List ρ) :=
  match labelsAt labels d with
  | .error e => .error e
  | .ok bad => .ok (((labels.zip xs).filter (fun p => !(bad.contains p.1))).map (·.2))

/-- how the values of an evaluated factor are stored, i.e. which `drop_rows` overload they reach -/
inductive Store where
  /-- `pandas.Series` carrying the data frame's index (also the columns of a `DataFrame`) -/
  | series
  /-- `numpy.ndarray`, 1-d or 2-d, or a dict of them (every sub-column is treated alike) -/
  | ndarray
  /-- `narwhals.Series` -/
  | nwSeries
  /-- Python `list` -/
  | pylist
deriving DecidableEq, Repr, Inhabited

/-- which encoder removes the rows -/
inductive Encoder where
  /-- the materializer's `_encode_numerical` / `_encode_categorical`: `if drop_rows: drop_nulls(...)` -/
  | default
  /-- `C(...)`: `pandas.Series(values)` then the Series routine -/
  | contrastsC
  /-- `hashed(...)`: `numpy.array(values)` -/
  | hashed
deriving DecidableEq, Repr, Inhabited

/-- One evaluated factor: its `n` cells, what `find_nulls` flagged, and the dispatch data. -/
structure Factor (ρ : Type) where
  vals : List ρ
  nulls : List Nat
  store : Store
  encoder : Encoder
deriving Repr

/-- `pandas.Series` overload of `null_handling.drop_rows` -/
def dropSeries {L ρ : Type} [DecidableEq L] (v : Variant) (labels : List L) (xs : List ρ)
    (d : List Nat) : Except Err (List ρ) :=
  if v.labelDrops then dropByLabel labels xs d else dropPositional xs d

/-- `null_handling.drop_rows(values, indices)` (single dispatch on the storage type) -/
def dropRows {L ρ : Type} [DecidableEq L] (v : Variant) (labels : List L) (s : Store) (xs : List ρ)
    (d : List Nat) : Except Err (List ρ) :=
  match s with
  | .series => dropSeries v labels xs d
  | .ndarray => dropPositional xs d
  | .nwSeries => .ok (dropFilter xs d)
  | .pylist => .ok (dropFilter xs d)

/-- the column(s) a factor contributes after its encoder removed rows `d` (= `sorted(drop_rows)`) -/
def encodeFactor {L ρ : Type} [DecidableEq L] (v : Variant) (labels : List L) (f : Factor ρ)
    (d : List Nat) : Except Err (List ρ) :=
  match f.encoder with
  | .default => if d.isEmpty then .ok f.vals else dropRows v labels f.store f.vals d
  | .contrastsC =>
    -- `pandas.Series(values)` keeps the index of a Series and gives anything else a RangeIndex
    match f.store with
    | .series => dropSeries v labels f.vals d
    | _ => dropSeries v (List.range f.vals.length) f.vals d
  | .hashed => if v.hashedHonours then dropPositional f.vals d else .ok f.vals

/-! ## One part of the (structured) spec -/

inductive Mat where
  /-- PandasMaterializer -/
  | pandas
  /-- NarwhalsMaterializer over a pandas frame -/
  | narwhals
  /-- NarwhalsMaterializer over a frame without row labels (pyarrow, polars) -/
  | arrow
deriving DecidableEq, Repr, Inhabited

inductive Output where
  | pandas | numpy | sparse | narwhals
deriving DecidableEq, Repr, Inhabited

inductive IndexOut (L : Type) where
  /-- the output type has no row labels -/
  | none
  /-- pandas output carrying labels taken from the data -/
  | labels (ls : List L)
  /-- pandas output with a fresh `RangeIndex(k)` -/
  | range (k : Nat)
deriving DecidableEq, Repr

structure Part (ρ : Type) where
  mat : Mat
  intercept : Bool
  factors : List (Factor ρ)
deriving Repr

structure Matrix (L ρ : Type) where
  nrows : Nat
  /-- length of the `Intercept` column when the part has one -/
  intercept : Option Nat
  /-- per factor, the cells that survived (in output order) -/
  cols : List (List ρ)
  index : IndexOut L
deriving DecidableEq, Repr

def mapE {α β ε : Type} (f : α → Except ε β) : List α → Except ε (List β)
  | [] => .ok []
  | a :: r =>
    match f a with
    | .error e => .error e
    | .ok b =>
      match mapE f r with
      | .error e => .error e
      | .ok bs => .ok (b :: bs)

/-- the index `_combine_columns` attaches for pandas output -/
def outIndex {L : Type} [DecidableEq L] (v : Variant) (labels : List L) (n : Nat) (m : Mat)
    (o : Output) (d : List Nat) : Except Err (IndexOut L) :=
  match o, m with
  | .pandas, .pandas =>
    if d.isEmpty then .ok (.labels labels)
    else match dropSeries v labels labels d with
      | .error e => .error e
      | .ok ls => .ok (.labels ls)
  | .pandas, .narwhals =>
    if v.nwIndex then
      (if d.isEmpty then .ok (.labels labels)
       else match dropPositional labels d with
        | .error e => .error e
        | .ok ls => .ok (.labels ls))
    else .ok (.range (n - d.length))  -- placeholder length; fixed up by `combine`
  | .pandas, .arrow => .ok (.range (n - d.length))
  | _, _ => .ok .none

/-- the lengths of the columns handed to `_combine_columns` (intercept first) -/
def colLens {ρ : Type} (icpt : Option Nat) (cols : List (List ρ)) : List Nat :=
  (match icpt with | some k => [k] | none => []) ++ cols.map List.length

/-- `_combine_columns`: every column (and the index, when there is one) must have one common length -/
def combine {L ρ : Type} (v : Variant) (n : Nat) (d : List Nat) (icpt : Option Nat)
    (cols : List (List ρ)) (idx : IndexOut L) : Except Err (Matrix L ρ) :=
  match colLens icpt cols with
  | [] =>
    -- `if not cols:` an empty frame on the index / `numpy.empty((nrows, 0))`
    match idx with
    | .labels ls => .ok ⟨ls.length, icpt, cols, idx⟩
    | .range _ =>
      let k := if v.emptyHonours then n - d.length else n
      .ok ⟨k, icpt, cols, .range k⟩
    | .none => .ok ⟨if v.emptyHonours then n - d.length else n, icpt, cols, idx⟩
  | l :: rest =>
    if rest.all (fun k => k == l) then
      match idx with
      | .labels ls => if ls.length == l then .ok ⟨l, icpt, cols, idx⟩ else .error .lengthMismatch
      | .range _ => .ok ⟨l, icpt, cols, .range l⟩
      | .none => .ok ⟨l, icpt, cols, idx⟩
    else .error .lengthMismatch

/-- `_build_model_matrix(spec, drop_rows=d)` for one part, as far as rows are concerned -/
def buildModelMatrix {L ρ : Type} [DecidableEq L] (v : Variant) (labels : List L) (n : Nat)
    (o : Output) (d : List Nat) (p : Part ρ) : Except Err (Matrix L ρ) :=
  match mapE (fun f => encodeFactor v labels f d) p.factors with
  | .error e => .error e
  | .ok cols =>
    -- `_encode_constant(1, …)`: `numpy.ones(nrows - len(drop_rows))` fails for a negative length; the sparse
    -- branch builds `[1] * (nrows - len(drop_rows))`, which is just empty then
    if p.intercept && o != .sparse && decide (n < d.length) then .error .negativeDimensions else
    let icpt := if p.intercept then some (n - d.length) else none
    match outIndex v labels n p.mat o d with
    | .error e => .error e
    | .ok idx => combine v n d icpt cols idx

/-! ## `FormulaMaterializer.get_model_matrix` -/

/-- step 1: evaluate every factor once, threading the shared set through `_check_for_nulls` -/
def evalFactors {ρ : Type} (p : Policy) : List (Factor ρ) → DropSet → Except Err DropSet
  | [], d => .ok d
  | f :: r, d =>
    match checkForNulls p f.nulls d with
    | .error e => .error e
    | .ok d' => evalFactors p r d'

/-- `drop_rows if drop_rows is not None else set()` -/
def initialSet : Option DropSet → DropSet
  | some s => s
  | none => []

/-- Steps 0–3. `dropIn = none`: a fresh set is used. Returns the matrices of the parts and the
final content of the set object that was used (the caller's object when one was passed in). -/
def getModelMatrix {L ρ : Type} [DecidableEq L] (v : Variant) (labels : List L) (n : Nat)
    (pol : Policy) (o : Output) (parts : List (Part ρ)) (dropIn : Option DropSet) :
    Except Err (List (Matrix L ρ) × DropSet) :=
  match evalFactors pol (parts.flatMap (·.factors)) (initialSet dropIn) with
  | .error e => .error e
  | .ok d1 =>
    match mapE (buildModelMatrix v labels n o (sorted d1)) parts with
    | .error e => .error e
    | .ok ms => .ok (ms, d1)

/-! ## Entry points: what reaches `FormulaMaterializer.get_model_matrix` as `drop_rows` -/

inductive Entry where
  /-- `formulaic.model_matrix(spec, data, drop_rows=…, **overrides)` -/
  | sugar
  /-- `Formula(...).get_model_matrix(data, drop_rows=…, **overrides)` (simple or structured) -/
  | formula
  /-- `ModelSpec.get_model_matrix(data, drop_rows=…, **overrides)` -/
  | modelSpec
  /-- `ModelSpecs.get_model_matrix(data, drop_rows=…, **overrides)` -/
  | modelSpecs
  /-- `materializer.get_model_matrix(spec, drop_rows=…, **overrides)` -/
  | materializer
deriving DecidableEq, Repr, Inhabited

structure CallRec where
  entry : Entry
  /-- the formula has structure (two-sided / multi-part), so `ModelSpec.from_spec` yields `ModelSpecs` -/
  structured : Bool
  /-- keyword overrides were passed to the `get_model_matrix` method of a spec object -/
  overrides : Bool
  /-- `ModelSpecs`: all parts name the same (or no) materializer -/
  joint : Bool
  /-- the `drop_rows` argument (`none`: not given) -/
  caller : Option DropSet
deriving Repr

inductive Route where
  /-- one `FormulaMaterializer.get_model_matrix` call over all parts with this `drop_rows` -/
  | joint (d : Option DropSet)
  /-- one call per part, in order, each receiving this same object -/
  | perPart (d : Option DropSet)
deriving DecidableEq, Repr

/-- `ModelSpec.get_model_matrix` -/
def modelSpecGMM (v : Variant) (overrides : Bool) (d : Option DropSet) : Option DropSet :=
  if overrides then (if v.overrideForwards then d else none) else d

/-- `ModelSpecs.get_model_matrix`; with overrides it re-enters itself once without them, keeping
`drop_rows` -/
def modelSpecsGMM (v : Variant) (_overrides joint : Bool) (d : Option DropSet) : Route :=
  if joint then .joint (if v.jointForwards then d else none)
  else .perPart (modelSpecGMM v false d)

/-- `ModelSpec.from_spec(spec, **overrides).get_model_matrix(data, context=…, drop_rows=d)`
(the body of `sugar.model_matrix` and of both `Formula.get_model_matrix`) -/
def fromSpecGMM (v : Variant) (structured joint : Bool) (d : Option DropSet) : Route :=
  if structured then modelSpecsGMM v false joint d else .joint (modelSpecGMM v false d)

def route (v : Variant) (c : CallRec) : Route :=
  match c.entry with
  | .sugar => fromSpecGMM v c.structured c.joint c.caller
  | .formula => fromSpecGMM v c.structured c.joint c.caller
  | .modelSpec => .joint (modelSpecGMM v c.overrides c.caller)
  | .modelSpecs => modelSpecsGMM v c.overrides c.joint c.caller
  | .materializer => .joint c.caller

structure CallOut (L ρ : Type) where
  mats : List (Matrix L ρ)
  /-- content of the caller's set object after the call (`none`: the caller passed none) -/
  callerAfter : Option DropSet
deriving DecidableEq, Repr

/-- the `drop_rows` argument of the next per-part call: the same object, now holding `d1`
(or again nothing) -/
def carry (d : Option DropSet) (d1 : DropSet) : Option DropSet :=
  match d with
  | some _ => some d1
  | none => none

/-- one materializer call per part; the same set object (when there is one) is threaded through -/
def perPartCalls {L ρ : Type} [DecidableEq L] (v : Variant) (labels : List L) (n : Nat)
    (pol : Policy) (o : Output) : List (Part ρ) → Option DropSet →
    Except Err (List (Matrix L ρ) × Option DropSet)
  | [], d => .ok ([], d)
  | p :: r, d =>
    match getModelMatrix v labels n pol o [p] d with
    | .error e => .error e
    | .ok (ms, d1) =>
      match perPartCalls v labels n pol o r (carry d d1) with
      | .error e => .error e
      | .ok (rest, dEnd) => .ok (ms ++ rest, dEnd)

/-- A complete call through an entry point. -/
def call {L ρ : Type} [DecidableEq L] (v : Variant) (labels : List L) (n : Nat) (pol : Policy)
    (o : Output) (parts : List (Part ρ)) (c : CallRec) : Except Err (CallOut L ρ) :=
  match route v c with
  | .joint d =>
    match getModelMatrix v labels n pol o parts d with
    | .error e => .error e
    | .ok (ms, d1) =>
      .ok ⟨ms, match c.caller, d with
               | none, _ => none
               | some _, some _ => some d1   -- the caller's object was the one that got updated
               | some s, none => some s⟩      -- the caller's object never reached the materializer
  | .perPart d =>
    match perPartCalls v labels n pol o parts d with
    | .error e => .error e
    | .ok (ms, dEnd) =>
      .ok ⟨ms, match c.caller, dEnd with
               | none, _ => none
               | some _, some d1 => some d1
               | some s, none => some s⟩

end FormulaicVerif.Model.Nulls
