import FormulaicVerif.Model.Calculus
import FormulaicVerif.Model.SimpleFormula
import FormulaicVerif.Model.Structured
import FormulaicVerif.Gen.Calculus
/-! Every entry point of differentiation (C20), as written in the code:

* `differentiate_term(term, wrt, use_sympy)` (`utils/calculus.py`) including the `use_sympy=True`
  call when `sympy` cannot be imported (`Gen.Calculus.sympyImportable`, read off the live
  environment): `_factor_symbols` is asked about the FIRST factor of the FIRST variable and raises
  `ImportError`; with no variable, or a term without factors, it is never called;
* `SimpleFormula.differentiate(*wrt)`: the list comprehension over the private `__terms` (whatever
  ordering / edit history produced it), wrapped in `SimpleFormula(…, _ordering=NONE)`;
* `StructuredFormula.differentiate`: `self._map(lambda formula: formula.differentiate(…))`
  (`Structured._map`: every nested `Structured` is rebuilt by its constructor, which stores the
  `root` key last; tuples stay tuples; the first leaf that raises aborts the whole call);
* `ModelSpec.differentiate`: `update(formula=self.formula.differentiate(…), structure=None)`;
* `ModelSpecs.differentiate`: `_map` of the former (`as_type=ModelSpecs`).

A formula object is its state: the `ordering` attribute and the private term list, as modelled by
`Model.SFm` (`init`, `run`). -/
namespace FormulaicVerif.Model.Calc
open FormulaicVerif.Model

inductive Err
  | runtime        -- RuntimeError("Cannot differentiate non-trivial factors without `sympy`.")
  | importError    -- ImportError("`sympy` is not available. …")
  | notModelled    -- `use_sympy=True` with sympy importable: outside the model (never requested by the harness)
deriving DecidableEq, Repr, Inhabited

/-- `differentiate_term(term, wrt, use_sympy=useSympy)` in an environment where `sympy` is
importable or not -/
def diffTerm (sympy useSympy : Bool) (t : Term) (wrt : List String) : Except Err Term :=
  if useSympy then
    if sympy then .error .notModelled
    else
      match wrt, t with
      | [], _ => .ok (if t.isEmpty then [litOne] else t)   -- the loop body never runs: `Term(factors or {1})`
      | _ :: _, [] => .ok [litZero]                          -- no factor to ask about: `affected_factors` is empty
      | _ :: _, _ :: _ => .error .importError                -- `_factor_symbols(first factor, use_sympy=True)`
  else
    match differentiateTerm t wrt with
    | .ok r => .ok r
    | .error _ => .error .runtime

/-- a `SimpleFormula` object: its `ordering` attribute and its private term list -/
structure Simple where
  ordering : SFm.Ordering
  terms : List Term
deriving DecidableEq, Repr, Inhabited

/-- `SimpleFormula(terms, _ordering=o)` -/
def Simple.new (o : SFm.Ordering) (terms : List Term) : Simple := ⟨o, SFm.init o terms⟩

/-- a history of sequence operations on the object (exceptions are caught by the caller and leave
the state as `Model.SFm.step` says) -/
def Simple.edit (f : Simple) (ops : List SFm.Op) : Simple := ⟨f.ordering, SFm.run f.ordering f.terms ops⟩

/-- `f[a:b]`: `self.__class__(self.__terms[a:b], _ordering=self.ordering)` (slice bounds clamp) -/
def Simple.slice (f : Simple) (a b : Int) : Simple :=
  Simple.new f.ordering
    ((f.terms.take (SFm.clampIdx b f.terms.length)).drop (SFm.clampIdx a f.terms.length))

/-- `[differentiate_term(term, wrt, use_sympy=…) for term in self.__terms]` -/
def diffTerms (sympy useSympy : Bool) (ts : List Term) (wrt : List String) : Except Err (List Term) :=
  ts.mapM (fun t => diffTerm sympy useSympy t wrt)

/-- `SimpleFormula.differentiate(*wrt, use_sympy=…)` -/
def Simple.differentiate (sympy useSympy : Bool) (f : Simple) (wrt : List String) : Except Err Simple :=
  match diffTerms sympy useSympy f.terms wrt with
  | .error e => .error e
  | .ok ts => .ok (Simple.new .none ts)

/-! ### `Structured._map` with a function that may raise -/

section mapE
variable {α β ε : Type}

mutual
/-- `_map(func)` (recursive, value only) for a `func` that may raise: evaluation order is the dict
comprehension over `_structure.items()` / the generator over a tuple, depth first; the first
exception propagates; every `Structured` level is rebuilt through its constructor (`rootLast`) -/
def mapE (f : α → Except ε β) : St.Val α → Except ε (St.Val β)
  | .leaf a =>
    match f a with
    | .error e => .error e
    | .ok b => .ok (.leaf b)
  | .tup vs =>
    match mapET f vs with
    | .error e => .error e
    | .ok r => .ok (.tup r)
  | .node kvs =>
    match mapEI f kvs with
    | .error e => .error e
    | .ok r => .ok (.node (St.rootLast r))
def mapET (f : α → Except ε β) : List (St.Val α) → Except ε (List (St.Val β))
  | [] => .ok []
  | v :: vs =>
    match mapE f v with
    | .error e => .error e
    | .ok b =>
      match mapET f vs with
      | .error e => .error e
      | .ok r => .ok (b :: r)
def mapEI (f : α → Except ε β) : St.Items α → Except ε (St.Items β)
  | [] => .ok []
  | (k, v) :: r =>
    match mapE f v with
    | .error e => .error e
    | .ok b =>
      match mapEI f r with
      | .error e => .error e
      | .ok r' => .ok ((k, b) :: r')
end

end mapE

/-- a `Formula`: `SimpleFormula` = a bare leaf, `StructuredFormula` = a node -/
abbrev FormulaV := St.Val Simple

/-- `Formula.differentiate(*wrt, use_sympy=…)` for both subclasses (on a `SimpleFormula` this is
`Simple.differentiate`; on a `StructuredFormula` the `_map`) -/
def differentiate (sympy useSympy : Bool) (f : FormulaV) (wrt : List String) : Except Err FormulaV :=
  mapE (fun s => Simple.differentiate sympy useSympy s wrt) f

/-- what C20 looks at in a `ModelSpec`: its formula and whether `structure` is populated -/
structure Spec where
  formula : Simple
  hasStructure : Bool
deriving DecidableEq, Repr, Inhabited

/-- `ModelSpec.differentiate`: `self.update(formula=self.formula.differentiate(…), structure=None)` -/
def Spec.differentiate (sympy useSympy : Bool) (s : Spec) (wrt : List String) : Except Err Spec :=
  match s.formula.differentiate sympy useSympy wrt with
  | .error e => .error e
  | .ok f => .ok ⟨f, false⟩

/-- `ModelSpec.differentiate` (leaf) / `ModelSpecs.differentiate` (node) -/
def differentiateSpecs (sympy useSympy : Bool) (s : St.Val Spec) (wrt : List String) :
    Except Err (St.Val Spec) :=
  mapE (fun s => Spec.differentiate sympy useSympy s wrt) s

/-! ### the constants the code writes (checked against the live package in `Props/C20.lean`) -/

def orderingName : SFm.Ordering → String
  | .none => "none" | .degree => "degree" | .sort => "sort"

def evalName : EvalMethod → String
  | .literal => "literal" | .python => "python" | .lookup => "lookup"

def Err.className : Err → String
  | .runtime => Gen.Calculus.nonTrivialError
  | .importError => Gen.Calculus.sympyMissingError
  | .notModelled => "NOT-MODELLED"

end FormulaicVerif.Model.Calc
