/-! # C05 — the `ModelMatrix` / `ModelMatrices` wrappers (formulaic/model_matrix.py)

Whatever the output type (a pandas frame, a numpy array, a scipy matrix), the result of a
materialisation is a `ModelMatrix`: a transparent proxy (`wrapt.ObjectProxy`) around the matrix
object that carries the `ModelSpec` it was built with (`.model_spec`: the column names of a numpy /
sparse matrix live there). This file models what the wrapper itself does:

* `__copy__` (a copy of the wrapped object, the SAME spec object), `__deepcopy__` (deep copies of
  both), `__reduce_ex__` (pickle: `ModelMatrix(wrapped, spec)` is rebuilt from the two pickled parts);
* `ModelMatrices._prepare_item` / `ModelSpecs._prepare_item` (a structured container accepts only
  `ModelMatrix` / `ModelSpec` leaves: `TypeError` otherwise) and `ModelMatrices.model_spec` (the
  `ModelSpecs` of the leaves' specs under the same keys — a `TypeError` if a leaf has no spec).

How the wrapped objects and the specs themselves are copied (numpy / pandas / scipy / dataclass
copying, pickle) is a PARAMETER (`Copiers`). Core Lean only. -/
namespace FormulaicVerif.Model.Wrapper

/-- a `ModelMatrix`: the wrapped matrix object and the attached spec (`None` when built by hand) -/
structure MM (α σ : Type) where
  wrapped : α
  spec : Option σ
deriving DecidableEq, Repr

inductive Op
  | copy       -- `copy.copy(mm)`
  | deepcopy   -- `copy.deepcopy(mm)`
  | pickle     -- `pickle.loads(pickle.dumps(mm))`
deriving DecidableEq, Repr

/-- PARAMETERS: how the library objects inside are copied -/
structure Copiers (α σ : Type) where
  copyM : α → α
  deepM : α → α
  pickleM : α → α
  deepS : σ → σ
  pickleS : σ → σ

def MM.apply {α σ} (k : Copiers α σ) (m : MM α σ) : Op → MM α σ
  | .copy => ⟨k.copyM m.wrapped, m.spec⟩
  | .deepcopy => ⟨k.deepM m.wrapped, m.spec.map k.deepS⟩
  | .pickle => ⟨k.pickleM m.wrapped, m.spec.map k.pickleS⟩

def MM.applyAll {α σ} (k : Copiers α σ) (m : MM α σ) (ops : List Op) : MM α σ := ops.foldl (fun m op => m.apply k op) m

/-- what is offered to a structured container as a leaf -/
inductive Item (α σ : Type)
  | matrix (m : MM α σ)
  | spec (s : σ)
  | other
deriving Repr

inductive Err
  | typeError
deriving DecidableEq, Repr

/-- `ModelMatrices(**items)`: `_prepare_item` accepts `ModelMatrix` instances only -/
def mkModelMatrices {α σ} : List (String × Item α σ) → Except Err (List (String × MM α σ))
  | [] => .ok []
  | (k, .matrix m) :: r =>
    match mkModelMatrices r with
    | .error e => .error e
    | .ok r' => .ok ((k, m) :: r')
  | (_, _) :: _ => .error .typeError

/-- `ModelSpecs(**items)`: `_prepare_item` accepts `ModelSpec` instances only -/
def mkModelSpecs {α σ} : List (String × Item α σ) → Except Err (List (String × σ))
  | [] => .ok []
  | (k, .spec s) :: r =>
    match mkModelSpecs r with
    | .error e => .error e
    | .ok r' => .ok ((k, s) :: r')
  | (_, _) :: _ => .error .typeError

/-- `ModelMatrices.model_spec`: `self._map(lambda mm: mm.model_spec, as_type=ModelSpecs)` — the same
keys; a leaf without spec (`None`) is refused by `ModelSpecs._prepare_item` -/
def modelSpecOf {α σ} : List (String × MM α σ) → Except Err (List (String × σ))
  | [] => .ok []
  | (k, m) :: r =>
    match m.spec with
    | none => .error .typeError
    | some s =>
      match modelSpecOf r with
      | .error e => .error e
      | .ok r' => .ok ((k, s) :: r')

end FormulaicVerif.Model.Wrapper
