import FormulaicVerif.Model.Kinds
/-! # C08 — kind inference, level discovery, dummy coding, numeric pass-through

Mirrors, for a frame of plain data columns and a main-effects formula `[1 +] c₁ + c₂ + …`:

* `FormulaMaterializer._evaluate_factor` (base.py): a looked-up column has kind UNKNOWN and becomes
  CATEGORICAL (`spans_intercept=True`) when the materializer's `_is_categorical` says so, NUMERICAL
  otherwise. `_is_categorical` is NOT re-implemented here: it enters through a kind table
  (`List KindRow`, one row per dtype) that `harness/translate.py` regenerates from the live
  `PandasMaterializer._is_categorical` / `NarwhalsMaterializer._is_categorical` on every run
  (`Gen.kindTable`).
* `_check_for_nulls` + `drop_rows` (positional): rows with a null in any used column.
* `encode_contrasts` (transforms/contrasts.py): levels = `_state["categories"]`/`levels` when given,
  else `pandas.Series(data).astype("category").cat.categories` — the declared categories of a
  categorical dtype, the sorted distinct non-null values otherwise; dummy coding
  (`pandas.get_dummies` / `categorical_encode_series_to_sparse_csc_matrix`): one indicator column per
  level, a null row is all zeros; treatment coding drops the first level when the factor is reduced.
* `_encode_numerical`: the values pass through unchanged.
* the rank rule of `_get_scoped_terms` specialised to main effects: with `ensure_full_rank` a
  categorical main effect is reduced iff the intercept or an earlier categorical main effect is present.

The model mirrors the code AS IT IS: a column whose kind the table says is NUMERICAL passes through
whatever it holds — for a text column the raw strings (`Cell.str`). Core Lean only. -/
namespace FormulaicVerif.Model.Encode
open FormulaicVerif.Model

/-- which materializer sees the column: the pandas materializer, the narwhals materializer on a
pandas frame, the narwhals materializer on a pyarrow table -/
inductive Mat | pandas | narwhals | arrow
deriving DecidableEq, Repr

inductive Err
  | unknownDtype    -- the dtype label is not in the probe table (harness-level)
  | probeFailed     -- `_is_categorical` raised on the probe series of this dtype
  | familyMismatch  -- the column's content does not belong to the dtype's family (harness-level)
  | valueError      -- `na_action="raise"` and a null is present
  | unsupported     -- numeric values used as category labels (float printing is not modelled)
deriving DecidableEq, Repr

def Err.name : Err → String
  | .unknownDtype => "unknown-dtype" | .probeFailed => "probe-failed" | .familyMismatch => "family-mismatch"
  | .valueError => "ValueError" | .unsupported => "unsupported"

/-- the classification recorded in a table row for a materializer -/
def kindFor (r : KindRow) : Mat → FKind
  | .pandas => r.pandasKind
  | .narwhals => r.narwhalsKind
  | .arrow => r.arrowKind

def lookupRow (tbl : List KindRow) (dtype : String) : Option KindRow :=
  tbl.find? (fun r => r.dtype == dtype)

/-- `_evaluate_factor`: UNKNOWN → CATEGORICAL | NUMERICAL by `self._is_categorical(value)` -/
def inferKind (tbl : List KindRow) (m : Mat) (dtype : String) : Except Err FKind :=
  match lookupRow tbl dtype with
  | none => .error .unknownDtype
  | some r =>
    match kindFor r m with
    | .error => .error .probeFailed
    | .categorical => .ok .categorical
    | .numerical => .ok .numerical

/-! ### data columns -/

/-- a data column; `none` is a null. Category labels of a categorical dtype are their printed form. -/
inductive Column
  | text (vals : List (Option String))
  | cat (declared : List String) (vals : List (Option String))
  | num (vals : List (Option Rat))
  | bool (vals : List (Option Bool))
deriving DecidableEq, Repr

def Column.family : Column → DFamily
  | .text _ => .text
  | .cat _ _ => .categorical
  | .num _ => .numeric
  | .bool _ => .bool

/-- per row: is the entry null (`find_nulls`) -/
def Column.nulls : Column → List Bool
  | .text vs => vs.map Option.isNone
  | .cat _ vs => vs.map Option.isNone
  | .num vs => vs.map Option.isNone
  | .bool vs => vs.map Option.isNone

inductive NA | drop | raise | ignore
deriving DecidableEq, Repr

/-- per row: does any of the used columns hold a null there -/
def nullRows (nrows : Nat) (cols : List Column) : List Bool :=
  cols.foldl (fun acc c => List.zipWith (· || ·) acc c.nulls) (List.replicate nrows false)

/-- `_check_for_nulls`: the rows that are kept (`true`) under the null policy -/
def keepMask (na : NA) (nrows : Nat) (cols : List Column) : Except Err (List Bool) :=
  let nulls := nullRows nrows cols
  match na with
  | .drop => .ok (nulls.map (!·))
  | .ignore => .ok (nulls.map (fun _ => true))
  | .raise => if nulls.any id then .error .valueError else .ok (nulls.map (fun _ => true))

/-- positional row selection (`drop_rows`) -/
def applyMask {α} : List Bool → List α → List α
  | true :: m, x :: xs => x :: applyMask m xs
  | false :: m, _ :: xs => applyMask m xs
  | _, _ => []

/-! ### level discovery -/

/-- insert into a strictly increasing list, keeping it strictly increasing and duplicate-free -/
def insertLevel (s : String) : List String → List String
  | [] => [s]
  | t :: r => if s < t then s :: t :: r else if s = t then t :: r else t :: insertLevel s r

/-- sorted (code-point lexicographic order of `str`), duplicate-free -/
def sortDedup (xs : List String) : List String := xs.foldr insertLevel []

/-- `categories` of `encode_contrasts`: declared order for a categorical dtype, else the sorted
distinct non-null values -/
def levels (vals : List (Option String)) (declared : Option (List String)) : List String :=
  match declared with
  | some d => d
  | none => sortDedup (vals.filterMap id)

def boolLabel (b : Bool) : String := if b then "True" else "False"

/-- what the categorical encoder sees: the row labels and the declared categories (if any).
`pandas.Categorical(values, categories)` turns a value outside the categories into a null. -/
def catValues : Column → Except Err (List (Option String) × Option (List String))
  | .text vs => .ok (vs, none)
  | .cat d vs => .ok (vs.map (fun v => v.bind (fun s => if d.contains s then some s else none)), some d)
  | .bool vs => .ok (vs.map (fun v => v.map boolLabel), none)
  | .num _ => .error .unsupported

/-! ### cells of the model matrix -/

inductive Cell
  | num (q : Rat)
  | nan               -- float NaN (a null that was passed through)
  | str (s : String)  -- a raw string: NOT a number
deriving DecidableEq, Repr

def Cell.isNumber : Cell → Bool
  | .num _ => true
  | .nan => true
  | .str _ => false

abbrev OutCol := String × List Cell

/-- `get_dummies` column of one level -/
def indicator (lv : String) (vals : List (Option String)) : List Cell :=
  vals.map (fun v => if v = some lv then Cell.num 1 else Cell.num 0)

/-- `FACTOR_FORMAT = "{name}[{field}]"`, `TreatmentContrasts.FACTOR_FORMAT_REDUCED = "{name}[T.{field}]"` -/
def fmtName (name lv : String) (reduced : Bool) : String :=
  if reduced then name ++ "[T." ++ lv ++ "]" else name ++ "[" ++ lv ++ "]"

/-- dummy coding with treatment reduction (`del encoded[drop_field]`, the first level) -/
def dummyCode (name : String) (lvls : List String) (vals : List (Option String)) (reduced : Bool) : List OutCol :=
  (if reduced then lvls.drop 1 else lvls).map (fun lv => (fmtName name lv reduced, indicator lv vals))

/-- `_encode_numerical`: the values as they are -/
def passThrough : Column → List Cell
  | .num vs => vs.map (fun v => match v with | some q => Cell.num q | none => Cell.nan)
  | .bool vs => vs.map (fun v => match v with | some b => Cell.num (if b then 1 else 0) | none => Cell.nan)
  | .text vs => vs.map (fun v => match v with | some s => Cell.str s | none => Cell.nan)
  | .cat _ vs => vs.map (fun v => match v with | some s => Cell.str s | none => Cell.nan)

/-! ### the matrix of a main-effects formula -/

structure In where
  name : String
  dtype : String
  col : Column
deriving DecidableEq, Repr

structure Opts where
  intercept : Bool
  efr : Bool
  na : NA
deriving DecidableEq, Repr

def Column.masked (mask : List Bool) : Column → Column
  | .text vs => .text (applyMask mask vs)
  | .cat d vs => .cat d (applyMask mask vs)
  | .num vs => .num (applyMask mask vs)
  | .bool vs => .bool (applyMask mask vs)

/-- one column of the frame → (is it categorical, its model-matrix columns) -/
def encodeOne (tbl : List KindRow) (m : Mat) (mask : List Bool) (reduced : Bool) (c : In) :
    Except Err (Bool × List OutCol) :=
  match lookupRow tbl c.dtype with
  | none => .error .unknownDtype
  | some r =>
    if r.family ≠ c.col.family then .error .familyMismatch
    else
      match inferKind tbl m c.dtype with
      | .error e => .error e
      | .ok .categorical =>
        match catValues (c.col.masked mask) with
        | .error e => .error e
        | .ok (vals, declared) => .ok (true, dummyCode c.name (levels vals declared) vals reduced)
      | .ok _ => .ok (false, [(c.name, passThrough (c.col.masked mask))])

/-- the columns of the frame in formula order; `spanned`: has the intercept been spanned so far -/
def buildCols (tbl : List KindRow) (m : Mat) (efr : Bool) (mask : List Bool) : Bool → List In → Except Err (List OutCol)
  | _, [] => .ok []
  | spanned, c :: rest =>
    match encodeOne tbl m mask (efr && spanned) c with
    | .error e => .error e
    | .ok (isCat, cols) =>
      match buildCols tbl m efr mask (spanned || isCat) rest with
      | .error e => .error e
      | .ok more => .ok (cols ++ more)

/-- `model_matrix("[1 +] c₁ + c₂ + …", frame)` -/
def build (tbl : List KindRow) (m : Mat) (o : Opts) (nrows : Nat) (ins : List In) : Except Err (List OutCol) :=
  match keepMask o.na nrows (ins.map (·.col)) with
  | .error e => .error e
  | .ok mask =>
    match buildCols tbl m o.efr mask o.intercept ins with
    | .error e => .error e
    | .ok body =>
      .ok ((if o.intercept then [("Intercept", List.replicate (mask.count true) (Cell.num 1))] else []) ++ body)

end FormulaicVerif.Model.Encode
