/-! Columns, ordered dictionaries, `itertools.product`, and the two `_get_columns_for_term`
implementations (`formulaic/materializers/base.py` and the fast path shared verbatim by
`pandas.py` and `narwhals.py`).

Values are exact rationals; a column is a `List Rat` (one entry per retained row); numpy's
element-wise `*` of two equally long arrays is `List.zipWith (· * ·)`. -/
namespace FormulaicVerif.Model

/-- Python exceptions that the modelled path can raise -/
inductive MErr
  | keyError      -- `factor_cache[expr]`, `del encoded[drop_field]`
  | typeError     -- `functools.reduce` of an empty sequence without initial value
  | indexError    -- `names[i]`
deriving DecidableEq, Repr

def MErr.name : MErr → String
  | .keyError => "KeyError" | .typeError => "TypeError" | .indexError => "IndexError"

abbrev Col := List Rat

/-- element-wise product (numpy `*` / `numpy.multiply` / `csc_matrix.multiply` on equal shapes) -/
def Col.mul (a b : Col) : Col := List.zipWith (· * ·) a b
/-- `scale * column` -/
def Col.smul (s : Rat) (a : Col) : Col := a.map (s * ·)
/-- `numpy.ones(nrows)` -/
def Col.ones (n : Nat) : Col := List.replicate n 1

/-- a key of an encoded-factor dictionary: `str(key)` and whether the key is a `str` -/
structure Field where
  text : String
  isStr : Bool
deriving DecidableEq, Repr

/-- one structural component of a column label: which factor, which field of its encoding
(`none`: the factor was encoded as a single column and carries no field), and whether the
reduced-rank encoding was used -/
structure Part where
  expr : String
  field : Option Field
  reduced : Bool
deriving DecidableEq, Repr

/-- an entry of a flattened encoded factor `{name: column}` with its structural label -/
structure Item where
  name : String
  part : Part
  col : Col
deriving DecidableEq, Repr

/-- a column of the model matrix: printed name, structural label, values -/
structure Entry where
  name : String
  parts : List Part
  col : Col
deriving DecidableEq, Repr

/-- `":".join(xs)` -/
def joinColon (xs : List String) : String := String.intercalate ":" xs

/-! ### insertion-ordered dictionaries keyed by `name` -/

/-- `d[k] = v` on an insertion-ordered dict of entries: replace the value in place when the key
exists (position kept), else append -/
def dictSet (d : List Entry) (e : Entry) : List Entry :=
  match d with
  | [] => [e]
  | x :: r => if x.name = e.name then e :: r else x :: dictSet r e

/-- `d.update(other)` -/
def dictUpdate (d new : List Entry) : List Entry := new.foldl dictSet d

/-- the same for encoded-factor dictionaries -/
def itemSet (d : List Item) (e : Item) : List Item :=
  match d with
  | [] => [e]
  | x :: r => if x.name = e.name then e :: r else x :: itemSet r e

/-! ### `itertools.product` -/

/-- `itertools.product(*xss)`: the LAST iterable varies fastest -/
def iproduct {α} : List (List α) → List (List α)
  | [] => [[]]
  | xs :: rest => xs.flatMap (fun x => (iproduct rest).map (x :: ·))

/-- `functools.reduce(operator.mul, cols)` (no initial value) -/
def reduceMul : List Col → Except MErr Col
  | [] => .error .typeError
  | c :: cs => .ok (cs.foldl Col.mul c)

/-- a `for` loop whose body may raise: left fold that stops at the first exception -/
def foldE {α β ε} (f : β → α → Except ε β) : β → List α → Except ε β
  | b, [] => .ok b
  | b, a :: l =>
    match f b a with
    | .error e => .error e
    | .ok b' => foldE f b' l

/-! ### `FormulaMaterializer._get_columns_for_term` (base.py) -/

/-- one iteration of the loop body: `product = reverse_product[::-1]`,
`out[":".join(p[0] for p in product)] = scale * reduce(mul, (p[1] for p in product))` -/
def baseStep (scale : Rat) (out : List Entry) (rp : List Item) : Except MErr (List Entry) :=
  let p := rp.reverse
  match reduceMul (p.map (·.col)) with
  | .error e => .error e
  | .ok v => .ok (dictSet out ⟨joinColon (p.map (·.name)), p.map (·.part), Col.smul scale v⟩)

/-- `for reverse_product in itertools.product(*(f.items() for f in reversed(factors)))` -/
def columnsBase (factors : List (List Item)) (scale : Rat) : Except MErr (List Entry) :=
  foldE (baseStep scale) [] (iproduct factors.reverse)

/-! ### the pandas / narwhals fast path -/

/-- `names = [":".join(reversed(product)) for product in itertools.product(*reversed(factors))]`
(iterating a dict yields its keys; the structural label is carried along) -/
def fastNames (factors : List (List Item)) : List (String × List Part) :=
  (iproduct factors.reverse).map (fun p => (joinColon (p.reverse.map (·.name)), p.reverse.map (·.part)))

/-- `solo_factors.extend(factor.items())` for every factor with exactly one entry, in order
(a list of `(name, values)` pairs: two factors may share an encoded column name) -/
def soloItems (factors : List (List Item)) : List Item :=
  (factors.filter (fun f => f.length == 1)).flatten

/-- the factor list after `factors.pop(index)` for every solo index and the append of the
pre-multiplied solo factor (unchanged when there is no solo factor) -/
def fastFactors (factors : List (List Item)) : Except MErr (List (List Item)) :=
  let solo := soloItems factors
  if solo.isEmpty then .ok factors
  else
    match reduceMul (solo.map (·.col)) with
    | .error e => .error e
    | .ok v =>
      .ok (factors.filter (fun f => !(f.length == 1)) ++
        [[⟨joinColon (solo.map (·.name)), ⟨joinColon (solo.map (·.name)), none, false⟩, v⟩]])

/-- loop body: `out[names[i]] = scale * reduce(multiply, (p[1] for p in reversed(reversed_product)))` -/
def fastStep (names : List (String × List Part)) (scale : Rat)
    (acc : Nat × List Entry) (rp : List Item) : Except MErr (Nat × List Entry) :=
  match names[acc.1]? with
  | none => .error .indexError
  | some (nm, parts) =>
    match reduceMul (rp.reverse.map (·.col)) with
    | .error e => .error e
    | .ok v => .ok (acc.1 + 1, dictSet acc.2 ⟨nm, parts, Col.smul scale v⟩)

def columnsFast (factors : List (List Item)) (scale : Rat) : Except MErr (List Entry) :=
  let names := fastNames factors
  match fastFactors factors with
  | .error e => .error e
  | .ok fs =>
    match foldE (fastStep names scale) (0, []) (iproduct fs.reverse) with
    | .error e => .error e
    | .ok r => .ok r.2

end FormulaicVerif.Model
