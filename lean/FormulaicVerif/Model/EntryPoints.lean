/-! # C05 — the entry-point plumbing

Every public way of asking for a model matrix ends in
`FormulaMaterializer.get_model_matrix(self, spec, drop_rows=None, **spec_overrides)`. This file
models the plumbing in front of it as pure functions from a call record to the REQUEST that reaches
that method (which materializer class was instantiated on which data with which context, the
prepared `ModelSpec` options of every leaf, whether the result is simplified, and which `drop_rows`
object was forwarded):

* `formulaic.model_matrix` (sugar.py), with `context` given as a mapping,
* `SimpleFormula.get_model_matrix` / `StructuredFormula.get_model_matrix` (formula.py),
* `ModelSpec.from_spec`, `ModelSpec.update`, `ModelSpec.__post_init__`, `ModelSpec.get_materializer`,
  `ModelSpec.get_model_matrix` (with and without overrides), `ModelSpecs.get_model_matrix`
  (joint / non-joint) (model_spec.py),
* `FormulaMaterializerMeta.for_materializer`, and `FormulaMaterializer.__init__` /
  `get_model_matrix`'s first lines (`ModelSpec.from_spec(spec, context=self.layered_context, **spec_overrides)`,
  `_prepare_model_specs`) (materializers/base.py).

`for_data(data)` enters as `Call.dataMat` (the name of the class it returns, `none` when it raises):
`Model/Dispatch.lean` computes it with the registry model (`Model/Registry.lean`) from what
`for_data` itself reads of the data, and builds `Env.registry` (`REGISTER_NAME → REGISTER_OUTPUTS`) from
the registry as well; the enum values, the layers of a materializer's context and the defaults of
`ModelSpec` are compared with GENERATED tables in `Props/C05.lean` (`model_constants_are_live`).
A value given for `materializer=` may be a name, a materializer class, an instance or anything else
(`MatArg`); `__post_init__` turns it into a name. After `_prepare_model_specs` the leaves of one
request must agree on output / null policy / rank setting (`consistent`, else `RuntimeError`).
`ModelSpecs.get_model_matrix` on parts that cannot share a materializer (per-spec branch) hands every
part ONE drop set — the caller's, or a set it creates (`Call.freshDrop`) — and generates the parts a
second time when that set grew during the first pass (`Call.dropGrows`, a parameter: it depends on
the nulls of the data).
Formulas, data, context mappings, `drop_rows` sets and materializer params are opaque identities. A
structured spec is modelled as its list of `(key, leaf)` in `_flatten` order. Frame capture
(`context=<int>`) is not modelled. Core Lean only. -/
namespace FormulaicVerif.Model.EntryPoints

inductive Err
  | typeError         -- unexpected keyword argument (`ModelSpec(**attrs)`, `dataclasses.replace`)
  | valueError        -- `NAAction(x)` / `ClusterBy(x)` of an unknown value
  | notFound          -- FormulaMaterializerNotFoundError
  | materialization   -- FormulaMaterializationError (output not offered by the materializer)
  | invalid           -- FormulaMaterializerInvalidError (`materializer=` neither a name, a materializer nor a materializer class)
  | runtime           -- RuntimeError (the leaves of one joint request disagree on output / na_action / ensure_full_rank)
deriving DecidableEq, Repr

def Err.name : Err → String
  | .typeError => "TypeError" | .valueError => "ValueError"
  | .notFound => "FormulaMaterializerNotFoundError" | .materialization => "FormulaMaterializationError"
  | .invalid => "FormulaMaterializerInvalidError"
  | .runtime => "RuntimeError"

/-- a value given for `materializer=` -/
inductive MatArg
  | none                              -- `None`
  | name (s : String)                 -- a `str`: stored as it is (looked up only when a materializer is needed)
  | cls (regName : Option String)     -- a `FormulaMaterializer` subclass whose `REGISTER_NAME` is `regName`
  | inst (regName : Option String)    -- a `FormulaMaterializer` instance of such a class
  | other                             -- anything else
deriving DecidableEq, Repr

/-- `ModelSpec.__post_init__` on the `materializer` field: a non-string is replaced by
`FormulaMaterializer.for_materializer(x).REGISTER_NAME` (which is `None` for a class that does not
register itself, so that such a class is silently forgotten) -/
def MatArg.normalise : MatArg → Except Err (Option String)
  | .none => .ok Option.none
  | .name s => .ok (some s)
  | .cls n => .ok n
  | .inst n => .ok n
  | .other => .error .invalid

/-- one keyword of `**spec_overrides` / `**attrs` -/
inductive Attr
  | materializer (m : MatArg)
  | params (p : Option Nat)
  | efr (b : Bool)
  | na (s : String)
  | output (o : Option String)
  | cluster (s : String)
  | unknown (key : String)
deriving DecidableEq, Repr

/-- the configuration fields of a `ModelSpec` (the formula is an opaque identity) -/
structure MSpec where
  formula : Nat
  materializer : Option String := none
  params : Option Nat := none
  efr : Bool := true
  na : String := "drop"
  output : Option String := none
  cluster : String := "none"
deriving DecidableEq, Repr

/-- static environment: the materializer registry, the enum values -/
structure Env where
  registry : List (String × List String)
  naActions : List String
  clusterBys : List String := ["none", "numerical_factors"]
  /-- GENERATED (`Gen.forwardsDropOnOverride`): does `ModelSpec.get_model_matrix(..., drop_rows=d, **overrides)`
  hand `d` on. On the pinned tree it does not (`self.update(**ov).get_model_matrix(data, context=context)`). -/
  fwdOverride : Bool := false
  /-- GENERATED (`Gen.forwardsDropOnJoint`): does the joint path of `ModelSpecs.get_model_matrix` hand `d` on.
  On the pinned tree it does not (`materializer(...).get_model_matrix(self)`). -/
  fwdJoint : Bool := false

def Attr.isUnknown : Attr → Bool
  | .unknown _ => true
  | _ => false

/-- one field assignment. The `materializer` field is normalised here although Python does it in
`__post_init__`, after ALL fields are assigned: the only exception an assignment can raise before
that is the `TypeError` of an unknown keyword, which `setAttrs` raises first, and `__post_init__`
converts the materializer before it looks at `na_action` / `cluster_by` -/
def setAttr (ms : MSpec) : Attr → Except Err MSpec
  | .materializer m =>
    match m.normalise with
    | .error e => .error e
    | .ok n => .ok { ms with materializer := n }
  | .params p => .ok { ms with params := p }
  | .efr b => .ok { ms with efr := b }
  | .na s => .ok { ms with na := s }
  | .output o => .ok { ms with output := o }
  | .cluster s => .ok { ms with cluster := s }
  | .unknown _ => .error .typeError

def setAttrsFrom (ms : MSpec) : List Attr → Except Err MSpec
  | [] => .ok ms
  | a :: r =>
    match setAttr ms a with
    | .error e => .error e
    | .ok ms' => setAttrsFrom ms' r

/-- `ModelSpec(**attrs)` / `dataclasses.replace(ms, **attrs)` up to `__init__`: an unknown keyword is a
`TypeError` before anything is assigned -/
def setAttrs (ms : MSpec) (attrs : List Attr) : Except Err MSpec :=
  if attrs.any Attr.isUnknown then .error .typeError else setAttrsFrom ms attrs

/-- `ModelSpec.__post_init__`: `NAAction(self.na_action)`, then `ClusterBy(self.cluster_by)`
(a materializer given by NAME is not checked here) -/
def postInit (env : Env) (ms : MSpec) : Except Err MSpec :=
  if !env.naActions.contains ms.na then .error .valueError
  else if !env.clusterBys.contains ms.cluster then .error .valueError
  else .ok ms

/-- `ModelSpec.update(**attrs)` = `dataclasses.replace` (re-runs `__init__` and `__post_init__`);
`ModelSpec(formula=f, **attrs)` is the same on the default field values -/
def update (env : Env) (ms : MSpec) (attrs : List Attr) : Except Err MSpec :=
  match setAttrs ms attrs with
  | .error e => .error e
  | .ok ms' => postInit env ms'

/-- the `spec` argument -/
inductive SpecArg
  | formula (f : Nat)                          -- a string / SimpleFormula / list of terms
  | sformula (parts : List (String × Nat))     -- a (string that parses to a) StructuredFormula
  | mspec (ms : MSpec)                         -- a ModelSpec, or a ModelMatrix (its `.model_spec`)
  | mspecs (parts : List (String × MSpec))     -- a ModelSpecs / ModelMatrices
deriving DecidableEq, Repr

/-- result of `ModelSpec.from_spec`: a `ModelSpec` or a `ModelSpecs` -/
inductive Prepared
  | one (ms : MSpec)
  | many (parts : List (String × MSpec))
deriving DecidableEq, Repr

def mapParts {α β} (f : α → Except Err β) : List (String × α) → Except Err (List (String × β))
  | [] => .ok []
  | (k, a) :: r =>
    match f a with
    | .error e => .error e
    | .ok b =>
      match mapParts f r with
      | .error e => .error e
      | .ok r' => .ok ((k, b) :: r')

/-- `ModelSpec.from_spec(spec, **attrs)` -/
def fromSpec (env : Env) (spec : SpecArg) (attrs : List Attr) : Except Err Prepared :=
  match spec with
  | .formula f => (update env { formula := f } attrs).map .one
  | .sformula parts => (mapParts (fun f => update env { formula := f } attrs) parts).map .many
  | .mspec ms => (update env ms attrs).map .one
  | .mspecs parts => (mapParts (fun ms => update env ms attrs) parts).map .many

/-- what reaches `FormulaMaterializer.get_model_matrix`, after its own `from_spec` and `_prepare_model_specs` -/
structure Request where
  matName : String                 -- REGISTER_NAME of the class that was instantiated
  data : Nat
  context : Option Nat             -- the mapping given to the constructor (`None` → `{}`)
  layers : List String             -- names of the layers of `layered_context`, outermost first
  params : Option Nat
  specs : List (String × MSpec)    -- the prepared leaves (key "" for a single ModelSpec)
  simplify : Bool                  -- `isinstance(spec, ModelSpec)`: the result is unwrapped
  dropRows : Option Nat            -- identity of the set object handed over (none: `None`)
deriving DecidableEq, Repr

/-- a materializer instance: `cls(data, context=context, **params)` -/
structure Inst where
  name : String
  outputs : List String
  data : Nat
  context : Option Nat
  params : Option Nat
deriving DecidableEq, Repr

/-- `FormulaMaterializer.for_materializer(name)` -/
def forMaterializer (env : Env) (name : String) : Except Err (String × List String) :=
  match env.registry.find? (fun r => r.1 == name) with
  | none => .error .notFound
  | some r => .ok r

/-- the call as the user wrote it -/
structure Call where
  spec : SpecArg
  data : Nat
  /-- PARAMETER: `FormulaMaterializer.for_data(data).REGISTER_NAME` (none: it raises) -/
  dataMat : Option String
  context : Option Nat
  dropRows : Option Nat
  overrides : List Attr
  /-- the identity of the set `ModelSpecs.get_model_matrix` creates itself when the caller gave no
  `drop_rows` and the parts cannot share a materializer (ONE new object per call, shared by all parts;
  a new object is not the caller's: `FreshOK`) -/
  freshDrop : Nat := 0
  /-- PARAMETER: did the drop set grow while the parts were generated one by one (null rows found
  under the drop policy that the set did not hold yet)? Depends on the data and is the business of
  property C06/C07; here it only decides whether the parts are generated a second time -/
  dropGrows : Bool := false
deriving DecidableEq, Repr

/-- `FormulaMaterializer.for_data(data)` -/
def forData (env : Env) (c : Call) : Except Err (String × List String) :=
  match c.dataMat with
  | none => .error .notFound
  | some n => forMaterializer env n

/-- `FormulaMaterializer.for_data(data)` when no materializer is nominated, else `for_materializer(name)` -/
def resolve (env : Env) (c : Call) : Option String → Except Err (String × List String)
  | none => forData env c
  | some n => forMaterializer env n

/-- `cls(data, context=context, **(params or {}))` -/
def instOf (c : Call) (r : String × List String) (prm : Option Nat) : Inst := ⟨r.1, r.2, c.data, c.context, prm⟩

/-- `ModelSpec.get_materializer(data, context)` -/
def getMaterializer (env : Env) (c : Call) (ms : MSpec) : Except Err Inst :=
  match resolve env c ms.materializer with
  | .error e => .error e
  | .ok r => .ok (instOf c r ms.params)

/-- `_prepare_model_specs.prepare_model_spec` -/
def prepareLeaf (inst : Inst) (ms : MSpec) : Except Err MSpec :=
  match ms.output with
  | none =>
    match inst.outputs with
    | [] => .error .materialization      -- `REGISTER_OUTPUTS[0]` of a materializer without outputs (IndexError in Python; unreachable for registered ones)
    | o :: _ => .ok { ms with materializer := some inst.name, params := inst.params, output := some o }
  | some o =>
    if inst.outputs.contains o then .ok { ms with materializer := some inst.name, params := inst.params }
    else .error .materialization

/-- `len(set(xs))` -/
def distinctCount {α} [BEq α] (xs : List α) : Nat := xs.eraseDups.length

/-- `_prepare_factor_evaluation_model_spec`: the factors of all leaves are evaluated ONCE, under one
output type, one null policy and one rank setting: `len(output) != 1 or len(na_action) != 1 or
len(ensure_full_rank) != 1` is a `RuntimeError` (also for a structured spec without leaves) -/
def consistent (specs : List (String × MSpec)) : Bool :=
  distinctCount (specs.map (·.2.output)) == 1 && distinctCount (specs.map (·.2.na)) == 1 &&
  distinctCount (specs.map (·.2.efr)) == 1

/-- `FormulaMaterializer.get_model_matrix(self, spec, drop_rows, **spec_overrides)` up to and including
`_prepare_model_specs` and the consistency check of `_prepare_factor_evaluation_model_spec`: the
request that the materialisation proper works on -/
def materializerGMM (env : Env) (inst : Inst) (spec : SpecArg) (dropRows : Option Nat) (ov : List Attr) :
    Except Err Request :=
  match fromSpec env spec ov with
  | .error e => .error e
  | .ok p =>
    let (leaves, simplify) := match p with
      | .one ms => ([("", ms)], true)
      | .many parts => (parts, false)
    match mapParts (prepareLeaf inst) leaves with
    | .error e => .error e
    | .ok specs =>
      if !consistent specs then .error .runtime
      else .ok ⟨inst.name, inst.data, inst.context, ["data", "context", "transforms"], inst.params, specs, simplify, dropRows⟩

/-- `ModelSpec.get_model_matrix(data, context, drop_rows, **attr_overrides)` -/
def modelSpecGMM (env : Env) (c : Call) (ms : MSpec) (dropRows : Option Nat) (ov : List Attr) : Except Err Request :=
  if !ov.isEmpty then
    -- `return self.update(**attr_overrides).get_model_matrix(data, context=context)`: on the pinned tree
    -- `drop_rows` is not passed on (`env.fwdOverride`, probed on the live code, says whether it is)
    match update env ms ov with
    | .error e => .error e
    | .ok ms' =>
      match getMaterializer env c ms' with
      | .error e => .error e
      | .ok inst => materializerGMM env inst (.mspec ms') (if env.fwdOverride then dropRows else none) []
  else
    match getMaterializer env c ms with
    | .error e => .error e
    | .ok inst => materializerGMM env inst (.mspec ms) dropRows []

/-- the `for … else` of `ModelSpecs.get_model_matrix`: can the leaves be generated jointly, and with
which materializer / params -/
def jointLoop : Option String → Option Nat → List MSpec → Option (Option String × Option Nat)
  | m, p, [] => some (m, p)
  | m, p, s :: r =>
    match s.materializer with
    | none => jointLoop m p r
    | some sm =>
      if sm.isEmpty then jointLoop m p r                               -- `if not spec.materializer: continue`
      else if (m ≠ none ∧ m ≠ some sm) ∨ (p ≠ none ∧ p ≠ s.params) then none   -- `break`
      else jointLoop (some sm) s.params r

/-- the set object the per-spec branch of `ModelSpecs.get_model_matrix` works with: the caller's, or a fresh one -/
def perSpecDrop (c : Call) : Option Nat → Option Nat
  | none => some c.freshDrop
  | some d => some d

/-- the requests of one pass, or of two equal passes -/
def twice {α} (again : Bool) (l : List α) : List α := if again then l ++ l else l

/-- `ModelSpecs.get_model_matrix(data, context, drop_rows)` without overrides -/
def modelSpecsGMM0 (env : Env) (c : Call) (parts : List (String × MSpec)) (dropRows : Option Nat) :
    Except Err (List Request) :=
  match jointLoop none none (parts.map (·.2)) with
  | some (m, p) =>
    -- `materializer(data, context=context, **params).get_model_matrix(self)`: on the pinned tree `drop_rows`
    -- is not passed on (`env.fwdJoint`, probed on the live code, says whether it is)
    match resolve env c m with
    | .error e => .error e
    | .ok r =>
      (materializerGMM env (instOf c r p) (.mspecs parts) (if env.fwdJoint then dropRows else none) []).map (fun q => [q])
  | none =>
    -- the parts cannot share a materializer but must share the rows that are dropped:
    -- `if drop_rows is None: drop_rows = set()`, every part is generated with that ONE object, and
    -- `if len(drop_rows) != n_dropped: model_matrices = generate()` generates all of them once more
    (mapParts (fun ms => modelSpecGMM env c ms (perSpecDrop c dropRows) []) parts).map
      (fun rs => twice c.dropGrows (rs.map (·.2)))

/-- `ModelSpecs.get_model_matrix(data, context, drop_rows, **attr_overrides)` -/
def modelSpecsGMM (env : Env) (c : Call) (parts : List (String × MSpec)) (dropRows : Option Nat) (ov : List Attr) :
    Except Err (List Request) :=
  if !ov.isEmpty then
    match fromSpec env (.mspecs parts) ov with
    | .error e => .error e
    | .ok (.many parts') => modelSpecsGMM0 env c parts' dropRows
    | .ok (.one ms) => (modelSpecGMM env c ms dropRows []).map (fun r => [r])    -- unreachable
  else modelSpecsGMM0 env c parts dropRows

/-- `<result of from_spec>.get_model_matrix(data, context=…, drop_rows=…)` -/
def preparedGMM (env : Env) (c : Call) (p : Prepared) (dropRows : Option Nat) (ov : List Attr) : Except Err (List Request) :=
  match p with
  | .one ms => (modelSpecGMM env c ms dropRows ov).map (fun r => [r])
  | .many parts => modelSpecsGMM env c parts dropRows ov

/-! ### the entry points -/

inductive Entry
  | sugar          -- `formulaic.model_matrix(spec, data, context=ctx, drop_rows=d, **ov)`
  | formulaMethod  -- `Formula(spec).get_model_matrix(data, context=ctx, drop_rows=d, **ov)` (spec is a formula)
  | specMethod     -- `ModelSpec.from_spec(spec, **ov).get_model_matrix(data, context=ctx, drop_rows=d)`
  | specMethodOv   -- `ModelSpec.from_spec(spec).get_model_matrix(data, context=ctx, drop_rows=d, **ov)`
  | materializer   -- `cls(data, context=ctx).get_model_matrix(spec, drop_rows=d, **ov)`
deriving DecidableEq, Repr

/-- `sugar.model_matrix`: the materializer of `ModelSpec.from_spec([], **ov)` is built first (its
layered context is the parser context), then `from_spec(spec, **ov).get_model_matrix(data, context, drop_rows)` -/
def sugar (env : Env) (c : Call) : Except Err (List Request) :=
  match update env { formula := 0 } c.overrides with
  | .error e => .error e
  | .ok ms0 =>
    match getMaterializer env c ms0 with
    | .error e => .error e
    | .ok _ =>
      match fromSpec env c.spec c.overrides with
      | .error e => .error e
      | .ok p => preparedGMM env c p c.dropRows []

/-- `SimpleFormula.get_model_matrix` / `StructuredFormula.get_model_matrix` -/
def formulaMethod (env : Env) (c : Call) : Except Err (List Request) :=
  match fromSpec env c.spec c.overrides with
  | .error e => .error e
  | .ok p => preparedGMM env c p c.dropRows []

def specMethod (env : Env) (c : Call) : Except Err (List Request) :=
  match fromSpec env c.spec c.overrides with
  | .error e => .error e
  | .ok p => preparedGMM env c p c.dropRows []

def specMethodOv (env : Env) (c : Call) : Except Err (List Request) :=
  match fromSpec env c.spec [] with
  | .error e => .error e
  | .ok p => preparedGMM env c p c.dropRows c.overrides

/-- which materializer / constructor params a prepared spec asks for (`none`: its leaves disagree) -/
def wanted : Prepared → Option (Option String × Option Nat)
  | .one ms => some (ms.materializer, ms.params)
  | .many parts => jointLoop none none (parts.map (·.2))

/-- the materializer method, called the way a user would for the same request: the class and
constructor params are those of the effective spec (`ModelSpec.from_spec(spec, **ov)`: the spec's
own materializer, or — for a structured spec — the one its leaves agree on; else `for_data`).
`none`-result of the joint loop (leaves naming different materializers): there is no single class,
reported as `notFound`. -/
def materializerMethod (env : Env) (c : Call) : Except Err (List Request) :=
  match fromSpec env c.spec c.overrides with
  | .error e => .error e
  | .ok p =>
    match wanted p with
    | none => .error .notFound
    | some (m, prm) =>
      match resolve env c m with
      | .error e => .error e
      | .ok r => (materializerGMM env (instOf c r prm) c.spec c.dropRows c.overrides).map (fun q => [q])

def requestVia (env : Env) : Entry → Call → Except Err (List Request)
  | .sugar => sugar env
  | .formulaMethod => formulaMethod env
  | .specMethod => specMethod env
  | .specMethodOv => specMethodOv env
  | .materializer => materializerMethod env

end FormulaicVerif.Model.EntryPoints
