import FormulaicVerif.Model.PyAlias
/-! The KEY under which `stateful_eval` (`formulaic/utils/stateful_transforms.py`) records the state of a
stateful transform call (`scale(…)`, `center(…)`, `poly(…)`, …), as written:

```
aliases = {}
expr = sanitize_variable_names(expr, env, aliases)            # Model.PyAlias.sanitizeNames, template "{}"
…
name = format_expr(node)                                      # CPython: the call node, unparsed
for alias in sorted(aliases, key=len, reverse=True):
    if aliases[alias] == alias:
        continue  # A valid identifier needs no quoting.
    name = re.sub(rf"\b{re.escape(alias)}\b", lambda _: f"`{aliases[alias]}`", name)
```

The stand-in (`alias`) that `sanitize_variable_names` picks for a back-quoted column name depends on
what else the data set / context contains (`new_name in env`); the key is the unparsed call with the
stand-ins replaced by the names the user wrote, and must therefore NOT depend on it
(`Props.C13.state_key_of_call`, `state_key_ignores_other_columns`).

Parameters (CPython's): `word` = the Unicode `\w` predicate of `re` (the pattern is compiled without
`re.ASCII`), `ident` = `str.isidentifier` + NFKC stability, `isSpace` = `str.isspace`, and the unparser:
the call node mentions the column once, its unparsed text is `pre ++ stand-in ++ post`
(`ast.unparse` prints an identifier as it is). Everything else is computed here. -/
namespace FormulaicVerif.Model.TransformKey
open FormulaicVerif.Model

/-- what a maximal run of word characters becomes under `re.sub(rf"\b{alias}\b", repl, …)` -/
def subRun (alias repl w : List Char) : List Char := if w == alias then repl else w

/-- `re.sub(rf"\b{re.escape(alias)}\b", lambda _: repl, s)` for an `alias` that consists of word
characters (at least one): a match is a maximal run of word characters that equals `alias`; everything
else is copied. `cur` is the run being read, reversed. -/
def replaceAux (word : Char → Bool) (alias repl : List Char) : List Char → List Char → List Char
  | [], cur => subRun alias repl cur.reverse
  | c :: cs, cur =>
    if word c then replaceAux word alias repl cs (c :: cur)
    else subRun alias repl cur.reverse ++ c :: replaceAux word alias repl cs []

def replaceWord (word : Char → Bool) (alias repl s : List Char) : List Char := replaceAux word alias repl s []

/-- the maximal runs of word characters of a text (`re.findall(r"\w+", s)`); `cur` reversed -/
def runsAux (word : Char → Bool) : List Char → List Char → List (List Char)
  | [], cur => if cur.isEmpty then [] else [cur.reverse]
  | c :: cs, cur =>
    if word c then runsAux word cs (c :: cur)
    else if cur.isEmpty then runsAux word cs [] else cur.reverse :: runsAux word cs []

def runs (word : Char → Bool) (s : List Char) : List (List Char) := runsAux word s []

/-- insertion into a list kept in order of decreasing length; equal lengths keep their order of arrival -/
def insertByLen (k : List Char) : List (List Char) → List (List Char)
  | [] => [k]
  | x :: xs => if x.length < k.length then k :: x :: xs else x :: insertByLen k xs

/-- `sorted(aliases, key=len, reverse=True)` (Python's sort is stable, also with `reverse=True`) -/
def sortedByLenDesc (keys : List (List Char)) : List (List Char) :=
  keys.foldl (fun acc k => insertByLen k acc) []

/-- the `for alias in sorted(aliases, …)` loop over the unparsed node -/
def restoreLoop (word : Char → Bool) (al : PyAlias.Aliases) : List (List Char) → List Char → List Char
  | [], s => s
  | a :: as, s =>
    match PyAlias.lookup al a with
    | none => restoreLoop word al as s           -- (not reached: `a` is a key of `al`)
    | some orig =>
      if orig == a then restoreLoop word al as s
      else restoreLoop word al as (replaceWord word a ('`' :: orig ++ ['`']) s)

def restoreKey (word : Char → Bool) (al : PyAlias.Aliases) (s : List Char) : List Char :=
  restoreLoop word al (sortedByLenDesc (al.map (·.1))) s

/-- the stand-in of the column `name` in the alias table (first entry that maps back to it) -/
def standIn (al : PyAlias.Aliases) (name : List Char) : Option (List Char) :=
  match al.find? (fun p => p.2 == name) with
  | some p => some p.1
  | none => none

/-- CPython's part: `ident` (`str.isidentifier` and NFKC-stable), `isSpace`, `word` (`\w`) -/
structure Py where
  ident : List Char → Bool
  isSpace : Char → Bool
  word : Char → Bool

/-- **the key of the transform state** for a call node of the expression `expr` (the text of the factor
as `stateful_eval` receives it) evaluated in an environment with the keys `env`; the node mentions the
back-quoted column `name`, and its unparsed text is `pre ++ stand-in ++ post`.
`none`: the column is not a back-quoted name of the expression (not modelled). -/
def stateKey (py : Py) (env : List (List Char)) (expr name pre post : List Char) : Option (List Char × List Char) :=
  match PyAlias.sanitizeNames { pre := [], ident := py.ident } py.isSpace env expr with
  | none => none
  | some (_, al, _) =>
    match standIn al name with
    | none => none
    | some a => some (restoreKey py.word al (pre ++ a ++ post), a)

/-- the column as it appears in the key: as it is when Python reads it back unchanged, between
back-quotes otherwise -/
def writtenName (py : Py) (name : List Char) : List Char :=
  if py.ident name && !PyAlias.isKeyword name then name else '`' :: name ++ ['`']

end FormulaicVerif.Model.TransformKey
