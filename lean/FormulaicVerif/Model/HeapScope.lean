import FormulaicVerif.Model.Materialize
import FormulaicVerif.Model.Heap
/-! # Rank reduction inside the C18 model, with the iteration order of every Python `set` explicit

`Model/Heap.lean` takes the scoped factors of a term (`Params.scopedOf`) as a parameter.  This file
COMPUTES them, from the kinds of the factors on the data set, by the code of
`FormulaMaterializer._get_scoped_terms`, `_get_scoped_terms_spanned_by_evaled_factors` and
`_simplify_scoped_terms` (`formulaic/materializers/base.py`) — the same algorithm that
`Model/Materialize.lean` models for C02/C03 (its data types `SF`, `ST`, the ordered-set operations
and `spannedBy` are reused from there) — but with one addition that matters for C18: wherever the code
holds scoped factors or scoped terms in a plain Python `set` and iterates it, the iteration order
(a function of the string hashes, i.e. of `PYTHONHASHSEED`) is a PARAMETER of the model:

* `factors_diff = set(scoped_term.factors) - set(existing_term.factors)` followed by
  `next(iter(factors_diff))`  →  `SetOrder.sf`;
* `spanned: set[ScopedTerm]`, rebuilt by `spanned.update(...)` after every term  →  `SetOrder.st`.

Everything else on the way to the column order is an insertion-ordered container in the code
(`OrderedSet`, `dict.fromkeys`, lists, `sorted` — stable — over an `OrderedSet`), and is a list here.
`Props/C18.lean` proves that the result is the same for EVERY admissible `SetOrder`
(`scoped_terms_hash_seed_independent`), and that this is NOT so for a variant of the algorithm that
keeps the intermediate result of the recursion in a plain `set` (`hashed_recursion_is_seed_dependent`,
witness `a:b:c`): the shapes the generator of the hash-seed batches must contain. -/

namespace FormulaicVerif.Model.HeapScope
open FormulaicVerif.Model

/-- the iteration orders of the Python `set`s between a term and its scoped terms: any functions
that return a permutation of their argument (see `SetOrder.Valid`) -/
structure SetOrder where
  /-- `iter(s)` for `s : set[ScopedFactor]` holding the given elements -/
  sf : List SF → List SF
  /-- `iter(s)` for `s : set[ScopedTerm]` holding the given elements -/
  st : List ST → List ST

/-- what is known about the iteration order of a `set`: it enumerates the elements -/
structure SetOrder.Valid (σ : SetOrder) : Prop where
  sf : ∀ l, (σ.sf l).Perm l
  st : ∀ l, (σ.st l).Perm l

/-- insertion order (what an `OrderedSet` would do) -/
def SetOrder.insertion : SetOrder := ⟨id, id⟩

/-- the test made for one `existing_term`: `some f` when the rule applies with `factor_new = f`.
`factors_diff` is a `set`: its length is taken, then `next(iter(factors_diff))` -/
def mergeCandidate (σ : SetOrder) (st existing : ST) : Option SF :=
  let diff := σ.sf (dedupSF (st.factors.filter (fun f => !existing.factors.contains f)))
  if (dedupSF st.factors).length ≠ (dedupSF existing.factors).length + 1 ∨ diff.length ≠ 1 then none
  else
    match diff with
    | f :: _ => if f.reduced then some f else none
    | [] => none

/-- `for existing_term in terms:` (an `OrderedSet`) … first existing term to which the rule applies -/
def findMerge (σ : SetOrder) (st : ST) : List ST → Option (ST × SF)
  | [] => none
  | e :: r =>
    match mergeCandidate σ st e with
    | some f => some (e, f)
    | none => findMerge σ st r

/-- the `for scoped_term in sorted(…)` loop; `rec` is the recursive call -/
def simplifyLoop (σ : SetOrder) (rec : List ST → Option (List ST)) : List ST → List ST → Option (List ST)
  | [], terms => some terms
  | st :: rest, terms =>
    match findMerge σ st terms with
    | some (existing, f) =>
      match rec (osUnion (osDiff terms [existing]) [mkFull f st]) with
      | none => none
      | some terms' => simplifyLoop σ rec rest terms'
    | none => simplifyLoop σ rec rest (osUnion terms [st])

/-- `_simplify_scoped_terms`, fuel for the recursion depth (`none` = out of fuel, which does not
happen with `simplifyFuel`: `Props.C18.scoped_terms_total`) -/
def simplify (σ : SetOrder) : Nat → List ST → Option (List ST)
  | 0, _ => none
  | n + 1, sts => simplifyLoop σ (simplify σ n) (sortByLen sts) []

/-- the generator body of `_get_scoped_terms` for one term; returns the scoped terms and the new
`spanned` (a plain `set`: stored in its iteration order; only membership is ever asked of it) -/
def scopeTerm (σ : SetOrder) (c : Cache) (efr : Bool) (spanned : List ST) (t : MTerm) :
    Except ScopeErr (List ST × List ST) :=
  match evaledFactors c t with
  | .error e => .error (.py e)
  | .ok [] => .ok ([], spanned)
  | .ok efs =>
    if efr then
      let termSpan := osDiff (spannedBy efs) spanned
      match simplify σ (simplifyFuel termSpan) termSpan with
      | none => .error .fuel
      | some sts => .ok (sts, σ.st (spanned ++ termSpan.filter (fun st => st.scale ≠ 0)))
    else .ok ([fullScoped efs], spanned)

/-- `_get_scoped_terms`: `(term, scoped_terms)` for every term, threading `spanned` -/
def getScopedTerms (σ : SetOrder) (c : Cache) (efr : Bool) : List ST → List MTerm →
    Except ScopeErr (List (MTerm × List ST))
  | _, [] => .ok []
  | spanned, t :: ts =>
    match scopeTerm σ c efr spanned t with
    | .error e => .error e
    | .ok (sts, spanned') =>
      match getScopedTerms σ c efr spanned' ts with
      | .error e => .error e
      | .ok r => .ok ((t, sts) :: r)

/-! ## A variant that is NOT the code: the recursion is fed a plain `set`

`_simplify_scoped_terms(set(terms - (existing,)) | {new})`: the argument of the recursive call is
iterated by `sorted(…, key=len)` in hash order, so scoped terms of EQUAL size come out in hash order.
Used only for the negative theorem `hashed_recursion_is_seed_dependent`. -/

def simplifyLoopH (σ : SetOrder) (rec : List ST → Option (List ST)) : List ST → List ST → Option (List ST)
  | [], terms => some terms
  | st :: rest, terms =>
    match findMerge σ st terms with
    | some (existing, f) =>
      match rec (σ.st (osUnion (osDiff terms [existing]) [mkFull f st])) with
      | none => none
      | some terms' => simplifyLoopH σ rec rest terms'
    | none => simplifyLoopH σ rec rest (osUnion terms [st])

def simplifyH (σ : SetOrder) : Nat → List ST → Option (List ST)
  | 0, _ => none
  | n + 1, sts => simplifyLoopH σ (simplifyH σ n) (sortByLen sts) []

/-! ## From the kinds of the factors to `Params.scopedOf` -/

/-- what `_evaluate_factor` records about a non-literal factor and rank reduction looks at:
`metadata.kind` and `metadata.spans_intercept` -/
inductive FKind
  | numerical
  | categorical (spansIntercept : Bool)
deriving DecidableEq, Repr

/-- the encoder results are not consulted by rank reduction -/
def noEnc : Encoded := ⟨.single [], false, none, false, [], none⟩

/-- the `factor_cache` entry of a non-literal factor, as far as rank reduction reads it -/
def entryOf (kind : String → FKind) (f : String) : EvaledFactor :=
  match kind f with
  | .numerical => ⟨f, true, .numerical, false, noEnc, noEnc⟩
  | .categorical s => ⟨f, true, .categorical, s, noEnc, noEnc⟩

/-- the `factor_cache` entries rank reduction reads: the intercept literal `1` (a constant) and the
factors of the formula with their kinds on the data set -/
def cacheOf (kind : String → FKind) (factors : List String) : Cache :=
  ⟨"1", true, .constant 1, false, noEnc, noEnc⟩ :: factors.map (entryOf kind)

/-- a term of `Model.Heap` lists its non-literal factors; the only literal the modelled formulas
contain is the intercept `1`, the term without non-literal factors -/
def mterm (t : Heap.Term) : MTerm := if t.isEmpty then ["1"] else t

/-- `_get_scoped_terms(spec.formula, ensure_full_rank)` on a data set where the factors have the
given kinds: per term of `origin` its scoped terms -/
def scopedTerms (σ : SetOrder) (kind : String → FKind) (origin : Heap.Formula) (efr : Bool) :
    Except ScopeErr (List (MTerm × List ST)) :=
  getScopedTerms σ (cacheOf kind origin.flatten) efr [] (origin.map mterm)

/-- the scoped factors `(factor, reduced_rank)` of term `t` of `origin`, in encoding order: the value of
`Params.scopedOf`.  (`getScopedTerms` cannot fail here — `Props.C18.scoped_terms_total` — and `t` is
a term of `origin` whenever `Model.Heap` asks; the two `[]` are never reached on the modelled path.) -/
def scopedOf (σ : SetOrder) (kind : String → Heap.Data → FKind) (t : Heap.Term) (origin : Heap.Formula)
    (efr : Bool) (d : Heap.Data) : List (Heap.Factor × Bool) :=
  match scopedTerms σ (fun f => kind f d) origin efr with
  | .error _ => []
  | .ok r =>
    match r.find? (fun p => p.1 == mterm t) with
    | none => []
    | some p => p.2.flatMap fun st => st.factors.map fun sf => (sf.expr, sf.reduced)

/-- the numerics `P` with rank reduction computed by the model (set iteration orders `σ`, factor
kinds `kind`) instead of taken as a parameter -/
def withScope {F E : Type} (P : Heap.Params F E) (σ : SetOrder) (kind : String → Heap.Data → FKind) :
    Heap.Params F E :=
  { P with scopedOf := scopedOf σ kind }

end FormulaicVerif.Model.HeapScope
