import FormulaicVerif.Model.Columns
import FormulaicVerif.Model.Encode
/-! # C05 — the sparse output path next to the dense one

A column of a `scipy.sparse.csc_matrix` with one column is modelled as its shape and the stored
entries `(row, value)` in increasing row order (`indices`/`data` of CSC). Mirrors

* `spsparse.csc_matrix(dense)` (`_encode_numerical`, `_encode_constant` with `output="sparse"`),
* `csc_matrix.multiply` (element-wise product: a sorted merge that keeps the rows stored on both sides),
* `scale * csc` (every stored value is multiplied; nothing is pruned, so `0 * m` keeps explicit zeros),
* `categorical_encode_series_to_sparse_csc_matrix` (formulaic/utils/sparse.py): codes → COO
  coordinates `(row, code)` of the non-null rows → one column per level, optional `drop_first`,
* `spsparse.hstack` (`_combine_columns`): `indptr`/`indices`/`data` of the stacked matrix,

and the column pipeline of `PandasMaterializer/NarwhalsMaterializer._get_columns_for_term` +
`_build_model_matrix`'s per-term dictionaries, written ONCE, generically in the column
representation (`Ops`), and instantiated at dense columns (`Model.Col`, numpy) and sparse columns.
Core Lean only. -/
namespace FormulaicVerif.Model.Sparse
open FormulaicVerif.Model

/-! ### sparse columns -/

structure SCol where
  nrows : Nat
  entries : List (Nat × Rat)
deriving DecidableEq, Repr

/-- the value stored for row `i` (0 when the row is not stored) -/
def getE : List (Nat × Rat) → Nat → Rat
  | [], _ => 0
  | (r, v) :: es, i => if r = i then v else getE es i

/-- `.toarray()` of the column -/
def SCol.toDense (c : SCol) : Col := (List.range c.nrows).map (getE c.entries)

/-- rows strictly increasing and inside the shape (what scipy calls canonical format) -/
def SCol.WF (c : SCol) : Prop :=
  c.entries.Pairwise (fun a b => a.1 < b.1) ∧ ∀ e ∈ c.entries, e.1 < c.nrows

def ofDenseFrom : Nat → List Rat → List (Nat × Rat)
  | _, [] => []
  | i, x :: xs => if x = 0 then ofDenseFrom (i + 1) xs else (i, x) :: ofDenseFrom (i + 1) xs

/-- `spsparse.csc_matrix(array.reshape((n, 1)))`: only the non-zero cells are stored -/
def SCol.ofDense (xs : Col) : SCol := ⟨xs.length, ofDenseFrom 0 xs⟩

/-- `csc_matrix.multiply` on the stored entries (both sides in increasing row order) -/
def mulE : List (Nat × Rat) → List (Nat × Rat) → List (Nat × Rat)
  | [], _ => []
  | _ :: _, [] => []
  | (i, v) :: a, (j, w) :: b =>
    if i < j then mulE a ((j, w) :: b)
    else if j < i then mulE ((i, v) :: a) b
    else (i, v * w) :: mulE a b
termination_by a b => a.length + b.length

def SCol.mul (a b : SCol) : SCol := ⟨a.nrows, mulE a.entries b.entries⟩

/-- `scale * column` -/
def SCol.smul (q : Rat) (a : SCol) : SCol := ⟨a.nrows, a.entries.map (fun e => (e.1, q * e.2))⟩

/-! ### the sparse dummy encoder -/

def indexOf? (s : String) : List String → Option Nat
  | [] => none
  | t :: r => if t = s then some 0 else (indexOf? s r).map (· + 1)

/-- `pandas.Categorical(series, levels).codes` (`none` is the code −1) -/
def codesOf (levels : List String) (vals : List (Option String)) : List (Option Nat) :=
  vals.map (fun v => v.bind (fun s => indexOf? s levels))

def coordsFrom : Nat → List (Option Nat) → List (Nat × Nat)
  | _, [] => []
  | i, none :: cs => coordsFrom (i + 1) cs
  | i, some k :: cs => (i, k) :: coordsFrom (i + 1) cs

/-- `(indices, codes)` after `codes != -1`: the COO coordinates `(row, column)` of the ones -/
def coords (codes : List (Option Nat)) : List (Nat × Nat) := coordsFrom 0 codes

/-- `spsparse.csc_matrix((ones, (rows, cols)), shape=(nrows, ncols))`, column by column -/
def cscFromCoo (nrows ncols : Nat) (coo : List (Nat × Nat)) : List SCol :=
  (List.range ncols).map (fun j => ⟨nrows, (coo.filter (fun p => p.2 == j)).map (fun p => (p.1, (1 : Rat)))⟩)

/-- `categorical_encode_series_to_sparse_csc_matrix(series, levels, drop_first)`:
`(levels used, one sparse column per level)`. `declared`: the categories when `series` already
has a categorical dtype. With `drop_first` the first level is removed from the categories, so
its rows get code −1 like nulls. -/
def encodeSparse (vals : List (Option String)) (levels declared : Option (List String)) (dropFirst : Bool) :
    List String × List SCol :=
  let cats := match levels with
    | some l => l          -- `pandas.Categorical(series, levels)`; `levels or series.categories` is then `levels` again
    | none => Encode.levels vals declared
  let lv := if dropFirst then cats.drop 1 else cats
  (lv, cscFromCoo vals.length lv.length (coords (codesOf lv vals)))

/-- the dense twin (`pandas.get_dummies` on the same categories, first column dropped on request) -/
def encodeDense (vals : List (Option String)) (levels declared : Option (List String)) (dropFirst : Bool) :
    List String × List Col :=
  let cats := match levels with
    | some l => l
    | none => Encode.levels vals declared
  let lv := if dropFirst then cats.drop 1 else cats
  (lv, lv.map (fun l => vals.map (fun v => if v = some l then (1 : Rat) else 0)))

/-! ### `hstack`: the CSC arrays of the stacked matrix -/

structure CSC where
  nrows : Nat
  indptr : List Nat
  indices : List Nat
  data : List Rat
deriving DecidableEq, Repr

def prefixFrom (acc : Nat) : List Nat → List Nat
  | [] => [acc]
  | l :: ls => acc :: prefixFrom (acc + l) ls

/-- `spsparse.hstack(cols)` of `n × 1` columns -/
def hstack (nrows : Nat) (cols : List SCol) : CSC :=
  ⟨nrows, prefixFrom 0 (cols.map (·.entries.length)),
    cols.flatMap (fun c => c.entries.map (·.1)), cols.flatMap (fun c => c.entries.map (·.2))⟩

def diffs : List Nat → List Nat
  | a :: b :: r => (b - a) :: diffs (b :: r)
  | _ => []

def splitBy {α} : List Nat → List α → List (List α)
  | [], _ => []
  | l :: ls, xs => xs.take l :: splitBy ls (xs.drop l)

/-- column `j` of a CSC matrix is `indices/data[indptr[j] : indptr[j+1]]` -/
def CSC.cols (m : CSC) : List SCol :=
  (splitBy (diffs m.indptr) (m.indices.zip m.data)).map (fun es => ⟨m.nrows, es⟩)

/-- `.toarray()`, as a list of columns -/
def CSC.toDense (m : CSC) : List Col := m.cols.map SCol.toDense

/-! ### the column pipeline, generic in the column representation -/

structure Ops (C : Type) where
  mul : C → C → C
  smul : Rat → C → C

def denseOps : Ops Col := ⟨Col.mul, Col.smul⟩
def sparseOps : Ops SCol := ⟨SCol.mul, SCol.smul⟩

abbrev GItem (C : Type) := String × C

/-- `functools.reduce(multiply, cols)` without initial value -/
def gReduce {C} (ops : Ops C) : List C → Except MErr C
  | [] => .error .typeError
  | c :: cs => .ok (cs.foldl ops.mul c)

/-- `d[k] = v` on an insertion-ordered dict -/
def gDictSet {C} (d : List (GItem C)) (e : GItem C) : List (GItem C) :=
  match d with
  | [] => [e]
  | x :: r => if x.1 = e.1 then e :: r else x :: gDictSet r e

def gNames {C} (factors : List (List (GItem C))) : List String :=
  (iproduct factors.reverse).map (fun p => joinColon (p.reverse.map (·.1)))

def gSolo {C} (factors : List (List (GItem C))) : List (GItem C) :=
  (factors.filter (fun f => f.length == 1)).flatten

def gFastFactors {C} (ops : Ops C) (factors : List (List (GItem C))) : Except MErr (List (List (GItem C))) :=
  let solo := gSolo factors
  if solo.isEmpty then .ok factors
  else
    match gReduce ops (solo.map (·.2)) with
    | .error e => .error e
    | .ok v => .ok (factors.filter (fun f => !(f.length == 1)) ++ [[(joinColon (solo.map (·.1)), v)]])

def gStep {C} (ops : Ops C) (names : List String) (scale : Rat)
    (acc : Nat × List (GItem C)) (rp : List (GItem C)) : Except MErr (Nat × List (GItem C)) :=
  match names[acc.1]? with
  | none => .error .indexError
  | some nm =>
    match gReduce ops (rp.reverse.map (·.2)) with
    | .error e => .error e
    | .ok v => .ok (acc.1 + 1, gDictSet acc.2 (nm, ops.smul scale v))

/-- `_get_columns_for_term` of the pandas / narwhals materializers (the code is the same for every
output; only `multiply` and the columns differ) -/
def gColumns {C} (ops : Ops C) (factors : List (List (GItem C))) (scale : Rat) : Except MErr (List (GItem C)) :=
  match gFastFactors ops factors with
  | .error e => .error e
  | .ok fs =>
    match foldE (gStep ops (gNames factors) scale) (0, []) (iproduct fs.reverse) with
    | .error e => .error e
    | .ok r => .ok r.2

/-- a term: its scale and its encoded factors -/
structure GTerm (C : Type) where
  scale : Rat
  factors : List (List (GItem C))

/-- the columns handed to `_combine_columns`: every term's dictionary, in term order -/
def gMatrix {C} (ops : Ops C) : List (GTerm C) → Except MErr (List (GItem C))
  | [] => .ok []
  | t :: ts =>
    match gColumns ops t.factors t.scale with
    | .error e => .error e
    | .ok cols =>
      match gMatrix ops ts with
      | .error e => .error e
      | .ok more => .ok (cols ++ more)

/-! ### from source data to both representations -/

/-- an evaluated factor before encoding -/
inductive FSrc
  | num (name : String) (vals : Col)
  | cat (name : String) (vals : List (Option String)) (levels : List String) (reduced : Bool)
  /-- the constant of a scoped term WITHOUT factors (the intercept): `_build_model_matrix` does not go
  through `_get_columns_for_term` for it but sets `"Intercept" = scale * _encode_constant(1, …)`
  (`value * numpy.ones(n)`, resp. `csc_matrix(numpy.array([value] * n).reshape((n, 1)))`); a term
  holding this one source gives exactly that column, since the column path multiplies a lone factor
  by the scale and nothing else -/
  | one (nrows : Nat)
  /-- a NUMERICAL factor whose value is a scalar (`x.max()`, `len(x)`, `{7}`), on data of `nrows` rows (after the
  null rows are dropped): `_as_numerical_column` broadcasts it (`numpy.full(nrows, v)`) before `_encode_numerical`
  drops rows and encodes, for every output type. (A factor whose value is a list with one number per row becomes
  `numpy.array(list)` there, i.e. it is a `.num` source.) -/
  | scalar (name : String) (v : Rat) (nrows : Nat)
deriving Repr

/-- `FormulaMaterializer._as_numerical_column` on a scalar: `numpy.full(nrows, v)` -/
def broadcast (nrows : Nat) (v : Rat) : Col := List.replicate nrows v

def FSrc.nrows : FSrc → Nat
  | .scalar _ _ n => n
  | .num _ vals => vals.length
  | .cat _ vals _ _ => vals.length
  | .one n => n

def catName (name lv : String) (reduced : Bool) : String := Encode.fmtName name lv reduced

/-- `_encode_numerical` / `_encode_categorical` with `output="sparse"`: the categorical factor is
always encoded at full rank (`drop_first` is not used by the materializers); when the factor is
reduced, `_encode_evaled_factor` deletes the first level's entry (`del encoded[drop_field]`) -/
def FSrc.encodeS : FSrc → List (GItem SCol)
  | .num name vals => [(name, SCol.ofDense vals)]
  | .cat name vals levels reduced =>
    let r := encodeSparse vals (some levels) none false
    let items := (r.1.zip r.2).map (fun p => (catName name p.1 reduced, p.2))
    if reduced then items.drop 1 else items
  | .one n => [("Intercept", SCol.ofDense (List.replicate n 1))]
  | .scalar name v n => [(name, SCol.ofDense (broadcast n v))]

/-- the same with `output="numpy"` -/
def FSrc.encodeD : FSrc → List (GItem Col)
  | .num name vals => [(name, vals)]
  | .cat name vals levels reduced =>
    let r := encodeDense vals (some levels) none false
    let items := (r.1.zip r.2).map (fun p => (catName name p.1 reduced, p.2))
    if reduced then items.drop 1 else items
  | .one n => [("Intercept", List.replicate n 1)]
  | .scalar name v n => [(name, broadcast n v)]

structure STerm where
  scale : Rat
  factors : List FSrc
deriving Repr

/-- `output="sparse"`: encode, multiply, scale, then `hstack` -/
def sparsePipeline (nrows : Nat) (terms : List STerm) : Except MErr (List String × CSC) :=
  match gMatrix sparseOps (terms.map (fun t => ⟨t.scale, t.factors.map FSrc.encodeS⟩)) with
  | .error e => .error e
  | .ok cols => .ok (cols.map (·.1), hstack nrows (cols.map (·.2)))

/-- `output="numpy"`: encode, multiply, scale, then `numpy.stack(cols, axis=1)` (a list of columns) -/
def densePipeline (terms : List STerm) : Except MErr (List String × List Col) :=
  match gMatrix denseOps (terms.map (fun t => ⟨t.scale, t.factors.map FSrc.encodeD⟩)) with
  | .error e => .error e
  | .ok cols => .ok (cols.map (·.1), cols.map (·.2))

end FormulaicVerif.Model.Sparse
