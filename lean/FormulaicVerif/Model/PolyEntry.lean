import FormulaicVerif.Model.Poly
import FormulaicVerif.Model.PyCall
/-! `poly(x, *pos, **kw)` as a caller reaches it, on top of the body `Model.Poly.run`:

* argument binding against the live signature (`degree = 1`, `raw = False` are read from the
  package: `Gen.transformParams`);
* `degree` is used as an integer: on the raw branch in arithmetic (`range(1, degree + 1)`), where
  `True`/`False` are the integers 1/0; on the orthogonal branch also as a dimension
  (`numpy.empty((n, degree))`), where a `bool` is a `TypeError`; a negative degree is numpy's
  `ValueError` ("negative dimensions are not allowed") on the orthogonal branch and
  `numpy.stack([])` (`ValueError`) on the raw branch;
  `raw` is used for its truth value (`if raw:`);
* the orthogonal branch returns `FactorValues(out, column_names=("1", …, str(degree)))`, the raw
  branch a plain `numpy.ndarray` (no names). -/
namespace FormulaicVerif.Model.PolyEntry
open FormulaicVerif FormulaicVerif.Model

inductive Err
  | bind (e : PyCall.BindErr)
  | poly (e : Poly.PolyErr)
deriving DecidableEq, Repr

/-- a written `degree` / `raw` argument: a Python `int` or `bool` -/
inductive PArg | int (i : Int) | flag (b : Bool)
deriving DecidableEq, Repr

def ofLit : Gen.PyLit → Option PArg
  | .bool b => some (.flag b)
  | .int i => some (.int i)
  | .other _ => none

/-- the argument as the integer it is used as -/
def intOf : PArg → Int
  | .int i => i
  | .flag true => 1
  | .flag false => 0

/-- `if raw:` -/
def truthy : PArg → Bool
  | .int i => i != 0
  | .flag b => b

/-- `tuple(str(i) for i in range(1, degree + 1))` -/
def columnNames (degree : Nat) : List String := (List.range' 1 degree).map toString

/-- what the caller gets back: the columns, and the `column_names` metadata when there is any -/
structure Result (α : Type) where
  cols : List (List (Option α))
  names : Option (List String)

variable {α : Type} [Add α] [Sub α] [Mul α] [Div α] [Zero α] [One α] [DecidableEq α]

/-- is the written degree a `bool` -/
def isFlag : PArg → Bool
  | .flag _ => true
  | .int _ => false

/-- bind the written arguments against the live signature of `poly`: `(degree, raw)` -/
def resolve (pos : List PArg) (kw : List (String × PArg)) : Except PyCall.BindErr (PArg × PArg) :=
  match PyCall.signature "poly" with
  | .error e => .error e
  | .ok sig =>
    match PyCall.bind (sig.map (·.1)) pos kw with
    | .error e => .error e
    | .ok b =>
      match PyCall.valueOf ofLit sig b "degree", PyCall.valueOf ofLit sig b "raw" with
      | .error e, _ => .error e
      | _, .error e => .error e
      | .ok d, .ok r => .ok (d, r)

/-- the function body with `degree = d`, `raw = r` bound -/
def body (sqrt : α → α) (xs : List (Option α)) (d r : PArg) (st : Poly.State α) :
    Except Err (Result α × Poly.State α) :=
  if intOf d < 0 then .error (.poly .valueError)
  else if !truthy r && isFlag d then
    -- numpy.empty((n, True)): "'bool' object cannot be interpreted as an integer" (the raw branch only
    -- does arithmetic with it: `range(1, True + 1)`)
    .error (.poly .typeError)
  else
    match Poly.run sqrt xs (intOf d).toNat (truthy r) st with
    | .error e => .error (.poly e)
    | .ok (cols, st') =>
      .ok (⟨cols, if truthy r then none else some (columnNames (intOf d).toNat)⟩, st')

def call (sqrt : α → α) (xs : List (Option α)) (pos : List PArg) (kw : List (String × PArg))
    (st : Poly.State α) : Except Err (Result α × Poly.State α) :=
  match resolve pos kw with
  | .error e => .error (.bind e)
  | .ok (d, r) => body sqrt xs d r st

end FormulaicVerif.Model.PolyEntry
