import FormulaicVerif.Model.Shunt
/-! The `while True:` loop of `DefaultOperatorResolver.resolve` (`parser/parser.py`), as written:

    while True:
        m = re.search(r"[+\-]{2,}", symbol)
        if not m: break
        symbol = symbol[:m.start(0)] + ("-" if len(m.group(0).replace("+", "")) % 2 else "+") + symbol[m.end(0):]

`Model/Shunt.lean` uses the one-pass function `collapseSigns`; this file keeps the loop itself (with
fuel) so that its termination and its agreement with the one-pass function are theorems
(`Proofs/C14Loop.lean`), not a comment. -/
namespace FormulaicVerif.Model.SignLoop
open FormulaicVerif.Model

def isSignC (c : Char) : Bool := c == '+' || c == '-'

/-- `"-" if len(run.replace("+", "")) % 2 else "+"` -/
def signOfRun (run : List Char) : Char :=
  if (run.filter (fun c => c != '+')).length % 2 == 1 then '-' else '+'

/-- one iteration: `re.search` finds the LEFTMOST position where two sign characters are adjacent
and matches the maximal run from there (`{2,}` is greedy); `none` = no match (the loop breaks) -/
def collapseStep : List Char → Option (List Char)
  | [] => none
  | c :: cs =>
    if isSignC c then
      match cs with
      | [] => none
      | d :: ds =>
        if isSignC d then
          some (signOfRun (c :: d :: ds.takeWhile isSignC) :: ds.dropWhile isSignC)
        else (collapseStep cs).map (c :: ·)
    else (collapseStep cs).map (c :: ·)

/-- the loop; `none` = the fuel ran out before the loop broke -/
def collapseLoop : Nat → List Char → Option (List Char)
  | 0, _ => none
  | n + 1, s =>
    match collapseStep s with
    | none => some s
    | some s' => collapseLoop n s'

/-- `resolve(token)` with the loop as written (fuel = one more than the length of the token, see
`collapseLoop_terminates`); differs from `resolveToken` only in how the collapsed symbol is computed -/
def resolveTokenLoop (tab : OpTable) (text : List Char) : Except ParseErr (List (List OpSpec)) :=
  match tab.lookup (String.ofList text) with
  | some cands => .ok [cands]
  | none =>
    match collapseLoop (text.length + 1) text with
    | none => .error (.internal "RecursionError")
    | some sym =>
      match tab.lookup (String.ofList sym) with
      | some cands => .ok [cands]
      | none =>
        sym.mapM (fun c => match tab.lookup (String.ofList [c]) with
          | some cands => .ok cands
          | none => .error (.syntax "unknown operator"))

end FormulaicVerif.Model.SignLoop
