/-! # Model of `ModelSpec`'s derived metadata (`formulaic/model_spec.py`) — property C10

Everything `ModelSpec` derives from the recorded `structure`
(`list[EncodedTermStructure(term, scoped_terms, columns)]`), written as the code computes it:
`column_names`, `column_indices`, `term_indices`, `term_slices`, `term_variables`,
`variable_terms`, `variable_indices`, `get_column_indices`, `get_slice`, `get_term_indices`,
`subset`, plus the part of `_build_model_matrix` that decides which labels the matrix carries
(`_combine_columns`) and the replay of a recorded structure (`_enforce_structure`).

Python semantics that matter here and are modelled, not idealised:

* a `dict` is an insertion-ordered association list; `d[k] = v` on an existing key keeps the
  key's position and replaces the value;
* looking a key up in a dict keyed by `Term` objects goes *hash first, then `__eq__`*:
  `hash(str)` is modelled as injective on strings (so "equal hashes" is "equal strings"),
  `Term.__hash__ = hash(":".join(sorted(exprs)))`, `Term.__eq__(Term)` compares the sorted
  expression tuples and `Term.__eq__(str)` splits the string with `Term.FACTOR_MATCHER`
  (modelled below as the regular expression behaves, lazy quantifier and `$` quirk included)
  and compares the sorted results;
* `term_indices` / `term_slices` are `_TermMapping`s: a `dict` whose `__missing__` /
  `__contains__` / `get` resolve a *string* that the plain lookup did not find by the printed
  form (`repr`) of the stored terms;
* strings are lists of code points (`List Char`), ordered like Python `str` (code point order).

Core Lean only. -/
namespace FormulaicVerif.Model.SpecMeta

abbrev Str := List Char
/-- a `Term`: the `expr`s of its factors in the term's own order (`Term.factors`) -/
abbrev Term := List Str

inductive PyErr | keyError | valueError | factorEncodingError | typeError | indexError | attributeError
  | runtimeError
deriving DecidableEq, Repr

def PyErr.name : PyErr → String
  | .keyError => "KeyError" | .valueError => "ValueError" | .factorEncodingError => "FactorEncodingError"
  | .typeError => "TypeError" | .indexError => "IndexError" | .attributeError => "AttributeError"
  | .runtimeError => "RuntimeError"

/-! ## strings: order, `sorted`, `":".join`, `repr` -/

/-- Python `a < b` on `str` -/
def strLt : Str → Str → Bool
  | [], [] => false
  | [], _ :: _ => true
  | _ :: _, [] => false
  | a :: as, b :: bs => if a.val < b.val then true else if b.val < a.val then false else strLt as bs

/-- insertion into a sorted list, after every element that is not greater (stable) -/
def insertStr (x : Str) : List Str → List Str
  | [] => [x]
  | y :: ys => if strLt x y then x :: y :: ys else y :: insertStr x ys

/-- Python `sorted(xs)` on strings -/
def sortStrs (xs : List Str) : List Str := xs.foldr insertStr []

/-- `":".join(xs)` -/
def joinColon : List Str → Str
  | [] => []
  | [x] => x
  | x :: y :: r => x ++ ':' :: joinColon (y :: r)

/-- `Factor.__repr__`: an expression containing `:` is printed between backticks -/
def factorRepr (e : Str) : Str := if e.contains ':' then '`' :: (e ++ ['`']) else e

/-- `Term.__repr__` — the printed form -/
def termRepr (t : Term) : Str := joinColon (t.map factorRepr)

/-- the string whose `hash()` is `Term.__hash__` (`":".join(self._factor_key)`) -/
def termHash (t : Term) : Str := joinColon (sortStrs t)

/-- the regular expression (pattern text, flags 0) that `matchFactors` below is a model of; compared
with the live `Term.FACTOR_MATCHER` on every run (`Gen/SpecMetaTable.lean`, `Props.C10.tables_live`) -/
def factorMatcherPattern : String := "(?:^|(?<=:))(`?)(?P<factor>[^`]+?)\\1(?=:|$)"

/-! ## `Term.FACTOR_MATCHER = (?:^|(?<=:))(`?)(?P<factor>[^`]+?)\1(?=:|$)` with `finditer` -/

/-- `$` without `re.MULTILINE`: at the end, or just before a final newline -/
def atDollar (rest : Str) : Bool := rest == [] || rest == ['\n']

/-- the look-ahead `(?=:|$)` on the remaining input: a colon, or `atDollar` -/
def lookOK : Str → Bool
  | [] => true
  | c :: r => c == ':' || (c == '\n' && r.isEmpty)

/-- group 1 empty: the shortest non-empty run of non-backtick characters that is followed by
`:` or `$`. Returns the factor and the number of characters consumed. -/
def lazyPlain : Str → Str → Option (Str × Nat)
  | _, [] => none
  | acc, c :: rest =>
    if c == '`' then none
    else if lookOK rest then some ((c :: acc).reverse, acc.length + 1)
    else lazyPlain (c :: acc) rest

/-- group 1 = backtick (already consumed): the shortest non-empty run of non-backtick characters
followed by a backtick and the look-ahead; the run cannot extend over a backtick, so the first
backtick decides. Consumed count includes both backticks. -/
def lazyQuoted : Str → Str → Option (Str × Nat)
  | _, [] => none
  | acc, c :: rest =>
    if c == '`' then none
    else match rest with
      | [] => none
      | d :: rest' =>
        if d == '`' then (if lookOK rest' then some ((c :: acc).reverse, acc.length + 3) else none)
        else lazyQuoted (c :: acc) rest

/-- one match attempt at a position where `(?:^|(?<=:))` holds. The optional backtick is greedy:
it is tried first, and when that fails the alternative (empty group 1) needs `[^`]` to match the
backtick, which it cannot. -/
def matchAt : Str → Option (Str × Nat)
  | [] => none
  | c :: rest => if c == '`' then lazyQuoted [] rest else lazyPlain [] (c :: rest)

/-- `finditer`: `skip` = characters of the current match still to be stepped over;
`cand` = the position satisfies `(?:^|(?<=:))`. A failed attempt restarts one character later. -/
def scanAux : Nat → Bool → Str → List Str
  | _, _, [] => []
  | skip + 1, _, c :: rest => scanAux skip (c == ':') rest
  | 0, cand, c :: rest =>
    if cand then
      match matchAt (c :: rest) with
      | some (f, n) => f :: scanAux (n - 1) (c == ':') rest
      | none => scanAux 0 (c == ':') rest
    else scanAux 0 (c == ':') rest

/-- `[m.group("factor") for m in Term.FACTOR_MATCHER.finditer(s)]` -/
def matchFactors (s : Str) : List Str := scanAux 0 true s

/-! ## keys, hashing and equality of `Term` keyed dictionaries -/

/-- what a `Term`-keyed dict can be probed with -/
inductive Key
  | term (t : Term)
  | str (s : Str)

/-- the string whose hash the probe carries -/
def Key.hash : Key → Str
  | .term t => termHash t
  | .str s => s

/-- `stored.__eq__(probe)` for a stored `Term` -/
def termEq (stored : Term) : Key → Bool
  | .term u => sortStrs stored == sortStrs u
  | .str s => sortStrs stored == sortStrs (matchFactors s)

/-- one probe step of a dict/set lookup: equal hash, then `__eq__` -/
def keyMatches (stored : Term) (k : Key) : Bool := termHash stored == k.hash && termEq stored k

/-- insertion-ordered dict keyed by `Term` -/
abbrev TDict (α : Type) := List (Term × α)

namespace TDict
variable {α : Type}

/-- `d[t] = v` -/
def insert : TDict α → Term → α → TDict α
  | [], t, v => [(t, v)]
  | (k, w) :: rest, t, v =>
    if keyMatches k (.term t) then (k, v) :: rest else (k, w) :: insert rest t v

/-- plain `dict` lookup -/
def lookup (d : TDict α) (k : Key) : Option α := (d.find? (fun e => keyMatches e.1 k)).map (·.2)

/-- `_TermMapping._resolve`: first stored term whose printed form is the string -/
def byRepr (d : TDict α) (s : Str) : Option α := (d.find? (fun e => termRepr e.1 == s)).map (·.2)

/-- `_TermMapping.__getitem__` (`dict.__getitem__`, then `__missing__`) -/
def get (d : TDict α) (k : Key) : Except PyErr α :=
  match d.lookup k with
  | some v => .ok v
  | none =>
    match k with
    | .str s => match d.byRepr s with
      | some v => .ok v
      | none => .error .keyError
    | .term _ => .error .keyError

/-- `_TermMapping.__contains__` -/
def contains (d : TDict α) (k : Key) : Bool :=
  match d.get k with
  | .ok _ => true
  | .error _ => false

/-- `dict.__getitem__` of a plain dict keyed by terms -/
def getPlain (d : TDict α) (k : Key) : Except PyErr α :=
  match d.lookup k with
  | some v => .ok v
  | none => .error .keyError

/-- `_TermMapping.get(key)` (default `None`): `self[key]`, a `KeyError` becomes the default -/
def getDefault (d : TDict α) (k : Key) : Except PyErr (Option α) :=
  match d.get k with
  | .ok v => .ok (some v)
  | .error .keyError => .ok none
  | .error e => .error e

end TDict

/-- insertion-ordered dict keyed by `str` -/
abbrev SDict (α : Type) := List (Str × α)

namespace SDict
variable {α : Type}

def insert : SDict α → Str → α → SDict α
  | [], s, v => [(s, v)]
  | (k, w) :: rest, s, v => if k == s then (k, v) :: rest else (k, w) :: insert rest s v

def lookup (d : SDict α) (s : Str) : Option α := (d.find? (fun e => e.1 == s)).map (·.2)

end SDict

/-! ## sets (as duplicate-free lists in first-insertion order) and `sorted` on ints -/

def addStr (s : List Str) (x : Str) : List Str := if s.contains x then s else s ++ [x]
def unionStrs (sets : List (List Str)) : List Str := sets.foldl (fun acc s => s.foldl addStr acc) []

/-- `set.add` for a set of `Term`s -/
def addTerm (s : List Term) (t : Term) : List Term :=
  if s.any (fun u => keyMatches u (.term t)) then s else s ++ [t]

def addNat (s : List Nat) (x : Nat) : List Nat := if s.contains x then s else s ++ [x]

def insertNat (x : Nat) : List Nat → List Nat
  | [] => [x]
  | y :: ys => if x < y then x :: y :: ys else y :: insertNat x ys

/-- `sorted(xs)` on ints -/
def sortNats (xs : List Nat) : List Nat := xs.foldr insertNat []

/-! ## the recorded structure and what `ModelSpec` derives from it -/

/-- a `Variable` (`formulaic/utils/variables.py`): a `str` subclass — it hashes and compares as its
name — that carries `roles` (a subset of {value, callable}) and `source` (the layer the name
resolved in, `None` when unknown) -/
structure Var where
  name : Str
  value : Bool
  callable : Bool
  source : Option Str
deriving Repr, DecidableEq

/-- one step of `Variable.union`: `variables[v] = Variable(v, roles = v.roles | old.roles,
source = v.source)` when the name is present (the key keeps its position), else `variables[v] = v` -/
def addVar : List Var → Var → List Var
  | [], v => [v]
  | w :: rest, v =>
    if w.name == v.name then
      { name := v.name, value := v.value || w.value, callable := v.callable || w.callable, source := v.source } :: rest
    else w :: addVar rest v

/-- `Variable.union(*variable_sets)` (the values of the dict, in first-insertion order) -/
def unionVars (sets : List (List Var)) : List Var := sets.foldl (fun acc s => s.foldl addVar acc) []

/-- one `ScopedFactor` of a recorded scoped term: the expression of its factor and
`EvaluatedFactor.variables` (`None` for a literal factor) -/
structure SFactor where
  expr : Str
  vars : Option (List Var)
deriving Repr, DecidableEq

/-- one `EncodedTermStructure(term, scoped_terms, columns)` -/
structure Row where
  term : Term
  sterms : List (List SFactor)
  columns : List Str
deriving Repr, DecidableEq

abbrev Structure := List Row

/-- `ModelSpec.column_names` -/
def columnNames (st : Structure) : List Str := st.flatMap (·.columns)

def columnIndicesAux : Nat → List Str → SDict Nat → SDict Nat
  | _, [], d => d
  | i, n :: ns, d => columnIndicesAux (i + 1) ns (d.insert n i)

/-- `ModelSpec.column_indices = {name: i for i, name in enumerate(column_names)}` -/
def columnIndices (st : Structure) : SDict Nat := columnIndicesAux 0 (columnNames st) []

/-- `ModelSpec.get_column_indices` -/
def getColumnIndices (st : Structure) (cols : List Str) : Except PyErr (List Nat) :=
  cols.mapM (fun c => match (columnIndices st).lookup c with
    | some i => .ok i
    | none => .error .keyError)

def termIndicesAux : Nat → Structure → TDict (List Nat) → TDict (List Nat)
  | _, [], d => d
  | start, r :: rs, d =>
    termIndicesAux (start + r.columns.length) rs (d.insert r.term (List.range' start r.columns.length))

/-- `ModelSpec.term_indices` -/
def termIndices (st : Structure) : TDict (List Nat) := termIndicesAux 0 st []

/-- `slice(v[0], v[-1] + 1) if v else slice(0, 0)` -/
def sliceOf : List Nat → Nat × Nat
  | [] => (0, 0)
  | a :: rest => (a, (a :: rest).getLast (by simp) + 1)

/-- `ModelSpec.term_slices` -/
def termSlices (st : Structure) : TDict (Nat × Nat) := (termIndices st).map (fun e => (e.1, sliceOf e.2))

/-- `ScopedTerm.variables`: `Variable.union(*(f.factor.variables for f in factors if f.factor.variables is not None))` -/
def scopedVarsFull (sc : List SFactor) : List Var := unionVars (sc.filterMap (·.vars))
/-- `Variable.union(*(term.variables for term in row[1]))` -/
def rowVarsFull (r : Row) : List Var := unionVars (r.sterms.map scopedVarsFull)
/-- the names of a row's variables -/
def rowVars (r : Row) : List Str := (rowVarsFull r).map (·.name)

/-- `ModelSpec.term_variables` (with roles and sources) -/
def termVariablesFull (st : Structure) : TDict (List Var) :=
  st.foldl (fun d r => d.insert r.term (rowVarsFull r)) []

/-- `ModelSpec.term_variables`, names only (a `Variable` is its name as far as keys, membership and
equality are concerned) -/
def termVariables (st : Structure) : TDict (List Str) :=
  (termVariablesFull st).map (fun e => (e.1, e.2.map (·.name)))

def addVarTerm : SDict (List Term) → Str → Term → SDict (List Term)
  | [], v, t => [(v, [t])]
  | (k, ts) :: rest, v, t => if k == v then (k, addTerm ts t) :: rest else (k, ts) :: addVarTerm rest v t

/-- `ModelSpec.variable_terms` (`defaultdict(set)`); the key order follows set iteration in the
code and is not observable -/
def variableTerms (st : Structure) : SDict (List Term) :=
  (termVariables st).foldl (fun d e => e.2.foldl (fun d v => addVarTerm d v e.1) d) []

/-- `ModelSpec.variable_indices`: `sorted({index for term in terms for index in term_indices[term]})` -/
def variableIndices (st : Structure) : Except PyErr (SDict (List Nat)) :=
  (variableTerms st).mapM (fun e => do
    let idxs ← e.2.mapM (fun t => (termIndices st).get (.term t))
    pure (e.1, sortNats (idxs.flatten.foldl addNat [])))

/-- `ModelSpec.get_variable_indices` -/
def getVariableIndices (st : Structure) (vars : List Str) : Except PyErr (List Nat) := do
  let vi ← variableIndices st
  let parts ← vars.mapM (fun v => match vi.lookup v with
    | some i => .ok i
    | none => .error .keyError)
  pure parts.flatten

/-! ## the factor side: `term_factors`, `factors`, `factor_terms`, `factor_variables`,
`factor_contrasts`; `variables`, `variables_by_source`, `required_variables`

A `Factor` hashes and compares as its `expr`, so a set of factors is a duplicate-free list of
expressions. These maps are derived from `self.terms = list(self.formula)` (NOT from the
structure), `factor_variables` from both. -/

/-- `Term.__init__`: `factors = tuple(dict.fromkeys(factors))` -/
def mkTerm (exprs : List Str) : Term := exprs.foldl addStr []

/-- `term_factors[term].add(factor)` on a `defaultdict(set)` keyed by `Term` -/
def addTermFactor : TDict (List Str) → Term → Str → TDict (List Str)
  | [], t, f => [(t, [f])]
  | (k, fs) :: rest, t, f =>
    if keyMatches k (.term t) then (k, addStr fs f) :: rest else (k, fs) :: addTermFactor rest t f

/-- `ModelSpec.term_factors` -/
def termFactors (formulaTerms : List Term) : TDict (List Str) :=
  formulaTerms.foldl (fun d t => t.foldl (fun d f => addTermFactor d t f) d) []

/-- `ModelSpec.factors = {factor for term in self.terms for factor in term.factors}` -/
def factors (formulaTerms : List Term) : List Str :=
  formulaTerms.foldl (fun s t => t.foldl addStr s) []

/-- `ModelSpec.factor_terms`: the reverse of `term_factors` (`defaultdict(set)` keyed by `Factor`) -/
def factorTerms (formulaTerms : List Term) : SDict (List Term) :=
  (termFactors formulaTerms).foldl (fun d e => e.2.foldl (fun d f => addVarTerm d f e.1) d) []

/-- `factor_variables[factor].extend(vars)` on a `defaultdict(list)` keyed by `Factor` -/
def extendAt : SDict (List Var) → Str → List Var → SDict (List Var)
  | [], f, vs => [(f, vs)]
  | (k, ws) :: rest, f, vs => if k == f then (k, ws ++ vs) :: rest else (k, ws) :: extendAt rest f vs

/-- the loop of `ModelSpec.factor_variables`: `.extend(scoped_factor.factor.variables)` raises
`TypeError` when the recorded variables are `None` -/
def factorVarLists (st : Structure) : Except PyErr (SDict (List Var)) :=
  st.foldlM (fun d r => r.sterms.foldlM (fun d sc => sc.foldlM (fun d sf =>
    match sf.vars with
    | some vs => .ok (extendAt d sf.expr vs)
    | none => .error .typeError) d) d) []

/-- `ModelSpec.factor_variables = {factor: Variable.union(factor_variables.get(factor, [])) for factor in self.factors}` -/
def factorVariables (formulaTerms : List Term) (st : Structure) : Except PyErr (SDict (List Var)) := do
  let fv ← factorVarLists st
  pure ((factors formulaTerms).map (fun f =>
    (f, unionVars [match fv.lookup f with | some vs => vs | none => []])))

/-- what `factor_contrasts` reads of `encoder_state[expr]`: is the recorded kind categorical, does
the recorded state hold a `"contrasts"` entry -/
structure EncEntry where
  expr : Str
  categorical : Bool
  hasContrasts : Bool
deriving Repr, DecidableEq

/-- the keys of `ModelSpec.factor_contrasts` (the contrast states themselves are C11's) -/
def factorContrastKeys (formulaTerms : List Term) (enc : List EncEntry) : List Str :=
  (factors formulaTerms).filter (fun f =>
    match enc.find? (fun e => e.expr == f) with
    | some e => e.categorical && e.hasContrasts
    | none => false)

/-- `ModelSpec.variables = Variable.union(*term_variables.values())` -/
def variables (st : Structure) : List Var := unionVars ((termVariablesFull st).map (·.2))

/-- `variables_by_source[variable.source].add(variable)` on a `defaultdict(set)` -/
def addBySource : List (Option Str × List Str) → Option Str → Str → List (Option Str × List Str)
  | [], src, v => [(src, [v])]
  | (k, vs) :: rest, src, v => if k == src then (k, addStr vs v) :: rest else (k, vs) :: addBySource rest src v

/-- `ModelSpec.variables_by_source` -/
def variablesBySource (st : Structure) : List (Option Str × List Str) :=
  (variables st).foldl (fun d v => addBySource d v.source v.name) []

/-- `ModelSpec.required_variables` on a materialized spec: `variables_by_source.get("data", set())` -/
def requiredVariables (st : Structure) : List Str :=
  match (variablesBySource st).find? (fun e => e.1 == some "data".toList) with
  | some e => e.2
  | none => []

/-! ## `get_slice` -/

/-- what `get_slice` looks up in the term and column maps -/
inductive Ident
  | term (t : Term)
  | str (s : Str)

/-- `ModelSpec.get_slice` for a `Term` or a string -/
def getSlice (st : Structure) : Ident → Except PyErr (Nat × Nat)
  | .term t =>
    if (termSlices st).contains (.term t) then (termSlices st).get (.term t) else .error .valueError
  | .str s =>
    if (termSlices st).contains (.str s) then (termSlices st).get (.str s)
    else match (columnIndices st).lookup s with
      | some i => .ok (i, i + 1)
      | none => .error .valueError

/-- a Python `slice(start, stop, step)` -/
structure PySlice where
  start : Option Int
  stop : Option Int
  step : Option Int
deriving Repr, DecidableEq

/-- everything `get_slice` can be called with -/
inductive AnyIdent
  | slice (s : PySlice)
  | int (i : Int)                -- `bool` included (`isinstance(True, int)`)
  | term (t : Term)
  | str (s : Str)
  | other                        -- any other hashable object (`None`, a float, a tuple, a numpy integer …)
  | unhashable                   -- a list, a dict, a set …

def PySlice.ofNats (p : Nat × Nat) : PySlice := ⟨some p.1, some p.2, none⟩

/-- `ModelSpec.get_slice(columns_identifier)`, every branch: a slice is returned as it is; an int `i`
gives `slice(i, i + 1)` (no range check, negative values included); a `Term` / a string go through the
term and column maps; any other hashable object is in neither map (`Term.__eq__` returns
`NotImplemented` for it, the column map is keyed by strings) → `ValueError`; an unhashable object
fails in `dict.__contains__` → `TypeError` -/
def getSliceAny (st : Structure) : AnyIdent → Except PyErr PySlice
  | .slice s => .ok s
  | .int i => .ok ⟨some i, some (i + 1), none⟩
  | .term t => (getSlice st (.term t)).map PySlice.ofNats
  | .str s => (getSlice st (.str s)).map PySlice.ofNats
  | .other => .error .valueError
  | .unhashable => .error .typeError

/-! ## ordering of a term list (`SimpleFormula._reorder`) -/

inductive Ordering | none | degree | sort
deriving DecidableEq, Repr

/-- a term of a request with, per factor, whether its `eval_method` is `LITERAL` -/
structure ReqTerm where
  term : Term
  literal : List Bool
deriving Repr, DecidableEq

/-- `Term.degree`: the number of factors that are not literals -/
def ReqTerm.degree (t : ReqTerm) : Nat := (t.literal.filter (fun b => !b)).length

/-- stable insertion by degree of an element that stood BEFORE the (sorted) list: it goes in front
of the first element whose degree is not smaller -/
def insertByDegree (x : ReqTerm) : List ReqTerm → List ReqTerm
  | [] => [x]
  | y :: ys => if y.degree < x.degree then y :: insertByDegree x ys else x :: y :: ys

/-- `sorted(terms, key=lambda term: term.degree)` (stable) -/
def sortByDegree (ts : List ReqTerm) : List ReqTerm := ts.foldr insertByDegree []

/-- lexicographic `<` on lists of strings (`sorted(self.factors) < sorted(other.factors)`) -/
def strsLt : List Str → List Str → Bool
  | [], [] => false
  | [], _ :: _ => true
  | _ :: _, [] => false
  | a :: as, b :: bs => if strLt a b then true else if strLt b a then false else strsLt as bs

/-- `Term.__lt__` -/
def termLt (x y : ReqTerm) : Bool :=
  if x.degree == y.degree then strsLt (sortStrs x.term) (sortStrs y.term)
  else x.degree < y.degree

def insertByTermLt (x : ReqTerm) : List ReqTerm → List ReqTerm
  | [] => [x]
  | y :: ys => if termLt y x then y :: insertByTermLt x ys else x :: y :: ys

/-- the factors of a request term with their literal flags, sorted by expression
(`Term(factors=sorted(term.factors))`) -/
def insertFactor (x : Str × Bool) : List (Str × Bool) → List (Str × Bool)
  | [] => [x]
  | y :: ys => if strLt x.1 y.1 then x :: y :: ys else y :: insertFactor x ys
def ReqTerm.sortFactors (t : ReqTerm) : ReqTerm :=
  let fs := (t.term.zip t.literal).foldr insertFactor []
  ⟨fs.map (·.1), fs.map (·.2)⟩

/-- `SimpleFormula(terms, _ordering=ordering)` -/
def orderTerms : Ordering → List ReqTerm → List ReqTerm
  | .none, ts => ts
  | .degree, ts => sortByDegree ts
  | .sort, ts => (ts.map ReqTerm.sortFactors).foldr insertByTermLt []

/-- `ModelSpec.__get_restricted_formula` after parsing: `set(formula).difference(self.terms)`
must be empty. `formulaTerms` = `list(self.formula)`, `spec` = the parsed `terms_spec`. -/
def restricted (formulaTerms : List Term) (spec : List Term) : Except PyErr (List Term) :=
  if spec.all (fun t => formulaTerms.any (fun u => keyMatches t (.term u))) then .ok spec
  else .error .valueError

/-- `ModelSpec.get_term_indices` -/
def getTermIndices (formulaTerms : List Term) (st : Structure) (spec : List Term) :
    Except PyErr (List Nat) := do
  let terms ← restricted formulaTerms spec
  let parts ← terms.mapM (fun t => (termIndices st).get (.term t))
  pure parts.flatten

/-- `ModelSpec.subset`: `term_structure = {s.term: s for s in structure if s.term in set(terms)}`,
`structure = [term_structure[term] for term in terms]` -/
def subset (formulaTerms : List Term) (st : Structure) (spec : List Term) : Except PyErr Structure := do
  let terms ← restricted formulaTerms spec
  let termsSet := terms.foldl addTerm []
  let ts : TDict Row := st.foldl (fun d s =>
    if termsSet.any (fun u => keyMatches u (.term s.term)) then d.insert s.term s else d) []
  terms.mapM (fun t => ts.getPlain (.term t))

/-- what `SimpleFormula.from_spec(terms_spec, **formula_kwargs)` makes of a `terms_spec` up to the
ordering step: a structured formula; a `SimpleFormula` instance (returned as it is); or a flat list
of terms (a formula string or a list of strings / `Term`s after parsing, C01) that
`SimpleFormula(terms, _ordering=…)` still has to order -/
inductive ParsedSpec
  | structured
  | formula (ts : List Term)
  | terms (ts : List ReqTerm)

/-- the term list of the restricted formula before the membership check -/
def specTerms (o : Ordering) : ParsedSpec → Except PyErr (List Term)
  | .structured => .error .valueError
  | .formula ts => .ok ts
  | .terms ts => .ok ((orderTerms o ts).map (·.term))

/-- `ModelSpec.subset(terms_spec, ordering=o)` -/
def subsetSpec (formulaTerms : List Term) (st : Structure) (o : Ordering) (p : ParsedSpec) :
    Except PyErr Structure := do
  let spec ← specTerms o p
  subset formulaTerms st spec

/-- `ModelSpec.get_term_indices(terms_spec, ordering=o)` -/
def getTermIndicesSpec (formulaTerms : List Term) (st : Structure) (o : Ordering) (p : ParsedSpec) :
    Except PyErr (List Nat) := do
  let spec ← specTerms o p
  getTermIndices formulaTerms st spec

/-! ## a `ModelSpec` whose structure may not be populated -/

/-- the fields of a `ModelSpec` that the derived metadata reads -/
structure Spec where
  formula : List Term
  structure? : Option Structure
  enc : List EncEntry

instance : Inhabited Spec := ⟨⟨[], none, []⟩⟩

/-- `ModelSpec.__structure`: `RuntimeError` when `.structure is None` -/
def Spec.st (sp : Spec) : Except PyErr Structure :=
  match sp.structure? with
  | some st => .ok st
  | none => .error .runtimeError

/-- a derived attribute that reads the structure -/
def Spec.attr {α : Type} (sp : Spec) (f : Structure → α) : Except PyErr α := sp.st.map f

/-- `ModelSpec.get_column_indices(columns)`: `self.column_indices` is read once per name (an empty
request never reads the structure) -/
def Spec.getColumnIndices (sp : Spec) : List Str → Except PyErr (List Nat)
  | [] => .ok []
  | cols => do
    let st ← sp.st
    SpecMeta.getColumnIndices st cols

/-- `ModelSpec.get_slice` on a spec whose structure may not be populated: a slice and an int are
answered before `self.term_slices` is read -/
def Spec.getSlice (sp : Spec) : AnyIdent → Except PyErr PySlice
  | .slice s => .ok s
  | .int i => .ok ⟨some i, some (i + 1), none⟩
  | k => do
    let st ← sp.st
    getSliceAny st k

/-- `ModelSpec.get_term_indices(terms_spec, ordering=o)`: the restricted formula first; the structure
is read (`self.term_indices`) only when there is a term to look up -/
def Spec.getTermIndices (sp : Spec) (o : Ordering) (p : ParsedSpec) : Except PyErr (List Nat) := do
  let spec ← specTerms o p
  let terms ← restricted sp.formula spec
  match terms with
  | [] => pure []
  | _ => do
    let st ← sp.st
    SpecMeta.getTermIndices sp.formula st spec

/-- `own_terms = {term: term for term in self.terms}`: the spec's own `Term` object for every term
(a repeated term keeps the last object) -/
def ownTerms (formulaTerms : List Term) : TDict Term := formulaTerms.foldl (fun d t => d.insert t t) []

/-- `ModelSpec.subset` as a spec-to-spec function:
`self.update(formula=SimpleFormula([own_terms[t] for t in terms]), structure=[term_structure[t] for t in terms])`
— the subset's formula consists of the parent's OWN terms (own factor order), in the requested order -/
def Spec.subset (sp : Spec) (o : Ordering) (p : ParsedSpec) : Except PyErr Spec := do
  let spec ← specTerms o p
  let _ ← restricted sp.formula spec
  let st ← sp.st
  let sub ← SpecMeta.subset sp.formula st spec
  let own ← spec.mapM (fun t => (ownTerms sp.formula).getPlain (.term t))
  pure { formula := own, structure? := some sub, enc := sp.enc }

/-! ## histories of look-ups on one materialized spec

`term_indices`, `term_slices`, `column_indices`, `term_variables`, `variable_indices` are
`cached_property`s: computed once, then the SAME dict objects answer every later look-up. A
look-up could therefore change what a later look-up (or a later reading of the metadata) sees, if
an accessor wrote to the mapping. The code as it is writes nothing: `_TermMapping.__missing__`
resolves the string by iterating over the keys and returns `dict.__getitem__(self, term)`;
`__contains__`, `get`, `get_slice`, `get_term_indices`, `get_column_indices`,
`get_variable_indices` only read. The state machine below has the cached mappings as its state and
one transition per accessor, written as the code executes it (new state, outcome). -/

/-- the cached mappings of a materialized spec -/
structure SpecState where
  formula : List Term
  ti : TDict (List Nat)
  ts : TDict (Nat × Nat)
  ci : SDict Nat
  tv : TDict (List Var)
  vi : Except PyErr (SDict (List Nat))

/-- the state after every cached property was computed from the recorded structure -/
def SpecState.init (formulaTerms : List Term) (st : Structure) : SpecState :=
  { formula := formulaTerms, ti := termIndices st, ts := termSlices st, ci := columnIndices st,
    tv := termVariablesFull st, vi := variableIndices st }

/-- `get_slice` on the cached mappings (same text as `getSlice`) -/
def getSliceOn (ts : TDict (Nat × Nat)) (ci : SDict Nat) : Ident → Except PyErr (Nat × Nat)
  | .term t => if ts.contains (.term t) then ts.get (.term t) else .error .valueError
  | .str s =>
    if ts.contains (.str s) then ts.get (.str s)
    else match ci.lookup s with
      | some i => .ok (i, i + 1)
      | none => .error .valueError

def getSliceAnyOn (ts : TDict (Nat × Nat)) (ci : SDict Nat) : AnyIdent → Except PyErr PySlice
  | .slice s => .ok s
  | .int i => .ok ⟨some i, some (i + 1), none⟩
  | .term t => (getSliceOn ts ci (.term t)).map PySlice.ofNats
  | .str s => (getSliceOn ts ci (.str s)).map PySlice.ofNats
  | .other => .error .valueError
  | .unhashable => .error .typeError

/-- one accessor call -/
inductive Op
  | tiItem (k : Key) | tiGet (k : Key) | tiIn (k : Key)       -- term_indices[k] / .get(k) / k in
  | tsItem (k : Key) | tsGet (k : Key) | tsIn (k : Key)       -- term_slices …
  | slice (id : AnyIdent)                                      -- get_slice(id)
  | termIdx (o : Ordering) (p : ParsedSpec)                    -- get_term_indices(spec, ordering=o)
  | colItem (s : Str)                                          -- column_indices[s]
  | colIdx (cols : List Str)                                   -- get_column_indices(cols)
  | varItem (v : Str)                                          -- variable_indices[v]
  | varIdx (vs : List Str)                                     -- get_variable_indices(vs)

/-- what an accessor returns -/
inductive OpVal
  | nats (xs : List Nat)
  | optNats (xs : Option (List Nat))
  | range (s : Nat × Nat)
  | optRange (s : Option (Nat × Nat))
  | bool (b : Bool)
  | pyslice (s : PySlice)
  | nat (n : Nat)
deriving Repr, DecidableEq

/-- one transition: the state after the call and the outcome of the call -/
def SpecState.step (s : SpecState) : Op → SpecState × Except PyErr OpVal
  | .tiItem k => (s, (s.ti.get k).map .nats)
  | .tiGet k => (s, (s.ti.getDefault k).map .optNats)
  | .tiIn k => (s, .ok (.bool (s.ti.contains k)))
  | .tsItem k => (s, (s.ts.get k).map .range)
  | .tsGet k => (s, (s.ts.getDefault k).map .optRange)
  | .tsIn k => (s, .ok (.bool (s.ts.contains k)))
  | .slice id => (s, (getSliceAnyOn s.ts s.ci id).map .pyslice)
  | .termIdx o p => (s, (do
      let spec ← specTerms o p
      let terms ← restricted s.formula spec
      let parts ← terms.mapM (fun t => s.ti.get (.term t))
      pure (OpVal.nats parts.flatten)))
  | .colItem c => (s, match s.ci.lookup c with
      | some i => .ok (.nat i)
      | none => .error .keyError)
  | .colIdx cols => (s, (cols.mapM (fun c => match s.ci.lookup c with
      | some i => Except.ok i
      | none => Except.error PyErr.keyError)).map .nats)
  | .varItem v => (s, match s.vi with
      | .ok d => (match d.lookup v with
        | some xs => .ok (.nats xs)
        | none => .error .keyError)
      | .error e => .error e)
  | .varIdx vs => (s, (do
      let d ← s.vi
      let parts ← vs.mapM (fun v => match d.lookup v with
        | some i => .ok i
        | none => .error .keyError)
      pure (OpVal.nats parts.flatten)))

/-- a history of accessor calls: the final state and the outcomes in call order -/
def SpecState.run (s : SpecState) : List Op → SpecState × List (Except PyErr OpVal)
  | [] => (s, [])
  | op :: rest =>
    let r := s.step op
    let q := SpecState.run r.1 rest
    (q.1, r.2 :: q.2)

/-! ## which labels the matrix carries (`_combine_columns`) and the replay of a structure -/

inductive Materializer | pandas | narwhals
deriving DecidableEq, Repr
inductive Output | pandas | numpy | sparse | narwhals
deriving DecidableEq, Repr

/-- how `_combine_columns` assembles `[(name, values), …]`: positionally (`numpy.stack`,
`scipy.sparse.hstack`, the pandas frame built by position and then labelled) or through a
name-keyed dict (`narwhals.from_dict({name: col …})`) -/
inductive Combine | list | dict
deriving DecidableEq, Repr

/-- the registered names (`REGISTER_NAME`, `REGISTER_OUTPUTS`) -/
def Materializer.ofName : String → Option Materializer
  | "pandas" => some .pandas
  | "narwhals" => some .narwhals
  | _ => none
def Output.ofName : String → Option Output
  | "pandas" => some .pandas
  | "numpy" => some .numpy
  | "sparse" => some .sparse
  | "narwhals" => some .narwhals
  | _ => none

def combineMode : Materializer → Output → Combine
  | .pandas, _ => .list
  | .narwhals, .sparse => .list
  | .narwhals, _ => .dict

/-- the (label, values) columns of the assembled matrix -/
def combine {V : Type} : Combine → List (Str × V) → List (Str × V)
  | .list, cols => cols
  | .dict, cols => cols.foldl (fun d kv => SDict.insert d kv.1 kv.2) []

/-- the labels a freshly built matrix carries: `_combine_columns` receives the items of the very
dicts whose keys were recorded as `structure[i].columns` -/
def matrixLabels (c : Combine) (st : Structure) : List Str :=
  (combine c ((columnNames st).map (fun n => (n, ())))).map (·.1)

/-- `_enforce_structure` for one term: `generated` = the `scoped_cols` dict the replay produced,
`target` = the recorded column names, `zero` = `_encode_constant(0, …)` -/
def enforceRow {V : Type} (zero : V) (target : List Str) (generated : SDict V) : Except PyErr (SDict V) :=
  let pick (d : SDict V) : Except PyErr (SDict V) :=
    target.foldlM (fun acc c => match d.lookup c with
      | some v => .ok (acc.insert c v)
      | none => .error .keyError) []
  if generated.length > target.length then .error .factorEncodingError
  else if generated.length < target.length then
    match generated with
    | [] => pick (target.foldl (fun d n => d.insert n zero) [])
    | [(_, col)] => pick (target.foldl (fun d n => d.insert n col) [])
    | _ => .error .factorEncodingError
  else if target.all (fun c => (generated.lookup c).isSome) && generated.all (fun e => target.contains e.1)
  then pick generated
  else .error .factorEncodingError

/-- `_build_model_matrix` on a spec that carries a structure, Steps 2-3: every row is regenerated
on its own (`gen r` = the `scoped_cols` of the rehydrated scoped terms of row `r` on the data at
hand) and forced onto the recorded names -/
def replayBlocks {V : Type} (zero : V) (gen : Row → SDict V) (st : Structure) :
    Except PyErr (List (SDict V)) :=
  st.mapM (fun r => enforceRow zero r.columns (gen r))

/-- … Step 4: the blocks are assembled -/
def replay {V : Type} (zero : V) (gen : Row → SDict V) (c : Combine) (st : Structure) :
    Except PyErr (List (Str × V)) := do
  let blocks ← replayBlocks zero gen st
  pure (combine c blocks.flatten)

end FormulaicVerif.Model.SpecMeta
