import FormulaicVerif.Proofs.C11Lists
import FormulaicVerif.Proofs.C11Cache
import FormulaicVerif.Proofs.C11Ext
import Mathlib.LinearAlgebra.Matrix.NonsingularInverse
import Mathlib.Algebra.BigOperators.Fin
import Mathlib.Tactic.FieldSimp
import Mathlib.Tactic.Ring
import Mathlib.Tactic.Linarith
import Mathlib.Analysis.Real.Sqrt
import Mathlib.Data.Rat.Cast.Order
/-! # C11 — Built-in contrast codings are valid and standard for every level count

Property theorems only; helper lemmas are in `Proofs/C11*.lean`. Every `theorem` in this file is an
obligation audited with `#print axioms`.

The matrices are the model's own entry functions (`Model.Contrasts.coding k n i j : Rat`, written
from the index arithmetic of `contrasts.py`), viewed as Mathlib matrices:
`codingM k n : Matrix (Fin n) (Fin (n-1)) ℚ`, `augM k n = [1 | coding]`, and the closed-form
coefficient matrix `coefM k n` of `Spec/Contrasts.lean`. `k : Kind` ranges over treatment with any
base index, sum, Helmert (reverse × scale), difference (backward ×) and polynomial with arbitrary
scores (SAS is treatment with base `n-1`). The bridge from the list-of-rows matrices that the engine
prints (and that `apply` multiplies with) to these entry functions is `model_rows_are_entries`.

`n` is arbitrary (for `n = 0` every statement is about empty matrices). -/

namespace FormulaicVerif.Props.C11
open Matrix Finset BigOperators
open FormulaicVerif.Model.Contrasts FormulaicVerif.Spec.Contrasts FormulaicVerif.Proofs.C11
set_option linter.unusedSimpArgs false
set_option linter.unusedVariables false

/-- the reduced coding matrix of the model -/
def codingM (k : Kind) (n : ℕ) : Matrix (Fin n) (Fin (n - 1)) ℚ :=
  Matrix.of fun i j => Model.Contrasts.coding k n i j
/-- `[1 | coding]` (`numpy.hstack([ones, coding])` in `_get_coefficient_matrix`) -/
def augM (k : Kind) (n : ℕ) : Matrix (Fin n) (Fin n) ℚ := Matrix.of fun i c => aug k n i c
/-- the closed-form coefficient matrix -/
def coefM (k : Kind) (n : ℕ) : Matrix (Fin n) (Fin n) ℚ :=
  Matrix.of fun r i => Spec.Contrasts.coef k n r i

/-- Options for which the property speaks: the treatment base is one of the `n` levels, polynomial
scores are pairwise distinct. (Sum, Helmert and difference codings have no side condition.) -/
abbrev Valid (k : Kind) (n : ℕ) : Prop := FormulaicVerif.Proofs.C11.Valid k n

example : Valid (.treatment 2) 5 := by show 2 < 5; omega
example : Valid (.poly (fun i => (i : ℚ))) 7 := by
  intro i j _ _ h
  have h' : (i : ℚ) = (j : ℚ) := h
  exact_mod_cast h'
example : Valid (.helmert false true) 1 := trivial

/-- **Bridge.** The list-of-rows matrix computed by the executable model (`getCodingMatrix`, what the
engine prints, what `apply` multiplies with and what the correspondence compares with the real
`get_coding_matrix`) has exactly the entries of the entry function the theorems below are about. For
the polynomial coding this includes the correctness of the memoised recurrence table. -/
theorem model_rows_are_entries (c : Contrast) (levels : List Label) (sparse : Bool) (m : List (List ℚ))
    (h : getCodingMatrix c levels true sparse = .ok m) :
    ∃ k, c.kind levels = .ok k ∧
      m = toRows (Model.Contrasts.coding k levels.length) levels.length (levels.length - 1) ∧
      ∀ (i : Fin levels.length) (j : Fin (levels.length - 1)),
        (m[i.val]?.bind (·[j.val]?)) = some (codingM k levels.length i j) := by
  have hraw := getCodingMatrix_raw c levels true sparse m h
  rw [rawCoding_reduced] at hraw
  cases hk : c.kind levels with
  | error e => simp [hk, Except.map] at hraw
  | ok k =>
    simp only [hk, Except.map, Except.ok.injEq] at hraw
    refine ⟨k, rfl, hraw.symm, fun i j => ?_⟩
    rw [← hraw]
    exact toRows_entry _ _ _ i.val j.val i.isLt j.isLt

/-- C11.1  The coding matrices written from the code's index arithmetic are the textbook / R matrices
(`contr.treatment`, `contr.SAS`, `contr.sum`, `contr.helmert` and its forward / scaled variants,
`MASS::contr.sdif` and its negative), entry by entry, for every `n`. For the polynomial coding the
textbook definition is the characterisation `poly_eq_textbook` below. -/
theorem coding_eq_textbook (k : Kind) (n : ℕ) (i : Fin n) (j : Fin (n - 1)) :
    codingM k n i j = Spec.Contrasts.coding k n i.val j.val :=
  coding_eq_spec k n i.val j.val i.isLt j.isLt

/-- C11.1 (polynomial)  For pairwise distinct scores the columns `1, P_1, …, P_{n-1}` produced by
the three-term recurrence of `poly.py` are *the* monic orthogonal polynomial family of the scores: `P_k`
is `x·P_{k-1}` minus a combination of lower columns (monic of degree `k`), distinct columns are
orthogonal — the defining properties of `contr.poly` before normalisation — and any family with these
properties coincides with it (so it equals what R's QR construction yields, up to the positive
normalisation `1/sqrt(norms2)` that the correspondence checks numerically). -/
theorem poly_eq_textbook (n : ℕ) (x : ℕ → ℚ) (hv : Valid (.poly x) n) :
    IsMonicOrthogonalFamily n x (polyP n x) ∧
      ∀ q, IsMonicOrthogonalFamily n x q → ∀ k, k < n → ∀ i, i < n → q k i = polyP n x k i :=
  ⟨polyP_isMonicOrthogonal n x hv, fun q hq => poly_unique n x hv q hq⟩

/-- Every option combination resolved against a non-empty level list is `Valid`: a treatment / SAS
base (unset, or any label among the levels) resolves to an index `< n`, `scores=None` resolves to
`arange(n)`, explicit scores only need to be pairwise distinct. So the theorems below cover every
`contr.*(...)` call that does not raise. -/
theorem kind_valid (c : Contrast) (levels : List Label) (k : Kind) (hne : levels ≠ [])
    (hs : ScoresDistinct c) (hk : c.kind levels = .ok k) : Valid k levels.length :=
  kind_valid_aux c levels k hne hs hk

example : ScoresDistinct (.poly (some [10, 11, 20])) := by
  show [(10 : ℚ), 11, 20].Nodup
  norm_num
example : (Contrast.sas none).kind [.str "a", .int 3, .str "c"] = .ok (.treatment 2) := rfl
example : (Contrast.treatment (some (.int 3))).kind [.str "a", .int 3, .str "c"] = .ok (.treatment 1) := by
  simp [Contrast.kind, findBaseIndex, indexOf?, Except.map]

/-- The chosen reference level is honoured: `base=b` resolves to the position of `b` in the level
list (unset: first level for treatment, last for SAS), the reduced column names are the levels with
exactly that one removed, and the full-rank `drop_field` is that level. -/
theorem reference_level_honoured (sas : Bool) (b : Option Label) (levels : List Label) (d : ℕ)
    (hne : levels ≠ []) (h : findBaseIndex sas b levels = .ok d) :
    (match b with
      | some l => levels[d]? = some l
      | none => d = if sas then levels.length - 1 else 0) ∧
    codingColumnNames (if sas then .sas b else .treatment b) levels true = .ok (levels.eraseIdx d) ∧
    dropField (if sas then .sas b else .treatment b) levels false = .ok levels[d]? := by
  have hd := findBaseIndex_lt sas b levels d hne h
  have hpos : 0 < levels.length := List.length_pos_of_ne_nil hne
  refine ⟨?_, ?_, ?_⟩
  · unfold findBaseIndex at h
    cases b with
    | none => simp only [Except.ok.injEq] at h; exact h.symm
    | some l =>
      simp only at h
      cases hi : indexOf? l levels with
      | none => simp [hi] at h
      | some i =>
        simp only [hi, Except.ok.injEq] at h
        subst h
        exact indexOf?_get l levels i hi
  · cases sas <;> simp [codingColumnNames, h, bind, Except.bind, pure, Except.pure]
  · cases b with
    | some l =>
      have : levels[d]? = some l := by
        unfold findBaseIndex at h
        simp only at h
        cases hi : indexOf? l levels with
        | none => simp [hi] at h
        | some i =>
          simp only [hi, Except.ok.injEq] at h
          subst h
          exact indexOf?_get l levels i hi
      cases sas <;> simp [dropField, this]
    | none =>
      unfold findBaseIndex at h
      simp only [Except.ok.injEq] at h
      cases sas
      · simp only [Bool.false_eq_true, if_false] at h
        subst h
        cases levels with
        | nil => exact absurd rfl hne
        | cons a t => simp [dropField]
      · simp only [if_true] at h
        subst h
        have : levels.getLast? = levels[levels.length - 1]? := by
          rw [List.getLast?_eq_getElem?]
        simp only [dropField, if_true, Bool.false_eq_true, if_false]
        rw [this]
        cases hl : levels[levels.length - 1]? with
        | none =>
          have h1 : levels.length - 1 < levels.length := by omega
          rw [List.getElem?_eq_none_iff] at hl
          omega
        | some l => rfl

/-- C11.2a  Shape: `n` rows; `n-1` columns when reduced, `n` columns otherwise. -/
theorem shape (c : Contrast) (levels : List Label) (reduced sparse : Bool) (m : List (List ℚ))
    (h : getCodingMatrix c levels reduced sparse = .ok m) :
    m.length = levels.length ∧
      ∀ row ∈ m, row.length = if reduced then levels.length - 1 else levels.length := by
  have hraw := getCodingMatrix_raw c levels reduced sparse m h
  cases reduced with
  | true =>
    rw [rawCoding_reduced] at hraw
    cases hk : c.kind levels with
    | error e => simp [hk, Except.map] at hraw
    | ok k =>
      simp only [hk, Except.map, Except.ok.injEq] at hraw
      subst hraw
      exact ⟨toRows_length _ _ _, by simpa using toRows_row_length _ _ _⟩
  | false =>
    simp only [rawCodingMatrix, Bool.false_eq_true, if_false, Except.ok.injEq] at hraw
    subst hraw
    exact ⟨toRows_length _ _ _, by simpa using toRows_row_length _ _ _⟩

/-- C11.2b  The full-rank coding is the identity, for every contrast and level list. -/
theorem full_is_identity (c : Contrast) (levels : List Label) (sparse : Bool) (m : List (List ℚ))
    (h : getCodingMatrix c levels false sparse = .ok m) :
    m = toRows eye levels.length levels.length ∧
      (Matrix.of fun (i j : Fin levels.length) => eye i.val j.val) = (1 : Matrix _ _ ℚ) := by
  have hraw := getCodingMatrix_raw c levels false sparse m h
  simp only [rawCodingMatrix, Bool.false_eq_true, if_false, Except.ok.injEq] at hraw
  refine ⟨hraw.symm, ?_⟩
  ext i j
  simp [eye, Matrix.one_apply, Fin.ext_iff]

/-- C11.3a  The closed-form coefficient matrix is the (two-sided) inverse of `[1 | coding]`, for every
`n` and every valid option. -/
theorem coefficient_is_inverse (k : Kind) (n : ℕ) (hv : Valid k n) :
    coefM k n * augM k n = 1 ∧ augM k n * coefM k n = 1 := by
  have h : coefM k n * augM k n = 1 := by
    ext r c
    simp only [Matrix.mul_apply, coefM, augM, Matrix.of_apply]
    rw [Fin.sum_univ_eq_sum_range (fun i => Spec.Contrasts.coef k n r.val i * aug k n i c.val) n,
      coef_mul_aug k n hv r.val c.val r.isLt c.isLt]
    simp [Matrix.one_apply, Fin.ext_iff]
  exact ⟨h, mul_eq_one_comm.mp h⟩

/-- C11.3b  `[1 | coding]` is invertible. -/
theorem augmented_invertible (k : Kind) (n : ℕ) (hv : Valid k n) : IsUnit (augM k n).det :=
  Matrix.isUnit_det_of_left_inverse (coefficient_is_inverse k n hv).1

/-- contrasts whose columns sum to zero: everything except treatment -/
def Centered : Kind → Prop
  | .treatment _ => False
  | _ => True

/-- C11.4  The columns of the sum, Helmert (all four variants), difference (both directions) and
polynomial codings sum to zero, for every `n`. -/
theorem columns_sum_zero (k : Kind) (n : ℕ) (hv : Valid k n) (hk : Centered k) (j : Fin (n - 1)) :
    ∑ i : Fin n, codingM k n i j = 0 := by
  have hj : j.val + 1 < n := by have := j.isLt; omega
  have hn : (n : ℚ) ≠ 0 := natcast_ne_zero (by omega)
  have h := coef_mul_aug k n hv 0 (j.val + 1) (by omega) hj
  have hrow : ∀ i, Spec.Contrasts.coef k n 0 i = 1 / (n : ℚ) := by
    intro i
    cases k with
    | treatment d => exact absurd hk id
    | sum => simp [Spec.Contrasts.coef]
    | helmert r s => simp [Spec.Contrasts.coef, aug, colNorm2]
    | diff b => simp [Spec.Contrasts.coef]
    | poly x => simp [Spec.Contrasts.coef, aug, colNorm2]
  have hcol : ∀ i, aug k n i (j.val + 1) = Model.Contrasts.coding k n i j.val := by
    intro i; simp [aug]
  simp only [hrow, hcol, ← Finset.mul_sum] at h
  have h0 : ¬ (0 = j.val + 1) := by omega
  simp only [h0, if_false] at h
  simp only [codingM, Matrix.of_apply]
  rw [Fin.sum_univ_eq_sum_range (fun i => Model.Contrasts.coding k n i j.val) n]
  rcases mul_eq_zero.mp h with h | h
  · exact absurd h (by simp [hn])
  · exact h

/-- C11.5  Polynomial coding with pairwise distinct scores: distinct columns are orthogonal, every
column is orthogonal to the constant column (C11.4) and has positive squared length `norms2`, so the
code's columns `P_j / sqrt(norms2_j)` are orthonormal. -/
theorem poly_orthogonal (n : ℕ) (x : ℕ → ℚ) (hv : Valid (.poly x) n) (j k : Fin (n - 1)) :
    (j ≠ k → ∑ i : Fin n, codingM (.poly x) n i j * codingM (.poly x) n i k = 0) ∧
      (∑ i : Fin n, codingM (.poly x) n i j * codingM (.poly x) n i j = polyNorm2 n x (j.val + 1)) ∧
      0 < polyNorm2 n x (j.val + 1) := by
  have hj : j.val + 1 < n := by have := j.isLt; omega
  have hk : k.val + 1 < n := by have := k.isLt; omega
  have hG : ∀ a b : Fin (n - 1), ∑ i : Fin n, codingM (.poly x) n i a * codingM (.poly x) n i b
      = G n x (a.val + 1) (b.val + 1) := by
    intro a b
    simp only [codingM, Matrix.of_apply, Model.Contrasts.coding]
    rw [Fin.sum_univ_eq_sum_range (fun i => polyP n x (a.val + 1) i * polyP n x (b.val + 1) i) n]
    rfl
  refine ⟨fun hne => ?_, ?_, ?_⟩
  · rw [hG]
    exact poly_gram n x hv _ _ hj hk (fun e => hne (Fin.ext (by omega)))
  · rw [hG, polyNorm2, norm2_polyP]
  · rw [polyNorm2, norm2_polyP]
    have hne := G_ne_zero n x hv (j.val + 1) hj
    have hnn : 0 ≤ G n x (j.val + 1) (j.val + 1) := Finset.sum_nonneg (fun i _ => mul_self_nonneg _)
    exact lt_of_le_of_ne hnn (Ne.symm hne)

/-- C11.6  Encoding data equals its indicator matrix times the coding matrix: whatever
`encode_contrasts` returns — through the generic `dummies @ coding`, through the treatment fast path
`dummies[:, mask]` / `dummies`, or through the empty short-circuit — is the list-matrix product of
`indicator categories data` (one-hot rows in the order of the explicit / inferred level list; nulls
and values outside the levels give zero rows) with the coding matrix for those categories.
`matMul_entry` turns the list product into the usual sum. -/
theorem apply_is_product (data : List (Option Label)) (c : Contrast) (levels : Option (List Label))
    (reduced : Bool) (output : String) (enc : Encoded) (cats : List Label) (m : List (List ℚ))
    (h : encodeContrasts data c levels reduced output = .ok (enc, cats)) (hne : cats ≠ [])
    (hm : getCodingMatrix c cats reduced (output == "sparse") = .ok m) :
    enc.values = matMul (indicator cats data) m (if reduced then cats.length - 1 else cats.length) ∧
      (∀ ls, levels = some ls → cats = ls) := by
  unfold encodeContrasts at h
  -- the categories
  have hcats : ∃ cs, (match levels with
      | some ls => if hasDup ls then Except.error Err.duplicateLevels else pure ls
      | none => pure (inferLevels data)) = Except.ok cs ∧ (∀ ls, levels = some ls → cs = ls) ∧
      (apply c (indicator cs data) cs reduced (output == "sparse")).map (fun e => (e, cs)) = .ok (enc, cats) := by
    cases levels with
    | none =>
      refine ⟨inferLevels data, rfl, fun ls h => (by cases h), ?_⟩
      simp only [bind, Except.bind, pure, Except.pure] at h
      split_ifs at h
      cases ha : apply c (indicator (inferLevels data) data) (inferLevels data) reduced (output == "sparse") with
      | error e => simp [ha] at h
      | ok e => simp only [ha] at h; simpa [Except.map] using h
    | some ls =>
      by_cases hd : hasDup ls = true
      · simp [hd, bind, Except.bind] at h
      · refine ⟨ls, (by simp [hd, pure, Except.pure]), fun ls' h' => (by cases h'; rfl), ?_⟩
        simp only [hd, bind, Except.bind, pure, Except.pure, Bool.false_eq_true, if_false] at h
        split_ifs at h
        cases ha : apply c (indicator ls data) ls reduced (output == "sparse") with
        | error e => simp [ha] at h
        | ok e => simp only [ha] at h; simpa [Except.map] using h
  obtain ⟨cs, _, hls, happ⟩ := hcats
  cases ha : apply c (indicator cs data) cs reduced (output == "sparse") with
  | error e => simp [ha, Except.map] at happ
  | ok e =>
    simp only [ha, Except.map, Except.ok.injEq, Prod.mk.injEq] at happ
    obtain ⟨rfl, rfl⟩ := happ
    refine ⟨?_, hls⟩
    have hrect : ∀ row ∈ indicator cs data, row.length = cs.length := by
      intro row hrow
      simp only [indicator, List.mem_map] at hrow
      obtain ⟨d, _, rfl⟩ := hrow
      simp [indicatorRow]
    unfold Model.Contrasts.apply at ha
    by_cases hsc : (cs.isEmpty || (cs.length == 1 && reduced)) = true
    · -- the empty short-circuit: one level, reduced rank, zero columns
      simp only [hsc, if_true, Except.ok.injEq] at ha
      subst ha
      have hemp : cs.isEmpty = false := by
        cases cs with
        | nil => exact absurd rfl hne
        | cons a t => rfl
      simp only [hemp, Bool.false_or, Bool.and_eq_true, beq_iff_eq] at hsc
      obtain ⟨h1, h2⟩ := hsc
      subst h2
      simp [h1, matMul]
    · simp only [hsc, Bool.false_eq_true, if_false, bind, Except.bind] at ha
      cases hv : applyInner c (indicator cs data) cs reduced (output == "sparse") with
      | error e' => simp [hv] at ha
      | ok vals =>
        simp only [hv] at ha
        cases hn : codingColumnNames c cs reduced with
        | error e' => simp [hn] at ha
        | ok names =>
          simp only [hn] at ha
          cases hdf : dropField c cs reduced with
          | error e' => simp [hdf] at ha
          | ok df =>
            simp only [hdf, pure, Except.pure, Except.ok.injEq] at ha
            subst ha
            exact applyInner_is_product c _ cs reduced _ vals m hne hrect hv hm

/-- entries of the list-matrix product used in `apply_is_product`: for a coding matrix in `toRows`
form (which `model_rows_are_entries` provides) and rows of the right length, entry `(r, j)` of the
product is `∑ l, A[r][l] · coding l j`. -/
theorem matMul_entry (A : List (List ℚ)) (a : Arr) (n w r j : ℕ) (hrect : ∀ row ∈ A, row.length = n)
    (hr : r < A.length) (hj : j < w) :
    ((matMul A (toRows a n w) w)[r]?.bind (·[j]?))
      = some (∑ l ∈ Finset.range n, listFn (A[r]'hr) l * a l j) := by
  rw [matMul_toRows A a n w hrect]
  simp [hr, hj, sumTo_eq]

/-- the indicator matrix: row `r`, level `l` is `1` exactly when datum `r` is that level -/
theorem indicator_entry (levels : List Label) (d : Option Label) (l : ℕ) (hl : l < levels.length) :
    listFn (indicatorRow levels d) l = if d = some levels[l] then 1 else 0 := by
  simp [listFn, indicatorRow, hl]

/-- C11.7  Dense and sparse forms of the coding matrix agree whenever both exist. -/
theorem dense_sparse_agree (c : Contrast) (levels : List Label) (reduced : Bool) (md ms : List (List ℚ))
    (hd : getCodingMatrix c levels reduced false = .ok md) (hs : getCodingMatrix c levels reduced true = .ok ms) :
    md = ms := by
  have h1 := getCodingMatrix_raw c levels reduced false md hd
  have h2 := getCodingMatrix_raw c levels reduced true ms hs
  rw [h1] at h2
  cases h2; rfl

/-! ### non-vacuity: concrete instances -/

example : toRows (Model.Contrasts.coding (.helmert true false) 3) 3 2 = [[-1, -1], [1, -1], [0, 2]] := by
  norm_num [toRows, Model.Contrasts.coding, setWhere, triu, zeros, List.range_succ]
example : toRows (Model.Contrasts.coding (.diff true) 3) 3 2 = [[-2/3, -1/3], [1/3, -1/3], [1/3, 2/3]] := by
  norm_num [toRows, Model.Contrasts.coding, subWhere, triu, List.range_succ]
example : toRows (Model.Contrasts.coding (.treatment 1) 3) 3 2 = [[1, 0], [0, 0], [0, 1]] := by
  norm_num [toRows, Model.Contrasts.coding, takeCols, eye, skip, List.range_succ]
example : coefM (.helmert false true) 4 * augM (.helmert false true) 4 = 1 :=
  (coefficient_is_inverse (.helmert false true) 4 trivial).1
example : IsUnit (augM (.poly (fun i => (i : ℚ) * (i : ℚ))) 6).det :=
  augmented_invertible _ 6 (by
    intro i j hi hj h
    have h' : (i : ℚ) * i = (j : ℚ) * j := h
    have : i * i = j * j := by exact_mod_cast h'
    nlinarith [Nat.zero_le i, Nat.zero_le j, Nat.mul_self_inj.mp this])
/-- the validity hypothesis is not decoration: with a repeated score the recurrence yields two equal rows, so
`[1 | coding]` is singular -/
example : aug (.poly (fun _ => 0)) 2 0 0 = aug (.poly (fun _ => 0)) 2 1 0 ∧
    aug (.poly (fun _ => 0)) 2 0 1 = aug (.poly (fun _ => 0)) 2 1 1 := by
  constructor <;> simp [aug, Model.Contrasts.coding, polyP]

/-! ### one materialization that needs the same factor several times -/
section cache
open FormulaicVerif.Model.ContrastsCache FormulaicVerif.Spec.ContrastsCache FormulaicVerif.Model.ContrastsExt

/-- C11.8  The materializer's encoded-factor cache and the per-part encoder state are invisible: for EVERY
history of uses of a `C(x, …)` factor inside one materialization (any sequence of full-rank / reduced-rank
requests, spread over any number of parts) and EVERY form of its second argument (an instance of a built-in
coding, the class itself, nothing, a custom coding as `contr.custom(...)` or as a bare dict / array), the columns
handed to each use are exactly what a stand-alone `encode_contrasts(data, contrasts, levels=…, reduced_rank=r)`
returns, and the materialization fails exactly when the first failing stand-alone call does.
(`evalDrop = none`: the value `C(...)` returns carries no `drop_field`, so entries are keyed by
`(expr, reduced_rank)`.) -/
theorem cache_transparent (f : Factor) (hd : f.evalDrop = none) (qs : List Request) :
    materialize f qs = each f qs :=
  run_eq_each f hd qs _ (inv_init f)

/-- C11.9  Hence every use, whatever was materialised before it in the same call, is
`indicator(data) @ coding`, with the reduced coding (`n × (n-1)`) where reduced rank was asked for and
the full coding (the identity, `full_is_identity`) elsewhere, over the explicit level list or the
sorted distinct values — for a built-in coding given as an instance, as its class or not at all. -/
theorem materialized_is_product (f : Factor) (c : Contrast) (hc : resolveArg f.contrast = .ok (.builtin c))
    (hd : f.evalDrop = none) (qs : List Request) (outs : List Encoded)
    (h : materialize f qs = .ok outs) :
    outs.length = qs.length ∧
      ∀ (k : ℕ) (hk : k < qs.length) (ho : k < outs.length) (m : List (List ℚ)),
        categories f ≠ [] →
        getCodingMatrix c (categories f) qs[k].reduced (f.output == "sparse") = .ok m →
        outs[k].values = matMul (indicator (categories f) f.data) m
          (if qs[k].reduced then (categories f).length - 1 else (categories f).length) := by
  rw [cache_transparent f hd qs] at h
  obtain ⟨hl, hk⟩ := each_ok f qs outs h
  refine ⟨hl, ?_⟩
  intro k hk1 hk2 m hne hm
  have henc := direct_ok (hk k hk1 hk2)
  unfold xEncodeContrasts at henc
  simp only [hc, xEncodeWith] at henc
  exact (apply_is_product f.data c f.levels qs[k].reduced f.output outs[k] (categories f) m (liftB_ok henc) hne hm).1

/-- C11.9b  … and for a custom coding every use is `indicator(data) @ the given matrix`, whatever rank the term asked
for (more than one level; a single level in reduced rank is the empty short-circuit). -/
theorem materialized_custom_is_product (f : Factor) (k : Custom) (hc : resolveArg f.contrast = .ok (.custom k))
    (hd : f.evalDrop = none) (qs : List Request) (outs : List Encoded)
    (h : materialize f qs = .ok outs) :
    outs.length = qs.length ∧
      ∀ (i : ℕ) (hi : i < qs.length) (ho : i < outs.length),
        ((categories f).isEmpty || ((categories f).length == 1 && qs[i].reduced)) = false →
        (categories f).length = k.dims.1 ∧
        outs[i].values = matMul (indicator (categories f) f.data) k.rows k.dims.2 ∧
        customColumnNames k = .ok outs[i].columnNames := by
  rw [cache_transparent f hd qs] at h
  obtain ⟨hl, hk⟩ := each_ok f qs outs h
  refine ⟨hl, ?_⟩
  intro i hi1 hi2 hsc
  have henc := direct_ok (hk i hi1 hi2)
  unfold xEncodeContrasts at henc
  simp only [hc] at henc
  obtain ⟨ha, _, _, _⟩ := xEncodeWith_custom henc
  obtain ⟨h1, h2, h3, _⟩ := xApply_custom hsc ha
  exact ⟨h1, h2, h3⟩

/-- the hypotheses hold for what `C(...)` returns, and histories that need both ranks exist -/
example : (⟨[some (.str "a"), some (.str "b"), none, some (.str "c")], .builtin .sum, none, "pandas", none⟩ : Factor).evalDrop = none := rfl
example : resolveArg (.cls "SumContrasts") = .ok (.builtin .sum) := rfl
example :
    (materialize ⟨[some (.str "a"), some (.str "b"), none, some (.str "c")], .builtin .sum, none, "pandas", none⟩
      [⟨false, true⟩, ⟨true, false⟩, ⟨true, true⟩]).toOption.map (fun l => l.map (·.values))
    = some [[[1, 0, 0], [0, 1, 0], [0, 0, 0], [0, 0, 1]],
            [[1, 0], [0, 1], [0, 0], [-1, -1]],
            [[1, 0], [0, 1], [0, 0], [-1, -1]]] := by decide +kernel
example :
    (materialize ⟨[some (.str "a"), some (.str "b"), none, some (.str "c")],
        .custom (.dict [(.str "u", [1, 0, -1]), (.str "v", [0, 1, 1])]) none, none, "pandas", none⟩
      [⟨false, true⟩, ⟨true, false⟩]).toOption.map (fun l => l.map (·.values))
    = some [[[1, 0], [0, 1], [0, 0], [-1, 1]], [[1, 0], [0, 1], [0, 0], [-1, 1]]] := by decide +kernel
/-- the hypothesis is not decoration: were entries keyed by the bare expression (a truthy `drop_field` on the
evaluated factor), a reduced-rank use after a full-rank use would get the dummies minus one column instead of
the reduced coding -/
example :
    (materialize ⟨[some (.str "a"), some (.str "b"), none, some (.str "c")], .builtin .sum, none, "pandas", some (.str "a")⟩
      [⟨false, true⟩, ⟨true, false⟩]).toOption.map (fun l => l.map (·.values))
    = some [[[1, 0, 0], [0, 1, 0], [0, 0, 0], [0, 0, 1]],
            [[0, 0], [1, 0], [0, 0], [0, 1]]] := by decide +kernel

end cache

/-! ## The extended surface: argument forms, custom contrasts, direct `apply`, names and labels

The definitions are in `Model/ContrastsExt.lean`; they are what the engine runs for the request kinds
"encode" (every form of the `contrasts=` argument), "custom", "apply" and for the label fields of "matrices". -/
section ext
open FormulaicVerif.Model.ContrastsExt

/-- C11.10a  The dataclass defaults of the live package (`Gen.ContrastsTable.fieldDefaults`, regenerated on every
run) resolve a bare class to the documented instance: `contr.treatment` = `contr.treatment()` with the first level
as reference, `contr.SAS` the last, `contr.helmert` reversed and unscaled (R's), `contr.diff` backward,
`contr.poly` with equally spaced scores; `CustomContrasts` cannot be instantiated without a matrix. -/
theorem class_defaults :
    classDefault "TreatmentContrasts" = .ok (.treatment none) ∧ classDefault "SASContrasts" = .ok (.sas none) ∧
    classDefault "SumContrasts" = .ok .sum ∧ classDefault "HelmertContrasts" = .ok (.helmert true false) ∧
    classDefault "DiffContrasts" = .ok (.diff true) ∧ classDefault "PolyContrasts" = .ok (.poly none) ∧
    classDefault "CustomContrasts" = .error .missingArgument := by
  refine ⟨?_, ?_, ?_, ?_, ?_, ?_, ?_⟩ <;> rfl

/-- the class a model contrast is an instance of -/
def className : Contrast → String
  | .treatment _ => "TreatmentContrasts"
  | .sas _ => "SASContrasts"
  | .sum => "SumContrasts"
  | .helmert _ _ => "HelmertContrasts"
  | .diff _ => "DiffContrasts"
  | .poly _ => "PolyContrasts"

/-- the `(FACTOR_FORMAT, FACTOR_FORMAT_REDUCED)` the model uses for a class -/
def modelFormats (cls : String) : Option (String × String) :=
  match classDefault cls with
  | .ok c => some (factorFormat c false, factorFormat c true)
  | .error _ => if cls = "CustomContrasts" then some (plainFormat, plainFormat) else none

/-- C11.10b  The finite tables copied into the model agree with the live package (tables regenerated from
`formulaic.transforms.contrasts` on every run; this theorem is re-decided then): the seven registered classes with
their factor formats, `PolyContrasts.NAME_ALIASES` (and `^d` beyond), the `contr.<name>` registry. -/
theorem live_tables_match :
    (∀ e ∈ Gen.ContrastsTable.formats, modelFormats e.1 = some e.2) ∧
    (Gen.ContrastsTable.formats.map (·.1)) =
      ["CustomContrasts", "DiffContrasts", "HelmertContrasts", "PolyContrasts", "SASContrasts", "SumContrasts", "TreatmentContrasts"] ∧
    (∀ p ∈ Gen.ContrastsTable.polyAliases, polyName p.1 = Label.str p.2) ∧
    (Gen.ContrastsTable.polyAliases.map (·.1)) = [1, 2, 3] ∧ polyName 4 = Label.str "^4" ∧
    Gen.ContrastsTable.registry =
      [("SAS", className (.sas none)), ("custom", "CustomContrasts"), ("diff", className (.diff true)),
       ("helmert", className (.helmert true false)), ("poly", className (.poly none)), ("sum", className .sum),
       ("treatment", className (.treatment none))] := by
  refine ⟨by decide, by decide, by decide, by decide, by decide, by decide⟩

/-- C11.10c  Every form of the `contrasts=` argument of `encode_contrasts` / `C(...)` that names a built-in coding —
an instance, nothing at all (`None`: treatment coding), or the class itself — is encoded by the very function the
theorems above are about (`Model.Contrasts.encodeContrasts`, hence `apply_is_product`, `cache_transparent`, … apply). -/
theorem encode_argument_forms (data : List (Option Label)) (levels : Option (List Label)) (reduced : Bool)
    (output : String) :
    (∀ c, xEncodeContrasts data (.builtin c) levels reduced output = liftB (encodeContrasts data c levels reduced output)) ∧
    xEncodeContrasts data .unset levels reduced output = liftB (encodeContrasts data (.treatment none) levels reduced output) ∧
    (∀ c, (∀ b, c ≠ .treatment (some b)) → (∀ b, c ≠ .sas (some b)) → (∀ sc, c ≠ .poly (some sc)) →
      c ≠ .helmert false false → c ≠ .helmert false true → c ≠ .helmert true true → c ≠ .diff false →
      xEncodeContrasts data (.cls (className c)) levels reduced output
        = liftB (encodeContrasts data c levels reduced output)) ∧
    xEncodeContrasts data (.cls "CustomContrasts") levels reduced output = .error .missingArgument := by
  refine ⟨fun c => rfl, rfl, ?_, rfl⟩
  intro c h1 h2 h3 h4 h5 h6 h7
  cases c with
  | treatment b => cases b with
    | none => rfl
    | some l => exact absurd rfl (h1 l)
  | sas b => cases b with
    | none => rfl
    | some l => exact absurd rfl (h2 l)
  | sum => rfl
  | helmert r s => cases r <;> cases s <;> first | rfl | exact absurd rfl h4 | exact absurd rfl h5 | exact absurd rfl h6
  | diff b => cases b <;> first | rfl | exact absurd rfl h7
  | poly sc => cases sc with
    | none => rfl
    | some l => exact absurd rfl (h3 l)

/-- C11.11a  `CustomContrasts(...)`: what is stored is a rectangular array of the recorded shape; names, when there are
any (the `names=` argument, else the dict keys), are exactly as many as its columns — and misaligned names are the
`ValueError` (here for a sequence of rows; `numpy`'s 1-d arrays have no `shape[1]`: the `IndexError`). -/
theorem custom_init (inp : CustomInput) (names : Option (List Label)) :
    (∀ k, mkCustom inp names = .ok k →
      isRect k.rows k.dims.1 k.dims.2 = true ∧ ∀ ns, k.names = some ns → ∃ r, k.shape = .d2 r ns.length) ∧
    (∀ r0 rest ns, inp = .rows (r0 :: rest) → (∀ row ∈ rest, row.length = r0.length) → names = some ns →
      mkCustom inp names = if ns.length = r0.length then .ok ⟨.d2 (rest.length + 1) r0.length, r0 :: rest, some ns⟩
                           else .error .namesMismatch) := by
  refine ⟨fun k h => mkCustom_spec h, ?_⟩
  intro r0 rest ns hi hrect hn
  subst hi hn
  have hall : rest.all (fun x => x.length == r0.length) = true := by
    rw [List.all_eq_true]; intro x hx; simp [hrect x hx]
  simp only [mkCustom, customArray, npArray, hall, if_true, checkNames]

example : mkCustom (.dict [(.str "x", [1, 2, 3]), (.str "y", [0, 1, 0])]) none
    = .ok ⟨.d2 3 2, [[1, 0], [2, 1], [3, 0]], some [.str "x", .str "y"]⟩ := rfl
example : mkCustom (.rows [[1, 2], [3, 4], [5, 6]]) (some [.str "u"]) = .error .namesMismatch := rfl

/-- C11.11b  The columns of a custom coding are named as given (dict keys / `names=`), or `1 … k`. -/
theorem custom_names (k : Custom) :
    (∀ n ns, k.names = some (n :: ns) → customColumnNames k = .ok (n :: ns)) ∧
    (∀ r c, (k.names = none ∨ k.names = some []) → k.shape = .d2 r c →
      customColumnNames k = .ok ((List.range c).map fun (i : ℕ) => Label.int ((i : ℤ) + 1))) := by
  constructor
  · intro n ns h; simp [customColumnNames, h]
  · intro r c h hs
    rcases h with h | h <;> simp [customColumnNames, h, Custom.ncols, hs, bind, Except.bind, pure, Except.pure]

/-- C11.11c  Encoding with a custom coding — handed over as `contr.custom(...)` or as a bare dict / array, which
`encode_contrasts` wraps in `CustomContrasts(...)` — equals the indicator matrix of the data (over the explicit or
inferred level list) times the GIVEN matrix, whatever rank was asked for; the matrix must have one row per level; the
columns are named as `custom_names` says; the result never claims to span the intercept and has no `drop_field`. -/
theorem custom_encode_is_product (data : List (Option Label)) (inp : CustomInput) (names : Option (List Label))
    (levels : Option (List Label)) (reduced : Bool) (output : String) (enc : Encoded) (cats : List Label)
    (h : xEncodeContrasts data (.custom inp names) levels reduced output = .ok (enc, cats))
    (hsc : (cats.isEmpty || (cats.length == 1 && reduced)) = false) :
    ∃ k, mkCustom inp names = .ok k ∧ cats.length = k.dims.1 ∧
      enc.values = matMul (indicator cats data) k.rows k.dims.2 ∧
      k.rows = toRows (entry k.rows) k.dims.1 k.dims.2 ∧
      customColumnNames k = .ok enc.columnNames ∧ enc.spansIntercept = false ∧ enc.dropField = none ∧
      (∀ ls, levels = some ls → cats = ls) ∧ (levels = none → cats = inferLevels data) := by
  obtain ⟨k, hk, ha, hl, hi⟩ := xEncode_custom h
  obtain ⟨h1, h2, h3, h4, h5, _, _⟩ := xApply_custom hsc ha
  exact ⟨k, hk, h1, h2, rect_eq_toRows (mkCustom_spec hk).1, h3, h4, h5, hl, hi⟩

/-- the hypotheses are satisfiable, and the result is the expected one -/
example :
    (xEncodeContrasts [some (.str "a"), none, some (.str "c"), some (.str "zz")]
      (.custom (.dict [(.str "x", [1, 2, 3]), (.str "y", [0, 1, 0])]) none)
      (some [.str "a", .str "b", .str "c"]) true "pandas").toOption.map (fun p => (p.1.values, p.1.columnNames))
    = some ([[1, 0], [0, 0], [3, 0], [0, 0]], [.str "x", .str "y"]) := by decide +kernel

/-- C11.12a  `contrasts.apply(dummies, levels, …)` without `output`: the output type is the one that goes with the type
of `dummies` (DataFrame → "pandas", ndarray → "numpy", sparse matrix → "sparse"), i.e. the call behaves exactly as if
that output had been spelled out; any other type cannot be imputed; an unknown output name is rejected. -/
theorem apply_output_inferred (x : XContrast) (t : DummiesType) (dummies : List (List ℚ)) (levels : List Label)
    (reduced : Bool) :
    applyDirect x t dummies levels reduced none
      = (match outputOfType t with
         | some o => applyDirect x t dummies levels reduced (some o)
         | none => .error .cannotImpute) ∧
    (∀ o, ¬ o ∈ outputNames → applyDirect x t dummies levels reduced (some o) = .error .badOutput) := by
  constructor
  · cases t <;> rfl
  · intro o ho
    have : outputNames.contains o = false := by
      rw [Bool.eq_false_iff]; intro hc; exact ho (by simpa using hc)
    simp [applyDirect, resolveOutput, ho, bind, Except.bind]

/-- C11.12b  … and what it returns for a built-in coding is `dummies @ coding` for ANY rectangular `dummies` (one
column per level; not only indicator matrices), through the generic product, the treatment fast path or the empty
short-circuit, with the names / drop field / formats of that coding; dense and sparse containers alike. -/
theorem apply_direct_is_product (c : Contrast) (t : DummiesType) (dummies : List (List ℚ)) (levels : List Label)
    (reduced : Bool) (output : Option String) (e : Encoded) (o : String) (m : List (List ℚ))
    (h : applyDirect (.builtin c) t dummies levels reduced output = .ok (e, o)) (hne : levels ≠ [])
    (hrect : ∀ row ∈ dummies, row.length = levels.length)
    (hm : getCodingMatrix c levels reduced (o == "sparse") = .ok m) :
    e.values = matMul dummies m (if reduced then levels.length - 1 else levels.length) ∧
      (output = none → outputOfType t = some o) ∧ (∀ o', output = some o' → o = o') ∧
      ((levels.isEmpty || (levels.length == 1 && reduced)) = false →
        codingColumnNames c levels reduced = .ok e.columnNames ∧ dropField c levels reduced = .ok e.dropField) := by
  obtain ⟨hr, ha⟩ := applyDirect_ok h
  have ha' := xApply_builtin ha
  refine ⟨apply_values c dummies levels reduced _ e m hne hrect ha' hm, ?_, ?_, ?_⟩
  · intro ho; subst ho
    cases t <;> simp [resolveOutput] at hr <;> simp [outputOfType, hr]
  · intro o' ho; subst ho
    simp only [resolveOutput] at hr
    split_ifs at hr
    simpa using hr.symm
  · intro hsc
    obtain ⟨h1, h2, _⟩ := apply_meta c dummies levels reduced _ e hsc ha'
    exact ⟨h1, h2⟩

example : (applyDirect (.builtin (.helmert true false)) .ndarray [[2, 0, -1], [0, 1, 0]] [.str "a", .str "b", .str "c"] true none).toOption.map
    (fun p => (p.1.values, p.2)) = some ([[-2, -4], [1, -1]], "numpy") := by decide +kernel

/-- C11.13  The coefficient matrix of a custom coding — the exact inverse the model computes where the code calls
`numpy.linalg.inv` / `scipy.sparse.linalg.inv` — IS the two-sided inverse of `[1 | coding]` (reduced rank; one row
per level) or of the coding itself (full rank), as Mathlib matrices; and when the model reports the singular-matrix
error (`LinAlgError` / `RuntimeError`, or scipy's NaN answer for `1 × 1`), that matrix has no inverse. -/
theorem custom_coefficient_is_inverse (k : Custom) (levels : List Label) (reduced sparse : Bool) :
    (∀ K, customCoefMatrix k levels reduced sparse = .ok K →
      ∃ n, (reduced = true → n = levels.length) ∧ (reduced = false → n = k.dims.1) ∧
        toM K n * toM (coefInput k reduced) n = 1 ∧ toM (coefInput k reduced) n * toM K n = 1) ∧
    (∀ e, customCoefMatrix k levels reduced sparse = .error e → ((∃ s, e = .singular s) ∨ e = .nanResult) →
      ∃ n, ¬ IsUnit (toM (coefInput k reduced) n).det) := by
  constructor
  · intro K h
    obtain ⟨n, hi, h1, h2⟩ := customCoef_inverse h
    obtain ⟨ha, hb⟩ := invert_inverse_sound hi
    exact ⟨n, h1, h2, ha, hb⟩
  · intro e h he
    obtain ⟨n, w, hi⟩ := customCoef_singular h he
    exact ⟨n, invert_singular_sound hi⟩

/-- `[1 | coding]`: column 0 is the constant, column `j+1` is column `j` of the given matrix -/
theorem coef_input_entries (k : Custom) (i j : ℕ) (hi : i < k.rows.length) :
    entry (coefInput k true) i 0 = 1 ∧ entry (coefInput k true) i (j + 1) = entry k.rows i j ∧
      coefInput k false = k.rows :=
  ⟨by simpa [coefInput] using hstackOnes_entry_zero k.rows i hi,
   by simpa [coefInput] using hstackOnes_entry_succ k.rows i j, rfl⟩

example : customCoefMatrix ⟨.d2 3 2, [[1, 0], [2, 1], [3, 0]], none⟩ [.str "a", .str "b", .str "c"] true false
    = .ok [[3/2, 0, -1/2], [-1/2, 0, 1/2], [-1/2, 1, -1/2]] := by decide +kernel
example : customCoefMatrix ⟨.d2 3 2, [[1, 2], [3, 4], [5, 6]], none⟩ [.str "a", .str "b", .str "c"] true false
    = .error (.singular false) := by decide +kernel

/-- C11.14a  Names align with matrices, for every built-in coding and level list: as many coding column names as the
coding matrix has columns (`shape`), as many coefficient row names as levels (the coefficient matrix is `n × n`) —
the latter for pairwise distinct levels, which the treatment names (`base`, `level-base` for the others) need. -/
theorem names_align (c : Contrast) (levels : List Label) (reduced : Bool) :
    (∀ names, codingColumnNames c levels reduced = .ok names →
      names.length = if reduced then levels.length - 1 else levels.length) ∧
    (∀ rows, levels ≠ [] → levels.Nodup → coefRowNames c levels reduced = .ok rows → rows.length = levels.length) :=
  ⟨fun names h => codingColumnNames_length c levels reduced names h,
   fun rows hne hnd h => coefRowNames_length c levels reduced rows hne hnd h⟩

example : coefRowNames (.treatment (some (.int 3))) [.str "a", .int 3, .str "c"] true
    = .ok [.int 3, .str "a-3", .str "c-3"] := by decide +kernel
example : coefRowNames (.diff false) [.str "a", .int 3, .str "c"] true = .ok [.str "avg", .str "a - 3", .str "3 - c"] := by
  decide +kernel

/-- C11.14b  Except for the polynomial coding (whose columns are called `.L .Q .C ^4 …`) the column names ARE levels, in
the order of the level list — so they are pairwise distinct when the levels are — and in full rank the `drop_field` is
one of them (so the materializer's `del encoded[drop_field]` always finds its column). -/
theorem names_are_levels (c : Contrast) (levels : List Label) (reduced : Bool) (names : List Label)
    (h : codingColumnNames c levels reduced = .ok names) :
    ((∀ sc, c ≠ .poly sc) → names.Sublist levels ∧ (levels.Nodup → names.Nodup)) ∧
    (∀ l, reduced = false → dropField c levels false = .ok (some l) → l ∈ names) := by
  constructor
  · intro hp
    have hs := codingColumnNames_sublist c levels reduced names hp h
    exact ⟨hs, fun hnd => hnd.sublist hs⟩
  · intro l hr hd
    subst hr
    exact dropField_mem_names c levels l names hd h

/-- C11.14c  The `DataFrame`s that the dense `get_coding_matrix` / `get_coefficient_matrix` return are labelled
consistently: rows of the coding matrix by the levels, its columns by the coding column names (as many as it has
columns); columns of the coefficient matrix by the levels. -/
theorem frame_labels_align (c : Contrast) (levels : List Label) (reduced : Bool) :
    (∀ idx cols, codingFrameLabels c levels reduced = .ok (idx, cols) →
      ∃ m, getCodingMatrix c levels reduced false = .ok m ∧ idx = levels ∧ m.length = idx.length ∧
        codingColumnNames c levels reduced = .ok cols ∧ ∀ row ∈ m, row.length = cols.length) ∧
    (∀ idx cols, coefFrameLabels c levels reduced = .ok (idx, cols) →
      cols = levels ∧ coefRowNames c levels reduced = .ok idx) := by
  constructor
  · intro idx cols h
    simp only [codingFrameLabels, bind, Except.bind] at h
    cases hr : rawCodingMatrix c levels reduced with
    | error e => simp [hr] at h
    | ok m =>
      simp only [hr] at h
      cases hn : codingColumnNames c levels reduced with
      | error e => simp [hn] at h
      | ok names =>
        simp only [hn, pure, Except.pure, Except.ok.injEq, Prod.mk.injEq] at h
        obtain ⟨h1, h2⟩ := h
        subst h1 h2
        have hg : getCodingMatrix c levels reduced false = .ok m := by
          simp [getCodingMatrix, hr, hn, bind, Except.bind, pure, Except.pure]
        obtain ⟨h1, h2⟩ := shape c levels reduced false m hg
        refine ⟨m, hg, rfl, h1, rfl, ?_⟩
        intro row hrow
        rw [h2 row hrow, codingColumnNames_length c levels reduced names hn]
  · intro idx cols h
    simp only [coefFrameLabels, bind, Except.bind] at h
    cases hg : getCodingMatrix c levels reduced false with
    | error e => simp [hg] at h
    | ok m =>
      simp only [hg] at h
      cases hn : coefRowNames c levels reduced with
      | error e => simp [hn] at h
      | ok rows =>
        simp only [hn, pure, Except.pure, Except.ok.injEq, Prod.mk.injEq] at h
        obtain ⟨h1, h2⟩ := h
        subst h1 h2
        exact ⟨rfl, rfl⟩

end ext

/-! ## Row by row -/
section rows
open FormulaicVerif.Model.ContrastsExt

/-- the level list `encode_contrasts` works with — explicit (duplicates are rejected) or inferred (sorted distinct
values) — has pairwise distinct entries -/
theorem encode_levels_distinct (data : List (Option Label)) (c : Contrast) (levels : Option (List Label))
    (reduced : Bool) (output : String) (enc : Encoded) (cats : List Label)
    (h : encodeContrasts data c levels reduced output = .ok (enc, cats)) : cats.Nodup := by
  have nodup_of : ∀ ls : List Label, hasDup ls = false → ls.Nodup := by
    intro ls
    induction ls with
    | nil => intro _; exact List.nodup_nil
    | cons a t ih =>
      intro hd
      simp only [hasDup, Bool.or_eq_false_iff] at hd
      rw [List.nodup_cons]
      refine ⟨?_, ih hd.2⟩
      intro hm
      have : t.contains a = true := by simpa using hm
      rw [this] at hd
      exact absurd hd.1 (by simp)
  cases levels with
  | none =>
    rw [FormulaicVerif.Proofs.C04.encode_none] at h
    have := (encode_some_spec h).1
    rw [this]
    exact nodup_of _ (FormulaicVerif.Proofs.C04.hasDup_inferLevels data)
  | some ls =>
    have hc := (encode_some_spec h).1
    rw [hc]
    apply nodup_of
    rw [FormulaicVerif.Proofs.C04.encode_some] at h
    by_cases hd : hasDup ls = true
    · simp [hd] at h
    · simpa using hd

/-- C11.6b  Row by row: the encoded row of a datum IS the row of the coding matrix that belongs to its level (position
in the explicit / inferred level list), and the zero row for a null or a value outside the levels — for every coding,
rank, output type and data vector (absent levels simply select no row). `Spec.Contrasts.selectedRow` spells this out. -/
theorem encoded_rows (data : List (Option Label)) (c : Contrast) (levels : Option (List Label))
    (reduced : Bool) (output : String) (enc : Encoded) (cats : List Label) (m : List (List ℚ))
    (h : encodeContrasts data c levels reduced output = .ok (enc, cats)) (hne : cats ≠ [])
    (hm : getCodingMatrix c cats reduced (output == "sparse") = .ok m) :
    enc.values = data.map (selectedRow cats m (if reduced then cats.length - 1 else cats.length)) := by
  have hnd := encode_levels_distinct data c levels reduced output enc cats h
  obtain ⟨hv, hl⟩ := apply_is_product data c levels reduced output enc cats m h hne hm
  obtain ⟨hs1, hs2⟩ := shape c cats reduced _ m hm
  have hrect : isRect m cats.length (if reduced then cats.length - 1 else cats.length) = true := by
    simp only [isRect, Bool.and_eq_true, beq_iff_eq, List.all_eq_true]
    exact ⟨hs1, hs2⟩
  rw [hv]
  simp only [matMul, indicator, List.map_map]
  apply List.map_congr_left
  intro d _
  exact matMul_indicator_row cats hnd m _ hrect d

example :
    (encodeContrasts [some (.str "b"), none, some (.str "zz"), some (.str "c")] .sum (some [.str "a", .str "b", .str "c"])
      true "numpy").toOption.map (fun p => p.1.values) = some [[0, 1], [0, 0], [0, 0], [-1, -1]] := by decide +kernel

/-- C11.6c  Treatment / SAS coding in reduced rank: the coding row of level `i` has a `1` in the column of that level
and `0` elsewhere — the row of the REFERENCE level (`base=…`, first level for treatment, last for SAS) is all zeros, so
by `encoded_rows` a datum at the reference level is encoded as zeros and every other level by its own indicator. -/
theorem treatment_rows (sas : Bool) (b : Option Label) (levels : List Label) (sparse : Bool) (d : ℕ)
    (m : List (List ℚ)) (hne : levels ≠ []) (hd : findBaseIndex sas b levels = .ok d)
    (hm : getCodingMatrix (if sas then .sas b else .treatment b) levels true sparse = .ok m) :
    (∀ i, i < levels.length →
      m[i]? = some ((List.range (levels.length - 1)).map fun j => if i = skip d j then (1 : ℚ) else 0)) ∧
    m[d]? = some (List.replicate (levels.length - 1) 0) := by
  obtain ⟨k, hk, hmk, _⟩ := model_rows_are_entries _ levels sparse m hm
  have hkd : k = .treatment d := by
    cases sas <;> simp [Contrast.kind, hd, Except.map] at hk <;> exact hk.symm
  subst hkd
  have hdl := findBaseIndex_lt sas b levels d hne hd
  have rows : ∀ i, i < levels.length →
      m[i]? = some ((List.range (levels.length - 1)).map fun j => if i = skip d j then (1 : ℚ) else 0) := by
    intro i hi
    rw [hmk]
    simp only [toRows, List.getElem?_map, List.getElem?_range hi, Option.map_some, Option.some.injEq]
    apply List.map_congr_left
    intro j _
    simp [Model.Contrasts.coding, takeCols, eye]
  refine ⟨rows, ?_⟩
  rw [rows d hdl]
  congr 1
  apply List.ext_getElem (by simp)
  intro j h1 h2
  simp [Ne.symm (skip_ne d j)]

example : findBaseIndex false (some (.str "b")) [.str "a", .str "b", .str "c"] = .ok 1 := by decide
example : getCodingMatrix (.treatment (some (.str "b"))) [.str "a", .str "b", .str "c"] true false
    = .ok [[1, 0], [0, 0], [0, 1]] := by decide +kernel

/-- C11.6d  The encoder closure that `C(...)` installs: the rows the materializer drops (nulls elsewhere in the row, …)
are removed BY POSITION before encoding, and with an explicit or recorded level list that is the same as encoding all
rows and taking those rows out afterwards — the level list, hence the reference level and the columns, does not depend
on which rows survive. -/
theorem c_encoder_drops_rows (data : List (Option Label)) (c : Contrast) (ls : List Label)
    (state : Option (List Label)) (drop : List ℕ) (reduced : Bool) (output : String)
    (e1 e2 : Encoded) (cats1 cats2 : List Label) (m : List (List ℚ))
    (h1 : cEncoder data (.builtin c) (some ls) state drop reduced output = .ok (e1, cats1))
    (h2 : encodeContrasts data c (some ls) reduced output = .ok (e2, cats2))
    (hne : ls ≠ []) (hm : getCodingMatrix c ls reduced (output == "sparse") = .ok m) :
    e1.values = dropRows drop e2.values ∧ cats1 = ls ∧ cats2 = ls := by
  have h1' : encodeContrasts (dropRows drop data) c (some ls) reduced output = .ok (e1, cats1) := by
    unfold cEncoder xEncodeContrasts at h1
    simp only [resolveArg, xEncodeWith] at h1
    exact liftB_ok h1
  have hc1 : cats1 = ls := (encode_some_spec h1').1
  have hc2 : cats2 = ls := (encode_some_spec h2).1
  subst hc1 hc2
  refine ⟨?_, rfl, rfl⟩
  rw [encoded_rows _ c _ reduced output e1 _ m h1' hne hm, encoded_rows _ c _ reduced output e2 _ m h2 hne hm]
  unfold dropRows
  rw [dropRowsFrom_map]

example : dropRows [2, 0, 2] [10, 11, 12, 13] = [11, 13] := by decide

end rows

/-! ## The polynomial coding as it is computed: over the reals, with the `sqrt` normalisation -/
section real

/-- The polynomial coding as the code computes it, over the reals: column `j` is the unnormalised column
`P_{j+1}` (exact rationals, `polyP`) divided by `sqrt(norms2[j+1])` (`poly.py`: `Z /= numpy.sqrt(norms2)`). -/
noncomputable def polyCodingR (n : ℕ) (x : ℕ → ℚ) : Matrix (Fin n) (Fin (n - 1)) ℝ :=
  Matrix.of fun i j => (codingM (.poly x) n i j : ℝ) / Real.sqrt (polyNorm2 n x (j.val + 1) : ℝ)

/-- `[1 | coding]` over the reals -/
noncomputable def polyAugR (n : ℕ) (x : ℕ → ℚ) : Matrix (Fin n) (Fin n) ℝ :=
  Matrix.of fun i c => if h : c.val = 0 then 1 else polyCodingR n x i ⟨c.val - 1, by have := c.isLt; omega⟩

/-- its inverse in closed form: row 0 is the mean, row `r+1` is column `r` of the coding (orthonormal columns) -/
noncomputable def polyCoefR (n : ℕ) (x : ℕ → ℚ) : Matrix (Fin n) (Fin n) ℝ :=
  Matrix.of fun r i => if h : r.val = 0 then 1 / (n : ℝ) else polyCodingR n x i ⟨r.val - 1, by have := r.isLt; omega⟩

/-- C11.5b  The polynomial coding AS COMPUTED (columns divided by `sqrt(norms2)`, over the reals) has orthonormal
columns that sum to zero, for every `n` and pairwise distinct scores: `Qᵀ Q = 1`. -/
theorem poly_normalised_orthonormal (n : ℕ) (x : ℕ → ℚ) (hv : Valid (.poly x) n) :
    (polyCodingR n x)ᵀ * polyCodingR n x = 1 ∧ ∀ j, ∑ i : Fin n, polyCodingR n x i j = 0 := by
  constructor
  · ext j k
    simp only [Matrix.mul_apply, Matrix.transpose_apply, Matrix.one_apply]
    obtain ⟨h1, h2, h3⟩ := poly_orthogonal n x hv j k
    obtain ⟨_, _, h3k⟩ := poly_orthogonal n x hv k k
    have pj : (0 : ℝ) < (polyNorm2 n x (j.val + 1) : ℝ) := by exact_mod_cast h3
    have pk : (0 : ℝ) < (polyNorm2 n x (k.val + 1) : ℝ) := by exact_mod_cast h3k
    have sj := Real.sqrt_ne_zero'.mpr pj
    have sk := Real.sqrt_ne_zero'.mpr pk
    simp only [polyCodingR, Matrix.of_apply]
    have : ∀ i : Fin n, (codingM (.poly x) n i j : ℝ) / Real.sqrt (polyNorm2 n x (j.val + 1) : ℝ)
        * ((codingM (.poly x) n i k : ℝ) / Real.sqrt (polyNorm2 n x (k.val + 1) : ℝ))
        = ((codingM (.poly x) n i j * codingM (.poly x) n i k : ℚ) : ℝ)
          / (Real.sqrt (polyNorm2 n x (j.val + 1) : ℝ) * Real.sqrt (polyNorm2 n x (k.val + 1) : ℝ)) := by
      intro i; push_cast; field_simp
    rw [Finset.sum_congr rfl (fun i _ => this i), ← Finset.sum_div, ← Rat.cast_sum]
    by_cases hjk : j = k
    · subst hjk
      rw [h2, if_pos rfl, Real.mul_self_sqrt pj.le, div_self pj.ne']
    · rw [h1 hjk, if_neg hjk]; simp
  · intro j
    have h := columns_sum_zero (.poly x) n hv trivial j
    simp only [polyCodingR, Matrix.of_apply]
    rw [← Finset.sum_div, ← Rat.cast_sum, h]; simp

/-- C11.3c  … and `[1 | Q]` is invertible over the reals with the explicit inverse `[1/n · 1ᵀ ; Qᵀ]` — the coefficient
matrix `get_coefficient_matrix` reports for `contr.poly` (up to `numpy.linalg.inv`'s rounding). -/
theorem poly_normalised_coefficient_is_inverse (n : ℕ) (x : ℕ → ℚ) (hv : Valid (.poly x) n) :
    polyCoefR n x * polyAugR n x = 1 ∧ polyAugR n x * polyCoefR n x = 1 ∧ IsUnit (polyAugR n x).det := by
  obtain ⟨hgram, hcol⟩ := poly_normalised_orthonormal n x hv
  have gram : ∀ j k : Fin (n - 1), ∑ i : Fin n, polyCodingR n x i j * polyCodingR n x i k = if j = k then 1 else 0 := by
    intro j k
    have := congrFun (congrFun hgram j) k
    simpa [Matrix.mul_apply, Matrix.transpose_apply, Matrix.one_apply] using this
  have h : polyCoefR n x * polyAugR n x = 1 := by
    ext r c
    have hn : (n : ℝ) ≠ 0 := by
      have : 0 < n := Fin.pos r
      exact_mod_cast this.ne'
    simp only [Matrix.mul_apply, polyCoefR, polyAugR, Matrix.of_apply, Matrix.one_apply]
    by_cases hr : r.val = 0 <;> by_cases hc : c.val = 0
    · have : r = c := Fin.ext (by omega)
      simp [hr, hc, this, hn]
    · have : r ≠ c := fun e => hc (by rw [← e]; exact hr)
      simp only [hr, hc, dite_true, dite_false, if_neg this]
      rw [← Finset.mul_sum, hcol, mul_zero]
    · have : r ≠ c := fun e => hr (by rw [e]; exact hc)
      simp only [hr, hc, dite_true, dite_false, if_neg this, mul_one]
      exact hcol _
    · simp only [hr, hc, dite_false]
      rw [gram]
      have : (⟨r.val - 1, by have := r.isLt; omega⟩ : Fin (n - 1)) = ⟨c.val - 1, by have := c.isLt; omega⟩ ↔ r = c := by
        rw [Fin.ext_iff, Fin.ext_iff]; simp only; omega
      simp [this]
  exact ⟨h, mul_eq_one_comm.mp h, Matrix.isUnit_det_of_left_inverse h⟩

example : Valid (.poly (fun i => (i : ℚ))) 5 := by
  intro i j _ _ h
  have h' : (i : ℚ) = (j : ℚ) := h
  exact_mod_cast h'

end real

end FormulaicVerif.Props.C11
