import FormulaicVerif.Proofs.C11Lists
import FormulaicVerif.Proofs.C11Cache
import Mathlib.LinearAlgebra.Matrix.NonsingularInverse
import Mathlib.Algebra.BigOperators.Fin
import Mathlib.Tactic.FieldSimp
import Mathlib.Tactic.Ring
import Mathlib.Tactic.Linarith
/-! # C11 — Built-in contrast codings are valid and standard for every level count

Property theorems only; helper lemmas are in `Proofs/C11*.lean`. Every `theorem` in this file is an
obligation audited with `#print axioms`.

The matrices are the model's own entry functions (`Model.Contrasts.coding k n i j : Rat`, written
from the index arithmetic of `contrasts.py`), viewed as Mathlib matrices:
`codingM k n : Matrix (Fin n) (Fin (n-1)) ℚ`, `augM k n = [1 | coding]`, and the closed-form
coefficient matrix `coefM k n` of `Spec/Contrasts.lean`. `k : Kind` ranges over treatment with any
base index, sum, Helmert (reverse × scale), difference (backward ×) and polynomial with arbitrary
scores (SAS is treatment with base `n-1`). The bridge from the list-of-rows matrices that the engine
prints (and that `apply` multiplies with) to these entry functions is `model_rows_are_entries`.

`n` is arbitrary (for `n = 0` every statement is about empty matrices). -/

namespace FormulaicVerif.Props.C11
open Matrix Finset BigOperators
open FormulaicVerif.Model.Contrasts FormulaicVerif.Spec.Contrasts FormulaicVerif.Proofs.C11
set_option linter.unusedSimpArgs false
set_option linter.unusedVariables false

/-- the reduced coding matrix of the model -/
def codingM (k : Kind) (n : ℕ) : Matrix (Fin n) (Fin (n - 1)) ℚ :=
  Matrix.of fun i j => Model.Contrasts.coding k n i j
/-- `[1 | coding]` (`numpy.hstack([ones, coding])` in `_get_coefficient_matrix`) -/
def augM (k : Kind) (n : ℕ) : Matrix (Fin n) (Fin n) ℚ := Matrix.of fun i c => aug k n i c
/-- the closed-form coefficient matrix -/
def coefM (k : Kind) (n : ℕ) : Matrix (Fin n) (Fin n) ℚ :=
  Matrix.of fun r i => Spec.Contrasts.coef k n r i

/-- Options for which the property speaks: the treatment base is one of the `n` levels, polynomial
scores are pairwise distinct. (Sum, Helmert and difference codings have no side condition.) -/
abbrev Valid (k : Kind) (n : ℕ) : Prop := FormulaicVerif.Proofs.C11.Valid k n

example : Valid (.treatment 2) 5 := by show 2 < 5; omega
example : Valid (.poly (fun i => (i : ℚ))) 7 := by
  intro i j _ _ h
  have h' : (i : ℚ) = (j : ℚ) := h
  exact_mod_cast h'
example : Valid (.helmert false true) 1 := trivial

/-- **Bridge.** The list-of-rows matrix computed by the executable model (`getCodingMatrix`, what the
engine prints, what `apply` multiplies with and what the correspondence compares with the real
`get_coding_matrix`) has exactly the entries of the entry function the theorems below are about. For
the polynomial coding this includes the correctness of the memoised recurrence table. -/
theorem model_rows_are_entries (c : Contrast) (levels : List Label) (sparse : Bool) (m : List (List ℚ))
    (h : getCodingMatrix c levels true sparse = .ok m) :
    ∃ k, c.kind levels = .ok k ∧
      m = toRows (Model.Contrasts.coding k levels.length) levels.length (levels.length - 1) ∧
      ∀ (i : Fin levels.length) (j : Fin (levels.length - 1)),
        (m[i.val]?.bind (·[j.val]?)) = some (codingM k levels.length i j) := by
  have hraw := getCodingMatrix_raw c levels true sparse m h
  rw [rawCoding_reduced] at hraw
  cases hk : c.kind levels with
  | error e => simp [hk, Except.map] at hraw
  | ok k =>
    simp only [hk, Except.map, Except.ok.injEq] at hraw
    refine ⟨k, rfl, hraw.symm, fun i j => ?_⟩
    rw [← hraw]
    exact toRows_entry _ _ _ i.val j.val i.isLt j.isLt

/-- C11.1  The coding matrices written from the code's index arithmetic are the textbook / R matrices
(`contr.treatment`, `contr.SAS`, `contr.sum`, `contr.helmert` and its forward / scaled variants,
`MASS::contr.sdif` and its negative), entry by entry, for every `n`. For the polynomial coding the
textbook definition is the characterisation `poly_eq_textbook` below. -/
theorem coding_eq_textbook (k : Kind) (n : ℕ) (i : Fin n) (j : Fin (n - 1)) :
    codingM k n i j = Spec.Contrasts.coding k n i.val j.val :=
  coding_eq_spec k n i.val j.val i.isLt j.isLt

/-- C11.1 (polynomial)  For pairwise distinct scores the columns `1, P_1, …, P_{n-1}` produced by
the three-term recurrence of `poly.py` are *the* monic orthogonal polynomial family of the scores: `P_k`
is `x·P_{k-1}` minus a combination of lower columns (monic of degree `k`), distinct columns are
orthogonal — the defining properties of `contr.poly` before normalisation — and any family with these
properties coincides with it (so it equals what R's QR construction yields, up to the positive
normalisation `1/sqrt(norms2)` that the correspondence checks numerically). -/
theorem poly_eq_textbook (n : ℕ) (x : ℕ → ℚ) (hv : Valid (.poly x) n) :
    IsMonicOrthogonalFamily n x (polyP n x) ∧
      ∀ q, IsMonicOrthogonalFamily n x q → ∀ k, k < n → ∀ i, i < n → q k i = polyP n x k i :=
  ⟨polyP_isMonicOrthogonal n x hv, fun q hq => poly_unique n x hv q hq⟩

/-- Every option combination resolved against a non-empty level list is `Valid`: a treatment / SAS
base (unset, or any label among the levels) resolves to an index `< n`, `scores=None` resolves to
`arange(n)`, explicit scores only need to be pairwise distinct. So the theorems below cover every
`contr.*(...)` call that does not raise. -/
theorem kind_valid (c : Contrast) (levels : List Label) (k : Kind) (hne : levels ≠ [])
    (hs : ScoresDistinct c) (hk : c.kind levels = .ok k) : Valid k levels.length :=
  kind_valid_aux c levels k hne hs hk

example : ScoresDistinct (.poly (some [10, 11, 20])) := by
  show [(10 : ℚ), 11, 20].Nodup
  norm_num
example : (Contrast.sas none).kind [.str "a", .int 3, .str "c"] = .ok (.treatment 2) := rfl
example : (Contrast.treatment (some (.int 3))).kind [.str "a", .int 3, .str "c"] = .ok (.treatment 1) := by
  simp [Contrast.kind, findBaseIndex, indexOf?, Except.map]

/-- The chosen reference level is honoured: `base=b` resolves to the position of `b` in the level
list (unset: first level for treatment, last for SAS), the reduced column names are the levels with
exactly that one removed, and the full-rank `drop_field` is that level. -/
theorem reference_level_honoured (sas : Bool) (b : Option Label) (levels : List Label) (d : ℕ)
    (hne : levels ≠ []) (h : findBaseIndex sas b levels = .ok d) :
    (match b with
      | some l => levels[d]? = some l
      | none => d = if sas then levels.length - 1 else 0) ∧
    codingColumnNames (if sas then .sas b else .treatment b) levels true = .ok (levels.eraseIdx d) ∧
    dropField (if sas then .sas b else .treatment b) levels false = .ok levels[d]? := by
  have hd := findBaseIndex_lt sas b levels d hne h
  have hpos : 0 < levels.length := List.length_pos_of_ne_nil hne
  refine ⟨?_, ?_, ?_⟩
  · unfold findBaseIndex at h
    cases b with
    | none => simp only [Except.ok.injEq] at h; exact h.symm
    | some l =>
      simp only at h
      cases hi : indexOf? l levels with
      | none => simp [hi] at h
      | some i =>
        simp only [hi, Except.ok.injEq] at h
        subst h
        exact indexOf?_get l levels i hi
  · cases sas <;> simp [codingColumnNames, h, bind, Except.bind, pure, Except.pure]
  · cases b with
    | some l =>
      have : levels[d]? = some l := by
        unfold findBaseIndex at h
        simp only at h
        cases hi : indexOf? l levels with
        | none => simp [hi] at h
        | some i =>
          simp only [hi, Except.ok.injEq] at h
          subst h
          exact indexOf?_get l levels i hi
      cases sas <;> simp [dropField, this]
    | none =>
      unfold findBaseIndex at h
      simp only [Except.ok.injEq] at h
      cases sas
      · simp only [Bool.false_eq_true, if_false] at h
        subst h
        cases levels with
        | nil => exact absurd rfl hne
        | cons a t => simp [dropField]
      · simp only [if_true] at h
        subst h
        have : levels.getLast? = levels[levels.length - 1]? := by
          rw [List.getLast?_eq_getElem?]
        simp only [dropField, if_true, Bool.false_eq_true, if_false]
        rw [this]
        cases hl : levels[levels.length - 1]? with
        | none =>
          have h1 : levels.length - 1 < levels.length := by omega
          rw [List.getElem?_eq_none_iff] at hl
          omega
        | some l => rfl

/-- C11.2a  Shape: `n` rows; `n-1` columns when reduced, `n` columns otherwise. -/
theorem shape (c : Contrast) (levels : List Label) (reduced sparse : Bool) (m : List (List ℚ))
    (h : getCodingMatrix c levels reduced sparse = .ok m) :
    m.length = levels.length ∧
      ∀ row ∈ m, row.length = if reduced then levels.length - 1 else levels.length := by
  have hraw := getCodingMatrix_raw c levels reduced sparse m h
  cases reduced with
  | true =>
    rw [rawCoding_reduced] at hraw
    cases hk : c.kind levels with
    | error e => simp [hk, Except.map] at hraw
    | ok k =>
      simp only [hk, Except.map, Except.ok.injEq] at hraw
      subst hraw
      exact ⟨toRows_length _ _ _, by simpa using toRows_row_length _ _ _⟩
  | false =>
    simp only [rawCodingMatrix, Bool.false_eq_true, if_false, Except.ok.injEq] at hraw
    subst hraw
    exact ⟨toRows_length _ _ _, by simpa using toRows_row_length _ _ _⟩

/-- C11.2b  The full-rank coding is the identity, for every contrast and level list. -/
theorem full_is_identity (c : Contrast) (levels : List Label) (sparse : Bool) (m : List (List ℚ))
    (h : getCodingMatrix c levels false sparse = .ok m) :
    m = toRows eye levels.length levels.length ∧
      (Matrix.of fun (i j : Fin levels.length) => eye i.val j.val) = (1 : Matrix _ _ ℚ) := by
  have hraw := getCodingMatrix_raw c levels false sparse m h
  simp only [rawCodingMatrix, Bool.false_eq_true, if_false, Except.ok.injEq] at hraw
  refine ⟨hraw.symm, ?_⟩
  ext i j
  simp [eye, Matrix.one_apply, Fin.ext_iff]

/-- C11.3a  The closed-form coefficient matrix is the (two-sided) inverse of `[1 | coding]`, for every
`n` and every valid option. -/
theorem coefficient_is_inverse (k : Kind) (n : ℕ) (hv : Valid k n) :
    coefM k n * augM k n = 1 ∧ augM k n * coefM k n = 1 := by
  have h : coefM k n * augM k n = 1 := by
    ext r c
    simp only [Matrix.mul_apply, coefM, augM, Matrix.of_apply]
    rw [Fin.sum_univ_eq_sum_range (fun i => Spec.Contrasts.coef k n r.val i * aug k n i c.val) n,
      coef_mul_aug k n hv r.val c.val r.isLt c.isLt]
    simp [Matrix.one_apply, Fin.ext_iff]
  exact ⟨h, mul_eq_one_comm.mp h⟩

/-- C11.3b  `[1 | coding]` is invertible. -/
theorem augmented_invertible (k : Kind) (n : ℕ) (hv : Valid k n) : IsUnit (augM k n).det :=
  Matrix.isUnit_det_of_left_inverse (coefficient_is_inverse k n hv).1

/-- contrasts whose columns sum to zero: everything except treatment -/
def Centered : Kind → Prop
  | .treatment _ => False
  | _ => True

/-- C11.4  The columns of the sum, Helmert (all four variants), difference (both directions) and
polynomial codings sum to zero, for every `n`. -/
theorem columns_sum_zero (k : Kind) (n : ℕ) (hv : Valid k n) (hk : Centered k) (j : Fin (n - 1)) :
    ∑ i : Fin n, codingM k n i j = 0 := by
  have hj : j.val + 1 < n := by have := j.isLt; omega
  have hn : (n : ℚ) ≠ 0 := natcast_ne_zero (by omega)
  have h := coef_mul_aug k n hv 0 (j.val + 1) (by omega) hj
  have hrow : ∀ i, Spec.Contrasts.coef k n 0 i = 1 / (n : ℚ) := by
    intro i
    cases k with
    | treatment d => exact absurd hk id
    | sum => simp [Spec.Contrasts.coef]
    | helmert r s => simp [Spec.Contrasts.coef, aug, colNorm2]
    | diff b => simp [Spec.Contrasts.coef]
    | poly x => simp [Spec.Contrasts.coef, aug, colNorm2]
  have hcol : ∀ i, aug k n i (j.val + 1) = Model.Contrasts.coding k n i j.val := by
    intro i; simp [aug]
  simp only [hrow, hcol, ← Finset.mul_sum] at h
  have h0 : ¬ (0 = j.val + 1) := by omega
  simp only [h0, if_false] at h
  simp only [codingM, Matrix.of_apply]
  rw [Fin.sum_univ_eq_sum_range (fun i => Model.Contrasts.coding k n i j.val) n]
  rcases mul_eq_zero.mp h with h | h
  · exact absurd h (by simp [hn])
  · exact h

/-- C11.5  Polynomial coding with pairwise distinct scores: distinct columns are orthogonal, every
column is orthogonal to the constant column (C11.4) and has positive squared length `norms2`, so the
code's columns `P_j / sqrt(norms2_j)` are orthonormal. -/
theorem poly_orthogonal (n : ℕ) (x : ℕ → ℚ) (hv : Valid (.poly x) n) (j k : Fin (n - 1)) :
    (j ≠ k → ∑ i : Fin n, codingM (.poly x) n i j * codingM (.poly x) n i k = 0) ∧
      (∑ i : Fin n, codingM (.poly x) n i j * codingM (.poly x) n i j = polyNorm2 n x (j.val + 1)) ∧
      0 < polyNorm2 n x (j.val + 1) := by
  have hj : j.val + 1 < n := by have := j.isLt; omega
  have hk : k.val + 1 < n := by have := k.isLt; omega
  have hG : ∀ a b : Fin (n - 1), ∑ i : Fin n, codingM (.poly x) n i a * codingM (.poly x) n i b
      = G n x (a.val + 1) (b.val + 1) := by
    intro a b
    simp only [codingM, Matrix.of_apply, Model.Contrasts.coding]
    rw [Fin.sum_univ_eq_sum_range (fun i => polyP n x (a.val + 1) i * polyP n x (b.val + 1) i) n]
    rfl
  refine ⟨fun hne => ?_, ?_, ?_⟩
  · rw [hG]
    exact poly_gram n x hv _ _ hj hk (fun e => hne (Fin.ext (by omega)))
  · rw [hG, polyNorm2, norm2_polyP]
  · rw [polyNorm2, norm2_polyP]
    have hne := G_ne_zero n x hv (j.val + 1) hj
    have hnn : 0 ≤ G n x (j.val + 1) (j.val + 1) := Finset.sum_nonneg (fun i _ => mul_self_nonneg _)
    exact lt_of_le_of_ne hnn (Ne.symm hne)

/-- C11.6  Encoding data equals its indicator matrix times the coding matrix: whatever
`encode_contrasts` returns — through the generic `dummies @ coding`, through the treatment fast path
`dummies[:, mask]` / `dummies`, or through the empty short-circuit — is the list-matrix product of
`indicator categories data` (one-hot rows in the order of the explicit / inferred level list; nulls
and values outside the levels give zero rows) with the coding matrix for those categories.
`matMul_entry` turns the list product into the usual sum. -/
theorem apply_is_product (data : List (Option Label)) (c : Contrast) (levels : Option (List Label))
    (reduced : Bool) (output : String) (enc : Encoded) (cats : List Label) (m : List (List ℚ))
    (h : encodeContrasts data c levels reduced output = .ok (enc, cats)) (hne : cats ≠ [])
    (hm : getCodingMatrix c cats reduced (output == "sparse") = .ok m) :
    enc.values = matMul (indicator cats data) m (if reduced then cats.length - 1 else cats.length) ∧
      (∀ ls, levels = some ls → cats = ls) := by
  unfold encodeContrasts at h
  -- the categories
  have hcats : ∃ cs, (match levels with
      | some ls => if hasDup ls then Except.error Err.duplicateLevels else pure ls
      | none => pure (inferLevels data)) = Except.ok cs ∧ (∀ ls, levels = some ls → cs = ls) ∧
      (apply c (indicator cs data) cs reduced (output == "sparse")).map (fun e => (e, cs)) = .ok (enc, cats) := by
    cases levels with
    | none =>
      refine ⟨inferLevels data, rfl, fun ls h => (by cases h), ?_⟩
      simp only [bind, Except.bind, pure, Except.pure] at h
      split_ifs at h
      cases ha : apply c (indicator (inferLevels data) data) (inferLevels data) reduced (output == "sparse") with
      | error e => simp [ha] at h
      | ok e => simp only [ha] at h; simpa [Except.map] using h
    | some ls =>
      by_cases hd : hasDup ls = true
      · simp [hd, bind, Except.bind] at h
      · refine ⟨ls, (by simp [hd, pure, Except.pure]), fun ls' h' => (by cases h'; rfl), ?_⟩
        simp only [hd, bind, Except.bind, pure, Except.pure, Bool.false_eq_true, if_false] at h
        split_ifs at h
        cases ha : apply c (indicator ls data) ls reduced (output == "sparse") with
        | error e => simp [ha] at h
        | ok e => simp only [ha] at h; simpa [Except.map] using h
  obtain ⟨cs, _, hls, happ⟩ := hcats
  cases ha : apply c (indicator cs data) cs reduced (output == "sparse") with
  | error e => simp [ha, Except.map] at happ
  | ok e =>
    simp only [ha, Except.map, Except.ok.injEq, Prod.mk.injEq] at happ
    obtain ⟨rfl, rfl⟩ := happ
    refine ⟨?_, hls⟩
    have hrect : ∀ row ∈ indicator cs data, row.length = cs.length := by
      intro row hrow
      simp only [indicator, List.mem_map] at hrow
      obtain ⟨d, _, rfl⟩ := hrow
      simp [indicatorRow]
    unfold Model.Contrasts.apply at ha
    by_cases hsc : (cs.isEmpty || (cs.length == 1 && reduced)) = true
    · -- the empty short-circuit: one level, reduced rank, zero columns
      simp only [hsc, if_true, Except.ok.injEq] at ha
      subst ha
      have hemp : cs.isEmpty = false := by
        cases cs with
        | nil => exact absurd rfl hne
        | cons a t => rfl
      simp only [hemp, Bool.false_or, Bool.and_eq_true, beq_iff_eq] at hsc
      obtain ⟨h1, h2⟩ := hsc
      subst h2
      simp [h1, matMul]
    · simp only [hsc, Bool.false_eq_true, if_false, bind, Except.bind] at ha
      cases hv : applyInner c (indicator cs data) cs reduced (output == "sparse") with
      | error e' => simp [hv] at ha
      | ok vals =>
        simp only [hv] at ha
        cases hn : codingColumnNames c cs reduced with
        | error e' => simp [hn] at ha
        | ok names =>
          simp only [hn] at ha
          cases hdf : dropField c cs reduced with
          | error e' => simp [hdf] at ha
          | ok df =>
            simp only [hdf, pure, Except.pure, Except.ok.injEq] at ha
            subst ha
            exact applyInner_is_product c _ cs reduced _ vals m hne hrect hv hm

/-- entries of the list-matrix product used in `apply_is_product`: for a coding matrix in `toRows`
form (which `model_rows_are_entries` provides) and rows of the right length, entry `(r, j)` of the
product is `∑ l, A[r][l] · coding l j`. -/
theorem matMul_entry (A : List (List ℚ)) (a : Arr) (n w r j : ℕ) (hrect : ∀ row ∈ A, row.length = n)
    (hr : r < A.length) (hj : j < w) :
    ((matMul A (toRows a n w) w)[r]?.bind (·[j]?))
      = some (∑ l ∈ Finset.range n, listFn (A[r]'hr) l * a l j) := by
  rw [matMul_toRows A a n w hrect]
  simp [hr, hj, sumTo_eq]

/-- the indicator matrix: row `r`, level `l` is `1` exactly when datum `r` is that level -/
theorem indicator_entry (levels : List Label) (d : Option Label) (l : ℕ) (hl : l < levels.length) :
    listFn (indicatorRow levels d) l = if d = some levels[l] then 1 else 0 := by
  simp [listFn, indicatorRow, hl]

/-- C11.7  Dense and sparse forms of the coding matrix agree whenever both exist. -/
theorem dense_sparse_agree (c : Contrast) (levels : List Label) (reduced : Bool) (md ms : List (List ℚ))
    (hd : getCodingMatrix c levels reduced false = .ok md) (hs : getCodingMatrix c levels reduced true = .ok ms) :
    md = ms := by
  have h1 := getCodingMatrix_raw c levels reduced false md hd
  have h2 := getCodingMatrix_raw c levels reduced true ms hs
  rw [h1] at h2
  cases h2; rfl

/-! ### non-vacuity: concrete instances -/

example : toRows (Model.Contrasts.coding (.helmert true false) 3) 3 2 = [[-1, -1], [1, -1], [0, 2]] := by
  norm_num [toRows, Model.Contrasts.coding, setWhere, triu, zeros, List.range_succ]
example : toRows (Model.Contrasts.coding (.diff true) 3) 3 2 = [[-2/3, -1/3], [1/3, -1/3], [1/3, 2/3]] := by
  norm_num [toRows, Model.Contrasts.coding, subWhere, triu, List.range_succ]
example : toRows (Model.Contrasts.coding (.treatment 1) 3) 3 2 = [[1, 0], [0, 0], [0, 1]] := by
  norm_num [toRows, Model.Contrasts.coding, takeCols, eye, skip, List.range_succ]
example : coefM (.helmert false true) 4 * augM (.helmert false true) 4 = 1 :=
  (coefficient_is_inverse (.helmert false true) 4 trivial).1
example : IsUnit (augM (.poly (fun i => (i : ℚ) * (i : ℚ))) 6).det :=
  augmented_invertible _ 6 (by
    intro i j hi hj h
    have h' : (i : ℚ) * i = (j : ℚ) * j := h
    have : i * i = j * j := by exact_mod_cast h'
    nlinarith [Nat.zero_le i, Nat.zero_le j, Nat.mul_self_inj.mp this])
/-- the validity hypothesis is not decoration: with a repeated score the recurrence yields two equal rows, so
`[1 | coding]` is singular -/
example : aug (.poly (fun _ => 0)) 2 0 0 = aug (.poly (fun _ => 0)) 2 1 0 ∧
    aug (.poly (fun _ => 0)) 2 0 1 = aug (.poly (fun _ => 0)) 2 1 1 := by
  constructor <;> simp [aug, Model.Contrasts.coding, polyP]

/-! ### one materialization that needs the same factor several times -/
section cache
open FormulaicVerif.Model.ContrastsCache FormulaicVerif.Spec.ContrastsCache

/-- C11.8  The materializer's encoded-factor cache and the per-part encoder state are invisible: for EVERY
history of uses of a `C(x, contr.…)` factor inside one materialization (any sequence of full-rank /
reduced-rank requests, spread over any number of parts), the columns handed to each use are exactly what
a stand-alone `encode_contrasts(data, contrasts, levels=…, reduced_rank=r)` returns, and the
materialization fails exactly when the first failing stand-alone call does. (`evalDrop = none`: the value
`C(...)` returns carries no `drop_field`, so entries are keyed by `(expr, reduced_rank)`.) -/
theorem cache_transparent (f : Factor) (hd : f.evalDrop = none) (qs : List Request) :
    materialize f qs = each f qs :=
  run_eq_each f hd qs _ (inv_init f)

/-- C11.9  Hence every use, whatever was materialised before it in the same call, is
`indicator(data) @ coding`, with the reduced coding (`n × (n-1)`) where reduced rank was asked for and
the full coding (the identity, `full_is_identity`) elsewhere, over the explicit level list or the
sorted distinct values. -/
theorem materialized_is_product (f : Factor) (hd : f.evalDrop = none) (qs : List Request) (outs : List Encoded)
    (h : materialize f qs = .ok outs) :
    outs.length = qs.length ∧
      ∀ (k : ℕ) (hk : k < qs.length) (ho : k < outs.length) (m : List (List ℚ)),
        categories f ≠ [] →
        getCodingMatrix f.contrast (categories f) qs[k].reduced (f.output == "sparse") = .ok m →
        outs[k].values = matMul (indicator (categories f) f.data) m
          (if qs[k].reduced then (categories f).length - 1 else (categories f).length) := by
  rw [cache_transparent f hd qs] at h
  obtain ⟨hl, hk⟩ := each_ok f qs outs h
  refine ⟨hl, ?_⟩
  intro k hk1 hk2 m hne hm
  have henc := direct_ok (hk k hk1 hk2)
  exact (apply_is_product f.data f.contrast f.levels qs[k].reduced f.output outs[k] (categories f) m henc hne hm).1

/-- the hypothesis holds for what `C(...)` returns, and histories that need both ranks exist -/
example : (⟨[some (.str "a"), some (.str "b"), none, some (.str "c")], .sum, none, "pandas", none⟩ : Factor).evalDrop = none := rfl
example :
    (materialize ⟨[some (.str "a"), some (.str "b"), none, some (.str "c")], .sum, none, "pandas", none⟩
      [⟨false, true⟩, ⟨true, false⟩, ⟨true, true⟩]).toOption.map (fun l => l.map (·.values))
    = some [[[1, 0, 0], [0, 1, 0], [0, 0, 0], [0, 0, 1]],
            [[1, 0], [0, 1], [0, 0], [-1, -1]],
            [[1, 0], [0, 1], [0, 0], [-1, -1]]] := by decide +kernel
/-- the hypothesis is not decoration: were entries keyed by the bare expression (a truthy `drop_field` on the
evaluated factor), a reduced-rank use after a full-rank use would get the dummies minus one column instead of
the reduced coding -/
example :
    (materialize ⟨[some (.str "a"), some (.str "b"), none, some (.str "c")], .sum, none, "pandas", some (.str "a")⟩
      [⟨false, true⟩, ⟨true, false⟩]).toOption.map (fun l => l.map (·.values))
    = some [[[1, 0, 0], [0, 1, 0], [0, 0, 0], [0, 0, 1]],
            [[0, 0], [1, 0], [0, 0], [0, 1]]] := by decide +kernel

end cache

end FormulaicVerif.Props.C11
