import FormulaicVerif.Proofs.C06
import FormulaicVerif.Proofs.C06History
/-! # C06 — Missing-data policy removes exactly the right rows, by position, and reports it

Property theorems only (helper lemmas: `Proofs/C06.lean`; model: `Model/Nulls.lean`; reference
semantics: `Spec/Nulls.lean`). All theorems are about `Model.Nulls.current`, the variant the
correspondence engine runs against the real code, for ALL frames (any number of rows, any cell
type `ρ`), ALL index labellings (`labels : List L`, no uniqueness or order assumed), all null
patterns (`Factor.nulls` is the parameter forwarded from `find_nulls`), all storage kinds and
encoders, all output types, materializers, caller drop sets and entry points.

The witnesses at the end are about `Model.Nulls.legacy` — the tree before the `fix:` commits —
and record, as decided facts, the three defects the check reported there (label-based drops,
`drop_rows` not forwarded, `hashed()` ignoring `drop_rows`). -/

namespace FormulaicVerif.Props.C06
open FormulaicVerif.Model.Nulls FormulaicVerif.Spec.Nulls FormulaicVerif.Proofs.C06
open FormulaicVerif.Model.NullsHist FormulaicVerif.Proofs.C06H

variable {L ρ : Type} [DecidableEq L]

/-- C06.0  Every entry point hands the caller's own set object to the materializer — in one call
for all parts, or (parts naming different materializers) in one call per part; overrides make no
difference. -/
theorem entry_points_forward (c : CallRec) :
    route current c = if oneCall c then .joint c.caller else .perPart c.caller :=
  route_current c

/-- C06.4  All encoders remove the same position set: whatever the storage kind (pandas Series,
ndarray, narwhals Series, list) and the encoder (default, `C()`, `hashed()`), and whatever the
index labels, a factor's column after row removal consists of its cells at the kept positions.
Hence any two columns of a matrix have equal length, equal to the length `nrows - len(drop_rows)`
of the intercept column. -/
theorem encoders_consistent (labels : List L) (n : Nat) (f g : Factor ρ) (d : List Nat)
    (hf : f.vals.length = n) (hg : g.vals.length = n) (hd : ∀ i ∈ d, i < n) :
    encodeFactor current labels f d = .ok (rowsAt f.vals (keptPositions n d)) ∧
    encodeFactor current labels g d = .ok (rowsAt g.vals (keptPositions n d)) ∧
    (rowsAt f.vals (keptPositions n d)).length = (rowsAt g.vals (keptPositions n d)).length ∧
    (d.Nodup → (rowsAt f.vals (keptPositions n d)).length = n - d.length) := by
  have h1 := encodeFactor_current labels f d (by rw [hf]; exact hd)
  have h2 := encodeFactor_current labels g d (by rw [hg]; exact hd)
  rw [hf] at h1
  rw [hg] at h2
  refine ⟨h1, h2, ?_, ?_⟩
  · rw [length_rowsAt_kept f.vals n d hf, length_rowsAt_kept g.vals n d hg]
  · intro hn
    rw [length_rowsAt_kept f.vals n d hf, length_keptPositions n d hn hd]

example : ∃ (f g : Factor Nat) (d : List Nat), f.store ≠ g.store ∧ f.encoder ≠ g.encoder ∧
    f.vals.length = 3 ∧ g.vals.length = 3 ∧ (∀ i ∈ d, i < 3) ∧ d ≠ [] :=
  ⟨⟨[7, 8, 9], [1], .series, .contrastsC⟩, ⟨[4, 5, 6], [], .ndarray, .hashed⟩, [1], by decide⟩

/-- the result of a call under the drop policy through an entry point that makes one materializer
call (helper shared by `drop_exact` and `dropset_reported`) -/
private theorem drop_call (labels : List L) (n : Nat) (o : Output) (parts : List (Part ρ))
    (c : CallRec) (hl : labels.length = n) (hwf : WF n parts) (hc : CallerOK n c.caller)
    (h1 : oneCall c = true) :
    call current labels n .drop o parts c =
      .ok ⟨parts.map (expectedMatrix labels
              (keptPositions n (callerRows c.caller ++ allNulls parts)) o),
           c.caller.map (fun _ => setUpdate (callerRows c.caller) (allNulls parts))⟩ := by
  obtain ⟨hcn, hcr⟩ := callerRows_ok n c.caller hc
  have hn := nodup_setUpdate (allNulls parts) (callerRows c.caller) hcn
  have hd : ∀ i ∈ setUpdate (callerRows c.caller) (allNulls parts), i < n := by
    intro i hi
    rw [mem_setUpdate] at hi
    rcases hi with hi | hi
    · exact hcr i hi
    · exact mem_allNulls_lt n parts hwf i hi
  rw [call_oneCall labels n .drop o parts c h1,
    getModelMatrix_of_eval labels n .drop o parts c.caller _ hl hwf (evalFactors_drop _ _) hn hd]
  simp only
  have hk := keptPositions_congr n (setUpdate (callerRows c.caller) (allNulls parts))
    (callerRows c.caller ++ allNulls parts)
    (fun i => by rw [mem_setUpdate, List.mem_append])
  unfold allNulls at hk ⊢
  rw [hk]

/-- C06.1  Drop policy: every part of the output consists of exactly the input rows in which no
evaluated factor is null and which the caller did not list, in original order — each factor
contributes its cells at those positions, the intercept has that many entries — and pandas output
carries the labels found at those positions. No hypothesis on the labels: they may repeat and be in
any order. Holds for every entry point that makes one materializer call, with or without overrides,
for every output type and materializer. -/
theorem drop_exact (labels : List L) (n : Nat) (o : Output) (parts : List (Part ρ)) (c : CallRec)
    (hl : labels.length = n) (hwf : WF n parts) (hc : CallerOK n c.caller)
    (h1 : oneCall c = true) :
    ∃ r, call current labels n .drop o parts c = .ok r ∧
      r.mats = parts.map (expectedMatrix labels
        (keptPositions n (callerRows c.caller ++ allNulls parts)) o) :=
  ⟨_, drop_call labels n o parts c hl hwf hc h1, rfl⟩

/-- a concrete non-trivial instance of the hypotheses (non-unique labels, a null, a caller row) -/
example : ([0, 0, 1, 1] : List Nat).length = 4 ∧
    WF 4 [(⟨.pandas, true, [⟨[10, 11, 12, 13], [1], .series, .default⟩,
                            ⟨[5, 6, 7, 8], [], .ndarray, .hashed⟩]⟩ : Part Nat)] ∧
    CallerOK 4 (some [3]) ∧ oneCall ⟨.sugar, true, false, true, some [3]⟩ = true := by
  refine ⟨rfl, ?_, ⟨by decide, by decide⟩, rfl⟩
  intro p hp f hf
  simp only [List.mem_singleton] at hp
  subst hp
  simp only [List.mem_cons, List.not_mem_nil, or_false] at hf
  rcases hf with rfl | rfl <;> exact ⟨rfl, by decide⟩

/-- C06.2  The caller's drop set ends up equal to caller ∪ nulls, which is exactly the set of row
positions removed from the output — on every entry point that makes one materializer call, with or
without overrides. (One call per part: `per_part_calls`.) -/
theorem dropset_reported (labels : List L) (n : Nat) (o : Output) (parts : List (Part ρ))
    (c : CallRec) (s : DropSet) (hl : labels.length = n) (hwf : WF n parts)
    (hc : CallerOK n c.caller) (h1 : oneCall c = true) (hs : c.caller = some s) :
    ∃ r s', call current labels n .drop o parts c = .ok r ∧ r.callerAfter = some s' ∧ s'.Nodup ∧
      (∀ i, i ∈ s' ↔ i ∈ s ∨ i ∈ allNulls parts) ∧
      (∀ i, i < n → (i ∈ s' ↔ i ∉ keptPositions n (callerRows c.caller ++ allNulls parts))) := by
  obtain ⟨hcn, _⟩ := callerRows_ok n c.caller hc
  refine ⟨_, setUpdate s (allNulls parts), drop_call labels n o parts c hl hwf hc h1, ?_, ?_, ?_, ?_⟩
  · simp [hs, callerRows]
  · rw [hs] at hcn
    exact nodup_setUpdate _ _ hcn
  · intro i
    exact mem_setUpdate _ _ _
  · intro i hi
    rw [mem_keptPositions, mem_setUpdate, hs, callerRows, List.mem_append]
    constructor
    · intro h hk
      exact hk.2 h
    · intro h
      by_contra hne
      exact h ⟨hi, hne⟩

/-- C06.3a  Raise policy: the call fails if and only if some evaluated factor has a null, the
failure is the null-values `ValueError`, and without nulls the output is the frame minus the
caller's rows with the caller's set untouched. -/
theorem raise_iff (labels : List L) (n : Nat) (o : Output) (parts : List (Part ρ)) (c : CallRec)
    (hl : labels.length = n) (hwf : WF n parts) (hc : CallerOK n c.caller)
    (h1 : oneCall c = true) :
    ((∃ e, call current labels n .raise o parts c = .error e) ↔ allNulls parts ≠ []) ∧
    (∀ e, call current labels n .raise o parts c = .error e → e = .nullsPresent) ∧
    (allNulls parts = [] →
      call current labels n .raise o parts c =
        .ok ⟨parts.map (expectedMatrix labels (keptPositions n (callerRows c.caller)) o),
             c.caller⟩) := by
  obtain ⟨hcn, hcr⟩ := callerRows_ok n c.caller hc
  have hev := evalFactors_raise (parts.flatMap (·.factors)) (callerRows c.caller)
  by_cases hnull : allNulls parts = []
  · have hnull' : (parts.flatMap (·.factors)).flatMap (·.nulls) = [] := hnull
    rw [if_pos hnull'] at hev
    have hcall : call current labels n .raise o parts c =
        .ok ⟨parts.map (expectedMatrix labels (keptPositions n (callerRows c.caller)) o),
             c.caller⟩ := by
      rw [call_oneCall labels n .raise o parts c h1,
        getModelMatrix_of_eval labels n .raise o parts c.caller _ hl hwf hev hcn hcr]
      cases hcc : c.caller <;> simp [callerRows]
    refine ⟨⟨?_, fun h => absurd hnull h⟩, ?_, fun _ => hcall⟩
    · rintro ⟨e, he⟩
      rw [hcall] at he
      cases he
    · intro e he
      rw [hcall] at he
      cases he
  · have hnull' : ¬ (parts.flatMap (·.factors)).flatMap (·.nulls) = [] := hnull
    rw [if_neg hnull'] at hev
    have hcall : call current labels n .raise o parts c = .error .nullsPresent := by
      rw [call_oneCall labels n .raise o parts c h1]
      unfold getModelMatrix
      simp only [initialSet_eq, hev]
    refine ⟨⟨fun _ => hnull, fun _ => ⟨_, hcall⟩⟩, ?_, fun h => absurd h hnull⟩
    intro e he
    rw [hcall] at he
    cases he
    rfl

/-- C06.3b  Ignore policy: no row is removed on account of nulls — the output is the frame minus
the rows the caller listed, the caller's set is untouched, and with nothing listed every part is
the full frame: all cells of every factor, all labels, `n` intercept entries. -/
theorem ignore_keeps (labels : List L) (n : Nat) (o : Output) (parts : List (Part ρ)) (c : CallRec)
    (hl : labels.length = n) (hwf : WF n parts) (hc : CallerOK n c.caller)
    (h1 : oneCall c = true) :
    call current labels n .ignore o parts c =
        .ok ⟨parts.map (expectedMatrix labels (keptPositions n (callerRows c.caller)) o),
             c.caller⟩ ∧
    (callerRows c.caller = [] →
      call current labels n .ignore o parts c = .ok ⟨parts.map (fullMatrix labels n o), c.caller⟩) := by
  obtain ⟨hcn, hcr⟩ := callerRows_ok n c.caller hc
  have hcall : call current labels n .ignore o parts c =
      .ok ⟨parts.map (expectedMatrix labels (keptPositions n (callerRows c.caller)) o),
           c.caller⟩ := by
    rw [call_oneCall labels n .ignore o parts c h1,
      getModelMatrix_of_eval labels n .ignore o parts c.caller _ hl hwf (evalFactors_ignore _ _) hcn hcr]
    cases hcc : c.caller <;> simp [callerRows]
  refine ⟨hcall, ?_⟩
  intro hnone
  rw [hcall, hnone, keptPositions_nil]
  congr 2
  apply List.map_congr_left
  intro p hp
  unfold expectedMatrix fullMatrix
  have hv : p.factors.map (fun f => rowsAt f.vals (List.range n)) = p.factors.map (·.vals) := by
    apply List.map_congr_left
    intro f hf
    rw [← (hwf p hp f hf).1, rowsAt_range]
  have hlab : rowsAt labels (List.range n) = labels := by rw [← hl, rowsAt_range]
  simp only [hv, hlab, List.length_range]

/-- C06.2'  One call per part (`ModelSpecs` whose parts name different materializers): every
part is a materializer call of its own that receives the caller's set as the parts before it left
it. Part `k` therefore consists of exactly the rows not listed by the caller and not null in parts
`0 … k` (`perPartExpected`; with no caller set: not null in part `k`), and the caller's set ends up
as caller ∪ all nulls. -/
theorem per_part_calls (labels : List L) (n : Nat) (o : Output) (parts : List (Part ρ)) (c : CallRec)
    (hl : labels.length = n) (hwf : WF n parts) (hc : CallerOK n c.caller)
    (h0 : oneCall c = false) :
    call current labels n .drop o parts c =
      .ok ⟨(perPartExpected labels n o parts c.caller).1,
           (perPartExpected labels n o parts c.caller).2⟩ ∧
    (∀ s, c.caller = some s → ∃ s', (perPartExpected labels n o parts c.caller).2 = some s' ∧
      ∀ i, i ∈ s' ↔ i ∈ s ∨ i ∈ allNulls parts) ∧
    (c.caller = none → (perPartExpected labels n o parts c.caller).1 =
      parts.map (fun p => expectedMatrix labels (keptPositions n (partNulls p)) o p)) := by
  refine ⟨?_, ?_, ?_⟩
  · unfold call
    rw [route_current, h0]
    simp only [Bool.false_eq_true, if_false, perPartCalls_drop labels n o parts c.caller hl hwf hc]
    cases hcc : c.caller with
    | none => simp [(perPartExpected_none labels n o parts).1]
    | some s =>
      obtain ⟨s', h1, _⟩ := perPartExpected_some labels n o parts s
      simp [h1]
  · intro s hs
    rw [hs]
    exact perPartExpected_some labels n o parts s
  · intro hnone
    rw [hnone]
    exact (perPartExpected_none labels n o parts).2

example : oneCall ⟨.modelSpecs, true, true, false, some [0]⟩ = false := rfl

/-! ## Histories: several calls on ONE materializer object (`Model/NullsHistory.lean`)

A materializer object keeps `factor_cache` / `encoded_cache` between calls; `get_model_matrix`
empties them first (`reset = true`). -/

/-- C06.5  Reusing a materializer object is unobservable: for EVERY history of
`get_model_matrix` calls on one object (any length; any formulas, sharing factors or not; any
policies, output types and caller sets per call), starting from ANY cache content, the result of
each call — matrices, caller's set afterwards, or error — is the result of the same call on a
materializer made for it. (`KeysConsistent`: within a call one expression has one value.) -/
theorem materializer_reuse (labels : List L) (n : Nat) (calls : List (Call ρ)) (c0 : Caches ρ)
    (hk : ∀ k ∈ calls, KeysConsistent k.parts) :
    runHistory true current labels n calls c0 =
      calls.map (fun k => liftE (freshCall current labels n k)) :=
  runHistory_reset current labels n calls c0 hk

/-- a two-call history whose calls share the expression `a` (and whose caches are not empty to
begin with) satisfies the hypothesis -/
example : ∀ k ∈ ([⟨.drop, .numpy, [⟨.pandas, true, [⟨"a", ⟨[1, 2], [1], .series, .default⟩⟩]⟩], none⟩,
      ⟨.raise, .pandas, [⟨.pandas, false, [⟨"a", ⟨[1, 2], [1], .series, .default⟩⟩]⟩,
                         ⟨.pandas, true, [⟨"a", ⟨[1, 2], [1], .series, .default⟩⟩,
                                          ⟨"b", ⟨[3, 4], [], .ndarray, .hashed⟩⟩]⟩], some [0]⟩] :
      List (Call Nat)), KeysConsistent k.parts := by
  intro k hk
  simp only [List.mem_cons, List.not_mem_nil, or_false] at hk
  rcases hk with rfl | rfl
  · intro a ha b hb _
    simp only [List.flatMap_cons, List.flatMap_nil, List.append_nil, List.mem_singleton] at ha hb
    rw [ha, hb]
  · intro a ha b hb hab
    simp only [List.flatMap_cons, List.flatMap_nil, List.append_nil, List.cons_append, List.nil_append,
      List.mem_cons, List.not_mem_nil, or_false] at ha hb
    rcases ha with rfl | rfl | rfl <;> rcases hb with rfl | rfl | rfl <;>
      first | rfl | exact absurd hab (by decide)

/-- C06.5a  Hence the property's row rule holds for every call of every history: the `i`-th call
on a used materializer object, under the drop policy, yields exactly the rows that are null in no
factor of THIS call and that THIS call's caller did not list (in order, with their labels), and
this caller's set ends up as exactly the set of positions removed — whatever earlier calls on the
object evaluated, dropped or raised. -/
theorem reuse_drop_exact (labels : List L) (n : Nat) (calls : List (Call ρ)) (c0 : Caches ρ)
    (hk : ∀ k ∈ calls, KeysConsistent k.parts) (i : Nat) (k : Call ρ) (hi : calls[i]? = some k)
    (hpol : k.pol = .drop) (hl : labels.length = n) (hwf : WF n (k.parts.map KPart.part))
    (hc : CallerOK n k.dropIn) :
    ∃ r, (runHistory true current labels n calls c0)[i]? = some (.ok r) ∧
      r.mats = (k.parts.map KPart.part).map (expectedMatrix labels
        (keptPositions n (callerRows k.dropIn ++ allNulls (k.parts.map KPart.part))) k.out) ∧
      ∀ s, k.dropIn = some s → ∃ s', r.callerAfter = some s' ∧ s'.Nodup ∧
        (∀ j, j ∈ s' ↔ j ∈ s ∨ j ∈ allNulls (k.parts.map KPart.part)) ∧
        (∀ j, j < n → (j ∈ s' ↔
          j ∉ keptPositions n (callerRows k.dropIn ++ allNulls (k.parts.map KPart.part)))) := by
  let c : CallRec := ⟨.materializer, decide (1 < k.parts.length), false, true, k.dropIn⟩
  obtain ⟨r, hr, hm⟩ := drop_exact labels n k.out (k.parts.map KPart.part) c hl hwf hc rfl
  have hf : freshCall current labels n k = .ok r := by
    unfold freshCall
    rw [hpol]
    exact hr
  refine ⟨r, ?_, hm, ?_⟩
  · rw [materializer_reuse labels n calls c0 hk, List.getElem?_map, hi, Option.map_some, hf]
    rfl
  · intro s hs
    obtain ⟨r', s', hr', h1, h2, h3, h4⟩ :=
      dropset_reported labels n k.out (k.parts.map KPart.part) c s hl hwf hc rfl hs
    rw [hr] at hr'
    cases hr'
    exact ⟨s', h1, h2, h3, h4⟩

/-- C06.5b  … and under the raise policy the `i`-th call on a used object fails if and only if a
factor of THIS call has a null (nulls met, dropped or ignored by earlier calls do not count, and
are not forgotten either); under the ignore policy it removes the caller's rows only. -/
theorem reuse_raise_ignore (labels : List L) (n : Nat) (calls : List (Call ρ)) (c0 : Caches ρ)
    (hk : ∀ k ∈ calls, KeysConsistent k.parts) (i : Nat) (k : Call ρ) (hi : calls[i]? = some k)
    (hl : labels.length = n) (hwf : WF n (k.parts.map KPart.part)) (hc : CallerOK n k.dropIn) :
    (k.pol = .raise →
      (((runHistory true current labels n calls c0)[i]? = some (.error (.rows .nullsPresent))) ↔
        allNulls (k.parts.map KPart.part) ≠ []) ∧
      (allNulls (k.parts.map KPart.part) = [] →
        (runHistory true current labels n calls c0)[i]? = some (.ok
          ⟨(k.parts.map KPart.part).map
              (expectedMatrix labels (keptPositions n (callerRows k.dropIn)) k.out), k.dropIn⟩))) ∧
    (k.pol = .ignore →
      (runHistory true current labels n calls c0)[i]? = some (.ok
        ⟨(k.parts.map KPart.part).map
            (expectedMatrix labels (keptPositions n (callerRows k.dropIn)) k.out), k.dropIn⟩)) := by
  let c : CallRec := ⟨.materializer, decide (1 < k.parts.length), false, true, k.dropIn⟩
  have hrun : (runHistory true current labels n calls c0)[i]? =
      some (liftE (freshCall current labels n k)) := by
    rw [materializer_reuse labels n calls c0 hk, List.getElem?_map, hi, Option.map_some]
  rw [hrun]
  constructor
  · intro hpol
    obtain ⟨h1, h2, h3⟩ := raise_iff labels n k.out (k.parts.map KPart.part) c hl hwf hc rfl
    have hf : freshCall current labels n k =
        call current labels n .raise k.out (k.parts.map KPart.part) c := by
      unfold freshCall
      rw [hpol]
    rw [hf]
    constructor
    · constructor
      · intro h
        apply h1.mp
        cases hcall : call current labels n .raise k.out (k.parts.map KPart.part) c with
        | error e => exact ⟨e, rfl⟩
        | ok r =>
          rw [hcall] at h
          cases h
      · intro h
        obtain ⟨e, he⟩ := h1.mpr h
        rw [he, h2 e he]
        rfl
    · intro h
      rw [h3 h]
      rfl
  · intro hpol
    obtain ⟨h1, _⟩ := ignore_keeps labels n k.out (k.parts.map KPart.part) c hl hwf hc rfl
    have hf : freshCall current labels n k =
        call current labels n .ignore k.out (k.parts.map KPart.part) c := by
      unfold freshCall
      rw [hpol]
    rw [hf, h1]
    rfl

/-! ## The tree before the repairs (`legacy`): decided witnesses of the three defects

Each was replayed on the real code before the corresponding `fix:` commit (corpus/C06). -/

-- FULL (unproved, and FALSE for the legacy tree — see the witnesses below):
--   ∀ labels f d, encodeFactor legacy labels f d = .ok (rowsAt f.vals (keptPositions n d))
/-- What the legacy tree did satisfy: with pairwise distinct index labels, every encoder except
`hashed()` removed exactly the listed positions (label-based and positional removal coincide). -/
theorem legacy_encoders_consistent_partial (labels : List L) (n : Nat) (f : Factor ρ) (d : List Nat)
    (hn : labels.Nodup) (hl : labels.length = n) (hf : f.vals.length = n) (hd : ∀ i ∈ d, i < n)
    (hh : f.encoder ≠ .hashed) :
    encodeFactor legacy labels f d = .ok (rowsAt f.vals (keptPositions n d)) := by
  have hd' : ∀ i ∈ d, i < f.vals.length := by rw [hf]; exact hd
  have hlab := dropByLabel_eq_of_nodup labels f.vals d hn (by rw [hl, hf]) hd'
  have hrange := dropByLabel_eq_of_nodup (List.range f.vals.length) f.vals d List.nodup_range
    (by simp) hd'
  have hpos := dropPositional_eq f.vals d hd'
  rw [hf] at hlab hrange hpos
  unfold encodeFactor
  cases he : f.encoder with
  | default =>
    simp only
    split
    · rename_i hempty
      have : d = [] := by simpa using hempty
      subst this
      rw [keptPositions_nil, ← hf, rowsAt_range]
    · cases f.store <;> simp [dropRows, dropSeries, legacy, hlab, hpos, dropFilter_eq, hf]
  | contrastsC => cases f.store <;> simp [dropSeries, legacy, hlab, hrange, hf]
  | hashed => exact absurd he hh

example : ([3, 1, 2] : List Nat).Nodup ∧ (⟨[7, 8, 9], [1], .series, .contrastsC⟩ : Factor Nat).encoder ≠ .hashed := by
  decide

/-- the `rid` column and a column with a null in row 1, both pandas Series -/
private def twoSeries : List (Factor Nat) :=
  [⟨[0, 1, 2], [], .series, .default⟩, ⟨[0, 1, 2], [1], .series, .default⟩]

/-- D5: index labels `[0, 0, 1]`, null in row 1, intercept present: the label-based drop removes
rows 0 AND 1 from every Series while the intercept keeps `3 - 1` entries —
`ValueError: Length of values (2) does not match length of index (1)`. -/
theorem legacy_nonunique_index_length_error :
    call legacy [0, 0, 1] 3 .drop .pandas [⟨.pandas, true, twoSeries⟩]
      ⟨.sugar, false, false, true, none⟩ = .error .lengthMismatch := by decide

/-- D5: same frame without intercept: the valid row 0 silently disappears together with row 1. -/
theorem legacy_nonunique_index_drops_valid_row :
    call legacy [0, 0, 1] 3 .drop .pandas [⟨.pandas, false, twoSeries⟩]
      ⟨.sugar, false, false, true, none⟩ =
      .ok ⟨[⟨1, none, [[2], [2]], .labels [1]⟩], none⟩ := by decide

/-- … whereas the tree under test keeps rows 0 and 2 with their labels. -/
theorem current_nonunique_index_ok :
    call current [0, 0, 1] 3 .drop .pandas [⟨.pandas, true, twoSeries⟩]
      ⟨.sugar, false, false, true, none⟩ =
      .ok ⟨[⟨2, some 2, [[0, 2], [0, 2]], .labels [0, 1]⟩], none⟩ := by decide

/-- D6: two-sided formula through `model_matrix` (joint `ModelSpecs` path): the caller's `{0}` is
neither honoured (row 0 stays) nor updated (row 1 is not reported). -/
theorem legacy_joint_path_loses_drop_rows :
    call legacy [0, 1, 2] 3 .drop .numpy [⟨.pandas, false, twoSeries⟩, ⟨.pandas, true, twoSeries⟩]
      ⟨.sugar, true, false, true, some [0]⟩ =
      .ok ⟨[⟨2, none, [[0, 2], [0, 2]], .none⟩, ⟨2, some 2, [[0, 2], [0, 2]], .none⟩], some [0]⟩ := by
  decide

/-- D6: `spec.get_model_matrix(df, drop_rows={0}, output='numpy')` (override path): same. -/
theorem legacy_override_path_loses_drop_rows :
    call legacy [0, 1, 2] 3 .drop .numpy [⟨.pandas, true, twoSeries⟩]
      ⟨.modelSpec, false, true, true, some [0]⟩ =
      .ok ⟨[⟨2, some 2, [[0, 2], [0, 2]], .none⟩], some [0]⟩ := by decide

/-- D7: `hashed(A, levels=3) + a` with a null in `a`: the hashed column keeps all rows —
length mismatch. -/
theorem legacy_hashed_ignores_drop_rows :
    call legacy [0, 1, 2] 3 .drop .pandas
      [⟨.pandas, true, [⟨[0, 1, 2], [], .ndarray, .hashed⟩, ⟨[0, 1, 2], [1], .series, .default⟩]⟩]
      ⟨.sugar, false, false, true, none⟩ = .error .lengthMismatch := by decide

/-! ### the tree before `get_model_matrix` emptied the caches (`reset = false`)

Replayed on the real code with commit 6a9a8f6 reverted (corpus/C06/h1-*). -/

private def hRid : KFactor Nat := ⟨"rid", ⟨[0, 1, 2, 3], [], .series, .default⟩⟩
private def hA : KFactor Nat := ⟨"a", ⟨[0, 1, 2, 3], [1], .series, .default⟩⟩
private def hB : KFactor Nat := ⟨"b", ⟨[0, 1, 2, 3], [2], .series, .default⟩⟩

/-- Reused object: `m = PandasMaterializer(df)`; `m.get_model_matrix("rid + a", drop_rows=set())` is right
(row 1 goes). `m.get_model_matrix("rid + a + b", drop_rows=set())` then skips the null check of the
cached `a`: the set reports `{2}` only, and the columns of `rid` and `a` (taken from
`encoded_cache`, rows 0, 2, 3) sit next to `b` with rows 0, 1, 3. A third call with
`na_action="raise"` does not raise for the null in `a` but fails on a length mismatch. -/
theorem no_reset_second_call_skips_null_checks :
    runHistory false current [0, 1, 2, 3] 4
      [⟨.drop, .numpy, [⟨.pandas, true, [hRid, hA]⟩], some []⟩,
       ⟨.drop, .numpy, [⟨.pandas, true, [hRid, hA, hB]⟩], some []⟩,
       ⟨.raise, .numpy, [⟨.pandas, true, [hRid, hA]⟩], none⟩] Caches.empty =
    [.ok ⟨[⟨3, some 3, [[0, 2, 3], [0, 2, 3]], .none⟩], some [1]⟩,
     .ok ⟨[⟨3, some 3, [[0, 2, 3], [0, 2, 3], [0, 1, 3]], .none⟩], some [2]⟩,
     .error (.rows .lengthMismatch)] := by decide

/-- … whereas the tree under test answers every call as a new object would. -/
theorem current_reuse_ok :
    runHistory true current [0, 1, 2, 3] 4
      [⟨.drop, .numpy, [⟨.pandas, true, [hRid, hA]⟩], some []⟩,
       ⟨.drop, .numpy, [⟨.pandas, true, [hRid, hA, hB]⟩], some []⟩,
       ⟨.raise, .numpy, [⟨.pandas, true, [hRid, hA]⟩], none⟩] Caches.empty =
    [.ok ⟨[⟨3, some 3, [[0, 2, 3], [0, 2, 3]], .none⟩], some [1]⟩,
     .ok ⟨[⟨2, some 2, [[0, 3], [0, 3], [0, 3]], .none⟩], some [1, 2]⟩,
     .error (.rows .nullsPresent)] := by decide

end FormulaicVerif.Props.C06
