import FormulaicVerif.Proofs.C06
import FormulaicVerif.Proofs.C06History
/-! # C06 — Missing-data policy removes exactly the right rows, by position, and reports it

Property theorems only (helper lemmas: `Proofs/C06.lean`; model: `Model/Nulls.lean`; reference
semantics: `Spec/Nulls.lean`). All theorems are about `Model.Nulls.current`, the variant the
correspondence engine runs against the real code, for ALL frames (any number of rows, any cell
type `ρ`), ALL index labellings (`labels : List L`, no uniqueness or order assumed), ALL shapes of
evaluated factor (`Value`: constants, lists, pandas / narwhals Series, 0/1/2/n-d arrays, data
frames, sparse matrices, nested dicts with hidden members, unknown objects) with any null pattern
(per cell: `Cell.null`, the outcome of the container's cell-level null test — the parameter), all
encoders, all output types, materializers, caller drop sets and entry points. `find_nulls`,
`as_columns`, the `map_dict` traversal and the `drop_rows` overloads are part of the model.

The witnesses at the end are about `Model.Nulls.legacy` — the tree before the `fix:` commits —
and record, as decided facts, the three defects the check reported there (label-based drops,
`drop_rows` not forwarded, `hashed()` ignoring `drop_rows`); those about `beforeValues` record the
two value-shape defects (constant factors and data-frame factors under the drop / raise policies);
those about `beforeShared` the per-spec generation that gave earlier parts more rows than later ones. -/

namespace FormulaicVerif.Props.C06
open FormulaicVerif.Model.Nulls FormulaicVerif.Spec.Nulls FormulaicVerif.Proofs.C06
open FormulaicVerif.Model.NullsHist FormulaicVerif.Proofs.C06H

variable {L ρ : Type} [DecidableEq L]

/-- (for the concrete instances below) a column with the given contents, null at the listed positions -/
private def col (vals nulls : List Nat) : List (Cell Nat) :=
  vals.zipIdx.map (fun p => ⟨p.1, nulls.contains p.2⟩)
/-- … cells that are not null -/
private def plain (vals : List Nat) : List (Cell Nat) := vals.map (fun x => ⟨x, false⟩)
/-- a pandas Series factor with the default encoder -/
private def ser (vals nulls : List Nat) : Factor Nat := ⟨.series (col vals nulls), .default⟩

/-! ## The value level: `find_nulls` and `drop_rows` for every shape of evaluated factor -/

/-- C06.V1  `find_nulls` flags exactly the rows that contain a null cell — whatever the value is:
a list, a pandas or narwhals Series, a 1-d array (the null cells themselves), a 2-d array, a data
frame or a sparse matrix (rows in which ANY column is null), a dict (rows in which ANY member —
nested dicts and hidden `__…` members included — is null); constants and `None` flag nothing. In
every variant of the tree, whenever it answers at all. -/
theorem find_nulls_rows (v : Variant) (x : Value ρ) (ns : List Nat) (h : findNulls v x = .ok ns)
    (i : Nat) : i ∈ ns ↔ rowNull x i = true :=
  findNulls_rows v x ns h i

example : findNulls current (.dict [(false, .series (col [5, 6, 7] [1])),
      (true, .dict [(false, .array1 (col [1, 2, 3] [2]))]), (false, .scalar .pyNum ⟨9, false⟩)]) =
    .ok [1, 2] := by decide

/-- C06.V2  `find_nulls` answers exactly for the values that contain no null constant (scalar or
0-d array: `Constant value is null, invalidating all rows`), no array of more than two dimensions
and no object of an unknown type, anywhere inside; when it raises, it is with one of those three
`ValueError`s. -/
theorem find_nulls_answers_iff (x : Value ρ) :
    ((∃ ns, findNulls current x = .ok ns) ↔ Checkable x) ∧
    (∀ e, findNulls current x = .error e →
      e = .constantNull ∨ e = .tooManyDims ∨ e = .noFindNulls) :=
  ⟨findNulls_ok_iff x, findNulls_error_kind x⟩

example : Checkable (.dict [(false, .frame 2 [col [1, 2] [0]]), (true, .scalar .npNum ⟨3, false⟩)] : Value Nat) ∧
    ¬ Checkable (.dict [(true, .array0 ⟨0, true⟩)] : Value Nat) := by
  simp [Checkable, CheckableItems]

/-- C06.V3  `drop_rows` is positional for every shape it removes rows from (list, narwhals Series,
pandas Series with ANY index labels, 1-d / 2-d / n-d array, sparse matrix of either layout): with
index positions inside the value it returns the same kind of value holding, column by column, the
cells at the positions not listed, in their original order. -/
theorem drop_rows_positional (labels : List L) (n : Nat) (x : Value ρ) (d : List Nat)
    (hx : HasRows n x) (hd : ∀ i ∈ d, i < n) :
    dropRowsV current labels x d = .ok (keepRows (keptPositions n d) x) :=
  dropRowsV_positional labels n x d hx hd

example : HasRows 3 (.sparse true 3 [col [1, 2, 3] [], col [4, 5, 6] [1]] : Value Nat) ∧
    (∀ i ∈ [2, 0], i < 3) := by
  refine ⟨⟨rfl, ?_⟩, by decide⟩
  intro c hc
  simp only [List.mem_cons, List.not_mem_nil, or_false] at hc
  rcases hc with rfl | rfl <;> rfl

/-- C06.V4  What happens to positions that are not rows: the list and narwhals overloads ignore
them (and never fail); every other row-removing overload raises `IndexError`. -/
theorem drop_rows_positions_outside (v : Variant) (labels : List L) (n : Nat) (x : Value ρ)
    (cells : List (Cell ρ)) (d : List Nat) :
    dropRowsV v labels (.pylist cells) d =
      .ok (.pylist (rowsAt cells (keptPositions cells.length d))) ∧
    dropRowsV v labels (.nwSeries cells) d =
      .ok (.nwSeries (rowsAt cells (keptPositions cells.length d))) ∧
    (HasRows n x → (∃ i ∈ d, n ≤ i) →
      (∃ cs, x = .pylist cs ∨ x = .nwSeries cs) ∨
      dropRowsV current labels x d = .error .indexError) :=
  ⟨(dropRowsV_filter v labels cells d).1, (dropRowsV_filter v labels cells d).2,
   dropRowsV_out_of_range labels n x d⟩

/-- C06.V5  `drop_rows` only looks at WHICH positions are listed: the order of `indices` (sorted
list, as `get_model_matrix` passes it, or any other order) and repetitions in it make no
difference, for every shape of value. -/
theorem drop_rows_order_and_repeats_irrelevant (labels : List L) (x : Value ρ) (d d' : List Nat)
    (h : ∀ i, i ∈ d ↔ i ∈ d') :
    dropRowsV current labels x d = dropRowsV current labels x d' :=
  dropRowsV_congr current rfl labels x d d' h

example : ∀ i, i ∈ [3, 1, 3, 1] ↔ i ∈ [1, 3] := by
  intro i
  simp only [List.mem_cons, List.not_mem_nil, or_false]
  omega

/-- C06.V6  The values that have no rows of their own: a constant (Python or numpy scalar, `str`)
comes back unchanged — it is broadcast over whichever rows remain —, and `None`, a data frame, a
dict and an unknown object have no `drop_rows` overload (`ValueError`); dicts and frames are split
into their columns before `drop_rows` is reached (`encodeFactor`). -/
theorem drop_rows_without_rows (labels : List L) (k : ScalarKind) (c : Cell ρ) (d : List Nat)
    (n : Nat) (cols : List (List (Cell ρ))) (items : List (Bool × Value ρ)) :
    dropRowsV current labels (.scalar k c) d = .ok (.scalar k c) ∧
    dropRowsV current labels (.none : Value ρ) d = .error .noDropRows ∧
    dropRowsV current labels (.frame n cols) d = .error .noDropRows ∧
    dropRowsV current labels (.dict items) d = .error .noDropRows ∧
    dropRowsV current labels (.other : Value ρ) d = .error .noDropRows :=
  ⟨rfl, rfl, rfl, rfl, rfl⟩

/-- C06.V7  What the encoders receive as `drop_rows` is `sorted(set)`: ascending, the same
positions, each once. -/
theorem sorted_drop_rows (s : DropSet) :
    (sorted s).Pairwise (· ≤ ·) ∧ (sorted s).Perm s ∧ (s.Nodup → (sorted s).Nodup) :=
  ⟨pairwise_sorted s, perm_sorted s, nodup_sorted s⟩

/-- C06.V8  The dispatch tables of the model are those of the live package: for every type of
value, `find_nulls` / `drop_rows` of the model report "no implementation" exactly when the
`singledispatch` registry of the installed `formulaic.utils.null_handling` has no overload for it
(`Gen/NullTables.lean`, regenerated on every check). pandas' own 1-d arrays (`Categorical`, any
`ExtensionArray`, `Index`) are `Value.array1` in the model: they have overloads of both functions. -/
theorem dispatch_tables_match_package :
    let samples : List (String × Value Unit) := [
      ("none", .none), ("str", .scalar .pyStr ⟨(), false⟩), ("int", .scalar .pyNum ⟨(), false⟩),
      ("float", .scalar .pyNum ⟨(), false⟩), ("bool", .scalar .pyNum ⟨(), false⟩),
      ("np_float64", .scalar .pyNum ⟨(), false⟩), ("np_float32", .scalar .npNum ⟨(), false⟩),
      ("np_int64", .scalar .npNum ⟨(), false⟩), ("np_bool", .scalar .npNum ⟨(), false⟩),
      ("pd_na", .scalar .npNum ⟨(), true⟩), ("pd_nat", .scalar .npNum ⟨(), true⟩),
      ("list", .pylist []), ("dict", .dict []), ("nw_series", .nwSeries []), ("pd_series", .series []),
      ("pd_frame", .frame 0 []), ("ndarray", .array1 []),
      ("pd_categorical", .array1 []), ("pd_extension_array", .array1 []), ("pd_masked_array", .array1 []),
      ("pd_index", .array1 []), ("csc", .sparse true 0 []),
      ("csr", .sparse false 0 []), ("tuple", .other), ("object", .other)]
    FormulaicVerif.Gen.findNullsRegistered = samples.map (fun p =>
      (p.1, match findNulls current p.2 with | .error .noFindNulls => false | _ => true)) ∧
    FormulaicVerif.Gen.dropRowsRegistered = samples.map (fun p =>
      (p.1, match dropRowsV current ([] : List Nat) p.2 [] with | .error .noDropRows => false | _ => true)) := by
  decide

/-! ## The null policy as the caller writes it -/

/-- C06.N1  `na_action` may be given as an `NAAction` member or as a string; a string is accepted
exactly when it is the value of a member (`"drop"`, `"raise"`, `"ignore"`: `Gen.naActionMembers`, read off
the live enum), and then means that member; any other string is `ValueError: … is not a valid
NAAction` before anything is evaluated — it never falls back to a default policy. -/
theorem na_action_text (s : String) :
    parseNAAction (.text s) =
      (if s = "drop" then .ok .drop else if s = "raise" then .ok .raise
       else if s = "ignore" then .ok .ignore else .error .invalidNAAction) ∧
    (∀ p : Policy, parseNAAction (.member p) = .ok p) := by
  refine ⟨?_, fun _ => rfl⟩
  unfold parseNAAction
  simp only [FormulaicVerif.Gen.naActionMembers, List.find?]
  by_cases h1 : s = "drop"
  · subst h1; rfl
  by_cases h2 : s = "raise"
  · subst h2; rfl
  by_cases h3 : s = "ignore"
  · subst h3; rfl
  have e1 : ("drop" == s) = false := by simpa using fun h => h1 h.symm
  have e2 : ("raise" == s) = false := by simpa using fun h => h2 h.symm
  have e3 : ("ignore" == s) = false := by simpa using fun h => h3 h.symm
  simp [h1, h2, h3, e1, e2, e3]

/-- C06.N2  … hence a call with the policy named by its string is the call with the member, and
a call with any other string fails with that error whatever the data are. -/
theorem na_action_call (labels : List L) (n : Nat) (o : Output) (parts : List (Part ρ)) (c : CallRec) :
    callNA current labels n (.text "drop") o parts c = call current labels n .drop o parts c ∧
    callNA current labels n (.text "raise") o parts c = call current labels n .raise o parts c ∧
    callNA current labels n (.text "ignore") o parts c = call current labels n .ignore o parts c ∧
    (∀ p, callNA current labels n (.member p) o parts c = call current labels n p o parts c) ∧
    (∀ s, s ≠ "drop" → s ≠ "raise" → s ≠ "ignore" →
      callNA current labels n (.text s) o parts c = .error .invalidNAAction) := by
  refine ⟨rfl, rfl, rfl, fun p => rfl, ?_⟩
  intro s h1 h2 h3
  unfold callNA
  rw [(na_action_text s).1]
  simp [h1, h2, h3]

/-! ## The property -/

/-- C06.1a  The rows `find_nulls` reports for the evaluated factors of a call are exactly the rows
in which ANY cell of ANY evaluated factor is null. -/
theorem null_rows_exact (n : Nat) (parts : List (Part ρ)) (hwf : WF n parts) (i : Nat) :
    i ∈ allNulls parts ↔ ∃ p ∈ parts, ∃ f ∈ p.factors, rowNull f.value i = true := by
  unfold allNulls
  simp only [List.mem_flatMap]
  constructor
  · rintro ⟨f, ⟨p, hp, hf⟩, hi⟩
    obtain ⟨ns, hns, hn, _⟩ := findNulls_factorOK n f (hwf p hp f hf)
    rw [hn] at hi
    exact ⟨p, hp, f, hf, (findNulls_rows current f.value ns hns i).1 hi⟩
  · rintro ⟨p, hp, f, hf, hi⟩
    obtain ⟨ns, hns, hn, _⟩ := findNulls_factorOK n f (hwf p hp f hf)
    refine ⟨f, ⟨p, hp, hf⟩, ?_⟩
    rw [hn]
    exact (findNulls_rows current f.value ns hns i).2 hi

/-- C06.1b  … so the positions that `drop_exact` keeps are exactly the rows of the frame that the
caller did not list and in which no cell of any evaluated factor is null. -/
theorem kept_rows_by_cells (n : Nat) (parts : List (Part ρ)) (hwf : WF n parts)
    (caller : Option DropSet) (i : Nat) :
    i ∈ keptPositions n (callerRows caller ++ allNulls parts) ↔
      i < n ∧ i ∉ callerRows caller ∧ ∀ p ∈ parts, ∀ f ∈ p.factors, rowNull f.value i = false := by
  rw [mem_keptPositions, List.mem_append, null_rows_exact n parts hwf i]
  constructor
  · rintro ⟨h1, h2⟩
    refine ⟨h1, fun hc => h2 (Or.inl hc), ?_⟩
    intro p hp f hf
    cases hr : rowNull f.value i with
    | false => rfl
    | true => exact absurd (Or.inr ⟨p, hp, f, hf, hr⟩) h2
  · rintro ⟨h1, h2, h3⟩
    refine ⟨h1, ?_⟩
    rintro (hc | ⟨p, hp, f, hf, hr⟩)
    · exact h2 hc
    · rw [h3 p hp f hf] at hr
      cases hr

/-- C06.0  Every entry point hands the caller's own set object to the materializer — in one call
for all parts, or (parts naming different materializers) in one call per part; overrides make no
difference. -/
theorem entry_points_forward (c : CallRec) :
    route current c = if oneCall c then .joint c.caller else .perPart c.caller :=
  route_current c

/-- C06.4  All encoders remove the same position set: whatever the shape of the value (column of
any storage, constant, 2-d array, data frame, nested dict) and the encoder (default, `C()`,
`hashed()`, the `_encode_constant` path of values of kind `constant`), whatever the output type and
the index labels, the columns a factor hands on after row removal hold its cells at the kept
positions (constants: one copy per kept row). Hence any two columns of a matrix have equal length,
equal to the length `nrows - len(drop_rows)` of the intercept column. -/
theorem encoders_consistent (labels : List L) (n : Nat) (so : Bool) (f g : Factor ρ) (d : List Nat)
    (hf : FactorOK n f) (hg : FactorOK n g) (hd : ∀ i ∈ d, i < n) (hn : d.Nodup) :
    ∃ xs ys, encodeFactor current labels n so f d = .ok xs ∧
      encodeFactor current labels n so g d = .ok ys ∧
      xs.map (cellsOf (keptPositions n d).length) =
        (columns f.value).map (shapeRows (keptPositions n d)) ∧
      ys.map (cellsOf (keptPositions n d).length) =
        (columns g.value).map (shapeRows (keptPositions n d)) ∧
      (∀ x ∈ xs ++ ys, isBad x = false ∧ ∀ m, colLen? x = some m → m = (keptPositions n d).length) ∧
      (keptPositions n d).length = n - d.length := by
  have hK := length_keptPositions n d hn hd
  have hle := length_le_of_nodup n d hn hd
  obtain ⟨xs, h1, h2, h3, h4⟩ := encodeFactor_current labels n so f d hf hd hK hle
  obtain ⟨ys, i1, i2, i3, i4⟩ := encodeFactor_current labels n so g d hg hd hK hle
  refine ⟨xs, ys, h1, i1, h4, i4, ?_, hK⟩
  intro x hx
  rcases List.mem_append.mp hx with hx | hx
  · exact ⟨h2 x hx, h3 x hx⟩
  · exact ⟨i2 x hx, i3 x hx⟩

example : FactorOK 3 (⟨.dict [(false, .pylist (col [7, 8, 9] [1])), (true, .array1 (col [1, 1, 1] [])),
      (false, .scalar .pyNum ⟨5, false⟩)], .default⟩ : Factor Nat) ∧
    FactorOK 3 (⟨.array1 (col [4, 5, 6] []), .hashed⟩ : Factor Nat) ∧
    FactorOK 3 (⟨.scalar .pyNum ⟨2, false⟩, .constant⟩ : Factor Nat) ∧
    FactorOK 3 (⟨.frame 3 [col [1, 2, 3] [0], col [4, 5, 6] []], .default⟩ : Factor Nat) := by
  refine ⟨⟨rfl, rfl, rfl, trivial⟩, ⟨.ndarray, _, rfl, rfl⟩, ⟨_, _, rfl, rfl⟩, ⟨rfl, ?_⟩⟩
  intro c hc
  simp only [List.mem_cons, List.not_mem_nil, or_false] at hc
  rcases hc with rfl | rfl <;> rfl

/-- every factor of a well-formed call can be null-checked -/
private theorem checkable_of_wf (n : Nat) (parts : List (Part ρ)) (hwf : WF n parts) :
    ∀ f ∈ parts.flatMap (·.factors), ∃ ns, findNulls current f.value = .ok ns := by
  intro f hf
  rw [List.mem_flatMap] at hf
  obtain ⟨p, hp, hfp⟩ := hf
  obtain ⟨ns, hns, _⟩ := findNulls_factorOK n f (hwf p hp f hfp)
  exact ⟨ns, hns⟩

/-- the result of a call under the drop policy through ANY entry point: one materializer call for
all parts, or the per-spec branch of `ModelSpecs.get_model_matrix` with its two passes over one
shared set (helper shared by `drop_exact` and `dropset_reported`) -/
private theorem drop_call (labels : List L) (n : Nat) (o : Output) (parts : List (Part ρ))
    (c : CallRec) (hl : labels.length = n) (hwf : WF n parts) (hc : CallerOK n c.caller) :
    call current labels n .drop o parts c =
      .ok ⟨parts.map (expectedMatrix labels
              (keptPositions n (callerRows c.caller ++ allNulls parts)) o),
           c.caller.map (fun _ => setUpdate (callerRows c.caller) (allNulls parts))⟩ := by
  by_cases h1 : oneCall c = true
  case neg =>
    exact call_perSpec_drop labels n o parts c hl hwf hc (by simpa using h1)
  obtain ⟨hcn, hcr⟩ := callerRows_ok n c.caller hc
  have hn := nodup_setUpdate (allNulls parts) (callerRows c.caller) hcn
  have hd : ∀ i ∈ setUpdate (callerRows c.caller) (allNulls parts), i < n := by
    intro i hi
    rw [mem_setUpdate] at hi
    rcases hi with hi | hi
    · exact hcr i hi
    · exact mem_allNulls_lt n parts hwf i hi
  rw [call_oneCall labels n .drop o parts c h1,
    getModelMatrix_of_eval labels n .drop o parts c.caller _ hl hwf
      (evalFactors_drop _ _ (checkable_of_wf n parts hwf)) hn hd]
  simp only
  have hk := keptPositions_congr n (setUpdate (callerRows c.caller) (allNulls parts))
    (callerRows c.caller ++ allNulls parts)
    (fun i => by rw [mem_setUpdate, List.mem_append])
  unfold allNulls at hk ⊢
  rw [hk]

/-- C06.1  Drop policy: every part of the output consists of exactly the input rows in which no
evaluated factor is null and which the caller did not list, in original order — each factor
contributes its cells at those positions, the intercept has that many entries — and pandas output
carries the labels found at those positions. No hypothesis on the labels: they may repeat and be in
any order. Holds for EVERY entry point — also `ModelSpecs` whose parts name different materializers
and are generated one by one: all parts lose the rows that are null in ANY part —, with or without
overrides, for every output type and materializer. -/
theorem drop_exact (labels : List L) (n : Nat) (o : Output) (parts : List (Part ρ)) (c : CallRec)
    (hl : labels.length = n) (hwf : WF n parts) (hc : CallerOK n c.caller) :
    ∃ r, call current labels n .drop o parts c = .ok r ∧
      r.mats = parts.map (expectedMatrix labels
        (keptPositions n (callerRows c.caller ++ allNulls parts)) o) :=
  ⟨_, drop_call labels n o parts c hl hwf hc, rfl⟩

/-- a concrete non-trivial instance of the hypotheses (non-unique labels, a null, a caller row,
a 2-d array and a constant among the factors) -/
example : ([0, 0, 1, 1] : List Nat).length = 4 ∧
    WF 4 [(⟨.pandas, true, [ser [10, 11, 12, 13] [1],
                            ⟨.array1 (col [5, 6, 7, 8] []), .hashed⟩,
                            ⟨.array2 4 [col [1, 2, 3, 4] [], col [5, 6, 7, 8] [2]], .default⟩,
                            ⟨.scalar .pyNum ⟨3, false⟩, .default⟩]⟩ : Part Nat)] ∧
    CallerOK 4 (some [3]) := by
  refine ⟨rfl, ?_, ⟨by decide, by decide⟩⟩
  intro p hp f hf
  simp only [List.mem_singleton] at hp
  subst hp
  simp only [List.mem_cons, List.not_mem_nil, or_false] at hf
  rcases hf with rfl | rfl | rfl | rfl
  · rfl
  · exact ⟨.ndarray, _, rfl, rfl⟩
  · refine ⟨rfl, ?_⟩
    intro c hc
    simp only [List.mem_cons, List.not_mem_nil, or_false] at hc
    rcases hc with rfl | rfl <;> rfl
  · rfl

/-- C06.2  The caller's drop set ends up equal to caller ∪ nulls, which is exactly the set of row
positions removed from the output — on every entry point that makes one materializer call, with or
without overrides. (One call per part: `per_part_calls`.) -/
theorem dropset_reported (labels : List L) (n : Nat) (o : Output) (parts : List (Part ρ))
    (c : CallRec) (s : DropSet) (hl : labels.length = n) (hwf : WF n parts)
    (hc : CallerOK n c.caller) (hs : c.caller = some s) :
    ∃ r s', call current labels n .drop o parts c = .ok r ∧ r.callerAfter = some s' ∧ s'.Nodup ∧
      (∀ i, i ∈ s' ↔ i ∈ s ∨ i ∈ allNulls parts) ∧
      (∀ i, i < n → (i ∈ s' ↔ i ∉ keptPositions n (callerRows c.caller ++ allNulls parts))) := by
  obtain ⟨hcn, _⟩ := callerRows_ok n c.caller hc
  refine ⟨_, setUpdate s (allNulls parts), drop_call labels n o parts c hl hwf hc, ?_, ?_, ?_, ?_⟩
  · simp [hs, callerRows]
  · rw [hs] at hcn
    exact nodup_setUpdate _ _ hcn
  · intro i
    exact mem_setUpdate _ _ _
  · intro i hi
    rw [mem_keptPositions, mem_setUpdate, hs, callerRows, List.mem_append]
    constructor
    · intro h hk
      exact hk.2 h
    · intro h
      by_contra hne
      exact h ⟨hi, hne⟩

/-- the result of a call under the raise policy through any entry point -/
private theorem raise_call (labels : List L) (n : Nat) (o : Output) (parts : List (Part ρ))
    (c : CallRec) (hl : labels.length = n) (hwf : WF n parts) (hc : CallerOK n c.caller) :
    call current labels n .raise o parts c =
      if allNulls parts = [] then
        .ok ⟨parts.map (expectedMatrix labels (keptPositions n (callerRows c.caller)) o), c.caller⟩
      else .error .nullsPresent := by
  by_cases h1 : oneCall c = true
  case neg =>
    exact call_perSpec_raise labels n o parts c hl hwf hc (by simpa using h1)
  obtain ⟨hcn, hcr⟩ := callerRows_ok n c.caller hc
  have hev := evalFactors_raise (parts.flatMap (·.factors)) (callerRows c.caller)
    (checkable_of_wf n parts hwf)
  by_cases hnull : allNulls parts = []
  · have hnull' : (parts.flatMap (·.factors)).flatMap nullsOf = [] := hnull
    rw [if_pos hnull'] at hev
    rw [if_pos hnull, call_oneCall labels n .raise o parts c h1,
      getModelMatrix_of_eval labels n .raise o parts c.caller _ hl hwf hev hcn hcr]
    cases hcc : c.caller <;> simp [callerRows]
  · have hnull' : ¬ (parts.flatMap (·.factors)).flatMap nullsOf = [] := hnull
    rw [if_neg hnull'] at hev
    rw [if_neg hnull, call_oneCall labels n .raise o parts c h1]
    unfold getModelMatrix
    simp only [initialSet_eq, hev]

/-- C06.3a  Raise policy: the call fails if and only if some evaluated factor has a null, the
failure is the null-values `ValueError`, and without nulls the output is the frame minus the
caller's rows with the caller's set untouched — on every entry point (per-spec generation stops at
the first part that has a null). -/
theorem raise_iff (labels : List L) (n : Nat) (o : Output) (parts : List (Part ρ)) (c : CallRec)
    (hl : labels.length = n) (hwf : WF n parts) (hc : CallerOK n c.caller) :
    ((∃ e, call current labels n .raise o parts c = .error e) ↔ allNulls parts ≠ []) ∧
    (∀ e, call current labels n .raise o parts c = .error e → e = .nullsPresent) ∧
    (allNulls parts = [] →
      call current labels n .raise o parts c =
        .ok ⟨parts.map (expectedMatrix labels (keptPositions n (callerRows c.caller)) o),
             c.caller⟩) := by
  have hres := raise_call labels n o parts c hl hwf hc
  by_cases hnull : allNulls parts = []
  · rw [if_pos hnull] at hres
    refine ⟨⟨?_, fun h => absurd hnull h⟩, ?_, fun _ => hres⟩
    · rintro ⟨e, he⟩
      rw [hres] at he
      cases he
    · intro e he
      rw [hres] at he
      cases he
  · rw [if_neg hnull] at hres
    refine ⟨⟨fun _ => hnull, fun _ => ⟨_, hres⟩⟩, ?_, fun h => absurd h hnull⟩
    intro e he
    rw [hres] at he
    cases he
    rfl

/-- C06.3b  Ignore policy: no row is removed on account of nulls — the output is the frame minus
the rows the caller listed, the caller's set is untouched, and with nothing listed every part is
the full frame: all cells of every column of every factor, all labels, `n` intercept entries. -/
theorem ignore_keeps (labels : List L) (n : Nat) (o : Output) (parts : List (Part ρ)) (c : CallRec)
    (hl : labels.length = n) (hwf : WF n parts) (hc : CallerOK n c.caller) :
    call current labels n .ignore o parts c =
        .ok ⟨parts.map (expectedMatrix labels (keptPositions n (callerRows c.caller)) o),
             c.caller⟩ ∧
    (callerRows c.caller = [] →
      call current labels n .ignore o parts c = .ok ⟨parts.map (fullMatrix labels n o), c.caller⟩) := by
  obtain ⟨hcn, hcr⟩ := callerRows_ok n c.caller hc
  have hcall : call current labels n .ignore o parts c =
      .ok ⟨parts.map (expectedMatrix labels (keptPositions n (callerRows c.caller)) o),
           c.caller⟩ := by
    by_cases h1 : oneCall c = true
    case neg =>
      exact call_perSpec_ignore labels n o parts c hl hwf hc (by simpa using h1)
    rw [call_oneCall labels n .ignore o parts c h1,
      getModelMatrix_of_eval labels n .ignore o parts c.caller _ hl hwf (evalFactors_ignore _ _) hcn hcr]
    cases hcc : c.caller <;> simp [callerRows]
  refine ⟨hcall, ?_⟩
  intro hnone
  rw [hcall, hnone, keptPositions_nil]
  congr 2
  apply List.map_congr_left
  intro p hp
  unfold expectedMatrix fullMatrix
  have hv : p.factors.map (fun f => (columns f.value).map (shapeRows (List.range n))) =
      p.factors.map (fun f => (columns f.value).map (shapeAll n)) := by
    apply List.map_congr_left
    intro f hf
    apply List.map_congr_left
    intro s hs
    cases s with
    | vec cells =>
      have := columns_lengths n f (hwf p hp f hf) _ hs cells rfl
      simp only [shapeRows, shapeAll]
      rw [← this, rowsAt_range]
    | const c => simp [shapeRows, shapeAll]
    | bad => rfl
  have hlab : rowsAt labels (List.range n) = labels := by rw [← hl, rowsAt_range]
  simp only [hv, hlab, List.length_range]

/-- C06.3c  A factor that cannot be null-checked — a constant that is null (`{float('nan')}`: "Constant
value is null, invalidating all rows"), an array of more than two dimensions, an object of an unknown
type, directly or inside a dict — makes the call fail with `find_nulls`' error under the drop AND the
raise policy, as soon as the factors evaluated before it pass (under raise: have no nulls; an earlier
null wins, `raise_iff`). Under the ignore policy `find_nulls` is not consulted (`ignore_keeps`,
`evalFactors_ignore`). -/
theorem uncheckable_factor_raises (labels : List L) (n : Nat) (pol : Policy) (o : Output)
    (parts : List (Part ρ)) (c : CallRec) (h1 : oneCall c = true) (hpol : pol ≠ .ignore)
    (pre post : List (Factor ρ)) (f : Factor ρ) (e : Err)
    (hsplit : parts.flatMap (·.factors) = pre ++ f :: post)
    (hpre : ∀ g ∈ pre, ∃ ns, findNulls current g.value = .ok ns ∧ (pol = .raise → ns = []))
    (hf : findNulls current f.value = .error e) :
    call current labels n pol o parts c = .error e ∧
    (e = .constantNull ∨ e = .tooManyDims ∨ e = .noFindNulls) := by
  refine ⟨?_, findNulls_error_kind f.value e hf⟩
  rw [call_oneCall labels n pol o parts c h1]
  unfold getModelMatrix
  rw [hsplit, evalFactors_uncheckable pol hpol pre f post _ e hpre hf]

example : findNulls current (⟨.scalar .pyNum ⟨0, true⟩, .default⟩ : Factor Nat).value =
    .error .constantNull := rfl

/-- C06.3d  The complete account of null-check failures, for ALL inputs (nothing assumed about the
shapes or lengths of the evaluated factors) and every entry point that makes one materializer call:
the call fails with an error of the null check — `NullsPresent` under RAISE, `Constant value is
null`, `more than 2 dimensions`, `No implementation of find_nulls()` — if and only if, in evaluation
order, some factor fails its check (`FailsWith`: `find_nulls` raises on it, or the policy is RAISE
and it has a null row) while every factor before it passes (`Passes`), and the error is that
factor's. In particular never under IGNORE. -/
theorem null_check_error_iff (labels : List L) (n : Nat) (pol : Policy) (o : Output)
    (parts : List (Part ρ)) (c : CallRec) (h1 : oneCall c = true) (e : Err) (he : NullCheckErr e) :
    (call current labels n pol o parts c = .error e ↔
      ∃ pre f post, parts.flatMap (·.factors) = pre ++ f :: post ∧
        (∀ g ∈ pre, Passes pol g) ∧ FailsWith pol f e) ∧
    (pol = .ignore → call current labels n pol o parts c ≠ .error e) := by
  have hiff : call current labels n pol o parts c = .error e ↔
      ∃ pre f post, parts.flatMap (·.factors) = pre ++ f :: post ∧
        (∀ g ∈ pre, Passes pol g) ∧ FailsWith pol f e := by
    rw [← evalFactors_error_iff pol _ (initialSet c.caller) e,
      ← getModelMatrix_nullCheck_iff labels n pol o parts c.caller e he,
      call_oneCall labels n pol o parts c h1]
    cases getModelMatrix current labels n pol o parts c.caller with
    | error e' => simp
    | ok r => simp
  refine ⟨hiff, ?_⟩
  intro hpol hcall
  obtain ⟨_, f, _, _, _, hf⟩ := hiff.1 hcall
  exact hf.1 hpol

example : NullCheckErr .constantNull ∧
    FailsWith .drop (⟨.dict [(true, .array0 ⟨0, true⟩)], .default⟩ : Factor Nat) .constantNull ∧
    Passes .raise (ser [1, 2] []) ∧ ¬ Passes .raise (ser [1, 2] [0]) := by
  refine ⟨Or.inr (Or.inl rfl), ⟨by decide, Or.inl (by decide)⟩, Or.inr ⟨[], by decide, fun _ => rfl⟩, ?_⟩
  rintro (h | ⟨ns, h1, h2⟩)
  · cases h
  · have : findNulls current (ser [1, 2] [0]).value = .ok [0] := by decide
    rw [this] at h1
    cases h1
    exact absurd (h2 rfl) (by decide)

/-- C06.2'  Per-spec generation is joint generation, as far as rows and the reported set go.
`ModelSpecs` whose parts name different materializers (or materializer params) cannot be built by
one materializer call: `ModelSpecs.get_model_matrix` generates them one by one with ONE shared drop
set (a fresh one when the caller passed none) and, if that set grew on the way, generates all of
them again with the complete set. For every policy the outcome — every part's rows, index and
columns, the caller's set afterwards, or the error — is that of the single materializer call over
all parts (`materializer.get_model_matrix(specs, drop_rows=…)`): under DROP every part loses the rows
that are null in ANY part, and the caller's set is exactly the set of rows removed from EVERY part.
(Stated for every call record `c`; the per-spec branch is the case `oneCall c = false`.) -/
theorem per_part_calls (labels : List L) (n : Nat) (pol : Policy) (o : Output)
    (parts : List (Part ρ)) (c : CallRec) (hl : labels.length = n) (hwf : WF n parts)
    (hc : CallerOK n c.caller) :
    call current labels n pol o parts c =
      call current labels n pol o parts ⟨.materializer, c.structured, c.overrides, true, c.caller⟩ := by
  cases pol with
  | drop =>
    rw [drop_call labels n o parts c hl hwf hc,
      drop_call labels n o parts ⟨.materializer, c.structured, c.overrides, true, c.caller⟩ hl hwf hc]
  | raise =>
    rw [raise_call labels n o parts c hl hwf hc,
      raise_call labels n o parts ⟨.materializer, c.structured, c.overrides, true, c.caller⟩ hl hwf hc]
  | ignore =>
    rw [(ignore_keeps labels n o parts c hl hwf hc).1,
      (ignore_keeps labels n o parts ⟨.materializer, c.structured, c.overrides, true, c.caller⟩
        hl hwf hc).1]

/-- the per-spec branch is an instance -/
example : oneCall ⟨.modelSpecs, true, true, false, some [0]⟩ = false ∧
    route current ⟨.modelSpecs, true, true, false, some [0]⟩ = .perPart (some [0]) := ⟨rfl, rfl⟩

/-! ## The caller's set object when the call raises, and when it is handed to further calls -/

/-- C06.6a  RAISE and IGNORE never put anything into the caller's set — for ALL inputs (nothing
assumed about the evaluated factors), on every entry point, whether the call returns or raises
(nulls under RAISE, a null constant, an unknown type, an encoding error …): after the call the set
object holds exactly what it held before. -/
theorem raise_and_ignore_leave_caller_set (labels : List L) (n : Nat) (pol : Policy)
    (hpol : pol ≠ .drop) (o : Output) (parts : List (Part ρ)) (c : CallRec) :
    setAfterCall current labels n pol o parts c = c.caller :=
  setAfterCall_keeps labels n pol hpol o parts c

/-- C06.6b  When a call returns, the set object holds what the call reports (`callerAfter`, the
subject of `dropset_reported`) — every policy, every entry point, all inputs. -/
theorem caller_set_after_success (labels : List L) (n : Nat) (pol : Policy) (o : Output)
    (parts : List (Part ρ)) (c : CallRec) (r : CallOut L ρ)
    (h : call current labels n pol o parts c = .ok r) :
    setAfterCall current labels n pol o parts c = r.callerAfter :=
  setAfterCall_of_ok labels n pol o parts c r h

/-- C06.6c  When a DROP call fails (one materializer call; the null check of a later factor or the
encoding raises), the set keeps the caller's rows and has gained only rows that `find_nulls`
flagged in some evaluated factor. -/
theorem drop_failure_adds_only_null_rows (labels : List L) (n : Nat) (o : Output)
    (parts : List (Part ρ)) (c : CallRec) (s : DropSet) (h1 : oneCall c = true)
    (hs : c.caller = some s) :
    ∃ s', setAfterCall current labels n .drop o parts c = some s' ∧
      (∀ i ∈ s, i ∈ s') ∧ (∀ i ∈ s', i ∈ s ∨ i ∈ allNulls parts) := by
  refine ⟨gmmSetAfter current .drop parts s, ?_, ?_⟩
  · unfold setAfterCall
    simp only [hs, route_current, h1, if_true]
  · exact evalFactorsSt_drop_bounds (parts.flatMap (·.factors)) s

/-- C06.6d  One set object handed to several calls (any entry points, formulas, data): a call
that does not have the DROP policy — RAISE (raising or not), IGNORE, or an invalid `na_action` —
leaves the object as it found it, so the calls after it behave exactly as if it had not been made;
and every call is, by construction of `runSetHistory`, the call given the content the object has
at that moment. -/
theorem shared_set_survives_non_drop_call (k : SetCall L ρ) (rest : List (SetCall L ρ))
    (s : Option DropSet) (hk : parseNAAction k.na ≠ .ok .drop) :
    runSetHistory current (k :: rest) s =
      (callNA current k.labels k.n k.na k.out k.parts (k.withSet s), s) ::
        runSetHistory current rest s := by
  have hset : setAfterCallNA current k.labels k.n k.na k.out k.parts (k.withSet s) = s := by
    unfold setAfterCallNA
    cases hp : parseNAAction k.na with
    | error e => rfl
    | ok pol =>
      have hpol : pol ≠ .drop := fun h => hk (by rw [hp, h])
      exact setAfterCall_keeps k.labels k.n pol hpol k.out k.parts (k.withSet s)
  simp only [runSetHistory, hset]

example : parseNAAction (.text "raise") ≠ .ok .drop ∧ parseNAAction (.text "omit") ≠ .ok .drop ∧
    parseNAAction (.member .ignore) ≠ .ok .drop := by decide

/-- a raising call on a shared set, then a drop call on it: the second call sees the original set -/
theorem current_shared_set_example :
    runSetHistory current
      [⟨[0, 1, 2], 3, .text "raise", .numpy, [⟨.pandas, false, [ser [0, 1, 2] [1]]⟩],
        ⟨.sugar, false, false, true, none⟩⟩,
       ⟨[0, 1, 2], 3, .member .drop, .numpy, [⟨.pandas, false, [ser [0, 1, 2] [2]]⟩],
        ⟨.modelSpec, false, true, true, none⟩⟩] (some [0]) =
    [(.error .nullsPresent, some [0]),
     (.ok ⟨[⟨1, none, [[plain [1]]], .none⟩], some [0, 2]⟩, some [0, 2])] := by decide

/-! ## Histories: several calls on ONE materializer object (`Model/NullsHistory.lean`)

A materializer object keeps `factor_cache` / `encoded_cache` between calls; `get_model_matrix`
empties them first (`reset = true`). -/

/-- C06.5  Reusing a materializer object is unobservable: for EVERY history of
`get_model_matrix` calls on one object (any length; any formulas, sharing factors or not; any
policies, output types and caller sets per call), starting from ANY cache content, the result of
each call — matrices, caller's set afterwards, or error — is the result of the same call on a
materializer made for it. (`KeysConsistent`: within a call one expression has one value.) -/
theorem materializer_reuse (labels : List L) (n : Nat) (calls : List (Call ρ)) (c0 : Caches ρ)
    (hk : ∀ k ∈ calls, KeysConsistent k.parts) :
    runHistory true current labels n calls c0 =
      calls.map (fun k => liftE (freshCall current labels n k)) :=
  runHistory_reset current labels n calls c0 hk

/-- a two-call history whose calls share the expression `a` (and whose caches are not empty to
begin with) satisfies the hypothesis -/
example : ∀ k ∈ ([⟨.drop, .numpy, [⟨.pandas, true, [⟨"a", ser [1, 2] [1]⟩]⟩], none⟩,
      ⟨.raise, .pandas, [⟨.pandas, false, [⟨"a", ser [1, 2] [1]⟩]⟩,
                         ⟨.pandas, true, [⟨"a", ser [1, 2] [1]⟩,
                                          ⟨"b", ⟨.array1 (col [3, 4] []), .hashed⟩⟩]⟩], some [0]⟩] :
      List (Call Nat)), KeysConsistent k.parts := by
  intro k hk
  simp only [List.mem_cons, List.not_mem_nil, or_false] at hk
  rcases hk with rfl | rfl
  · intro a ha b hb _
    simp only [List.flatMap_cons, List.flatMap_nil, List.append_nil, List.mem_singleton] at ha hb
    rw [ha, hb]
  · intro a ha b hb hab
    simp only [List.flatMap_cons, List.flatMap_nil, List.append_nil, List.cons_append, List.nil_append,
      List.mem_cons, List.not_mem_nil, or_false] at ha hb
    rcases ha with rfl | rfl | rfl <;> rcases hb with rfl | rfl | rfl <;>
      first | rfl | exact absurd hab (by decide)

/-- C06.5a  Hence the property's row rule holds for every call of every history: the `i`-th call
on a used materializer object, under the drop policy, yields exactly the rows that are null in no
factor of THIS call and that THIS call's caller did not list (in order, with their labels), and
this caller's set ends up as exactly the set of positions removed — whatever earlier calls on the
object evaluated, dropped or raised. -/
theorem reuse_drop_exact (labels : List L) (n : Nat) (calls : List (Call ρ)) (c0 : Caches ρ)
    (hk : ∀ k ∈ calls, KeysConsistent k.parts) (i : Nat) (k : Call ρ) (hi : calls[i]? = some k)
    (hpol : k.pol = .drop) (hl : labels.length = n) (hwf : WF n (k.parts.map KPart.part))
    (hc : CallerOK n k.dropIn) :
    ∃ r, (runHistory true current labels n calls c0)[i]? = some (.ok r) ∧
      r.mats = (k.parts.map KPart.part).map (expectedMatrix labels
        (keptPositions n (callerRows k.dropIn ++ allNulls (k.parts.map KPart.part))) k.out) ∧
      ∀ s, k.dropIn = some s → ∃ s', r.callerAfter = some s' ∧ s'.Nodup ∧
        (∀ j, j ∈ s' ↔ j ∈ s ∨ j ∈ allNulls (k.parts.map KPart.part)) ∧
        (∀ j, j < n → (j ∈ s' ↔
          j ∉ keptPositions n (callerRows k.dropIn ++ allNulls (k.parts.map KPart.part)))) := by
  let c : CallRec := ⟨.materializer, decide (1 < k.parts.length), false, true, k.dropIn⟩
  obtain ⟨r, hr, hm⟩ := drop_exact labels n k.out (k.parts.map KPart.part) c hl hwf hc
  have hf : freshCall current labels n k = .ok r := by
    unfold freshCall
    rw [hpol]
    exact hr
  refine ⟨r, ?_, hm, ?_⟩
  · rw [materializer_reuse labels n calls c0 hk, List.getElem?_map, hi, Option.map_some, hf]
    rfl
  · intro s hs
    obtain ⟨r', s', hr', h1, h2, h3, h4⟩ :=
      dropset_reported labels n k.out (k.parts.map KPart.part) c s hl hwf hc hs
    rw [hr] at hr'
    cases hr'
    exact ⟨s', h1, h2, h3, h4⟩

/-- C06.5b  … and under the raise policy the `i`-th call on a used object fails if and only if a
factor of THIS call has a null (nulls met, dropped or ignored by earlier calls do not count, and
are not forgotten either); under the ignore policy it removes the caller's rows only. -/
theorem reuse_raise_ignore (labels : List L) (n : Nat) (calls : List (Call ρ)) (c0 : Caches ρ)
    (hk : ∀ k ∈ calls, KeysConsistent k.parts) (i : Nat) (k : Call ρ) (hi : calls[i]? = some k)
    (hl : labels.length = n) (hwf : WF n (k.parts.map KPart.part)) (hc : CallerOK n k.dropIn) :
    (k.pol = .raise →
      (((runHistory true current labels n calls c0)[i]? = some (.error (.rows .nullsPresent))) ↔
        allNulls (k.parts.map KPart.part) ≠ []) ∧
      (allNulls (k.parts.map KPart.part) = [] →
        (runHistory true current labels n calls c0)[i]? = some (.ok
          ⟨(k.parts.map KPart.part).map
              (expectedMatrix labels (keptPositions n (callerRows k.dropIn)) k.out), k.dropIn⟩))) ∧
    (k.pol = .ignore →
      (runHistory true current labels n calls c0)[i]? = some (.ok
        ⟨(k.parts.map KPart.part).map
            (expectedMatrix labels (keptPositions n (callerRows k.dropIn)) k.out), k.dropIn⟩)) := by
  let c : CallRec := ⟨.materializer, decide (1 < k.parts.length), false, true, k.dropIn⟩
  have hrun : (runHistory true current labels n calls c0)[i]? =
      some (liftE (freshCall current labels n k)) := by
    rw [materializer_reuse labels n calls c0 hk, List.getElem?_map, hi, Option.map_some]
  rw [hrun]
  constructor
  · intro hpol
    obtain ⟨h1, h2, h3⟩ := raise_iff labels n k.out (k.parts.map KPart.part) c hl hwf hc
    have hf : freshCall current labels n k =
        call current labels n .raise k.out (k.parts.map KPart.part) c := by
      unfold freshCall
      rw [hpol]
    rw [hf]
    constructor
    · constructor
      · intro h
        apply h1.mp
        cases hcall : call current labels n .raise k.out (k.parts.map KPart.part) c with
        | error e => exact ⟨e, rfl⟩
        | ok r =>
          rw [hcall] at h
          cases h
      · intro h
        obtain ⟨e, he⟩ := h1.mpr h
        rw [he, h2 e he]
        rfl
    · intro h
      rw [h3 h]
      rfl
  · intro hpol
    obtain ⟨h1, _⟩ := ignore_keeps labels n k.out (k.parts.map KPart.part) c hl hwf hc
    have hf : freshCall current labels n k =
        call current labels n .ignore k.out (k.parts.map KPart.part) c := by
      unfold freshCall
      rw [hpol]
    rw [hf, h1]
    rfl

/-! ## The tree before the repairs (`legacy`): decided witnesses of the three defects

Each was replayed on the real code before the corresponding `fix:` commit (corpus/C06). -/

-- FULL (unproved, and FALSE for the legacy tree — see the witnesses below):
--   ∀ labels cells d, dropRowsV legacy labels (.series cells) d = .ok (.series (rowsAt cells (keptPositions n d)))
/-- What the legacy tree did satisfy: with pairwise distinct index labels its label-based removal
from a pandas Series removed exactly the listed positions (label-based and positional removal
coincide). -/
theorem legacy_series_drop_partial (labels : List L) (n : Nat) (cells : List (Cell ρ)) (d : List Nat)
    (hn : labels.Nodup) (hl : labels.length = n) (hf : cells.length = n) (hd : ∀ i ∈ d, i < n) :
    dropRowsV legacy labels (.series cells) d = .ok (.series (rowsAt cells (keptPositions n d))) := by
  have hd' : ∀ i ∈ d, i < cells.length := by rw [hf]; exact hd
  have hlab := dropByLabel_eq_of_nodup labels cells d hn (by rw [hl, hf]) hd'
  rw [hf] at hlab
  simp [dropRowsV, dropRows, dropSeries, legacy, hlab]

example : ([3, 1, 2] : List Nat).Nodup ∧ (col [7, 8, 9] [1]).length = 3 := by decide

/-- the `rid` column and a column with a null in row 1, both pandas Series -/
private def twoSeries : List (Factor Nat) := [ser [0, 1, 2] [], ser [0, 1, 2] [1]]

/-- D5: index labels `[0, 0, 1]`, null in row 1, intercept present: the label-based drop removes
rows 0 AND 1 from every Series while the intercept keeps `3 - 1` entries —
`ValueError: Length of values (2) does not match length of index (1)`. -/
theorem legacy_nonunique_index_length_error :
    call legacy [0, 0, 1] 3 .drop .pandas [⟨.pandas, true, twoSeries⟩]
      ⟨.sugar, false, false, true, none⟩ = .error .lengthMismatch := by decide

/-- D5: same frame without intercept: the valid row 0 silently disappears together with row 1. -/
theorem legacy_nonunique_index_drops_valid_row :
    call legacy [0, 0, 1] 3 .drop .pandas [⟨.pandas, false, twoSeries⟩]
      ⟨.sugar, false, false, true, none⟩ =
      .ok ⟨[⟨1, none, [[plain [2]], [plain [2]]], .labels [1]⟩], none⟩ := by decide

/-- … whereas the tree under test keeps rows 0 and 2 with their labels. -/
theorem current_nonunique_index_ok :
    call current [0, 0, 1] 3 .drop .pandas [⟨.pandas, true, twoSeries⟩]
      ⟨.sugar, false, false, true, none⟩ =
      .ok ⟨[⟨2, some 2, [[plain [0, 2]], [plain [0, 2]]], .labels [0, 1]⟩], none⟩ := by decide

/-- D6: two-sided formula through `model_matrix` (joint `ModelSpecs` path): the caller's `{0}` is
neither honoured (row 0 stays) nor updated (row 1 is not reported). -/
theorem legacy_joint_path_loses_drop_rows :
    call legacy [0, 1, 2] 3 .drop .numpy [⟨.pandas, false, twoSeries⟩, ⟨.pandas, true, twoSeries⟩]
      ⟨.sugar, true, false, true, some [0]⟩ =
      .ok ⟨[⟨2, none, [[plain [0, 2]], [plain [0, 2]]], .none⟩,
            ⟨2, some 2, [[plain [0, 2]], [plain [0, 2]]], .none⟩], some [0]⟩ := by
  decide

/-- D6: `spec.get_model_matrix(df, drop_rows={0}, output='numpy')` (override path): same. -/
theorem legacy_override_path_loses_drop_rows :
    call legacy [0, 1, 2] 3 .drop .numpy [⟨.pandas, true, twoSeries⟩]
      ⟨.modelSpec, false, true, true, some [0]⟩ =
      .ok ⟨[⟨2, some 2, [[plain [0, 2]], [plain [0, 2]]], .none⟩], some [0]⟩ := by decide

/-- D7: `hashed(A, levels=3) + a` with a null in `a`: the hashed column keeps all rows —
length mismatch. -/
theorem legacy_hashed_ignores_drop_rows :
    call legacy [0, 1, 2] 3 .drop .pandas
      [⟨.pandas, true, [⟨.array1 (col [0, 1, 2] []), .hashed⟩, ser [0, 1, 2] [1]]⟩]
      ⟨.sugar, false, false, true, none⟩ = .error .lengthMismatch := by decide

/-! ### the tree before the per-spec branch shared one drop set (`beforeShared`, before 1cec33b) -/

/-- Two parts recorded by different materializers, a null in row 1 of the SECOND part only: each part
was generated with what had accumulated so far, so the first part kept all three rows while the
second lost row 1 — the reported set `{1}` was not the set of rows removed from every part; and
with no caller set every part dropped its own nulls only. -/
theorem beforeShared_per_spec_parts_differ :
    call beforeShared [0, 1, 2] 3 .drop .numpy
      [⟨.pandas, false, [ser [0, 1, 2] []]⟩, ⟨.narwhals, false, [ser [0, 1, 2] [1]]⟩]
      ⟨.modelSpecs, true, false, false, some []⟩ =
      .ok ⟨[⟨3, none, [[plain [0, 1, 2]]], .none⟩, ⟨2, none, [[plain [0, 2]]], .none⟩], some [1]⟩ ∧
    call beforeShared [0, 1, 2] 3 .drop .numpy
      [⟨.pandas, false, [ser [0, 1, 2] [0]]⟩, ⟨.narwhals, false, [ser [0, 1, 2] [1]]⟩]
      ⟨.modelSpecs, true, false, false, none⟩ =
      .ok ⟨[⟨2, none, [[plain [1, 2]]], .none⟩, ⟨2, none, [[plain [0, 2]]], .none⟩], none⟩ := by
  decide

/-- … the tree under test generates all specs again once the set grew: both parts hold the same
rows, and the set is what was removed from each of them. -/
theorem current_per_spec_parts_agree :
    call current [0, 1, 2] 3 .drop .numpy
      [⟨.pandas, false, [ser [0, 1, 2] []]⟩, ⟨.narwhals, false, [ser [0, 1, 2] [1]]⟩]
      ⟨.modelSpecs, true, false, false, some []⟩ =
      .ok ⟨[⟨2, none, [[plain [0, 2]]], .none⟩, ⟨2, none, [[plain [0, 2]]], .none⟩], some [1]⟩ ∧
    call current [0, 1, 2] 3 .drop .numpy
      [⟨.pandas, false, [ser [0, 1, 2] [0]]⟩, ⟨.narwhals, false, [ser [0, 1, 2] [1]]⟩]
      ⟨.modelSpecs, true, false, false, none⟩ =
      .ok ⟨[⟨1, none, [[plain [2]]], .none⟩, ⟨1, none, [[plain [2]]], .none⟩], none⟩ := by
  decide

/-! ### the tree before the value-shape repairs (`beforeValues`)

Replayed on the real code at 6addb4d, i.e. without the commits 328750e / 8f5eb8d / d4772fd
(`VERIF_C06_VARIANT=beforeValues`: 4134 cases, no disagreement; corpus/C06/v1-* … v4-*). -/

/-- `{1.5} + a` (a constant Python factor next to a column with a null in row 1), drop policy:
`drop_rows` had no overload for a scalar — `ValueError: No implementation of drop_rows() …` —
although the same formula works when nothing is dropped. -/
theorem beforeValues_constant_factor_fails :
    call beforeValues [0, 1, 2] 3 .drop .pandas
      [⟨.pandas, false, [⟨.scalar .pyNum ⟨7, false⟩, .default⟩, ser [0, 1, 2] [1]]⟩]
      ⟨.sugar, false, false, true, none⟩ = .error .noDropRows ∧
    call beforeValues [0, 1, 2] 3 .drop .pandas
      [⟨.pandas, false, [⟨.scalar .pyNum ⟨7, false⟩, .default⟩, ser [0, 1, 2] []]⟩]
      ⟨.sugar, false, false, true, none⟩ =
      .ok ⟨[⟨3, none, [[plain [7, 7, 7]], [plain [0, 1, 2]]], .labels [0, 1, 2]⟩], none⟩ := by
  decide

/-- … the tree under test broadcasts the constant over the rows that remain. -/
theorem current_constant_factor_ok :
    call current [0, 1, 2] 3 .drop .pandas
      [⟨.pandas, false, [⟨.scalar .pyNum ⟨7, false⟩, .default⟩, ser [0, 1, 2] [1]]⟩]
      ⟨.sugar, false, false, true, none⟩ =
      .ok ⟨[⟨2, none, [[plain [7, 7]], [plain [0, 2]]], .labels [0, 2]⟩], none⟩ := by decide

/-- A data-frame valued factor (and a numpy integer constant, `{k.max()}`) without any null, raise
policy: `find_nulls` had no overload — the call failed although no evaluated factor had a null. -/
theorem beforeValues_frame_factor_fails :
    call beforeValues [0, 1, 2] 3 .raise .numpy
      [⟨.pandas, false, [⟨.frame 3 [col [0, 1, 2] [], col [3, 4, 5] []], .default⟩]⟩]
      ⟨.sugar, false, false, true, none⟩ = .error .noFindNulls ∧
    call beforeValues [0, 1, 2] 3 .raise .numpy
      [⟨.pandas, false, [⟨.scalar .npNum ⟨2, false⟩, .default⟩, ser [0, 1, 2] []]⟩]
      ⟨.sugar, false, false, true, none⟩ = .error .noFindNulls := by decide

/-- … the tree under test treats a frame as its columns: drop policy, null in row 1 of its second
column. -/
theorem current_frame_factor_ok :
    call current [0, 1, 2] 3 .drop .numpy
      [⟨.pandas, false, [⟨.frame 3 [col [0, 1, 2] [], col [3, 4, 5] [1]], .default⟩]⟩]
      ⟨.sugar, false, false, true, some []⟩ =
      .ok ⟨[⟨2, none, [[plain [0, 2], plain [3, 5]]], .none⟩], some [1]⟩ := by decide

/-- Known finding C06-F1 (the tree under test, mirrored as it is): a constant factor that is null
makes the DROP policy fail — "Constant value is null, invalidating all rows" — where the property
text asks for a matrix without rows. -/
theorem current_null_constant_drop_raises :
    call current [0, 1, 2] 3 .drop .pandas
      [⟨.pandas, false, [ser [0, 1, 2] [], ⟨.scalar .pyNum ⟨7, true⟩, .default⟩]⟩]
      ⟨.sugar, false, false, true, none⟩ = .error .constantNull := by decide

/-! ### the tree before `get_model_matrix` emptied the caches (`reset = false`)

Replayed on the real code with commit 6a9a8f6 reverted (corpus/C06/h1-*). -/

private def hRid : KFactor Nat := ⟨"rid", ser [0, 1, 2, 3] []⟩
private def hA : KFactor Nat := ⟨"a", ser [0, 1, 2, 3] [1]⟩
private def hB : KFactor Nat := ⟨"b", ser [0, 1, 2, 3] [2]⟩

/-- Reused object: `m = PandasMaterializer(df)`; `m.get_model_matrix("rid + a", drop_rows=set())` is right
(row 1 goes). `m.get_model_matrix("rid + a + b", drop_rows=set())` then skips the null check of the
cached `a`: the set reports `{2}` only, and the columns of `rid` and `a` (taken from
`encoded_cache`, rows 0, 2, 3) sit next to `b` with rows 0, 1, 3. A third call with
`na_action="raise"` does not raise for the null in `a` but fails on a length mismatch. -/
theorem no_reset_second_call_skips_null_checks :
    runHistory false current [0, 1, 2, 3] 4
      [⟨.drop, .numpy, [⟨.pandas, true, [hRid, hA]⟩], some []⟩,
       ⟨.drop, .numpy, [⟨.pandas, true, [hRid, hA, hB]⟩], some []⟩,
       ⟨.raise, .numpy, [⟨.pandas, true, [hRid, hA]⟩], none⟩] Caches.empty =
    [.ok ⟨[⟨3, some 3, [[plain [0, 2, 3]], [plain [0, 2, 3]]], .none⟩], some [1]⟩,
     .ok ⟨[⟨3, some 3, [[plain [0, 2, 3]], [plain [0, 2, 3]], [plain [0, 1, 3]]], .none⟩], some [2]⟩,
     .error (.rows .lengthMismatch)] := by decide

/-- … whereas the tree under test answers every call as a new object would. -/
theorem current_reuse_ok :
    runHistory true current [0, 1, 2, 3] 4
      [⟨.drop, .numpy, [⟨.pandas, true, [hRid, hA]⟩], some []⟩,
       ⟨.drop, .numpy, [⟨.pandas, true, [hRid, hA, hB]⟩], some []⟩,
       ⟨.raise, .numpy, [⟨.pandas, true, [hRid, hA]⟩], none⟩] Caches.empty =
    [.ok ⟨[⟨3, some 3, [[plain [0, 2, 3]], [plain [0, 2, 3]]], .none⟩], some [1]⟩,
     .ok ⟨[⟨2, some 2, [[plain [0, 3]], [plain [0, 3]], [plain [0, 3]]], .none⟩], some [1, 2]⟩,
     .error (.rows .nullsPresent)] := by decide

end FormulaicVerif.Props.C06
