import FormulaicVerif.Proofs.C18Pure
/-! # C18 — Materialization is pure and deterministic across calls, histories and hash seeds

"Building a model matrix never mutates the input data, the formula, or the observable behaviour of
any previously obtained spec; repeating or interleaving any sequence of builds and spec reuses gives
bit-identical results for each call, and results (values, column order, dropped rows) do not depend
on the interpreter's hash seed."

Property theorems only; helper lemmas are in `Proofs/C18*.lean`.  The model (`Model/Heap.lean`) is a
store of reference cells for the two mutable dictionaries of a `ModelSpec`; `run P .copy` executes a
history of `new / update / subset / build / call` operations with the in-place writes of
`get_model_matrix` steps 2-3; `prun` (`Spec/Purity.lean`) is the value semantics in which a spec
carries its dictionaries by value and an operation is a pure function of the values it names.
`P : Params F E` are the numerics (fitted states, null rows, failures, encoder states, rank
reduction, structure enforcement) — all theorems hold for EVERY choice of them.

In the model data sets and formulas are immutable values; that the real frames and formula objects
are not mutated is observed by the harness (hashes around every operation), not proved here. -/

namespace FormulaicVerif.Props.C18
open FormulaicVerif.Model.Heap FormulaicVerif.Spec.Purity FormulaicVerif.Proofs.C18

variable {F E : Type} (P : Params F E)

/-- C18.1  History independence, full strength, no hypothesis: in EVERY finite history of operations
started from the empty world, every operation's outcome (exception, or the records that determine
the produced matrices) is the outcome of the value semantics — a pure function of the values of the
specs the operation names and of the data, independent of everything else that happened. -/
theorem history_independent (h : List Op) :
    run P .copy World.init h = prun P [] h := by
  have := (run_sim P h World.init inv_init).1
  simpa [absW, World.init] using this

/-- C18.1, per call: after any history, the outcome of any further operation equals the pure
operation applied to the VALUES (formula, configuration, structure, both dictionaries) of the specs
handed out so far — "the same call in a fresh world". -/
theorem call_is_pure (h : List Op) (op : Op) :
    (step P .copy (finalWorld P .copy World.init h) op).2 = (pstep P (pfinal P [] h) op).2 := by
  obtain ⟨_, h2, h3⟩ := run_sim P h World.init inv_init
  rw [(step_sim P _ op h3).out, h2]
  simp [absW, World.init]

/-- C18.1  Inputs unchanged: after any history `h`, NO operation `op` changes (a) the value of any
spec obtained before it — formula, configuration, structure and the contents of both state
dictionaries — nor (b) the outcome of any operation `c` (in particular: replaying a previously
obtained spec on any data set) that names only specs obtained before `op`. -/
theorem inputs_unchanged (h : List Op) (op : Op) :
    (∀ i, i < (finalWorld P .copy World.init h).specs.length →
      (absW (step P .copy (finalWorld P .copy World.init h) op).1)[i]?
        = (absW (finalWorld P .copy World.init h))[i]?)
    ∧ (∀ c : Op, (∀ i ∈ handlesOf c, i < (finalWorld P .copy World.init h).specs.length) →
      (step P .copy (step P .copy (finalWorld P .copy World.init h) op).1 c).2
        = (step P .copy (finalWorld P .copy World.init h) c).2) := by
  have hi := (run_sim P h World.init inv_init).2.2
  exact ⟨fun i hlt => absW_step_prefix P _ op hi hlt, fun c hc => step_out_stable P _ op c hi hc⟩

/-- C18.2  Repetition: the same operation `c` (a build, a reuse of specs, ...) performed again after
ANY further operations `h2` — including itself — gives the identical outcome. -/
theorem repeat_identical (h1 h2 : List Op) (c : Op)
    (hc : ∀ i ∈ handlesOf c, i < (finalWorld P .copy World.init h1).specs.length) :
    (step P .copy (finalWorld P .copy World.init (h1 ++ c :: h2)) c).2
      = (step P .copy (finalWorld P .copy World.init h1) c).2 := by
  rw [finalWorld_append]
  exact replay_stable P c (c :: h2) _ (run_sim P h1 World.init inv_init).2.2 hc

/-- C18.3  Memo-table confluence: evaluating the pooled factors in ANY iteration order of the
factor set gives the same factor cache, the same drop set and the same fitted state (or raises in
every order; which exception is met first may differ). -/
theorem order_independent (d : Data) (na : NAAction) (s : EvalSt F) (fs gs : List Factor)
    (h : fs.Perm gs) :
    (evaluateAll P d na s fs).toOption = (evaluateAll P d na s gs).toOption :=
  evaluateAll_perm P d na h s

/-- C18.3  Hence a whole `get_model_matrix` call — the store it leaves behind and the records of
the matrices it returns — does not depend on the iteration order of `factors: set[Factor]`, i.e. on
the hash seed (both variants of `_prepare_model_specs`). -/
theorem call_order_independent (mode : Mode) (w : World F E) (ss : List (Spec E)) (d : Data)
    (o1 o2 : List Factor) (h : o1.Perm o2) :
    (callCore P mode w ss d o1).1 = (callCore P mode w ss d o2).1
    ∧ (callCore P mode w ss d o1).2.toOption = (callCore P mode w ss d o2).2.toOption :=
  materialize_order P _ _ d h

/-! ## The code before the repair of D16 did NOT satisfy C18.1

`Mode.share` is `_prepare_model_specs` as it was: `model_spec.update(**overrides)` shares the state
dictionaries with the caller's spec, which steps 2-3 then fill in place. -/

/-- numerics of the witness: `center(x)` fits "the mean of data set d" (token `d`) -/
def P₀ : Params Nat Nat where
  nodes f := if f = "center(x)" then ["center(x)"] else []
  fit _ d := d
  fails _ _ := false
  nulls _ _ := []
  nrows _ := 2
  encFit _ d _ := d
  scopedOf t _ _ _ := t.map fun f => (f, false)
  encodingFails _ := false

/-- `ms = ModelSpec(formula='center(x)'); ms.get_model_matrix(d1); ms.get_model_matrix(d2)` -/
def witness : List Op :=
  [.newSpec [["center(x)"]] ⟨true, .drop⟩, .call [0] none 1, .call [0] none 2]

/-- negative witness (3 operations, decided): with shared dictionaries the history is NOT equal to
the value semantics — the third operation uses the state fitted by the second. -/
theorem shared_prepare_not_history_independent :
    ¬ ∀ (P : Params Nat Nat) (h : List Op), run P .share World.init h = prun P [] h := by
  intro hall
  exact absurd (hall P₀ witness) (by decide)

/-- what goes wrong in the witness: the second reuse is built with data set 1's fitted state -/
example : (run P₀ .share World.init witness)[2]?.map (fun o => o.toOption.map (List.map (·.cols)))
    = some (some [[⟨"center(x)", false, [("center(x)", 1)], 1⟩]]) := by decide

/-- non-vacuity of C18.1 on the same history with the code as it is: the second reuse is built with
data set 2's own state, and the caller's spec still has empty dictionaries afterwards -/
example : (run P₀ .copy World.init witness)[2]?.map (fun o => o.toOption.map (List.map (·.cols)))
    = some (some [[⟨"center(x)", false, [("center(x)", 2)], 2⟩]]) := by decide
example : ((absW (finalWorld P₀ .copy World.init witness))[0]?).map (fun s => (s.t "center(x)", s.e "center(x)"))
    = some (none, none) := by decide

/-- non-vacuity of C18.3: two factors sharing the call node `center(x)`, evaluated in both orders -/
example : (evaluateAll P₀ 1 .drop ⟨Dict.empty, fun _ => false, Dict.empty⟩ ["center(x)", "z"]).toOption.map
      (fun s => (s.cache "center(x)", s.cache "z", s.state "center(x)"))
    = (evaluateAll P₀ 1 .drop ⟨Dict.empty, fun _ => false, Dict.empty⟩ ["z", "center(x)"]).toOption.map
      (fun s => (s.cache "center(x)", s.cache "z", s.state "center(x)"))
    ∧ (evaluateAll P₀ 1 .drop ⟨Dict.empty, fun _ => false, Dict.empty⟩ ["center(x)", "z"]).toOption.map
      (fun s => s.state "center(x)") = some (some 1) := by decide

end FormulaicVerif.Props.C18
