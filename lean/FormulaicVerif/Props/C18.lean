import FormulaicVerif.Proofs.C18Pure
import FormulaicVerif.Proofs.C18Scope
import FormulaicVerif.Proofs.C18XWf
import FormulaicVerif.Gen.SpecState
import FormulaicVerif.Proofs.C18Edit
import FormulaicVerif.Proofs.C18Dot
/-! # C18 — Materialization is pure and deterministic across calls, histories and hash seeds

"Building a model matrix never mutates the input data, the formula, or the observable behaviour of
any previously obtained spec; repeating or interleaving any sequence of builds and spec reuses gives
bit-identical results for each call, and results (values, column order, dropped rows) do not depend
on the interpreter's hash seed."

Property theorems only; helper lemmas are in `Proofs/C18*.lean`.  The model (`Model/Heap.lean`) is a
store of reference cells for the two mutable dictionaries of a `ModelSpec`; `run P .copy` executes a
history of `new / update / subset / build / call` operations with the in-place writes of
`get_model_matrix` steps 2-3; `prun` (`Spec/Purity.lean`) is the value semantics in which a spec
carries its dictionaries by value and an operation is a pure function of the values it names.
`P : Params F E` are the numerics (fitted states, null rows, failures, encoder states, rank
reduction, structure enforcement) — all theorems hold for EVERY choice of them.

Sections: (1) histories over formula VALUES (`Model/Heap.lean`): refinement to the value semantics,
inputs unchanged, repetition, independence of the iteration order of the factor set, negative witness
for the pre-D16 code; (2) rank reduction computed inside the model with the iteration order of every
plain `set` as a parameter (`Model/HeapScope.lean`): independent of it, total, negative witness for a
hashed recursion; (3) extended histories with formula OBJECTS, the caller's edits of them and
state-resetting updates (`Model/HeapX.lean`): refinement, formulas untouched by builds, inputs
unchanged, fault-then-reuse, non-interference of edits of other objects, consistent aliasing, the
re-sort by degree; (4) the layout of state the model assumes vs `Gen/SpecState.lean` (regenerated from
the live package).

In the model data sets are immutable values; that the real frames are not mutated is observed by the
harness (hashes around every operation), not proved here. -/

namespace FormulaicVerif.Props.C18
open FormulaicVerif.Model.Heap FormulaicVerif.Spec.Purity FormulaicVerif.Proofs.C18

variable {F E : Type} (P : Params F E)

/-- C18.1  History independence, full strength, no hypothesis: in EVERY finite history of operations
started from the empty world, every operation's outcome (exception, or the records that determine
the produced matrices) is the outcome of the value semantics — a pure function of the values of the
specs the operation names and of the data, independent of everything else that happened. -/
theorem history_independent (h : List Op) :
    run P .copy World.init h = prun P [] h := by
  have := (run_sim P h World.init inv_init).1
  simpa [absW, World.init] using this

/-- C18.1, per call: after any history, the outcome of any further operation equals the pure
operation applied to the VALUES (formula, configuration, structure, both dictionaries) of the specs
handed out so far — "the same call in a fresh world". -/
theorem call_is_pure (h : List Op) (op : Op) :
    (step P .copy (finalWorld P .copy World.init h) op).2 = (pstep P (pfinal P [] h) op).2 := by
  obtain ⟨_, h2, h3⟩ := run_sim P h World.init inv_init
  rw [(step_sim P _ op h3).out, h2]
  simp [absW, World.init]

/-- C18.1  Inputs unchanged: after any history `h`, NO operation `op` changes (a) the value of any
spec obtained before it — formula, configuration, structure and the contents of both state
dictionaries — nor (b) the outcome of any operation `c` (in particular: replaying a previously
obtained spec on any data set) that names only specs obtained before `op`. -/
theorem inputs_unchanged (h : List Op) (op : Op) :
    (∀ i, i < (finalWorld P .copy World.init h).specs.length →
      (absW (step P .copy (finalWorld P .copy World.init h) op).1)[i]?
        = (absW (finalWorld P .copy World.init h))[i]?)
    ∧ (∀ c : Op, (∀ i ∈ handlesOf c, i < (finalWorld P .copy World.init h).specs.length) →
      (step P .copy (step P .copy (finalWorld P .copy World.init h) op).1 c).2
        = (step P .copy (finalWorld P .copy World.init h) c).2) := by
  have hi := (run_sim P h World.init inv_init).2.2
  exact ⟨fun i hlt => absW_step_prefix P _ op hi hlt, fun c hc => step_out_stable P _ op c hi hc⟩

/-- C18.2  Repetition: the same operation `c` (a build, a reuse of specs, ...) performed again after
ANY further operations `h2` — including itself — gives the identical outcome. -/
theorem repeat_identical (h1 h2 : List Op) (c : Op)
    (hc : ∀ i ∈ handlesOf c, i < (finalWorld P .copy World.init h1).specs.length) :
    (step P .copy (finalWorld P .copy World.init (h1 ++ c :: h2)) c).2
      = (step P .copy (finalWorld P .copy World.init h1) c).2 := by
  rw [finalWorld_append]
  exact replay_stable P c (c :: h2) _ (run_sim P h1 World.init inv_init).2.2 hc

/-- C18.3  Memo-table confluence: evaluating the pooled factors in ANY iteration order of the
factor set gives the same factor cache, the same drop set and the same fitted state (or raises in
every order; which exception is met first may differ). -/
theorem order_independent (d : Data) (na : NAAction) (s : EvalSt F) (fs gs : List Factor)
    (h : fs.Perm gs) :
    (evaluateAll P d na s fs).toOption = (evaluateAll P d na s gs).toOption :=
  evaluateAll_perm P d na h s

/-- C18.3  Hence a whole `get_model_matrix` call — the store it leaves behind and the records of
the matrices it returns — does not depend on the iteration order of `factors: set[Factor]`, i.e. on
the hash seed (both variants of `_prepare_model_specs`). -/
theorem call_order_independent (mode : Mode) (w : World F E) (ss : List (Spec E)) (d : Data)
    (o1 o2 : List Factor) (h : o1.Perm o2) :
    (callCore P mode w ss d o1).1 = (callCore P mode w ss d o2).1
    ∧ (callCore P mode w ss d o1).2.toOption = (callCore P mode w ss d o2).2.toOption :=
  materialize_order P _ _ d h

/-! ## The code before the repair of D16 did NOT satisfy C18.1

`Mode.share` is `_prepare_model_specs` as it was: `model_spec.update(**overrides)` shares the state
dictionaries with the caller's spec, which steps 2-3 then fill in place. -/

/-- numerics of the witness: `center(x)` fits "the mean of data set d" (token `d`) -/
def P₀ : Params Nat Nat where
  nodes f := if f = "center(x)" then ["center(x)"] else []
  fit _ d := d
  fails _ _ := false
  nulls _ _ := []
  nrows _ := 2
  encFit _ d _ := d
  scopedOf t _ _ _ := t.map fun f => (f, false)
  encodingFails _ := false

/-- `ms = ModelSpec(formula='center(x)'); ms.get_model_matrix(d1); ms.get_model_matrix(d2)` -/
def witness : List Op :=
  [.newSpec [["center(x)"]] ⟨true, .drop⟩, .call [0] none 1, .call [0] none 2]

/-- negative witness (3 operations, decided): with shared dictionaries the history is NOT equal to
the value semantics — the third operation uses the state fitted by the second. -/
theorem shared_prepare_not_history_independent :
    ¬ ∀ (P : Params Nat Nat) (h : List Op), run P .share World.init h = prun P [] h := by
  intro hall
  exact absurd (hall P₀ witness) (by decide)

/-- what goes wrong in the witness: the second reuse is built with data set 1's fitted state -/
example : (run P₀ .share World.init witness)[2]?.map (fun o => o.toOption.map (List.map (·.cols)))
    = some (some [[⟨"center(x)", false, [("center(x)", 1)], 1⟩]]) := by decide

/-- non-vacuity of C18.1 on the same history with the code as it is: the second reuse is built with
data set 2's own state, and the caller's spec still has empty dictionaries afterwards -/
example : (run P₀ .copy World.init witness)[2]?.map (fun o => o.toOption.map (List.map (·.cols)))
    = some (some [[⟨"center(x)", false, [("center(x)", 2)], 2⟩]]) := by decide
example : ((absW (finalWorld P₀ .copy World.init witness))[0]?).map (fun s => (s.t "center(x)", s.e "center(x)"))
    = some (none, none) := by decide

/-- non-vacuity of C18.3: two factors sharing the call node `center(x)`, evaluated in both orders -/
example : (evaluateAll P₀ 1 .drop ⟨Dict.empty, fun _ => false, Dict.empty⟩ ["center(x)", "z"]).toOption.map
      (fun s => (s.cache "center(x)", s.cache "z", s.state "center(x)"))
    = (evaluateAll P₀ 1 .drop ⟨Dict.empty, fun _ => false, Dict.empty⟩ ["z", "center(x)"]).toOption.map
      (fun s => (s.cache "center(x)", s.cache "z", s.state "center(x)"))
    ∧ (evaluateAll P₀ 1 .drop ⟨Dict.empty, fun _ => false, Dict.empty⟩ ["center(x)", "z"]).toOption.map
      (fun s => s.state "center(x)") = some (some 1) := by decide

/-! ## Rank reduction inside the model: independent of every `set` iteration order

`Model/HeapScope.lean` computes `Params.scopedOf` (which scoped factors a term is encoded with, in
which order — hence the COLUMN ORDER) by the code of `_get_scoped_terms` / `_simplify_scoped_terms`,
with the iteration order of the two plain Python `set`s on that path (`factors_diff`, `spanned`) as
the parameter `σ : SetOrder`.  The engine runs `σ = insertion`. -/

section scope
open FormulaicVerif.Model.HeapScope FormulaicVerif.Proofs.C18Scope
open FormulaicVerif.Model (ST osDiff spannedBy simplifyFuel)

/-- C18.3b  For EVERY admissible iteration order of the sets of scoped factors / scoped terms (every
hash seed), every formula, every assignment of kinds to its factors and both `ensure_full_rank`
settings, `_get_scoped_terms` yields the same scoped terms in the same order: it computes exactly what
the insertion-ordered model of C02/C03 computes (so C03's structural-full-rank theorems apply to it). -/
theorem scoped_terms_refine_c03 (σ : SetOrder) (hσ : σ.Valid) (kind : String → FKind)
    (origin : Formula) (efr : Bool) :
    scopedTerms σ kind origin efr
      = FormulaicVerif.Model.getScopedTerms (cacheOf kind origin.flatten) efr [] (origin.map mterm) :=
  getScopedTerms_eq σ hσ _ efr _ (List.Perm.refl [])

theorem scoped_terms_hash_seed_independent (σ : SetOrder) (hσ : σ.Valid) (kind : String → FKind)
    (origin : Formula) (efr : Bool) :
    scopedTerms σ kind origin efr = scopedTerms .insertion kind origin efr := by
  rw [scoped_terms_refine_c03 σ hσ, scoped_terms_refine_c03 .insertion ⟨fun _ => .refl _, fun _ => .refl _⟩]

/-- non-vacuity: reversing every set is an admissible order, and on `1 + a:b:c` the four scoped terms
of EQUAL size two/three come out as the real code emits them: `a-:b, a:c-, b-:c, a-:b-:c-` -/
example : (SetOrder.mk List.reverse List.reverse).Valid := ⟨List.reverse_perm, List.reverse_perm⟩
example : (scopedTerms ⟨List.reverse, List.reverse⟩ (fun _ => .categorical true) [[], ["a", "b", "c"]] true).toOption.map
      (fun r => r.map fun p => p.2.map fun st => st.factors.map fun sf => (sf.expr, sf.reduced))
    = some [[[]], [[("a", true), ("b", false)], [("a", false), ("c", true)], [("b", true), ("c", false)],
        [("a", true), ("b", true), ("c", true)]]] := by decide +kernel

/-- C18.3b  The modelled rank reduction never fails (no `KeyError`, and the fuel of the recursion of
`_simplify_scoped_terms` is always enough): the `[]` fall-backs in `scopedOf` are dead code. -/
theorem scoped_terms_total (σ : SetOrder) (hσ : σ.Valid) (kind : String → FKind)
    (origin : Formula) (efr : Bool) : ∃ r, scopedTerms σ kind origin efr = .ok r := by
  rw [scoped_terms_refine_c03 σ hσ]
  apply getScopedTerms_ok
  intro t ht e he
  obtain ⟨t0, ht0, rfl⟩ := List.mem_map.mp ht
  by_cases h1 : e = "1"
  · subst h1; exact cacheOf_get_one kind _
  · refine cacheOf_get kind _ e ?_ h1
    unfold mterm at he
    split at he
    · simp at he; exact absurd he h1
    · exact List.mem_flatten.mpr ⟨t0, ht0, he⟩

/-- C18.3b  Hence `Params.scopedOf` as the model computes it — and with it every outcome of every
history — is the same function for every admissible `σ` ... -/
theorem scopedOf_hash_seed_independent (σ : SetOrder) (hσ : σ.Valid) (kind : String → Data → FKind) :
    scopedOf σ kind = scopedOf .insertion kind := by
  funext t origin efr d
  unfold scopedOf
  rw [scoped_terms_hash_seed_independent σ hσ]

/-- ... in particular: a whole `get_model_matrix` call (the store it leaves behind, the records of the
matrices it returns, their column order) depends neither on the iteration order of the `set`s of
scoped terms / scoped factors nor on that of `factors: set[Factor]`. -/
theorem call_hash_seed_independent (σ : SetOrder) (hσ : σ.Valid) (kind : String → Data → FKind)
    (mode : Mode) (w : World F E) (ss : List (Spec E)) (d : Data) (o1 o2 : List Factor) (h : o1.Perm o2) :
    (callCore (withScope P σ kind) mode w ss d o1).1 = (callCore (withScope P .insertion kind) mode w ss d o2).1
    ∧ (callCore (withScope P σ kind) mode w ss d o1).2.toOption
        = (callCore (withScope P .insertion kind) mode w ss d o2).2.toOption := by
  have : withScope P σ kind = withScope P .insertion kind := by
    unfold withScope; rw [scopedOf_hash_seed_independent σ hσ]
  rw [this]
  exact call_order_independent _ mode w ss d o1 o2 h

/-- and every history: the outcomes under ANY admissible set order are the value semantics computed
with insertion order -/
theorem history_hash_seed_independent (σ : SetOrder) (hσ : σ.Valid) (kind : String → Data → FKind)
    (h : List Op) :
    run (withScope P σ kind) .copy World.init h = prun (withScope P .insertion kind) [] h := by
  have : withScope P σ kind = withScope P .insertion kind := by
    unfold withScope; rw [scopedOf_hash_seed_independent σ hσ]
  rw [this]
  exact history_independent _ h

/-- the span of `a:b:c` next to an intercept (all three categorical): `{a-, b-, c-, a-:b-, a-:c-, b-:c-, a-:b-:c-}` -/
def spanABC : List ST :=
  osDiff (spannedBy ((cacheOf (fun _ => .categorical true) ["a", "b", "c"]).drop 1)) [ST.new [] 1]

/-- C18.3b, negative: a variant of `_simplify_scoped_terms` that hands the intermediate result of the
recursion on as a plain `set` (`simplifyH`: the only difference is one `σ.st`) is NOT independent of
the iteration order — on the span of the single term `a:b:c` of `1 + a:b:c` two admissible orders give
the scoped terms (hence the columns) in different orders.  This is why the hash-seed batches must
contain a term interacting three categorical factors whose lower-order margins do not precede it:
for `a`, `a:b`, `a*b`, `a*b*c` the scoped terms handed to the recursion never tie in size. -/
theorem hashed_recursion_is_seed_dependent :
    ∃ σ : SetOrder, σ.Valid ∧
      simplifyH σ (simplifyFuel spanABC) spanABC ≠ simplifyH .insertion (simplifyFuel spanABC) spanABC := by
  refine ⟨⟨id, List.reverse⟩, ⟨fun _ => .refl _, List.reverse_perm⟩, ?_⟩
  decide +kernel

/-- the code as it is agrees with the insertion-ordered variant on that input, for the reversed order too -/
example : simplify ⟨List.reverse, List.reverse⟩ (simplifyFuel spanABC) spanABC
    = simplifyH .insertion (simplifyFuel spanABC) spanABC := by decide +kernel

end scope

/-! ## Extended histories: formula OBJECTS, the caller's edits of them, state-resetting updates

`Model/HeapX.lean` adds to the store the formula objects (`forms`), which object every spec holds
(`fref`) and the operations `formula` (create one), `edit fid e` / `editOf h e` (the caller uses the
`MutableSequence` protocol of `SimpleFormula` on a formula object / on `spec.formula`: `insert`,
`append`, `__setitem__`, `__delitem__` with Python's index conventions and the re-sort by degree) and
`update(..., transform_state={}, encoder_state={})`; `subset` creates a new formula object and re-sorts
the picked terms itself.  `xrun P XWorld.init h` runs a history of such operations on the store
(`xstep` delegates to `Model.Heap.step` and keeps the references); `xprun` (`Spec/PurityX.lean`) is the
value semantics: spec values + the contents of the formula objects, nothing else.  The engine runs
`xtrace`/`xprun`; the harness compares, after every operation, outcomes, spec values, dictionary
identities, formula identities (`is`) and formula contents with the real objects. -/

section extended
open FormulaicVerif.Model.HeapX FormulaicVerif.Spec.PurityX FormulaicVerif.Proofs.C18X

/-- C18.1x  History independence with formula objects, no hypothesis: in EVERY finite history of
creating formulas, building, reusing, updating (also with reset state), subsetting AND the caller's
own edits of formula objects in between, every operation's outcome is the outcome of the value
semantics: a function of the contents of the formula objects it reads and of the values of the
specs it names. -/
theorem x_history_independent (h : List XOp) :
    xrun P XWorld.init h = xprun P XEnv.init h :=
  (xrun_sim P h XWorld.init xinv_init).1

/-- C18.1x, per call ("the same call in a fresh world with the same values") -/
theorem x_call_is_pure (h : List XOp) (op : XOp) :
    (xstep P (xfinal P XWorld.init h) op).2 = (xpstep P (xpfinal P XEnv.init h) op).2 := by
  obtain ⟨_, h2, h3⟩ := xrun_sim P h XWorld.init xinv_init
  rw [(xstep_sim P _ op h3).out, h2]
  rfl

/-- C18.1x  "Building a model matrix never mutates … the formula": after any history, an operation
that is not one of the caller's own edits leaves every existing formula object as it is (objects are
only ever added — by `Formula(...)` and by `subset`). -/
theorem building_never_touches_formulas (h : List XOp) (op : XOp) (hne : op.isEdit = false) :
    ∃ nf, (xstep P (xfinal P XWorld.init h) op).1.forms = (xfinal P XWorld.init h).forms ++ nf := by
  have hi := (xrun_sim P h XWorld.init xinv_init).2.2
  have he := (xstep_sim P _ op hi).env
  obtain ⟨nf, hnf⟩ := (xpstep_append P (xabs (xfinal P XWorld.init h)) op hne).1
  refine ⟨nf, ?_⟩
  have : (xabs (xstep P (xfinal P XWorld.init h) op).1).forms = (xfinal P XWorld.init h).forms ++ nf := by
    rw [he, hnf]; rfl
  exact this

/-- C18.1x  Inputs unchanged, with formula objects: after any history, an operation `op` that is not one
of the caller's edits changes (a) neither the value of any spec obtained before it (formula,
configuration, structure, contents of both state dictionaries) nor the formula object it holds, and
(b) not the outcome of any operation `c` that names only specs and formula objects that existed
before `op` — builds, reuses on any data set, updates, subsets, even edits. -/
theorem x_inputs_unchanged (h : List XOp) (op : XOp) (hne : op.isEdit = false) :
    (∀ i, i < (xfinal P XWorld.init h).base.specs.length →
        (xabs (xstep P (xfinal P XWorld.init h) op).1).specs[i]? = (xabs (xfinal P XWorld.init h)).specs[i]?)
    ∧ (∀ i, i < (xfinal P XWorld.init h).fref.length →
        (xstep P (xfinal P XWorld.init h) op).1.fref[i]? = (xfinal P XWorld.init h).fref[i]?)
    ∧ (∀ c : XOp,
        (∀ i ∈ xhandlesOf c, i < (xfinal P XWorld.init h).base.specs.length) →
        (∀ i ∈ xformsOf (xfinal P XWorld.init h).fref c, i < (xfinal P XWorld.init h).forms.length) →
        (xstep P (xstep P (xfinal P XWorld.init h) op).1 c).2 = (xstep P (xfinal P XWorld.init h) c).2) := by
  have hi := (xrun_sim P h XWorld.init xinv_init).2.2
  have ss := xstep_sim P _ op hi
  obtain ⟨⟨nf, hnf⟩, ⟨ns, hns⟩, ⟨nr, hnr⟩⟩ := xpstep_append P (xabs (xfinal P XWorld.init h)) op hne
  have e1 : (xabs (xstep P (xfinal P XWorld.init h) op).1).specs = (xabs (xfinal P XWorld.init h)).specs ++ ns := by
    rw [ss.env, hns]
  have e2 : (xstep P (xfinal P XWorld.init h) op).1.fref = (xfinal P XWorld.init h).fref ++ nr := by
    have : (xabs (xstep P (xfinal P XWorld.init h) op).1).fref = (xabs (xfinal P XWorld.init h)).fref ++ nr := by
      rw [ss.env, hnr]
    exact this
  have e3 : (xstep P (xfinal P XWorld.init h) op).1.forms = (xfinal P XWorld.init h).forms ++ nf := by
    have : (xabs (xstep P (xfinal P XWorld.init h) op).1).forms = (xabs (xfinal P XWorld.init h)).forms ++ nf := by
      rw [ss.env, hnf]
    exact this
  have hlen : (xfinal P XWorld.init h).fref.length = (xfinal P XWorld.init h).base.specs.length := by
    have := (xfinal_wf P h).len
    simpa [xabs, absW] using this
  refine ⟨fun i hlt => ?_, fun i hlt => ?_, fun c hc hfm => ?_⟩
  · rw [e1]
    exact getElem?_append_of_lt _ _ (by simpa [xabs, absW] using hlt)
  · rw [e2]
    exact getElem?_append_of_lt _ _ hlt
  · rw [(xstep_sim P _ c ss.inv).out, (xstep_sim P _ c hi).out]
    symm
    apply xpstep_out_congr
    · intro i hic
      have b1 := hc i hic
      have b2 : i < (xfinal P XWorld.init h).fref.length := by rw [hlen]; exact b1
      refine ⟨?_, ?_⟩
      · rw [e1]; exact (getElem?_append_of_lt _ _ (by simpa [xabs, absW] using b1)).symm
      · show (xfinal P XWorld.init h).fref[i]? = (xstep P (xfinal P XWorld.init h) op).1.fref[i]?
        rw [e2]; exact (getElem?_append_of_lt _ _ b2).symm
    · intro i hif
      show (xfinal P XWorld.init h).forms[i]? = (xstep P (xfinal P XWorld.init h) op).1.forms[i]?
      rw [e3]; exact (getElem?_append_of_lt _ _ (hfm i hif)).symm

/-- C18.1x  The model's bookkeeping of aliasing is consistent in every reachable world: every spec handed
out holds one of the formula objects, and the formula the spec record carries IS the current content
of that object (so writing an edit through to the records is what sharing the object does). -/
theorem x_alias_consistent (h : List XOp) :
    (xfinal P XWorld.init h).fref.length = (xfinal P XWorld.init h).base.specs.length
    ∧ ∀ (i : Nat) (s : Spec E) (r : Nat), (xfinal P XWorld.init h).base.specs[i]? = some s →
        (xfinal P XWorld.init h).fref[i]? = some r → (xfinal P XWorld.init h).forms[r]? = some s.formula := by
  have hw := xfinal_wf P h
  refine ⟨by simpa [xabs, absW] using hw.len, ?_⟩
  intro i s r hs hr
  have := hw.cur i (absS (xfinal P XWorld.init h).base s) r (by simp [xabs, absW, hs]) hr
  exact this

/-- C18.2x  Repetition / interleaving: an operation `c` on objects that exist after `h1` gives the
identical outcome after ANY further operations `h2` that are not the caller's own edits — further
builds of other formulas, reuses of any spec on any data, updates, subsets, operations that raise. -/
theorem x_replay_stable (h2 : List XOp) : ∀ (h1 : List XOp) (_ : ∀ o ∈ h2, o.isEdit = false) (c : XOp)
    (_ : ∀ i ∈ xhandlesOf c, i < (xfinal P XWorld.init h1).base.specs.length)
    (_ : ∀ i ∈ xformsOf (xfinal P XWorld.init h1).fref c, i < (xfinal P XWorld.init h1).forms.length),
    (xstep P (xfinal P XWorld.init (h1 ++ h2)) c).2 = (xstep P (xfinal P XWorld.init h1) c).2 := by
  induction h2 with
  | nil => intro h1 _ c _ _; simp
  | cons o rest ih =>
    intro h1 hne c hc hf
    have hi := (xrun_sim P h1 XWorld.init xinv_init).2.2
    have ho : o.isEdit = false := hne o (by simp)
    obtain ⟨⟨nf, hnf⟩, ⟨ns, hns⟩, ⟨nr, hnr⟩⟩ := xstep_append P _ hi o ho
    have hfin : xfinal P XWorld.init (h1 ++ [o]) = (xstep P (xfinal P XWorld.init h1) o).1 := by
      rw [xfinal_append]; rfl
    have hlen : (xfinal P XWorld.init h1).fref.length = (xfinal P XWorld.init h1).base.specs.length :=
      (x_alias_consistent P h1).1
    have e : h1 ++ o :: rest = (h1 ++ [o]) ++ rest := by simp
    rw [e, ih (h1 ++ [o]) (fun o' ho' => hne o' (by simp [ho'])) c ?_ ?_, hfin]
    · exact (x_inputs_unchanged P h1 o ho).2.2 c hc hf
    · intro i hic
      rw [hfin]
      have h1' := hc i hic
      have : (absW (xstep P (xfinal P XWorld.init h1) o).1.base).length
          = (absW (xfinal P XWorld.init h1).base).length + ns.length := by rw [hns]; simp
      simp only [absW_length] at this
      omega
    · intro i hif
      rw [hfin] at hif ⊢
      rw [hnr, xformsOf_append _ _ c (fun j hj => by rw [hlen]; exact hc j hj)] at hif
      have := hf i hif
      rw [hnf, List.length_append]; omega

/-- C18.2x  in particular: the same operation performed again later gives the identical outcome -/
theorem x_repeat_identical (h1 h2 : List XOp) (c : XOp) (hce : c.isEdit = false)
    (hne : ∀ o ∈ h2, o.isEdit = false)
    (hc : ∀ i ∈ xhandlesOf c, i < (xfinal P XWorld.init h1).base.specs.length)
    (hf : ∀ i ∈ xformsOf (xfinal P XWorld.init h1).fref c, i < (xfinal P XWorld.init h1).forms.length) :
    (xstep P (xfinal P XWorld.init (h1 ++ c :: h2)) c).2 = (xstep P (xfinal P XWorld.init h1) c).2 :=
  x_replay_stable P (c :: h2) h1 (fun o ho => by
    rcases List.mem_cons.mp ho with h | h
    · subst h; exact hce
    · exact hne o h) c hc hf

/-- C18.1x  Several formulas side by side: the caller's edit of formula object `fid` does not change the
outcome of any operation that neither reads that object nor names a spec holding it. -/
theorem unrelated_edit_does_not_interfere (h : List XOp) (fid : Nat) (e : Edit) (c : XOp)
    (h1 : ∀ i ∈ xformsOf (xfinal P XWorld.init h).fref c, i ≠ fid)
    (h2 : ∀ i ∈ xhandlesOf c, (xfinal P XWorld.init h).fref[i]? ≠ some fid) :
    (xstep P (xstep P (xfinal P XWorld.init h) (.edit fid e)).1 c).2 = (xstep P (xfinal P XWorld.init h) c).2 := by
  have hi := (xrun_sim P h XWorld.init xinv_init).2.2
  have ss := xstep_sim P _ (.edit fid e) hi
  rw [(xstep_sim P _ c ss.inv).out, (xstep_sim P _ c hi).out, ss.env]
  exact edit_noninterference P (xabs (xfinal P XWorld.init h)) fid e c h1 h2

/-- C18.1x  An operation that RAISES — at any point: unknown term, inconsistent joint specs, a factor
that cannot be evaluated, nulls under `na_action='raise'`, a recorded structure the data do not fit
(after cells of the prepared copies have already been written), an index error of an edit — leaves
every formula object, every spec value and every reference exactly as it was … -/
theorem failed_operation_changes_nothing (h : List XOp) (op : XOp) (x : XErr)
    (herr : (xstep P (xfinal P XWorld.init h) op).2 = .error x) :
    xabs (xstep P (xfinal P XWorld.init h) op).1 = xabs (xfinal P XWorld.init h) := by
  have hi := (xrun_sim P h XWorld.init xinv_init).2.2
  have ss := xstep_sim P _ op hi
  rw [ss.env]
  exact xpstep_error_env P _ op x (by rw [← ss.out]; exact herr)

/-- … hence "fault, then reuse": after an operation that raised half-way, every further operation
gives exactly the outcome it would have given had the failing operation never been attempted. -/
theorem fault_then_reuse (h : List XOp) (op c : XOp) (x : XErr)
    (herr : (xstep P (xfinal P XWorld.init h) op).2 = .error x) :
    (xstep P (xstep P (xfinal P XWorld.init h) op).1 c).2 = (xstep P (xfinal P XWorld.init h) c).2 := by
  have hi := (xrun_sim P h XWorld.init xinv_init).2.2
  have ss := xstep_sim P _ op hi
  rw [(xstep_sim P _ c ss.inv).out, (xstep_sim P _ c hi).out, failed_operation_changes_nothing P h op x herr]

/-- C18.1x  What the caller's edit of formula object `fid` does to the specs obtained so far: a spec
that holds that object now has the edited formula; NOTHING else changes — not the formula of a spec
holding another object, and no spec's configuration, recorded structure or state dictionaries. -/
theorem edit_reaches_exactly_the_aliases (h : List XOp) (fid : Nat) (e : Edit) (f f' : Formula)
    (hf : (xfinal P XWorld.init h).forms[fid]? = some f) (he : applyEdit f e = .ok f') (i : Nat) :
    (xabs (xstep P (xfinal P XWorld.init h) (.edit fid e)).1).specs[i]? =
      match (xabs (xfinal P XWorld.init h)).specs[i]?, (xfinal P XWorld.init h).fref[i]? with
      | some s, some r => some (if r = fid then { s with formula := f' } else s)
      | some s, none => some s
      | none, _ => none := by
  have hi := (xrun_sim P h XWorld.init xinv_init).2.2
  rw [(xstep_sim P _ (.edit fid e) hi).env]
  have : (xabs (xfinal P XWorld.init h)).forms[fid]? = some f := hf
  simp only [xpstep, peditForm, this, he]
  exact prewriteAll_getElem _ _ fid f' i

/-- C18.3x  What the engine runs — extended histories with rank reduction computed by the model — does not
depend on the iteration order of any plain `set` on the way (hash seed): for EVERY admissible set order
the store model gives the outcomes of the value semantics under insertion order. -/
theorem x_history_hash_seed_independent (σ : FormulaicVerif.Model.HeapScope.SetOrder) (hσ : σ.Valid)
    (kind : String → Data → FormulaicVerif.Model.HeapScope.FKind) (h : List XOp) :
    xrun (FormulaicVerif.Model.HeapScope.withScope P σ kind) XWorld.init h
      = xprun (FormulaicVerif.Model.HeapScope.withScope P .insertion kind) XEnv.init h := by
  have : FormulaicVerif.Model.HeapScope.withScope P σ kind
      = FormulaicVerif.Model.HeapScope.withScope P .insertion kind := by
    unfold FormulaicVerif.Model.HeapScope.withScope
    rw [scopedOf_hash_seed_independent σ hσ]
  rw [this]
  exact x_history_independent _ h

/-- C18.1x  `SimpleFormula._reorder` as modelled is a STABLE sort by degree: a permutation of the terms, in
non-decreasing degree, and the identity on a formula that already is in degree order (so neither the
re-sort after `insert` / `__setitem__` nor its absence after `__delitem__` depends on anything but the
terms and their order: no hash, no history). -/
theorem reorder_is_stable_sort (f : Formula) :
    (reorder f).Perm f ∧ FormulaicVerif.Proofs.C18Edit.Sorted (reorder f)
    ∧ (FormulaicVerif.Proofs.C18Edit.Sorted f → reorder f = f) :=
  ⟨FormulaicVerif.Proofs.C18Edit.reorder_perm f, FormulaicVerif.Proofs.C18Edit.reorder_sorted f,
    FormulaicVerif.Proofs.C18Edit.reorder_of_sorted f⟩

/-- C18.1x  In every history whose `Formula(...)` objects start in degree order (the parser emits them
so), EVERY formula object is in degree order at every moment, whatever the caller edits: the term
order a later build sees is a function of the terms present and the order they were put in. -/
theorem formula_objects_stay_in_degree_order (h : List XOp)
    (hs : ∀ op ∈ h, ∀ f, op = .formula f → FormulaicVerif.Proofs.C18Edit.Sorted f) :
    ∀ f ∈ (xfinal P XWorld.init h).forms, FormulaicVerif.Proofs.C18Edit.Sorted f :=
  FormulaicVerif.Proofs.C18Edit.xfinal_forms_sorted P h XWorld.init (by intro f hf; simp [XWorld.init] at hf) hs

/-- the sequence protocol as modelled, on `1 + center(x) + C(a)`: `insert(0, z)` re-sorts by degree
(the intercept stays first), `append(x:z)`, `F[1] = b`, `del F[0]` (no re-sort), `del F[10]` -/
example : applyEdit [[], ["center(x)"], ["C(a)"]] (.insert 0 ["z"]) = .ok [[], ["z"], ["center(x)"], ["C(a)"]]
    ∧ applyEdit [[], ["z"], ["center(x)"], ["C(a)"]] (.append ["x", "z"])
        = .ok [[], ["z"], ["center(x)"], ["C(a)"], ["x", "z"]]
    ∧ applyEdit [[], ["z"], ["center(x)"]] (.set 1 ["b"]) = .ok [[], ["b"], ["center(x)"]]
    ∧ applyEdit [[], ["b"], ["center(x)"]] (.del 0) = .ok [["b"], ["center(x)"]]
    ∧ applyEdit [["b"], ["center(x)"]] (.insert (-1) ["x", "z", "a"]) = .ok [["b"], ["center(x)"], ["x", "z", "a"]]
    ∧ applyEdit [["b"], ["center(x)"]] (.del 10) = .error .indexError
    ∧ applyEdit [["b"], ["center(x)"]] (.del (-2)) = .ok [["center(x)"]] := by decide

/-- non-vacuity: `F = Formula('center(x)'); s = ModelSpec(formula=F); s.get_model_matrix(d1);
F.append(z); s.get_model_matrix(d2)` — the spec sees the edit (second reuse has two terms), and the
failing `del F[5]` in between changes nothing -/
example : (xrun P₀ XWorld.init [.formula [["center(x)"]], .newSpec 0 ⟨true, .drop⟩, .call [0] none 1,
      .edit 0 (.append ["z"]), .edit 0 (.del 5), .call [0] none 2]).map
        (fun o => o.toOption.map (List.map (·.terms)))
    = [some [], some [], some [[["center(x)"]]], some [], none, some [[["center(x)"], ["z"]]]] := by decide

/-! ### Specs given as STRINGS, the `.` wildcard

A build of a string parses it there and then into new formula objects (`formula` operations) and
builds those.  `Model/HeapDot.lean` computes what a string with `.` is parsed to: a function of the
string (as a template), the columns of the data set of THIS call and the variables of the string's
OWN left-hand side. -/

/-- C18.2x  Interleaving one-sided and two-sided string specs on any shared objects: after ANY history —
other strings parsed before on the same materializer object or with the same context mapping,
two-sided ones with any left-hand sides included — parsing a string into the formulas `fs` and
building them gives exactly the outcome of building `fs` in the empty world.  (With `fs` the
expansion `HeapDot.expand cols lhsVars tmpl remove` of a `.` string: the third `"."` after `"y ~ ."`
gives what the first gave, `y` included.) -/
theorem string_build_is_history_independent (h : List XOp) (fs : List Formula) (cfg : Cfg) (d : Data) :
    (xstep P (xfinal P XWorld.init (h ++ fs.map XOp.formula))
        (.build (List.range' (xfinal P XWorld.init h).forms.length fs.length) cfg d)).2
      = liftOut (pstep P [] (.build fs cfg d)).2 := by
  rw [x_call_is_pure, xpfinal_append]
  have hf : (xpfinal P XEnv.init h).forms.length = (xfinal P XWorld.init h).forms.length := by
    have e := (xrun_sim P h XWorld.init xinv_init).2.1
    have e' : xpfinal P XEnv.init h = xabs (xfinal P XWorld.init h) := e.symm
    rw [e']; rfl
  rw [← hf]
  exact xpstep_string_build P _ fs cfg d

/-- what `.` stands for, on a frame with the columns x, z, y, a, b: `"."` is every column; `"y ~ ."` every
column but `y`; `". - a"`; `"(.):b"` (where `b:b` is `b`, sorted first by degree); `"a ~ (.):b"` -/
example : FormulaicVerif.Model.HeapDot.expand ["x", "z", "y", "a", "b"] [] [[], ["."]] []
      = [[], ["x"], ["z"], ["y"], ["a"], ["b"]]
    ∧ FormulaicVerif.Model.HeapDot.expand ["x", "z", "y", "a", "b"] ["y"] [[], ["."]] []
      = [[], ["x"], ["z"], ["a"], ["b"]]
    ∧ FormulaicVerif.Model.HeapDot.expand ["x", "z", "y", "a", "b"] [] [[], ["."]] [["a"]]
      = [[], ["x"], ["z"], ["y"], ["b"]]
    ∧ FormulaicVerif.Model.HeapDot.expand ["x", "z", "y", "a", "b"] [] [[], [".", "b"]] []
      = [[], ["b"], ["x", "b"], ["z", "b"], ["y", "b"], ["a", "b"]]
    ∧ FormulaicVerif.Model.HeapDot.expand ["x", "z", "y", "a", "b"] ["a"] [[], [".", "b"]] []
      = [[], ["b"], ["x", "b"], ["z", "b"], ["y", "b"]] := by decide

end extended

/-! ## The layout of state the model assumes is the layout of the live package

`Gen/SpecState.lean` is regenerated from the installed package on every run (dataclass fields of
`ModelSpec`, members of `NAAction`, the methods of the sequence protocol `SimpleFormula` defines, and
four probed aliasing facts).  If a field holding a new mutable container is added to `ModelSpec`, a
spec stops holding the caller's formula object, `update()` stops sharing the state dictionaries or
materialization stops copying them, these statements change and no longer check. -/

section layout
open FormulaicVerif.Gen FormulaicVerif.Model.HeapX

/-- every per-instance mutable container of a `ModelSpec` (a dataclass field with a default factory) is
one of the two dictionaries the store model keeps in reference cells; every other field is carried
by value or constant; the dataclass is frozen; `NAAction` has the three members of the model -/
theorem state_layout_as_modelled :
    (SpecState.fields.filter fun p => p.2.1 = "factory").map (·.1) = modelledDictFields
    ∧ (SpecState.fields.filter fun p => p.2.1 = "factory").map (·.2.2) = ["dict", "dict"]
    ∧ (∀ n ∈ SpecState.fields.map (·.1), n ∈ modelledValueFields ++ passThroughFields ++ modelledDictFields)
    ∧ SpecState.frozen = true
    ∧ SpecState.naActions = [NAAction.drop, .raise, .ignore].map naPyName := by decide

/-- the sharing the store model builds in: a spec holds the caller's formula OBJECT (so do its
`update()` copies and the specs attached to produced matrices), `update()` copies share both state
dictionaries, materialization works on copies of them (`Mode.copy`) -/
theorem aliasing_as_modelled :
    SpecState.specHoldsFormulaObject = true ∧ SpecState.resultHoldsFormulaObject = true
    ∧ SpecState.updateSharesState = true ∧ SpecState.prepareCopiesState = true := by decide

/-- the edits of the model are the mutators `SimpleFormula` implements; every other mutating method
of the sequence protocol is the unchanged `collections.abc` mixin built on them -/
theorem sequence_protocol_as_modelled :
    SpecState.formulaOwnMutators = editPrimitives ∧ SpecState.formulaOtherMutators = []
    ∧ "append" ∈ SpecState.formulaMixinMutators := by decide

end layout

end FormulaicVerif.Props.C18
