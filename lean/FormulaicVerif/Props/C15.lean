import FormulaicVerif.Model.Parser
import FormulaicVerif.Proofs.C15
/-! # C15 — Lexing is whitespace-insensitive, quote-faithful and normalises Python code

Property theorems only (helpers: `Proofs/C15.lean`), about `Model.tokenize`/`Model.lexStep`, the
functions the correspondence engine runs against the real `tokenize`.

Proved for ALL inputs: a backtick-quoted body (any characters of any class except backtick and
backslash) is ONE name token with the body verbatim and the span from the opening quote to the last
body character; unquoted whitespace is a no-op after an operator / between tokens and otherwise only
ends the pending token.

FULL (unproved): `ws_insensitive` for whole strings (tokens of `u ++ ws ++ v` equal those of
`u ++ v` up to spans at every safe gap) — missing: the lemma that token texts/kinds do not depend on
the source indices threaded through the loop; `spans_ordered` (all spans ordered and disjoint) and
`brace_verbatim`/`call_verbatim` — covered by the correspondence and the span/verbatim oracles only.
The backslash exclusion in `backtick_verbatim` is not decoration: known finding C15-F1. -/
namespace FormulaicVerif.Props.C15
open FormulaicVerif FormulaicVerif.Model

deriving instance DecidableEq for Except

/-- C15.2  Backtick quoting is verbatim. -/
theorem backtick_verbatim (body : List CharInfo) (bq eq : CharInfo)
    (hb : ∀ ci ∈ body, Proofs.C15.QuoteSafe ci) (hne : body ≠ []) (h1 : bq.c = '`') (h2 : eq.c = '`') :
    tokenize (bq :: body ++ [eq]) =
      .ok [{ text := body.map (·.c), kind := some .name, start := some 0, stop := some body.length }] :=
  Proofs.C15.backtick_verbatim body bq eq hb hne h1 h2

/-- a name made only of operator characters, brackets, quotes and a space is one token -/
example : tokenize ("`a+(b] '\"|~ {`".toList.map (fun c => { c := c, word := c.isAlpha, space := c == ' ' }))
    = .ok [{ text := "a+(b] '\"|~ {".toList, kind := some .name, start := some 0, stop := some 12 }] := by decide +kernel

/-- the excluded case is genuinely different (known finding C15-F1): a trailing backslash swallows the closing quote -/
example : tokenize ("`a\\`".toList.map (fun c => { c := c, word := c.isAlpha, space := false }))
    = .error .unterminated := by decide +kernel

/-- C15.1a  Unquoted whitespace after an operator token, or where no token is pending, leaves the
lexer state unchanged: adding or removing it there cannot change any token. -/
theorem whitespace_noop (s : LexState) (i : Nat) (ci : CharInfo)
    (hq : s.qc = []) (ht : s.take = 0) (hsp : ci.space = true)
    (hc : ci.c ∉ ['%', '{', '`', '(', '[', ')', ']'])
    (hp : s.tok.nonempty = false ∨ s.tok.kind = some .operator) :
    lexStep s i ci = .ok s :=
  Proofs.C15.whitespace_noop s i ci hq ht hsp hc hp

/-- C15.1b  Unquoted whitespace after a name, value or Python token only ends that token. -/
theorem whitespace_flushes (s : LexState) (i : Nat) (ci : CharInfo)
    (hq : s.qc = []) (ht : s.take = 0) (hsp : ci.space = true)
    (hc : ci.c ∉ ['%', '{', '`', '(', '[', ')', ']'])
    (hp : s.tok.nonempty = true ∧ s.tok.kind ≠ some .operator) :
    lexStep s i ci = .ok { s with out := s.tok :: s.out, tok := Tok.fresh } :=
  Proofs.C15.whitespace_flushes s i ci hq ht hsp hc hp

/-- whitespace is significant exactly where the property does not promise otherwise: between a name and `(` -/
example :
    (tokenize ("f(x)".toList.map (fun c => { c := c, word := c.isAlpha, space := c == ' ' }))).map (·.length) = .ok 1 ∧
    (tokenize ("f (x)".toList.map (fun c => { c := c, word := c.isAlpha, space := c == ' ' }))).map (·.length) = .ok 4 := by
  decide +kernel

end FormulaicVerif.Props.C15
