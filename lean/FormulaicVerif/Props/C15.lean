import FormulaicVerif.Model.Parser
import FormulaicVerif.Proofs.C15
import FormulaicVerif.Proofs.C15Spans
import FormulaicVerif.Proofs.C15Ws
import FormulaicVerif.Proofs.C15Text
import FormulaicVerif.Proofs.C15Kinds
import FormulaicVerif.Proofs.C15Quote
import FormulaicVerif.Proofs.C15Call
import FormulaicVerif.Proofs.C15Exact
import FormulaicVerif.Proofs.C15Formula
import FormulaicVerif.Proofs.C15Alias
import FormulaicVerif.Proofs.C15Restore
import FormulaicVerif.Proofs.C15Loop
import FormulaicVerif.Proofs.C15Unique
import FormulaicVerif.Proofs.C15Token
/-! # C15 — Lexing is whitespace-insensitive, quote-faithful and normalises Python code

Property theorems only (helpers: `Proofs/C15.lean`), about `Model.tokenize`/`Model.lexStep`, the
functions the correspondence engine runs against the real `tokenize`.

Proved for ALL inputs: every token of every successfully tokenised string has a span inside the
string and the spans are strictly ordered and disjoint (invariant of the character loop, 20-odd
branches); a backtick-quoted body (any characters of any class except backtick and
backslash) is ONE name token with the body verbatim and the span from the opening quote to the last
body character; unquoted whitespace is a no-op after an operator / between tokens and otherwise only
ends the pending token.

Whole-string whitespace insensitivity is `ws_insensitive` below (one whitespace character inserted at
any safe gap; iterate for arbitrary re-spacing).

Also proved for ALL inputs (one case analysis of the loop, `Proofs/C15Step.lean`, instantiated with
two invariants): `span_delimits_text` (each token's text is a subsequence of the source characters
inside its span, ends with the character at `stop`, and starts with the character at `start` unless
that is the quote character that opened the token) and `tokens_have_kinds` (every emitted token has a
kind and a non-empty text). `quoted_verbatim`/`brace_verbatim`: `{body}`, `` `body` `` and `%body%`
are ONE token with the body verbatim whenever the body leaves the quote stack as it found it.

`call_verbatim` (`Proofs/C15Call.lean`): a call-style fragment at top level — a run of word characters
that is not a number, directly followed by `(body)` or `[body]` whose body leaves the quote stack as it
found it — is ONE python token with the text verbatim and the span of the fragment; so is a chain
`name(…)[…](…)` (`call_chain_verbatim`) and a dotted name `np.log(…)` (`dotted_call_verbatim`). The
closing bracket is appended and the token stays pending; it is emitted by the end of the input
(`call_at_end`, after any prefix that ends at top level with nothing / an operator / a Python token
pending) or by whatever character follows other than `(`, `[` or a string quote (`call_then`, which
holds of the token STREAM, i.e. even if the rest of the input is rejected).
`token_text_exact` (`Proofs/C15Exact.lean`, an invariant of all branches of the loop) strengthens
`span_delimits_text` from "subsequence" to equality: the span and the kind determine the text.

`ws_insensitive_formula` (`Proofs/C15Formula.lean`) lifts `ws_insensitive` from the token list to the
PARSED FORMULA: no stage downstream of the tokenizer (token sanitisation, the `0`/`~`/`|`/intercept
rewrites, sign merging, the shunting yard, the evaluation of the tree, `Formula`'s simplification and
ordering) looks at a source span, so whitespace at a safe gap changes neither the terms nor the
accept/reject outcome nor the class of the error.

The alias pass of `utils/code.py` and the restoration of `sanitize_python_code` (`Model/PyAlias.lean`,
run against the real functions on every check) have theorems of their own: the scan is a partition of
the fragment (`alias_scan_partition`), every alias is an ASCII identifier that is not a keyword, not a
word of the code and not in use for anything else (`alias_is_identifier`), the suffix loop stops
(`alias_loop_terminates`), no name has two aliases (`alias_unique_per_name`), the sanitised fragment is the fragment with each back-quoted name replaced
by an alias the table maps back to that name (`alias_table_faithful`), and the restoration undoes the
alias pass for EVERY fragment (`restore_roundtrip`, `normal_form_of_formatted`). What stays outside
Lean is CPython's `ast.parse`/`ast.unparse` (that two formattings of one expression have the same
unparse, and that unparse leaves identifiers whole).

`Token`'s other methods (`Model/TokenMethods.lean`): `kind_to_factor`, `leaf_factor_agrees`,
`source_context_marks_span`, `split_keeps_text_and_span`.

The backslash exclusion in `backtick_verbatim` is not decoration: known finding C15-F1. -/
namespace FormulaicVerif.Props.C15
open FormulaicVerif FormulaicVerif.Model

deriving instance DecidableEq for Except

/-- C15.2  Backtick quoting is verbatim. -/
theorem backtick_verbatim (body : List CharInfo) (bq eq : CharInfo)
    (hb : ∀ ci ∈ body, Proofs.C15.QuoteSafe ci) (hne : body ≠ []) (h1 : bq.c = '`') (h2 : eq.c = '`') :
    tokenize (bq :: body ++ [eq]) =
      .ok [{ text := body.map (·.c), kind := some .name, start := some 0, stop := some body.length }] :=
  Proofs.C15.backtick_verbatim body bq eq hb hne h1 h2

/-- a name made only of operator characters, brackets, quotes and a space is one token -/
example : tokenize ("`a+(b] '\"|~ {`".toList.map (fun c => { c := c, word := c.isAlpha, space := c == ' ' }))
    = .ok [{ text := "a+(b] '\"|~ {".toList, kind := some .name, start := some 0, stop := some 12 }] := by decide +kernel

/-- the excluded case is genuinely different (known finding C15-F1): a trailing backslash swallows the closing quote -/
example : tokenize ("`a\\`".toList.map (fun c => { c := c, word := c.isAlpha, space := false }))
    = .error .unterminated := by decide +kernel

/-- C15.1a  Unquoted whitespace after an operator token, or where no token is pending, leaves the
lexer state unchanged: adding or removing it there cannot change any token. -/
theorem whitespace_noop (s : LexState) (i : Nat) (ci : CharInfo)
    (hq : s.qc = []) (ht : s.take = 0) (hsp : ci.space = true)
    (hc : ci.c ∉ ['%', '{', '`', '(', '[', ')', ']'])
    (hp : s.tok.nonempty = false ∨ s.tok.kind = some .operator) :
    lexStep s i ci = .ok s :=
  Proofs.C15.whitespace_noop s i ci hq ht hsp hc hp

/-- C15.1b  Unquoted whitespace after a name, value or Python token only ends that token. -/
theorem whitespace_flushes (s : LexState) (i : Nat) (ci : CharInfo)
    (hq : s.qc = []) (ht : s.take = 0) (hsp : ci.space = true)
    (hc : ci.c ∉ ['%', '{', '`', '(', '[', ')', ']'])
    (hp : s.tok.nonempty = true ∧ s.tok.kind ≠ some .operator) :
    lexStep s i ci = .ok { s with out := s.tok :: s.out, tok := Tok.fresh } :=
  Proofs.C15.whitespace_flushes s i ci hq ht hsp hc hp

/-- C15.4  Spans are ordered and non-overlapping: for EVERY string that tokenises, each token has
`start ≤ stop < length`, and each token ends strictly before the next one starts. (This is the
statement that failed for `%%]*` before the stale-token repair.) -/
theorem spans_ordered (cs : List CharInfo) (ts : List Tok) (h : tokenize cs = .ok ts) :
    (∀ t ∈ ts, Proofs.C15Spans.HasSpan cs.length t) ∧ ts.Pairwise Proofs.C15Spans.Before :=
  Proofs.C15Spans.spans_ordered cs ts h

/-- C15.1  **Whitespace insensitivity for whole strings.** Let `u` be any prefix after which no quote
context is open and the pending token is empty or an operator (i.e. a point around an operator or a
grouping bracket, or between tokens). Inserting an unquoted whitespace character there changes no
token text or kind of `u ++ v`, for every continuation `v`; and the string with the whitespace is
rejected iff the one without it is. (Spans shift, which is why they are erased in the statement.) -/
theorem ws_insensitive (u v : List CharInfo) (w : CharInfo) (s : LexState)
    (hu : lexLoop u 0 {} = (s, none)) (hq : s.qc = []) (ht : s.take = 0)
    (hsp : w.space = true) (hc : w.c ∉ ['%', '{', '`', '(', '[', ')', ']'])
    (hp : s.tok.nonempty = false ∨ s.tok.kind = some .operator) :
    (tokenize (u ++ w :: v)).toOption.map (·.map Proofs.C15Ws.erase)
      = (tokenize (u ++ v)).toOption.map (·.map Proofs.C15Ws.erase) :=
  Proofs.C15Ws.ws_insensitive u v w s hu hq ht hsp hc hp

/-- C15.1'  Token texts and kinds never depend on the positions threaded through the loop: running
the lexer from two states that differ only in recorded spans, at different offsets, gives states that
differ only in recorded spans (and fails in one iff it fails in the other). -/
theorem positions_irrelevant (cs : List CharInfo) (i j : Nat) (s s' : LexState) (h : Proofs.C15Ws.E s s') :
    Proofs.C15Ws.E (lexLoop cs i s).1 (lexLoop cs j s').1 ∧
      (lexLoop cs i s).2.isSome = (lexLoop cs j s').2.isSome :=
  Proofs.C15Ws.lexLoop_R cs i j s s' h

/-- whitespace is significant exactly where the property does not promise otherwise: between a name and `(` -/
example :
    (tokenize ("f(x)".toList.map (fun c => { c := c, word := c.isAlpha, space := c == ' ' }))).map (·.length) = .ok 1 ∧
    (tokenize ("f (x)".toList.map (fun c => { c := c, word := c.isAlpha, space := c == ' ' }))).map (·.length) = .ok 4 := by
  decide +kernel

/-- C15.5  **The span delimits the text.** For EVERY string that tokenises and every token of it:
the span `start = a ≤ stop = b` lies inside the string; the token's text is a subsequence, in order,
of the source characters at positions `a … b` (nothing from outside the span, nothing reordered; what
may be missing is unquoted whitespace inside an operator run, and the opening quote character); the
last character of the text is the source character at `b`; and the first character of the text is the
source character at `a` — unless position `a` holds the `%`, `{` or backtick that opened the token, in
which case the text is a subsequence of positions `a+1 … b`. -/
theorem span_delimits_text (cs : List CharInfo) (ts : List Tok) (h : tokenize cs = .ok ts) :
    ∀ t ∈ ts, ∃ a b, t.start = some a ∧ t.stop = some b ∧ a ≤ b ∧ b < cs.length ∧
      t.text.Sublist (((cs.map (·.c)).drop a).take (b + 1 - a)) ∧
      t.text.getLast? = (cs.map (·.c))[b]? ∧
      (t.text.head? = (cs.map (·.c))[a]? ∨
        (((cs.map (·.c))[a]? = some '%' ∨ (cs.map (·.c))[a]? = some '{' ∨ (cs.map (·.c))[a]? = some '`') ∧
          t.text.Sublist (((cs.map (·.c)).drop (a + 1)).take (b - a)))) :=
  Proofs.C15Text.span_delimits_text cs ts h

/-- the hypothesis is satisfiable, and "subsequence" cannot be improved to "equal": the operator run
`~ - +` has text `~-+` with span 2…6, and the backtick name `a b` has span 7…10 starting at its quote -/
example : tokenize ("y ~ - +`a b`:{f(x)+1}".toList.map
      (fun c => { c := c, word := c.isAlphanum, space := c == ' ' }))
    = .ok [{ text := "y".toList, kind := some .name, start := some 0, stop := some 0 },
           { text := "~-+".toList, kind := some .operator, start := some 2, stop := some 6 },
           { text := "a b".toList, kind := some .name, start := some 7, stop := some 10 },
           { text := ":".toList, kind := some .operator, start := some 12, stop := some 12 },
           { text := "f(x)+1".toList, kind := some .python, start := some 13, stop := some 19 }] := by
  decide +kernel

/-- C15.6  Every token of every string that tokenises has a kind and a non-empty text. (Inside the
loop a kind-less pending token exists only while it is still empty, at top level; an empty quoted
token such as `{}` is dropped, not emitted.) -/
theorem tokens_have_kinds (cs : List CharInfo) (ts : List Tok) (h : tokenize cs = .ok ts) :
    ∀ t ∈ ts, t.kind ≠ none ∧ t.text ≠ [] :=
  Proofs.C15Kinds.tokens_have_kinds cs ts h

/-- empty quotes give no token at all (rather than a token with empty text) -/
example : tokenize ("a{}+%%``".toList.map (fun c => { c := c, word := c.isAlphanum, space := c == ' ' }))
    = .ok [{ text := "a".toList, kind := some .name, start := some 0, stop := some 0 },
           { text := "+".toList, kind := some .operator, start := some 3, stop := some 3 }] := by
  decide +kernel

/-- C15.3  **Quoted tokens are verbatim** (general form). If the body of `{body}`, `` `body` `` or
`%body%` is non-empty and leaves the quote stack as it found it — `Proofs.C15Quote.qRun` is the
stack machine: brackets and string quotes opened inside `{…}` are closed again, escapes are complete,
the outer closer is not met early — the string is ONE token of the quote's kind (python / name /
operator) whose text is the body, character for character. -/
theorem quoted_verbatim (body : List CharInfo) (op cl : CharInfo) (c : Char) (k : TKind)
    (ho : Proofs.C15Quote.Opener op.c c k) (hcl : cl.c = c) (hne : body ≠ [])
    (hrun : Proofs.C15Quote.qRun [c] 0 (body.map (·.c)) = some ([c], 0)) :
    tokenize (op :: body ++ [cl]) =
      .ok [{ text := body.map (·.c), kind := some k, start := some 0, stop := some body.length }] :=
  Proofs.C15Quote.quoted_verbatim body op cl c k ho hcl hne hrun

/-- C15.3a  A brace-quoted Python fragment containing no backslash, brace, backtick, string quote or
opening bracket is ONE python token whose text is the fragment verbatim. -/
theorem brace_verbatim (body : List CharInfo) (ob cb : CharInfo)
    (hb : ∀ ci ∈ body, Proofs.C15Quote.BraceSafe ci) (hne : body ≠ []) (h1 : ob.c = '{') (h2 : cb.c = '}') :
    tokenize (ob :: body ++ [cb]) =
      .ok [{ text := body.map (·.c), kind := some .python, start := some 0, stop := some body.length }] :=
  Proofs.C15Quote.brace_verbatim body ob cb hb hne h1 h2

/-- operators, spaces, closing brackets and `%` inside braces are all kept -/
example : tokenize ("{x + 1) %*~}".toList.map (fun c => { c := c, word := c.isAlphanum, space := c == ' ' }))
    = .ok [{ text := "x + 1) %*~".toList, kind := some .python, start := some 0, stop := some 10 }] := by
  decide +kernel

/-- the balanced case is covered by `quoted_verbatim`: a closing brace inside a string inside a call,
an index, a backtick name — the stack machine returns to `['}']` -/
example : Proofs.C15Quote.qRun ['}'] 0 "f(\"}\", [1, 2])['k'] + `x`".toList = some (['}'], 0) := by
  decide +kernel

/-- the side conditions are not decoration: an escaped closer and an unclosed bracket swallow the closing brace -/
example :
    tokenize ("{a\\}".toList.map (fun c => { c := c, word := c.isAlphanum, space := false })) = .error .unterminated ∧
    tokenize ("{a(}".toList.map (fun c => { c := c, word := c.isAlphanum, space := false })) = .error .unterminated := by
  decide +kernel

/-- C15.7  **Calls are verbatim.** `name` is a run of word characters (by the character-class data;
none of them whitespace, a quote, a bracket, `%`, `{` or a backtick) at least one of which is not a
digit or a dot; `op`/`cl` are `(`/`)` or `[`/`]`; the body leaves the quote stack `[cl]` as it found
it (strings and nested brackets closed, escapes complete, the closer not met early). Then
`name(body)` is ONE python token whose text is the whole fragment, character for character, spanning
the whole fragment. -/
theorem call_verbatim (name body : List CharInfo) (op cl : CharInfo) (c : Char)
    (hname : Proofs.C15Call.IsName name) (hb : Proofs.C15Call.Bracket op.c c) (hcl : cl.c = c)
    (hrun : Proofs.C15Quote.qRun [c] 0 (body.map (·.c)) = some ([c], 0)) :
    tokenize (name ++ op :: body ++ [cl]) =
      .ok [{ text := (name ++ op :: body ++ [cl]).map (·.c), kind := some .python, start := some 0,
             stop := some (name.length + body.length + 1) }] :=
  Proofs.C15Call.call_verbatim name body op cl c hname hb hcl hrun

/-- C15.7a  The same for a chain of bracket groups after the name: `f(x)[0](y)` is ONE python token. -/
theorem call_chain_verbatim (name : List CharInfo) (gs : List Proofs.C15Call.Group)
    (hname : Proofs.C15Call.IsName name) (hgs : gs ≠ []) (hbal : ∀ g ∈ gs, g.Balanced) :
    tokenize (name ++ Proofs.C15Call.chain gs) =
      .ok [{ text := (name ++ Proofs.C15Call.chain gs).map (·.c), kind := some .python, start := some 0,
             stop := some ((name ++ Proofs.C15Call.chain gs).length - 1) }] :=
  Proofs.C15Call.call_chain_verbatim name gs hname hgs hbal

/-- C15.7b  A dot is a name character wherever the character-class data say so (`[\.\_\w]`):
`np.log(body)` is ONE python token. -/
theorem dotted_call_verbatim (a b body : List CharInfo) (dot op cl : CharInfo) (c : Char)
    (ha : ∀ ci ∈ a, Proofs.C15Call.NameChar ci) (hb : ∀ ci ∈ b, Proofs.C15Call.NameChar ci)
    (hd : dot.c = '.') (hw : dot.word = true) (hsp : dot.space = false)
    (hnn : ∃ ci ∈ a ++ b, isNumericChar ci.c = false)
    (hbr : Proofs.C15Call.Bracket op.c c) (hcl : cl.c = c)
    (hrun : Proofs.C15Quote.qRun [c] 0 (body.map (·.c)) = some ([c], 0)) :
    tokenize ((a ++ dot :: b) ++ op :: body ++ [cl]) =
      .ok [{ text := ((a ++ dot :: b) ++ op :: body ++ [cl]).map (·.c), kind := some .python, start := some 0,
             stop := some ((a ++ dot :: b).length + body.length + 1) }] :=
  Proofs.C15Call.dotted_call_verbatim a b body dot op cl c ha hb hd hw hsp hnn hbr hcl hrun

/-- C15.7c  **A call in context, at the end of the input.** `u` is any prefix after which the lexer is
at top level with nothing pending, or with an operator or Python token pending (`Start`). Then the
call fragment is the LAST token, one python token with the fragment verbatim, spanning exactly the
fragment; before it come the tokens of the prefix. -/
theorem call_at_end (u name : List CharInfo) (gs : List Proofs.C15Call.Group) (s : LexState)
    (hu : lexLoop u 0 {} = (s, none)) (hs : Proofs.C15Call.Start s)
    (hname : Proofs.C15Call.IsName name) (hgs : gs ≠ []) (hbal : ∀ g ∈ gs, g.Balanced) :
    tokenize (u ++ (name ++ Proofs.C15Call.chain gs)) =
      .ok (s.flush.out.reverse ++ [Proofs.C15Call.callTok (name ++ Proofs.C15Call.chain gs) u.length]) :=
  Proofs.C15Call.call_at_end u name gs s hu hs hname hgs hbal

/-- C15.7d  **A call in context, followed by more input.** The closing bracket leaves the token
pending; ANY next character other than `(`, `[` (which continue the token) and a string quote (which
is rejected) emits it. So in the token stream of `u ++ call ++ nx :: rest` — whatever `rest` is, even
if it makes the lexer fail later — the call token comes directly after the tokens of the prefix. -/
theorem call_then (u name : List CharInfo) (gs : List Proofs.C15Call.Group) (nx : CharInfo)
    (rest : List CharInfo) (s : LexState)
    (hu : lexLoop u 0 {} = (s, none)) (hs : Proofs.C15Call.Start s)
    (hname : Proofs.C15Call.IsName name) (hgs : gs ≠ []) (hbal : ∀ g ∈ gs, g.Balanced)
    (hnx : Proofs.C15Call.Ender nx) :
    ∃ ts', (tokenizeStream (u ++ (name ++ Proofs.C15Call.chain gs) ++ nx :: rest)).1 =
      s.flush.out.reverse ++ Proofs.C15Call.callTok (name ++ Proofs.C15Call.chain gs) u.length :: ts' :=
  Proofs.C15Call.call_then u name gs nx rest s hu hs hname hgs hbal hnx

/-- the character classes used in the examples below: letters, digits, `_` and `.` are word characters -/
def exampleClass (c : Char) : CharInfo := { c := c, word := c.isAlphanum || c == '_' || c == '.', space := c == ' ' }

/-- a dotted call with a closing bracket inside a string argument, then an index: ONE token -/
example : tokenize ("np.log(x, \"a)b\")[0]".toList.map exampleClass)
    = .ok [{ text := "np.log(x, \"a)b\")[0]".toList, kind := some .python, start := some 0, stop := some 18 }] := by
  decide +kernel

/-- and the hypotheses of `call_chain_verbatim` hold of it: the theorem applies -/
example : tokenize ("np.log(x, \"a)b\")[0]".toList.map exampleClass)
    = .ok [{ text := "np.log(x, \"a)b\")[0]".toList, kind := some .python, start := some 0, stop := some 18 }] :=
  call_chain_verbatim ("np.log".toList.map exampleClass)
    [⟨exampleClass '(', "x, \"a)b\"".toList.map exampleClass, exampleClass ')'⟩,
     ⟨exampleClass '[', "0".toList.map exampleClass, exampleClass ']'⟩]
    (by decide +kernel) (by simp)
    (by
      intro g hg
      simp only [List.mem_cons, List.mem_nil_iff, or_false] at hg
      rcases hg with rfl | rfl
      · exact ⟨')', by decide +kernel, by decide +kernel, by decide +kernel⟩
      · exact ⟨']', by decide +kernel, by decide +kernel, by decide +kernel⟩)

/-- in context: after `y ~ ` the pending token is the operator `~`; the call is emitted by the `+` -/
example : tokenize ("y ~ f(a b)+g[1:2]".toList.map exampleClass)
    = .ok [{ text := "y".toList, kind := some .name, start := some 0, stop := some 0 },
           { text := "~".toList, kind := some .operator, start := some 2, stop := some 2 },
           { text := "f(a b)".toList, kind := some .python, start := some 4, stop := some 9 },
           { text := "+".toList, kind := some .operator, start := some 10, stop := some 10 },
           { text := "g[1:2]".toList, kind := some .python, start := some 11, stop := some 16 }] := by
  decide +kernel

/-- the corner in the side condition on the name: digits and dots only make a `value`, after which the
bracket is a grouping bracket of its own; but ONE other word character (`1e5`) makes it a name, and
then `1e5(x)` is a call -/
example :
    tokenize ("1.5(x)".toList.map exampleClass)
      = .ok [{ text := "1.5".toList, kind := some .value, start := some 0, stop := some 2 },
             { text := "(".toList, kind := some .context, start := some 3, stop := some 3 },
             { text := "x".toList, kind := some .name, start := some 4, stop := some 4 },
             { text := ")".toList, kind := some .context, start := some 5, stop := some 5 }] ∧
    tokenize ("1e5(x)".toList.map exampleClass)
      = .ok [{ text := "1e5(x)".toList, kind := some .python, start := some 0, stop := some 5 }] := by
  decide +kernel

/-- the condition on the body is not decoration: an escaped closer swallows the closing bracket; and
the condition on what follows (`Ender`) neither: a string quote directly after a call is rejected -/
example :
    tokenize ("f(a\\)".toList.map exampleClass) = .error .unterminated ∧
    tokenize ("f(a)\"b\"".toList.map exampleClass) = .error (.unexpectedQuote 4) := by
  decide +kernel

/-- C15.5'  **The span determines the text** (the exact form of `span_delimits_text`). For EVERY string
that tokenises and every token of it, with span `a … b` inside the string:
if position `a` holds `%`, `{` or a backtick, that character opened the token and the text is exactly
the source at `a+1 … b`; otherwise, if the token is an operator, the text is exactly the source at
`a … b` with the whitespace characters (by the character-class data) removed; otherwise — names,
values, Python fragments, brackets — the text is exactly the source at `a … b`. -/
theorem token_text_exact (cs : List CharInfo) (ts : List Tok) (h : tokenize cs = .ok ts) :
    ∀ t ∈ ts, ∃ a b, t.start = some a ∧ t.stop = some b ∧ a ≤ b ∧ b < cs.length ∧
      let src := cs.map (·.c)
      let quoted := src[a]? = some '%' ∨ src[a]? = some '{' ∨ src[a]? = some '`'
      (¬quoted ∧ t.kind ≠ some .operator ∧ t.text = Proofs.C15Text.slice src a b) ∨
      (quoted ∧ a < b ∧ t.text = Proofs.C15Text.slice src (a + 1) b) ∨
      (¬quoted ∧ t.kind = some .operator ∧
        t.text = ((Proofs.C15Exact.cslice cs a b).filter (fun ci => !ci.space)).map (·.c)) :=
  Proofs.C15Exact.token_text_exact cs ts h

/-- all three cases occur in one string: `y` and `f(x )` are the source at their spans, `~-` is the
source at 2…5 without its two spaces, and `a b` is the source after the backtick at 6 -/
example : tokenize ("y ~  -`a b`+f(x )".toList.map exampleClass)
    = .ok [{ text := "y".toList, kind := some .name, start := some 0, stop := some 0 },
           { text := "~-".toList, kind := some .operator, start := some 2, stop := some 5 },
           { text := "a b".toList, kind := some .name, start := some 6, stop := some 9 },
           { text := "+".toList, kind := some .operator, start := some 11, stop := some 11 },
           { text := "f(x )".toList, kind := some .python, start := some 12, stop := some 16 }] := by
  decide +kernel

/-! ## Whitespace at the level of the parsed formula -/

/-- C15.1b  **Whitespace insensitivity of the parsed formula.** Same hypotheses as `ws_insensitive`
(`u` is any prefix after which no quote is open and the pending token is empty or an operator: a
point around an operator or a grouping bracket, or between tokens). For every parser configuration,
every continuation `v` and every CPython environment (`norm`, variables): `Formula(u ++ w ++ v)` and
`Formula(u ++ v)` are the SAME value (same structure, same terms, same factors, same order), and so
are `get_terms`; if one is rejected so is the other, with the same class of exception (`normE` only
forgets the explanatory text of a syntax error). -/
theorem ws_insensitive_formula (cfg : ParseCfg) (env : PyEnv) (u v : List CharInfo) (w : CharInfo) (s : LexState)
    (hu : lexLoop u 0 {} = (s, none)) (hq : s.qc = []) (ht : s.take = 0)
    (hsp : w.space = true) (hc : w.c ∉ ['%', '{', '`', '(', '[', ')', ']'])
    (hp : s.tok.nonempty = false ∨ s.tok.kind = some .operator) :
    Proofs.C15Formula.normE (formulaOfString cfg env (u ++ w :: v)) = Proofs.C15Formula.normE (formulaOfString cfg env (u ++ v)) ∧
    Proofs.C15Formula.normE (parseTerms cfg env (u ++ w :: v)) = Proofs.C15Formula.normE (parseTerms cfg env (u ++ v)) :=
  Proofs.C15Formula.ws_insensitive_formula cfg env u v w s hu hq ht hsp hc hp

/-- the hypotheses hold after `y ~` (the pending token is the operator `~`): a space may be inserted there -/
example : (lexLoop ("y ~".toList.map exampleClass) 0 {}).2 = none ∧
    (lexLoop ("y ~".toList.map exampleClass) 0 {}).1.qc = [] ∧ (lexLoop ("y ~".toList.map exampleClass) 0 {}).1.take = 0 ∧
    (lexLoop ("y ~".toList.map exampleClass) 0 {}).1.tok.kind = some .operator := by decide +kernel

/-- C15.1c  The general principle behind it: two strings whose token STREAMS agree up to source spans
(and that are both lexed completely or both not) have the same parsed formula. -/
theorem formula_ignores_spans (cfg : ParseCfg) (env : PyEnv) (cs1 cs2 : List CharInfo)
    (h1 : (tokenizeStream cs1).1.map Proofs.C15Ws.erase = (tokenizeStream cs2).1.map Proofs.C15Ws.erase)
    (h2 : (tokenizeStream cs1).2.isSome = (tokenizeStream cs2).2.isSome) :
    Proofs.C15Formula.normE (formulaOfString cfg env cs1) = Proofs.C15Formula.normE (formulaOfString cfg env cs2) :=
  Proofs.C15Formula.formulaOfString_congr cfg env cs1 cs2 h1 h2

/-- C15.1d  **Any re-spacing.** `Respaced` is the equivalence generated by inserting one unquoted
whitespace character at a safe gap (after a prefix that leaves no quote open and the pending token
empty or an operator): adding AND removing whitespace there, any number of times, in any order. Two
strings related by it have the same `Formula` and the same `get_terms` (or are both rejected, with the
same class of exception), for every parser configuration and every CPython environment. -/
theorem respacing_keeps_formula (cfg : ParseCfg) (env : PyEnv) (a b : List CharInfo) (h : Proofs.C15Formula.Respaced a b) :
    Proofs.C15Formula.normE (formulaOfString cfg env a) = Proofs.C15Formula.normE (formulaOfString cfg env b) ∧
    Proofs.C15Formula.normE (parseTerms cfg env a) = Proofs.C15Formula.normE (parseTerms cfg env b) :=
  Proofs.C15Formula.respaced_formula cfg env h

/-- `y ~a` and `y ~ a` are related: after `y ~` the pending token is the operator `~` — a safe gap -/
example : Proofs.C15Formula.Respaced ("y ~a".toList.map exampleClass) ("y ~ a".toList.map exampleClass) :=
  Proofs.C15Formula.Respaced.insert ("y ~".toList.map exampleClass) ("a".toList.map exampleClass) (exampleClass ' ')
    ⟨_, rfl, by decide +kernel, by decide +kernel, by decide +kernel⟩ ⟨by decide +kernel, by decide +kernel⟩

/-! ## Python fragments: the alias pass and the restoration (`utils/code.py`, `sanitize_python_code`) -/

open FormulaicVerif.Model.PyAlias in
/-- C15.8  **The scan is a partition.** For EVERY fragment the parts of
`UNQUOTED_BACKTICK_MATCHER.split(expr)` put side by side are the fragment, and they alternate
text, match, text, …, text where a match is a whole back-quoted name or a literal that begins and ends
with a character that is not an ASCII word character. -/
theorem alias_scan_partition (expr : List Char) :
    (split expr).flatMap Part.source = expr ∧ Proofs.C15Alias.Alt (split expr) :=
  ⟨Proofs.C15Alias.split_source expr, Proofs.C15Alias.split_alt expr⟩

open FormulaicVerif.Model.PyAlias in
/-- a quote inside a back-quoted name does not start a string (the repaired defect C15-F3), a string
ending in an escaped backslash ends there (repaired defect e171077), an unterminated back-quote is text -/
example : split "f(`it's`, 'a\\\\', `b c`, \"d\") + `e".toList =
    [.text "f(".toList, .name "it's".toList, .text ", ".toList, .lit "'a\\\\'".toList, .text ", ".toList,
     .name "b c".toList, .text ", ".toList, .lit "\"d\"".toList, .text ") + `e".toList] := by decide +kernel

open FormulaicVerif.Model.PyAlias in
/-- a backslash takes the next character with it, inside strings and inside back-quoted names -/
example : split "g('a\\'b', `c\\`d`)".toList =
    [.text "g(".toList, .lit "'a\\'b'".toList, .text ", ".toList, .name "c\\`d".toList, .text ")".toList] := by decide +kernel

open FormulaicVerif.Model.PyAlias in
/-- an escaped quote outside a string is a match of its own; an unterminated string is text, and a
back-quoted name after it is still found -/
example : split "\\\"`a`\\\" + 'b + `c d`".toList =
    [.text [], .lit "\\\"".toList, .text [], .name "a".toList, .text [], .lit "\\\"".toList,
     .text " + 'b + ".toList, .name "c d".toList, .text []] := by decide +kernel

open FormulaicVerif.Model.PyAlias in
/-- C15.9  **Aliases are identifiers.** Whatever `sanitize_variable_name` returns is either the name
itself — only with the template `{}`, for a name CPython accepts as an NFKC-stable identifier, that is
not a keyword and does not already serve as the alias of another name — or an ASCII identifier
(ASCII word characters, at least one, the first not a digit: it comes back unchanged from Python's
parser) that is not refused by the loop condition: not the alias of another name, not a key of `env`
unless it is this name's own alias, not a keyword, not a word of the code. -/
theorem alias_is_identifier (cfg : Cfg) (x : Ctx) (name a : List Char) (copy : Bool)
    (hp : Proofs.C15Alias.GoodPrefix cfg.pre) (h : sanitizeName cfg x name = some (a, copy)) :
    (a = name ∧ cfg.pre = [] ∧ cfg.ident name = true ∧ isKeyword name = false ∧ getOr x.al name name = true) ∨
    (Proofs.C15Alias.AsciiIdent a ∧ taken x name a = false) :=
  Proofs.C15Alias.sanitizeName_spec cfg x name a copy hp h

/-- both templates of the library satisfy the hypothesis -/
example : Proofs.C15Alias.GoodPrefix Model.PyAlias.formulaicPrefix ∧ Proofs.C15Alias.GoodPrefix [] ∧
    Model.PyAlias.formulaicPrefix ≠ [] := by
  refine ⟨⟨by decide +kernel, by decide +kernel⟩, ⟨by simp, by simp⟩, by decide +kernel⟩

open FormulaicVerif.Model.PyAlias in
/-- C15.10  **The suffix loop stops**, whatever the alias table, the environment, the reserved words and
the name are: the model never reports an exhausted bound, i.e. `sanitize_variable_names` is total. -/
theorem alias_loop_terminates (cfg : Cfg) (isSpace : Char → Bool) (env : List (List Char)) (expr : List Char) :
    ∃ r, sanitizeNames cfg isSpace env expr = some r :=
  Proofs.C15Loop.sanitizeNames_total cfg isSpace env expr

open FormulaicVerif.Model.PyAlias in
/-- C15.11  **The alias table is faithful.** With the template of `sanitize_python_code` (any non-empty
prefix of ASCII word characters not starting with a digit), for EVERY fragment: the sanitised text is
the fragment in which each part that is a back-quoted name `b` is replaced by ` a ` where `a` is a
non-empty run of ASCII word characters that the FINAL alias table maps back to `b` (later names never
overwrite an earlier alias), all other parts verbatim; no key of the table is a word of the code. -/
theorem alias_table_faithful (cfg : Cfg) (isSpace : Char → Bool) (env : List (List Char)) (expr s1 : List Char)
    (al : Aliases) (added : List (List Char × List Char))
    (hgp : Proofs.C15Alias.GoodPrefix cfg.pre) (hnp : cfg.pre ≠ [])
    (h : sanitizeNames cfg isSpace env expr = some (s1, al, added)) :
    ∃ r, Proofs.C15Alias.RenderedAll al (split expr) r ∧ s1 = strip isSpace r ∧
      Proofs.C15Alias.KeysOK (reservedWords (split expr)) al := by
  unfold sanitizeNames at h
  simp only at h
  cases hr : run cfg (reservedWords (split expr)) (split expr) { env := env } with
  | none => simp [hr] at h
  | some s =>
    simp only [hr, Option.some.injEq, Prod.mk.injEq] at h
    obtain ⟨h1, h2, _⟩ := h
    have hk0 : Proofs.C15Alias.KeysOK (reservedWords (split expr)) ({ env := env } : State).al := by
      intro k v hl; simp [lookup] at hl
    obtain ⟨_, hk, r, hren, hout⟩ := Proofs.C15Alias.run_spec cfg _ hgp hnp (split expr) _ s hk0 hr
    exact ⟨r, h2 ▸ hren, by rw [← h1, hout]; simp, h2 ▸ hk⟩

open FormulaicVerif.Model.PyAlias in
/-- C15.11a  **One alias per name.** With the template of `sanitize_python_code`, for EVERY fragment and
every environment: in the alias table no name has two aliases — a second occurrence of a name walks
through the same refused candidates and stops at the alias the name was given first — and (the table
being a dictionary) no alias stands for two names. -/
theorem alias_unique_per_name (cfg : Cfg) (isSpace : Char → Bool) (env : List (List Char)) (expr s1 : List Char)
    (al : Aliases) (added : List (List Char × List Char)) (hnp : cfg.pre ≠ [])
    (h : sanitizeNames cfg isSpace env expr = some (s1, al, added)) :
    ∀ k k' v, lookup al k = some v → lookup al k' = some v → k = k' :=
  Proofs.C15Unique.sanitizeNames_unique cfg isSpace env expr s1 al added hnp h

open FormulaicVerif.Model.PyAlias in
/-- `a b` and `a|b` would both become `_formulaic_a_b`: the second gets the suffix, both times it occurs -/
example :
    (sanitizeNames { pre := formulaicPrefix, ident := fun _ => false } (· == ' ') []
        "f(`a b`, `a|b`, `a b`, `a|b`)".toList).map (fun r => (String.ofList r.1, r.2.1.map (fun p => (String.ofList p.1, String.ofList p.2))))
    = some ("f( _formulaic_a_b ,  _formulaic_a_b_1 ,  _formulaic_a_b ,  _formulaic_a_b_1 )",
            [("_formulaic_a_b", "a b"), ("_formulaic_a_b_1", "a|b")]) := by decide +kernel

open FormulaicVerif.Model.PyAlias in
/-- C15.12  **Restoration undoes the alias pass**, for EVERY fragment (quotes inside names, backslashes,
unterminated quotes, words that look like aliases, names that contain alias text): applying the
restoration of `sanitize_python_code` to the sanitised fragment gives the fragment back — every
back-quoted name in its place with one space on either side, everything else untouched, the whole
stripped of outer whitespace. (`SpaceOK`: no ASCII word character and not the back-quote is whitespace.) -/
theorem restore_roundtrip (cfg : Cfg) (isSpace : Char → Bool) (env : List (List Char)) (expr s1 : List Char)
    (al : Aliases) (added : List (List Char × List Char))
    (hgp : Proofs.C15Alias.GoodPrefix cfg.pre) (hnp : cfg.pre ≠ []) (hp : Proofs.C15Restore.SpaceOK isSpace)
    (h : sanitizeNames cfg isSpace env expr = some (s1, al, added)) :
    restore al s1 = strip isSpace ((split expr).map Proofs.C15Restore.target).flatten :=
  Proofs.C15Restore.restore_sanitize cfg isSpace env expr s1 al added hgp hnp hp h

/-- ASCII whitespace satisfies `SpaceOK` -/
example : Proofs.C15Restore.SpaceOK (fun c => c == ' ' || c == '\t' || c == '\n') :=
  ⟨by intro c h; rcases (by simpa using h : (c = ' ' ∨ c = '\t') ∨ c = '\n') with (rfl | rfl) | rfl <;> decide, by decide⟩

open FormulaicVerif.Model.PyAlias in
/-- the round trip on a fragment with a quote inside a name, a look-alike identifier, a look-alike word
in a string and a name that contains alias text (all four were defects of the code before its repair) -/
example :
    (sanitizeNames { pre := formulaicPrefix, ident := fun _ => false } (· == ' ') []
        "f(`it's`, _formulaic_it_s, '_formulaic_a_b', `a b`, `_formulaic_a_b c`)".toList).map
      (fun r => (String.ofList r.1, String.ofList (restore r.2.1 r.1)))
    = some ("f( _formulaic_it_s_1 , _formulaic_it_s, '_formulaic_a_b',  _formulaic_a_b_1 ,  _formulaic__formulaic_a_b_c )",
            "f( `it's` , _formulaic_it_s, '_formulaic_a_b',  `a b` ,  `_formulaic_a_b c` )") := by
  decide +kernel

open FormulaicVerif.Model.PyAlias in
/-- C15.13  **The normal form of a fragment that is already formatted.** If `format_expr` (CPython) leaves
the sanitised fragment as it is, `sanitize_python_code` returns the fragment itself, padded and
stripped as above: for such fragments the whole normalisation is the identity on names and code. -/
theorem normal_form_of_formatted (isSpace : Char → Bool) (fmt : List Char → Except Err (List Char)) (expr : List Char)
    (hp : Proofs.C15Restore.SpaceOK isSpace) (hfmt : ∀ s, fmt s = .ok s) :
    sanitizePythonCode isSpace fmt expr = .ok (strip isSpace ((split expr).map Proofs.C15Restore.target).flatten) := by
  unfold sanitizePythonCode
  obtain ⟨r, hr⟩ := Proofs.C15Loop.sanitizeNames_total { pre := formulaicPrefix, ident := fun _ => false } isSpace [] expr
  obtain ⟨s1, al, added⟩ := r
  simp only [hr, hfmt]
  rw [Proofs.C15Restore.restore_sanitize _ isSpace [] expr s1 al added ⟨by decide +kernel, by decide +kernel⟩
    (by decide +kernel) hp hr]

/-- the hypothesis on `fmt` is satisfied by the formatter that changes nothing -/
example : ∀ s : List Char, (Except.ok : List Char → Except Model.PyAlias.Err (List Char)) s = .ok s := fun _ => rfl

/-! ## `Token` methods -/

/-- C15.14  The kind → evaluation-method table of `Token.to_factor` (read from the live class): names are
looked up, Python tokens evaluated, values literal; operator and context tokens raise `KeyError`, a
token without a kind `RuntimeError`. -/
theorem kind_to_factor :
    Model.TokM.evalOfKind (some .name) = .ok .lookup ∧ Model.TokM.evalOfKind (some .python) = .ok .python ∧
    Model.TokM.evalOfKind (some .value) = .ok .literal ∧ Model.TokM.evalOfKind (some .operator) = .error .keyError ∧
    Model.TokM.evalOfKind (some .context) = .error .keyError ∧ Model.TokM.evalOfKind none = .error .runtimeError :=
  Proofs.C15Token.evalOfKind_table

/-- C15.14a  The factor the parser model makes of a leaf token is the factor `Token.to_factor` makes. -/
theorem leaf_factor_agrees (t : Tok) (f : Factor) (h : Model.TokM.toFactor t = .ok f) : termOfTok t = [f] :=
  Proofs.C15Token.termOfTok_toFactor t f h

/-- C15.15  **The source context marks the span.** For EVERY string that tokenises and every token of
it, with span `a … b`: `get_source_context()` is the source with the two markers inserted before
position `a` and after position `b` (with `colorize=True`, as in error messages, the colour escape
sequences just inside the markers) — removing them gives the source back — and what stands between
them is exactly the slice that `token_text_exact` relates to the token's text. -/
theorem source_context_marks_span (cs : List CharInfo) (ts : List Tok) (h : tokenize cs = .ok ts) (colorize : Bool) :
    ∀ t ∈ ts, ∃ a b, t.start = some a ∧ t.stop = some b ∧ a ≤ b ∧ b < cs.length ∧
      Model.TokM.sourceContext (some (cs.map (·.c))) t colorize =
        some ((cs.map (·.c)).take a ++ Gen.contextLeft.toList ++ (if colorize then Gen.contextColorOn.toList else [])
          ++ Model.TokM.slice (cs.map (·.c)) a b ++ (if colorize then Gen.contextColorOff.toList else [])
          ++ Gen.contextRight.toList ++ (cs.map (·.c)).drop (b + 1)) ∧
      (cs.map (·.c)).take a ++ Model.TokM.slice (cs.map (·.c)) a b ++ (cs.map (·.c)).drop (b + 1) = cs.map (·.c) := by
  intro t ht
  obtain ⟨a, b, ha, hb, hab, hbl, _⟩ := Proofs.C15Exact.token_text_exact cs ts h t ht
  refine ⟨a, b, ha, hb, hab, hbl, ?_, Proofs.C15Token.take_slice_drop _ a b hab⟩
  have hne : cs.map (·.c) ≠ [] := by
    intro hnil
    have : cs = [] := by simpa using hnil
    subst this
    simp at hbl
  exact Proofs.C15Token.sourceContext_eq (cs.map (·.c)) t a b colorize hne ha hb

/-- C15.16  **`Token.split` cuts the text and nothing else**: for every token, every literal pattern and
both flags, the texts of the pieces put side by side are the token's text, and every piece keeps the
kind and the source span of the token (so after the parser has split an operator run such as `~-`, each
piece still points at the run it came from). -/
theorem split_keeps_text_and_span (t : Tok) (pat : List Char) (after before : Bool) :
    ((Model.TokM.split t pat after before).map (·.text)).flatten = t.text ∧
      ∀ u ∈ Model.TokM.split t pat after before, u.kind = t.kind ∧ u.start = t.start ∧ u.stop = t.stop :=
  Proofs.C15Token.split_spec t pat after before

/-- C15.16a  The split the parser model applies to operator runs at `~` and `|` (`Model.splitAfter`,
inside `insertOneAfter`) IS `Token.split(pattern, after=True)` as modelled here — and that model is
compared with the real method on every run. -/
theorem parser_split_is_token_split (t : Tok) (c : Char) :
    (Model.TokM.split t [c] true false).map (·.text) = splitAfter c t.text :=
  Proofs.C15Token.split_after_eq_splitAfter t c

/-- `~-~` split after every `~`: pieces `~`, `-~`; empty pieces appear with `before` when a match starts the text -/
example :
    (Model.TokM.split { text := "~-~".toList, kind := some .operator, start := some 2, stop := some 4 } ['~'] true false).map (·.text)
      = ["~".toList, "-~".toList] ∧
    (Model.TokM.split { text := "~-~".toList, kind := some .operator, start := some 2, stop := some 4 } ['~'] false true).map (·.text)
      = ["".toList, "~-".toList, "~".toList] := by decide +kernel

end FormulaicVerif.Props.C15
