import FormulaicVerif.Model.Parser
import FormulaicVerif.Proofs.C15
import FormulaicVerif.Proofs.C15Spans
import FormulaicVerif.Proofs.C15Ws
/-! # C15 — Lexing is whitespace-insensitive, quote-faithful and normalises Python code

Property theorems only (helpers: `Proofs/C15.lean`), about `Model.tokenize`/`Model.lexStep`, the
functions the correspondence engine runs against the real `tokenize`.

Proved for ALL inputs: every token of every successfully tokenised string has a span inside the
string and the spans are strictly ordered and disjoint (invariant of the character loop, 20-odd
branches); a backtick-quoted body (any characters of any class except backtick and
backslash) is ONE name token with the body verbatim and the span from the opening quote to the last
body character; unquoted whitespace is a no-op after an operator / between tokens and otherwise only
ends the pending token.

Whole-string whitespace insensitivity is `ws_insensitive` below (one whitespace character inserted at
any safe gap; iterate for arbitrary re-spacing).

FULL (unproved): `span_delimits_text` (the span slices back to the token
text) and `brace_verbatim`/`call_verbatim` — covered by the correspondence and the span/verbatim
oracles only.
The backslash exclusion in `backtick_verbatim` is not decoration: known finding C15-F1. -/
namespace FormulaicVerif.Props.C15
open FormulaicVerif FormulaicVerif.Model

deriving instance DecidableEq for Except

/-- C15.2  Backtick quoting is verbatim. -/
theorem backtick_verbatim (body : List CharInfo) (bq eq : CharInfo)
    (hb : ∀ ci ∈ body, Proofs.C15.QuoteSafe ci) (hne : body ≠ []) (h1 : bq.c = '`') (h2 : eq.c = '`') :
    tokenize (bq :: body ++ [eq]) =
      .ok [{ text := body.map (·.c), kind := some .name, start := some 0, stop := some body.length }] :=
  Proofs.C15.backtick_verbatim body bq eq hb hne h1 h2

/-- a name made only of operator characters, brackets, quotes and a space is one token -/
example : tokenize ("`a+(b] '\"|~ {`".toList.map (fun c => { c := c, word := c.isAlpha, space := c == ' ' }))
    = .ok [{ text := "a+(b] '\"|~ {".toList, kind := some .name, start := some 0, stop := some 12 }] := by decide +kernel

/-- the excluded case is genuinely different (known finding C15-F1): a trailing backslash swallows the closing quote -/
example : tokenize ("`a\\`".toList.map (fun c => { c := c, word := c.isAlpha, space := false }))
    = .error .unterminated := by decide +kernel

/-- C15.1a  Unquoted whitespace after an operator token, or where no token is pending, leaves the
lexer state unchanged: adding or removing it there cannot change any token. -/
theorem whitespace_noop (s : LexState) (i : Nat) (ci : CharInfo)
    (hq : s.qc = []) (ht : s.take = 0) (hsp : ci.space = true)
    (hc : ci.c ∉ ['%', '{', '`', '(', '[', ')', ']'])
    (hp : s.tok.nonempty = false ∨ s.tok.kind = some .operator) :
    lexStep s i ci = .ok s :=
  Proofs.C15.whitespace_noop s i ci hq ht hsp hc hp

/-- C15.1b  Unquoted whitespace after a name, value or Python token only ends that token. -/
theorem whitespace_flushes (s : LexState) (i : Nat) (ci : CharInfo)
    (hq : s.qc = []) (ht : s.take = 0) (hsp : ci.space = true)
    (hc : ci.c ∉ ['%', '{', '`', '(', '[', ')', ']'])
    (hp : s.tok.nonempty = true ∧ s.tok.kind ≠ some .operator) :
    lexStep s i ci = .ok { s with out := s.tok :: s.out, tok := Tok.fresh } :=
  Proofs.C15.whitespace_flushes s i ci hq ht hsp hc hp

/-- C15.4  Spans are ordered and non-overlapping: for EVERY string that tokenises, each token has
`start ≤ stop < length`, and each token ends strictly before the next one starts. (This is the
statement that failed for `%%]*` before the stale-token repair.) -/
theorem spans_ordered (cs : List CharInfo) (ts : List Tok) (h : tokenize cs = .ok ts) :
    (∀ t ∈ ts, Proofs.C15Spans.HasSpan cs.length t) ∧ ts.Pairwise Proofs.C15Spans.Before :=
  Proofs.C15Spans.spans_ordered cs ts h

/-- C15.1  **Whitespace insensitivity for whole strings.** Let `u` be any prefix after which no quote
context is open and the pending token is empty or an operator (i.e. a point around an operator or a
grouping bracket, or between tokens). Inserting an unquoted whitespace character there changes no
token text or kind of `u ++ v`, for every continuation `v`; and the string with the whitespace is
rejected iff the one without it is. (Spans shift, which is why they are erased in the statement.) -/
theorem ws_insensitive (u v : List CharInfo) (w : CharInfo) (s : LexState)
    (hu : lexLoop u 0 {} = (s, none)) (hq : s.qc = []) (ht : s.take = 0)
    (hsp : w.space = true) (hc : w.c ∉ ['%', '{', '`', '(', '[', ')', ']'])
    (hp : s.tok.nonempty = false ∨ s.tok.kind = some .operator) :
    (tokenize (u ++ w :: v)).toOption.map (·.map Proofs.C15Ws.erase)
      = (tokenize (u ++ v)).toOption.map (·.map Proofs.C15Ws.erase) :=
  Proofs.C15Ws.ws_insensitive u v w s hu hq ht hsp hc hp

/-- C15.1'  Token texts and kinds never depend on the positions threaded through the loop: running
the lexer from two states that differ only in recorded spans, at different offsets, gives states that
differ only in recorded spans (and fails in one iff it fails in the other). -/
theorem positions_irrelevant (cs : List CharInfo) (i j : Nat) (s s' : LexState) (h : Proofs.C15Ws.E s s') :
    Proofs.C15Ws.E (lexLoop cs i s).1 (lexLoop cs j s').1 ∧
      (lexLoop cs i s).2.isSome = (lexLoop cs j s').2.isSome :=
  Proofs.C15Ws.lexLoop_R cs i j s s' h

/-- whitespace is significant exactly where the property does not promise otherwise: between a name and `(` -/
example :
    (tokenize ("f(x)".toList.map (fun c => { c := c, word := c.isAlpha, space := c == ' ' }))).map (·.length) = .ok 1 ∧
    (tokenize ("f (x)".toList.map (fun c => { c := c, word := c.isAlpha, space := c == ' ' }))).map (·.length) = .ok 4 := by
  decide +kernel

end FormulaicVerif.Props.C15
