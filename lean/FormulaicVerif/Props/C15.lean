import FormulaicVerif.Model.Parser
/-! # C15 (work in progress) -/
namespace FormulaicVerif.Props.C15
end FormulaicVerif.Props.C15
