import FormulaicVerif.Model.Parser
import FormulaicVerif.Proofs.C15
import FormulaicVerif.Proofs.C15Spans
import FormulaicVerif.Proofs.C15Ws
import FormulaicVerif.Proofs.C15Text
import FormulaicVerif.Proofs.C15Kinds
import FormulaicVerif.Proofs.C15Quote
import FormulaicVerif.Proofs.C15Call
import FormulaicVerif.Proofs.C15Exact
/-! # C15 — Lexing is whitespace-insensitive, quote-faithful and normalises Python code

Property theorems only (helpers: `Proofs/C15.lean`), about `Model.tokenize`/`Model.lexStep`, the
functions the correspondence engine runs against the real `tokenize`.

Proved for ALL inputs: every token of every successfully tokenised string has a span inside the
string and the spans are strictly ordered and disjoint (invariant of the character loop, 20-odd
branches); a backtick-quoted body (any characters of any class except backtick and
backslash) is ONE name token with the body verbatim and the span from the opening quote to the last
body character; unquoted whitespace is a no-op after an operator / between tokens and otherwise only
ends the pending token.

Whole-string whitespace insensitivity is `ws_insensitive` below (one whitespace character inserted at
any safe gap; iterate for arbitrary re-spacing).

Also proved for ALL inputs (one case analysis of the loop, `Proofs/C15Step.lean`, instantiated with
two invariants): `span_delimits_text` (each token's text is a subsequence of the source characters
inside its span, ends with the character at `stop`, and starts with the character at `start` unless
that is the quote character that opened the token) and `tokens_have_kinds` (every emitted token has a
kind and a non-empty text). `quoted_verbatim`/`brace_verbatim`: `{body}`, `` `body` `` and `%body%`
are ONE token with the body verbatim whenever the body leaves the quote stack as it found it.

`call_verbatim` (`Proofs/C15Call.lean`): a call-style fragment at top level — a run of word characters
that is not a number, directly followed by `(body)` or `[body]` whose body leaves the quote stack as it
found it — is ONE python token with the text verbatim and the span of the fragment; so is a chain
`name(…)[…](…)` (`call_chain_verbatim`) and a dotted name `np.log(…)` (`dotted_call_verbatim`). The
closing bracket is appended and the token stays pending; it is emitted by the end of the input
(`call_at_end`, after any prefix that ends at top level with nothing / an operator / a Python token
pending) or by whatever character follows other than `(`, `[` or a string quote (`call_then`, which
holds of the token STREAM, i.e. even if the rest of the input is rejected).
`token_text_exact` (`Proofs/C15Exact.lean`, an invariant of all branches of the loop) strengthens
`span_delimits_text` from "subsequence" to equality: the span and the kind determine the text.

Nothing of C15 is left unproved.
The backslash exclusion in `backtick_verbatim` is not decoration: known finding C15-F1. -/
namespace FormulaicVerif.Props.C15
open FormulaicVerif FormulaicVerif.Model

deriving instance DecidableEq for Except

/-- C15.2  Backtick quoting is verbatim. -/
theorem backtick_verbatim (body : List CharInfo) (bq eq : CharInfo)
    (hb : ∀ ci ∈ body, Proofs.C15.QuoteSafe ci) (hne : body ≠ []) (h1 : bq.c = '`') (h2 : eq.c = '`') :
    tokenize (bq :: body ++ [eq]) =
      .ok [{ text := body.map (·.c), kind := some .name, start := some 0, stop := some body.length }] :=
  Proofs.C15.backtick_verbatim body bq eq hb hne h1 h2

/-- a name made only of operator characters, brackets, quotes and a space is one token -/
example : tokenize ("`a+(b] '\"|~ {`".toList.map (fun c => { c := c, word := c.isAlpha, space := c == ' ' }))
    = .ok [{ text := "a+(b] '\"|~ {".toList, kind := some .name, start := some 0, stop := some 12 }] := by decide +kernel

/-- the excluded case is genuinely different (known finding C15-F1): a trailing backslash swallows the closing quote -/
example : tokenize ("`a\\`".toList.map (fun c => { c := c, word := c.isAlpha, space := false }))
    = .error .unterminated := by decide +kernel

/-- C15.1a  Unquoted whitespace after an operator token, or where no token is pending, leaves the
lexer state unchanged: adding or removing it there cannot change any token. -/
theorem whitespace_noop (s : LexState) (i : Nat) (ci : CharInfo)
    (hq : s.qc = []) (ht : s.take = 0) (hsp : ci.space = true)
    (hc : ci.c ∉ ['%', '{', '`', '(', '[', ')', ']'])
    (hp : s.tok.nonempty = false ∨ s.tok.kind = some .operator) :
    lexStep s i ci = .ok s :=
  Proofs.C15.whitespace_noop s i ci hq ht hsp hc hp

/-- C15.1b  Unquoted whitespace after a name, value or Python token only ends that token. -/
theorem whitespace_flushes (s : LexState) (i : Nat) (ci : CharInfo)
    (hq : s.qc = []) (ht : s.take = 0) (hsp : ci.space = true)
    (hc : ci.c ∉ ['%', '{', '`', '(', '[', ')', ']'])
    (hp : s.tok.nonempty = true ∧ s.tok.kind ≠ some .operator) :
    lexStep s i ci = .ok { s with out := s.tok :: s.out, tok := Tok.fresh } :=
  Proofs.C15.whitespace_flushes s i ci hq ht hsp hc hp

/-- C15.4  Spans are ordered and non-overlapping: for EVERY string that tokenises, each token has
`start ≤ stop < length`, and each token ends strictly before the next one starts. (This is the
statement that failed for `%%]*` before the stale-token repair.) -/
theorem spans_ordered (cs : List CharInfo) (ts : List Tok) (h : tokenize cs = .ok ts) :
    (∀ t ∈ ts, Proofs.C15Spans.HasSpan cs.length t) ∧ ts.Pairwise Proofs.C15Spans.Before :=
  Proofs.C15Spans.spans_ordered cs ts h

/-- C15.1  **Whitespace insensitivity for whole strings.** Let `u` be any prefix after which no quote
context is open and the pending token is empty or an operator (i.e. a point around an operator or a
grouping bracket, or between tokens). Inserting an unquoted whitespace character there changes no
token text or kind of `u ++ v`, for every continuation `v`; and the string with the whitespace is
rejected iff the one without it is. (Spans shift, which is why they are erased in the statement.) -/
theorem ws_insensitive (u v : List CharInfo) (w : CharInfo) (s : LexState)
    (hu : lexLoop u 0 {} = (s, none)) (hq : s.qc = []) (ht : s.take = 0)
    (hsp : w.space = true) (hc : w.c ∉ ['%', '{', '`', '(', '[', ')', ']'])
    (hp : s.tok.nonempty = false ∨ s.tok.kind = some .operator) :
    (tokenize (u ++ w :: v)).toOption.map (·.map Proofs.C15Ws.erase)
      = (tokenize (u ++ v)).toOption.map (·.map Proofs.C15Ws.erase) :=
  Proofs.C15Ws.ws_insensitive u v w s hu hq ht hsp hc hp

/-- C15.1'  Token texts and kinds never depend on the positions threaded through the loop: running
the lexer from two states that differ only in recorded spans, at different offsets, gives states that
differ only in recorded spans (and fails in one iff it fails in the other). -/
theorem positions_irrelevant (cs : List CharInfo) (i j : Nat) (s s' : LexState) (h : Proofs.C15Ws.E s s') :
    Proofs.C15Ws.E (lexLoop cs i s).1 (lexLoop cs j s').1 ∧
      (lexLoop cs i s).2.isSome = (lexLoop cs j s').2.isSome :=
  Proofs.C15Ws.lexLoop_R cs i j s s' h

/-- whitespace is significant exactly where the property does not promise otherwise: between a name and `(` -/
example :
    (tokenize ("f(x)".toList.map (fun c => { c := c, word := c.isAlpha, space := c == ' ' }))).map (·.length) = .ok 1 ∧
    (tokenize ("f (x)".toList.map (fun c => { c := c, word := c.isAlpha, space := c == ' ' }))).map (·.length) = .ok 4 := by
  decide +kernel

/-- C15.5  **The span delimits the text.** For EVERY string that tokenises and every token of it:
the span `start = a ≤ stop = b` lies inside the string; the token's text is a subsequence, in order,
of the source characters at positions `a … b` (nothing from outside the span, nothing reordered; what
may be missing is unquoted whitespace inside an operator run, and the opening quote character); the
last character of the text is the source character at `b`; and the first character of the text is the
source character at `a` — unless position `a` holds the `%`, `{` or backtick that opened the token, in
which case the text is a subsequence of positions `a+1 … b`. -/
theorem span_delimits_text (cs : List CharInfo) (ts : List Tok) (h : tokenize cs = .ok ts) :
    ∀ t ∈ ts, ∃ a b, t.start = some a ∧ t.stop = some b ∧ a ≤ b ∧ b < cs.length ∧
      t.text.Sublist (((cs.map (·.c)).drop a).take (b + 1 - a)) ∧
      t.text.getLast? = (cs.map (·.c))[b]? ∧
      (t.text.head? = (cs.map (·.c))[a]? ∨
        (((cs.map (·.c))[a]? = some '%' ∨ (cs.map (·.c))[a]? = some '{' ∨ (cs.map (·.c))[a]? = some '`') ∧
          t.text.Sublist (((cs.map (·.c)).drop (a + 1)).take (b - a)))) :=
  Proofs.C15Text.span_delimits_text cs ts h

/-- the hypothesis is satisfiable, and "subsequence" cannot be improved to "equal": the operator run
`~ - +` has text `~-+` with span 2…6, and the backtick name `a b` has span 7…10 starting at its quote -/
example : tokenize ("y ~ - +`a b`:{f(x)+1}".toList.map
      (fun c => { c := c, word := c.isAlphanum, space := c == ' ' }))
    = .ok [{ text := "y".toList, kind := some .name, start := some 0, stop := some 0 },
           { text := "~-+".toList, kind := some .operator, start := some 2, stop := some 6 },
           { text := "a b".toList, kind := some .name, start := some 7, stop := some 10 },
           { text := ":".toList, kind := some .operator, start := some 12, stop := some 12 },
           { text := "f(x)+1".toList, kind := some .python, start := some 13, stop := some 19 }] := by
  decide +kernel

/-- C15.6  Every token of every string that tokenises has a kind and a non-empty text. (Inside the
loop a kind-less pending token exists only while it is still empty, at top level; an empty quoted
token such as `{}` is dropped, not emitted.) -/
theorem tokens_have_kinds (cs : List CharInfo) (ts : List Tok) (h : tokenize cs = .ok ts) :
    ∀ t ∈ ts, t.kind ≠ none ∧ t.text ≠ [] :=
  Proofs.C15Kinds.tokens_have_kinds cs ts h

/-- empty quotes give no token at all (rather than a token with empty text) -/
example : tokenize ("a{}+%%``".toList.map (fun c => { c := c, word := c.isAlphanum, space := c == ' ' }))
    = .ok [{ text := "a".toList, kind := some .name, start := some 0, stop := some 0 },
           { text := "+".toList, kind := some .operator, start := some 3, stop := some 3 }] := by
  decide +kernel

/-- C15.3  **Quoted tokens are verbatim** (general form). If the body of `{body}`, `` `body` `` or
`%body%` is non-empty and leaves the quote stack as it found it — `Proofs.C15Quote.qRun` is the
stack machine: brackets and string quotes opened inside `{…}` are closed again, escapes are complete,
the outer closer is not met early — the string is ONE token of the quote's kind (python / name /
operator) whose text is the body, character for character. -/
theorem quoted_verbatim (body : List CharInfo) (op cl : CharInfo) (c : Char) (k : TKind)
    (ho : Proofs.C15Quote.Opener op.c c k) (hcl : cl.c = c) (hne : body ≠ [])
    (hrun : Proofs.C15Quote.qRun [c] 0 (body.map (·.c)) = some ([c], 0)) :
    tokenize (op :: body ++ [cl]) =
      .ok [{ text := body.map (·.c), kind := some k, start := some 0, stop := some body.length }] :=
  Proofs.C15Quote.quoted_verbatim body op cl c k ho hcl hne hrun

/-- C15.3a  A brace-quoted Python fragment containing no backslash, brace, backtick, string quote or
opening bracket is ONE python token whose text is the fragment verbatim. -/
theorem brace_verbatim (body : List CharInfo) (ob cb : CharInfo)
    (hb : ∀ ci ∈ body, Proofs.C15Quote.BraceSafe ci) (hne : body ≠ []) (h1 : ob.c = '{') (h2 : cb.c = '}') :
    tokenize (ob :: body ++ [cb]) =
      .ok [{ text := body.map (·.c), kind := some .python, start := some 0, stop := some body.length }] :=
  Proofs.C15Quote.brace_verbatim body ob cb hb hne h1 h2

/-- operators, spaces, closing brackets and `%` inside braces are all kept -/
example : tokenize ("{x + 1) %*~}".toList.map (fun c => { c := c, word := c.isAlphanum, space := c == ' ' }))
    = .ok [{ text := "x + 1) %*~".toList, kind := some .python, start := some 0, stop := some 10 }] := by
  decide +kernel

/-- the balanced case is covered by `quoted_verbatim`: a closing brace inside a string inside a call,
an index, a backtick name — the stack machine returns to `['}']` -/
example : Proofs.C15Quote.qRun ['}'] 0 "f(\"}\", [1, 2])['k'] + `x`".toList = some (['}'], 0) := by
  decide +kernel

/-- the side conditions are not decoration: an escaped closer and an unclosed bracket swallow the closing brace -/
example :
    tokenize ("{a\\}".toList.map (fun c => { c := c, word := c.isAlphanum, space := false })) = .error .unterminated ∧
    tokenize ("{a(}".toList.map (fun c => { c := c, word := c.isAlphanum, space := false })) = .error .unterminated := by
  decide +kernel

/-- C15.7  **Calls are verbatim.** `name` is a run of word characters (by the character-class data;
none of them whitespace, a quote, a bracket, `%`, `{` or a backtick) at least one of which is not a
digit or a dot; `op`/`cl` are `(`/`)` or `[`/`]`; the body leaves the quote stack `[cl]` as it found
it (strings and nested brackets closed, escapes complete, the closer not met early). Then
`name(body)` is ONE python token whose text is the whole fragment, character for character, spanning
the whole fragment. -/
theorem call_verbatim (name body : List CharInfo) (op cl : CharInfo) (c : Char)
    (hname : Proofs.C15Call.IsName name) (hb : Proofs.C15Call.Bracket op.c c) (hcl : cl.c = c)
    (hrun : Proofs.C15Quote.qRun [c] 0 (body.map (·.c)) = some ([c], 0)) :
    tokenize (name ++ op :: body ++ [cl]) =
      .ok [{ text := (name ++ op :: body ++ [cl]).map (·.c), kind := some .python, start := some 0,
             stop := some (name.length + body.length + 1) }] :=
  Proofs.C15Call.call_verbatim name body op cl c hname hb hcl hrun

/-- C15.7a  The same for a chain of bracket groups after the name: `f(x)[0](y)` is ONE python token. -/
theorem call_chain_verbatim (name : List CharInfo) (gs : List Proofs.C15Call.Group)
    (hname : Proofs.C15Call.IsName name) (hgs : gs ≠ []) (hbal : ∀ g ∈ gs, g.Balanced) :
    tokenize (name ++ Proofs.C15Call.chain gs) =
      .ok [{ text := (name ++ Proofs.C15Call.chain gs).map (·.c), kind := some .python, start := some 0,
             stop := some ((name ++ Proofs.C15Call.chain gs).length - 1) }] :=
  Proofs.C15Call.call_chain_verbatim name gs hname hgs hbal

/-- C15.7b  A dot is a name character wherever the character-class data say so (`[\.\_\w]`):
`np.log(body)` is ONE python token. -/
theorem dotted_call_verbatim (a b body : List CharInfo) (dot op cl : CharInfo) (c : Char)
    (ha : ∀ ci ∈ a, Proofs.C15Call.NameChar ci) (hb : ∀ ci ∈ b, Proofs.C15Call.NameChar ci)
    (hd : dot.c = '.') (hw : dot.word = true) (hsp : dot.space = false)
    (hnn : ∃ ci ∈ a ++ b, isNumericChar ci.c = false)
    (hbr : Proofs.C15Call.Bracket op.c c) (hcl : cl.c = c)
    (hrun : Proofs.C15Quote.qRun [c] 0 (body.map (·.c)) = some ([c], 0)) :
    tokenize ((a ++ dot :: b) ++ op :: body ++ [cl]) =
      .ok [{ text := ((a ++ dot :: b) ++ op :: body ++ [cl]).map (·.c), kind := some .python, start := some 0,
             stop := some ((a ++ dot :: b).length + body.length + 1) }] :=
  Proofs.C15Call.dotted_call_verbatim a b body dot op cl c ha hb hd hw hsp hnn hbr hcl hrun

/-- C15.7c  **A call in context, at the end of the input.** `u` is any prefix after which the lexer is
at top level with nothing pending, or with an operator or Python token pending (`Start`). Then the
call fragment is the LAST token, one python token with the fragment verbatim, spanning exactly the
fragment; before it come the tokens of the prefix. -/
theorem call_at_end (u name : List CharInfo) (gs : List Proofs.C15Call.Group) (s : LexState)
    (hu : lexLoop u 0 {} = (s, none)) (hs : Proofs.C15Call.Start s)
    (hname : Proofs.C15Call.IsName name) (hgs : gs ≠ []) (hbal : ∀ g ∈ gs, g.Balanced) :
    tokenize (u ++ (name ++ Proofs.C15Call.chain gs)) =
      .ok (s.flush.out.reverse ++ [Proofs.C15Call.callTok (name ++ Proofs.C15Call.chain gs) u.length]) :=
  Proofs.C15Call.call_at_end u name gs s hu hs hname hgs hbal

/-- C15.7d  **A call in context, followed by more input.** The closing bracket leaves the token
pending; ANY next character other than `(`, `[` (which continue the token) and a string quote (which
is rejected) emits it. So in the token stream of `u ++ call ++ nx :: rest` — whatever `rest` is, even
if it makes the lexer fail later — the call token comes directly after the tokens of the prefix. -/
theorem call_then (u name : List CharInfo) (gs : List Proofs.C15Call.Group) (nx : CharInfo)
    (rest : List CharInfo) (s : LexState)
    (hu : lexLoop u 0 {} = (s, none)) (hs : Proofs.C15Call.Start s)
    (hname : Proofs.C15Call.IsName name) (hgs : gs ≠ []) (hbal : ∀ g ∈ gs, g.Balanced)
    (hnx : Proofs.C15Call.Ender nx) :
    ∃ ts', (tokenizeStream (u ++ (name ++ Proofs.C15Call.chain gs) ++ nx :: rest)).1 =
      s.flush.out.reverse ++ Proofs.C15Call.callTok (name ++ Proofs.C15Call.chain gs) u.length :: ts' :=
  Proofs.C15Call.call_then u name gs nx rest s hu hs hname hgs hbal hnx

/-- the character classes used in the examples below: letters, digits, `_` and `.` are word characters -/
def exampleClass (c : Char) : CharInfo := { c := c, word := c.isAlphanum || c == '_' || c == '.', space := c == ' ' }

/-- a dotted call with a closing bracket inside a string argument, then an index: ONE token -/
example : tokenize ("np.log(x, \"a)b\")[0]".toList.map exampleClass)
    = .ok [{ text := "np.log(x, \"a)b\")[0]".toList, kind := some .python, start := some 0, stop := some 18 }] := by
  decide +kernel

/-- and the hypotheses of `call_chain_verbatim` hold of it: the theorem applies -/
example : tokenize ("np.log(x, \"a)b\")[0]".toList.map exampleClass)
    = .ok [{ text := "np.log(x, \"a)b\")[0]".toList, kind := some .python, start := some 0, stop := some 18 }] :=
  call_chain_verbatim ("np.log".toList.map exampleClass)
    [⟨exampleClass '(', "x, \"a)b\"".toList.map exampleClass, exampleClass ')'⟩,
     ⟨exampleClass '[', "0".toList.map exampleClass, exampleClass ']'⟩]
    (by decide +kernel) (by simp)
    (by
      intro g hg
      simp only [List.mem_cons, List.mem_nil_iff, or_false] at hg
      rcases hg with rfl | rfl
      · exact ⟨')', by decide +kernel, by decide +kernel, by decide +kernel⟩
      · exact ⟨']', by decide +kernel, by decide +kernel, by decide +kernel⟩)

/-- in context: after `y ~ ` the pending token is the operator `~`; the call is emitted by the `+` -/
example : tokenize ("y ~ f(a b)+g[1:2]".toList.map exampleClass)
    = .ok [{ text := "y".toList, kind := some .name, start := some 0, stop := some 0 },
           { text := "~".toList, kind := some .operator, start := some 2, stop := some 2 },
           { text := "f(a b)".toList, kind := some .python, start := some 4, stop := some 9 },
           { text := "+".toList, kind := some .operator, start := some 10, stop := some 10 },
           { text := "g[1:2]".toList, kind := some .python, start := some 11, stop := some 16 }] := by
  decide +kernel

/-- the corner in the side condition on the name: digits and dots only make a `value`, after which the
bracket is a grouping bracket of its own; but ONE other word character (`1e5`) makes it a name, and
then `1e5(x)` is a call -/
example :
    tokenize ("1.5(x)".toList.map exampleClass)
      = .ok [{ text := "1.5".toList, kind := some .value, start := some 0, stop := some 2 },
             { text := "(".toList, kind := some .context, start := some 3, stop := some 3 },
             { text := "x".toList, kind := some .name, start := some 4, stop := some 4 },
             { text := ")".toList, kind := some .context, start := some 5, stop := some 5 }] ∧
    tokenize ("1e5(x)".toList.map exampleClass)
      = .ok [{ text := "1e5(x)".toList, kind := some .python, start := some 0, stop := some 5 }] := by
  decide +kernel

/-- the condition on the body is not decoration: an escaped closer swallows the closing bracket; and
the condition on what follows (`Ender`) neither: a string quote directly after a call is rejected -/
example :
    tokenize ("f(a\\)".toList.map exampleClass) = .error .unterminated ∧
    tokenize ("f(a)\"b\"".toList.map exampleClass) = .error (.unexpectedQuote 4) := by
  decide +kernel

/-- C15.5'  **The span determines the text** (the exact form of `span_delimits_text`). For EVERY string
that tokenises and every token of it, with span `a … b` inside the string:
if position `a` holds `%`, `{` or a backtick, that character opened the token and the text is exactly
the source at `a+1 … b`; otherwise, if the token is an operator, the text is exactly the source at
`a … b` with the whitespace characters (by the character-class data) removed; otherwise — names,
values, Python fragments, brackets — the text is exactly the source at `a … b`. -/
theorem token_text_exact (cs : List CharInfo) (ts : List Tok) (h : tokenize cs = .ok ts) :
    ∀ t ∈ ts, ∃ a b, t.start = some a ∧ t.stop = some b ∧ a ≤ b ∧ b < cs.length ∧
      let src := cs.map (·.c)
      let quoted := src[a]? = some '%' ∨ src[a]? = some '{' ∨ src[a]? = some '`'
      (¬quoted ∧ t.kind ≠ some .operator ∧ t.text = Proofs.C15Text.slice src a b) ∨
      (quoted ∧ a < b ∧ t.text = Proofs.C15Text.slice src (a + 1) b) ∨
      (¬quoted ∧ t.kind = some .operator ∧
        t.text = ((Proofs.C15Exact.cslice cs a b).filter (fun ci => !ci.space)).map (·.c)) :=
  Proofs.C15Exact.token_text_exact cs ts h

/-- all three cases occur in one string: `y` and `f(x )` are the source at their spans, `~-` is the
source at 2…5 without its two spaces, and `a b` is the source after the backtick at 6 -/
example : tokenize ("y ~  -`a b`+f(x )".toList.map exampleClass)
    = .ok [{ text := "y".toList, kind := some .name, start := some 0, stop := some 0 },
           { text := "~-".toList, kind := some .operator, start := some 2, stop := some 5 },
           { text := "a b".toList, kind := some .name, start := some 6, stop := some 9 },
           { text := "+".toList, kind := some .operator, start := some 11, stop := some 11 },
           { text := "f(x )".toList, kind := some .python, start := some 12, stop := some 16 }] := by
  decide +kernel

end FormulaicVerif.Props.C15
