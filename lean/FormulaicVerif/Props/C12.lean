import FormulaicVerif.Proofs.C12
import FormulaicVerif.Proofs.C12Cubic
import FormulaicVerif.Proofs.C12Extend
import FormulaicVerif.Proofs.C12Glue
import Mathlib.Algebra.Order.BigOperators.Group.List
/-! # C12 — Spline transforms reproduce the mathematical bases they name

Property theorems only; helper lemmas are in `Proofs/C12Spec.lean` (the reference recursion over
an arbitrary linearly ordered field), `Proofs/C12.lean` (model = reference), `Proofs/C12Cubic.lean`
(base functions at the knots, centering), `Proofs/C12Piece.lean` (algebra and derivatives of one
cubic piece), `Proofs/C12Interp.lean` (model row = piece values), `Proofs/C12Contract.lean`
(`residualF = 0` ⟹ tridiagonal equations), `Proofs/C12Extend.lean` (tangent-line extrapolation),
`Proofs/C12Glue.lean` (real-analysis gluing).  Every `theorem` in this file is an obligation audited with
`#print axioms`.

Models: `Model/BSpline.lean` (`basis_spline`), `Model/CubicSpline.lean` (`cubic_spline`).
The functions below (`rowAll`, `rowFor`, `transform`, `fit`, `freeRow`, `residualF`, …) are the ones
the correspondence engine `Engines/C12.lean` runs against the real code on every check.

Notion of derivative used for the cubic-spline theorems (C12.5): on each knot interval the column
of the design matrix is a polynomial piece `Spec.CubicSpline.Piece` with explicit `val`, `d1`,
`d2`.  `piece_derivatives_formal` proves that `val` is a polynomial of degree ≤ 3 whose
`Polynomial.derivative` is `d1` and whose second derivative is `d2` (over `ℚ`, where the model
computes); `piece_derivatives_analytic` proves `HasDerivAt` over any normed field of
characteristic 0.  "C¹ / C² at a knot" means: the two adjacent pieces have equal `d1` / `d2`
values at the shared knot; `cr_glued_pieces_C2_real` turns that into: the glued function `ℝ → ℝ` is
twice differentiable everywhere.  Not proved: uniqueness of the natural / periodic interpolating
spline (its defining conditions — piecewise cubic, interpolation, C², end conditions — are). -/

namespace FormulaicVerif.Props.C12
open FormulaicVerif.Model.BSpline FormulaicVerif.Spec.BSpline FormulaicVerif.Proofs.C12


/-- **C12.0** What a successful first call records and returns: the recorded knot vector is
`padKnots lower interior upper degree` where `interior` is what `interiorKnots` produced (the
explicit knots, or the value of the quantile parameter), and the output rows are, value by value,
`rowFor` — the function all the row-level theorems below are about. -/
theorem bs_fit_shape (a : Args) (xs : List (Option Rat)) (quant : List Rat → ℕ → List Rat)
    (st : State) (out : Output) (hfit : fit a xs quant = .ok (st, out)) :
    (∃ interior, interiorKnots a st.lower st.upper xs quant = .ok interior ∧
        st.knots = padKnots st.lower interior st.upper a.degree) ∧
      out.rows = xs.map (rowFor st a.degree a.intercept a.mode) := by
  unfold fit at hfit
  split at hfit
  · cases hfit
  · rename_i st' hp
    split at hfit
    · cases hfit
    · rename_i out' ht
      injection hfit with hfit
      injection hfit with e1 e2
      subst e1 e2
      refine ⟨prepare_shape hp, ?_⟩
      unfold transform at ht
      split at ht
      · cases ht
      · injection ht with ht
        subst ht
        rfl

/-- **C12.1** The buffered two-cache sweep of `basis_spline` computes the Cox–de Boor recursion:
for EVERY knot list (any length, any multiplicity, sorted or not), every degree and every `x`, the
final buffer `cache[degree % 2]` is the list of all `len(knots) − degree − 1` functions
`B_{i,degree}(x)` of the reference definition on that knot vector. -/
theorem bs_eq_coxdeboor (knots : List Rat) (degree : ℕ) (ext : Bool) (x : ℚ) :
    rowAll knots degree ext x
      = (List.range (knots.length - degree - 1)).map
          (B (knotFn knots)
            (b0 (knotFn knots) knots.length degree (knots.length - degree - 1) ext x) x degree) := by
  rw [rowAll_eq_specRow, specRow, List.range_eq_range']

/-- **C12.2a** Partition of unity on the CLOSED interval `[lower, upper]` (right boundary
included), for every degree and every admissible interior knot list (repeated knots and knots
equal to a bound allowed). -/
theorem bs_partition_of_unity {lower upper : Rat} {interior : List Rat}
    (h : KnotsOk lower upper interior) (degree : ℕ) (x : ℚ) (h1 : lower ≤ x) (h2 : x ≤ upper) :
    (rowAll (padKnots lower interior upper degree) degree false x).sum = 1 := by
  obtain ⟨j, ja, jb, jr, _, _⟩ := inside_unit h degree x h1 h2
  rw [jr, sum_map_range]
  exact B_sum_unit _ j x _ jb degree ja

/-- **C12.2b** Non-negativity (hence, with C12.2a, every entry lies in `[0, 1]`) inside the bounds. -/
theorem bs_nonneg {lower upper : Rat} {interior : List Rat}
    (h : KnotsOk lower upper interior) (degree : ℕ) (x : ℚ) (h1 : lower ≤ x) (h2 : x ≤ upper) :
    ∀ v ∈ rowAll (padKnots lower interior upper degree) degree false x, 0 ≤ v ∧ v ≤ 1 := by
  have hnn : ∀ v ∈ rowAll (padKnots lower interior upper degree) degree false x, 0 ≤ v := by
    obtain ⟨j, ja, jb, jr, jlo, jhi⟩ := inside_unit h degree x h1 h2
    intro v hv
    rw [jr, List.mem_map] at hv
    obtain ⟨i, hi, rfl⟩ := hv
    rw [List.mem_range'_1] at hi
    exact B_nonneg _ _ j x jlo jhi degree i (by omega)
  intro v hv
  refine ⟨hnn v hv, ?_⟩
  rw [← bs_partition_of_unity h degree x h1 h2]
  exact List.single_le_sum hnn v hv

/-- **C12.2c** Local support: the `i`-th basis function can be non-zero at an in-range `x` only if
`knots[i] ≤ x ≤ knots[i + degree + 1]`. -/
theorem bs_local_support {lower upper : Rat} {interior : List Rat}
    (h : KnotsOk lower upper interior) (degree : ℕ) (x : ℚ) (h1 : lower ≤ x) (h2 : x ≤ upper)
    (i : ℕ) (v : ℚ)
    (hv : (rowAll (padKnots lower interior upper degree) degree false x)[i]? = some v) (hne : v ≠ 0) :
    knotFn (padKnots lower interior upper degree) i ≤ x ∧
      x ≤ knotFn (padKnots lower interior upper degree) (i + degree + 1) := by
  obtain ⟨j, ja, jb, jr, jlo, jhi⟩ := inside_unit h degree x h1 h2
  rw [jr, List.getElem?_map] at hv
  have hi : i < (padKnots lower interior upper degree).length - degree - 1 := by
    by_contra hc
    rw [List.getElem?_eq_none (by simpa using Nat.le_of_not_lt hc)] at hv
    simp at hv
  rw [List.getElem?_range' (by simpa using hi)] at hv
  simp only [Option.map_some, Option.some.injEq, Nat.zero_add, Nat.one_mul] at hv
  subst hv
  have hs := B_support _ j x degree i hne
  exact ⟨jlo i hs.1, jhi _ (by omega) (by omega)⟩


/-- **C12.3** Column count: a first call with `df = k ≠ 0` that succeeds returns exactly `k`
columns (keys) and every non-null row has `k` entries — for both intercept options, every degree,
every extrapolation mode.  The only assumption on the quantile routine is that it returns as many
knots as requested. -/
theorem bs_ncols (a : Args) (xs : List (Option Rat)) (quant : List Rat → ℕ → List Rat)
    (st : State) (out : Output) (df : ℕ)
    (hq : ∀ s m, (quant s m).length = m) (hdf : a.df = some (df : Int)) (hpos : df ≠ 0)
    (hfit : fit a xs quant = .ok (st, out)) :
    out.cols.length = df ∧ ∀ row, some row ∈ out.rows → row.length = df := by
  unfold fit at hfit
  split at hfit
  · cases hfit
  · rename_i st' hp
    split at hfit
    · cases hfit
    · rename_i out' ht
      injection hfit with hfit
      injection hfit with e1 e2
      subst e1 e2
      obtain ⟨interior, hi, hk⟩ := prepare_shape hp
      have hlen := interiorKnots_length hq hdf hpos hi
      have hkl : st'.knots.length = interior.length + 2 * a.degree + 2 := by
        rw [hk, padKnots_length]
      unfold transform at ht
      split at ht
      · cases ht
      · injection ht with ht
        subst ht
        constructor
        · simp only [List.length_map, selectCols_length, List.length_range]
          cases hic : a.intercept <;> simp [hic] at hlen ⊢ <;> omega
        · intro row hrow
          simp only [List.mem_map] at hrow
          obtain ⟨x, _, hx⟩ := hrow
          unfold rowFor at hx
          split at hx
          · cases hx
          · injection hx with hx
            subst hx
            simp only [List.length_map, selectCols_length, rowAll_length]
            cases hic : a.intercept <;> simp [hic] at hlen ⊢ <;> omega

/-- **C12.3'** with explicit interior knots (no `df`): `len(knots) + degree + intercept` columns -/
theorem bs_ncols_knots (a : Args) (xs : List (Option Rat)) (quant : List Rat → ℕ → List Rat)
    (st : State) (out : Output) (ks : List Rat)
    (hdf : a.df = none) (hk : a.knots = some ks) (hfit : fit a xs quant = .ok (st, out)) :
    out.cols.length = ks.length + a.degree + (if a.intercept then 1 else 0) := by
  unfold fit at hfit
  split at hfit
  · cases hfit
  · rename_i st' hp
    split at hfit
    · cases hfit
    · rename_i out' ht
      injection hfit with hfit
      injection hfit with e1 e2
      subst e1 e2
      obtain ⟨interior, hi, hkn⟩ := prepare_shape hp
      have : interior = ks := by
        unfold interiorKnots at hi
        simp only [hdf, hk] at hi
        injection hi with hi
        exact hi.symm
      subst this
      have hkl : st'.knots.length = interior.length + 2 * a.degree + 2 := by
        rw [hkn, padKnots_length]
      unfold transform at ht
      split at ht
      · cases ht
      · injection ht with ht
        subst ht
        simp only [List.length_map, selectCols_length, List.length_range]
        cases hic : a.intercept <;> simp <;> omega


/-- the polynomial piece of the basis that lives on the knot interval `[t_j, t_{j+1})`, as a
function of `x` on the whole line: the Cox–de Boor recursion started from the FIXED unit row
`e_j` (every entry is a polynomial in `x`) -/
def piece (knots : List Rat) (degree j : ℕ) (x : ℚ) : List ℚ :=
  (List.range (knots.length - degree - 1)).map (B (knotFn knots) (unit j) x degree)

/-- **C12.4 (null)** a null input value gives a null row in every mode. -/
theorem bs_null_row (st : State) (degree : ℕ) (ic : Bool) (mode : Mode) :
    rowFor st degree ic mode none = none := rfl

/-- **C12.4 (clip)** the row of `x` is the row of the clipped value, which lies inside the bounds
(so it is non-negative and sums to one by C12.2). -/
theorem bs_extrapolation_clip (st : State) (degree : ℕ) (ic : Bool) (v : ℚ) :
    rowFor st degree ic .clip (some v)
        = rowFor st degree ic .raise (some (min (max v st.lower) st.upper)) ∧
      (st.lower ≤ st.upper →
        st.lower ≤ min (max v st.lower) st.upper ∧ min (max v st.lower) st.upper ≤ st.upper) := by
  refine ⟨rfl, fun h => ⟨le_min (le_max_right _ _) h, min_le_right _ _⟩⟩

/-- **C12.4 (na)** out-of-range values give a null row, in-range values are untouched. -/
theorem bs_extrapolation_na (st : State) (degree : ℕ) (ic : Bool) (v : ℚ) :
    ((v < st.lower ∨ st.upper < v) → rowFor st degree ic .na (some v) = none) ∧
    (st.lower ≤ v → v ≤ st.upper →
      rowFor st degree ic .na (some v) = rowFor st degree ic .raise (some v)) := by
  constructor
  · intro h
    have : outside st.lower st.upper v = true := by
      unfold outside; rcases h with h | h <;> simp [h]
    simp [rowFor, adjust, this]
  · intro h1 h2
    have : outside st.lower st.upper v = false := by
      unfold outside; simp [not_lt.2 h1, not_lt.2 h2]
    simp [rowFor, adjust, this]
    rfl

/-- **C12.4 (zero)** out-of-range values give an all-zero row. -/
theorem bs_extrapolation_zero {lower upper : Rat} {interior : List Rat}
    (h : KnotsOk lower upper interior) (degree : ℕ) (x : ℚ) (hx : x < lower ∨ upper < x) :
    ∀ v ∈ rowAll (padKnots lower interior upper degree) degree false x, v = 0 := by
  have P := padded_padKnots h degree
  have hl := padKnots_length lower upper interior degree
  have e1 : knotFn (padKnots lower interior upper degree) degree = lower :=
    knotFn_left _ _ _ _ _ (le_refl _)
  have e2 : knotFn (padKnots lower interior upper degree)
      ((padKnots lower interior upper degree).length - degree - 1) = upper :=
    knotFn_right _ _ _ _ _ (by omega) (by omega)
  have hz := b0_zero_outside P x (by rw [e1, e2]; exact hx)
  intro v hv
  rw [rowAll_eq_specRow, specRow, List.mem_map] at hv
  obtain ⟨i, _, rfl⟩ := hv
  exact B_zero_of_zero _ x _ hz degree i

/-- **C12.4 (raise)** an error is raised iff some non-null value lies outside the bounds. -/
theorem bs_extrapolation_raise (st : State) (degree : ℕ) (ic : Bool) (xs : List (Option Rat)) :
    (transform st degree ic .raise xs = .error .valueError)
      ↔ ∃ v, some v ∈ xs ∧ (v < st.lower ∨ st.upper < v) := by
  unfold transform
  have key : ((nonNull xs).any (outside st.lower st.upper) = true)
      ↔ ∃ v, some v ∈ xs ∧ (v < st.lower ∨ st.upper < v) := by
    simp only [List.any_eq_true, nonNull, List.mem_filterMap, id]
    constructor
    · rintro ⟨v, ⟨o, ho, rfl⟩, hv⟩
      refine ⟨v, ho, ?_⟩
      simpa [outside] using hv
    · rintro ⟨v, hv, hout⟩
      exact ⟨v, ⟨some v, hv, rfl⟩, by simpa [outside] using hout⟩
  by_cases hc : (nonNull xs).any (outside st.lower st.upper) = true
  · simp [hc, key.1 hc]
  · have : ¬ ∃ v, some v ∈ xs ∧ (v < st.lower ∨ st.upper < v) := fun h => hc (key.2 h)
    simp [hc, this]

/-- **C12.4 (extend)** for EVERY `x` the extended row sums to one; inside the bounds it is the
ordinary row; below the lower bound it is the polynomial piece of the first knot interval
`[t_d, t_{d+1})` evaluated at `x`, above the upper bound that of the last interval
`[t_{r-1}, t_r)`; and (last clause) an ordinary in-range row is the polynomial piece of the
interval that brackets the point — so "piece" really is what the basis equals there. -/
theorem bs_extrapolation_extend {lower upper : Rat} {interior : List Rat}
    (h : KnotsOk lower upper interior) (degree : ℕ) (x : ℚ) :
    let K := padKnots lower interior upper degree
    (rowAll K degree true x).sum = 1 ∧
    (lower ≤ x → x ≤ upper → rowAll K degree true x = rowAll K degree false x) ∧
    (x < lower → rowAll K degree true x = piece K degree degree x) ∧
    (upper < x → rowAll K degree true x = piece K degree (degree + interior.length) x) ∧
    (∀ j, degree ≤ j → j ≤ degree + interior.length →
      knotFn K j ≤ x → x < knotFn K (j + 1) → rowAll K degree false x = piece K degree j x) := by
  intro K
  have P : Padded (knotFn K) K.length degree (K.length - degree - 1) := padded_padKnots h degree
  have hl : K.length = interior.length + 2 * degree + 2 := padKnots_length lower upper interior degree
  have e1 : knotFn K degree = lower := knotFn_left _ _ _ _ _ (le_refl _)
  have e2 : knotFn K (K.length - degree - 1) = upper := knotFn_right _ _ _ _ _ (by omega) (by omega)
  obtain ⟨j, ja, jb, ju, jlo, jhi, _⟩ := b0_unit_ext P x
  have hrow : rowAll K degree true x = piece K degree j x := by
    rw [rowAll_eq_specRow, specRow_congr _ _ _ _ _ _ ju, piece, List.range_eq_range']
  refine ⟨?_, ?_, ?_, ?_, ?_⟩
  · rw [rowAll_eq_specRow, specRow_congr _ _ _ _ _ _ ju, sum_map_range]
    exact B_sum_unit _ j x _ jb degree ja
  · intro h1 h2
    rw [rowAll_eq_specRow, rowAll_eq_specRow]
    exact specRow_congr _ _ _ _ _ _ (fun i => b0_ext_eq_inside _ _ _ _ x (by rw [e1]; exact h1)
      (by rw [e2]; exact h2) i)
  · intro hx
    rw [hrow, jlo (by rw [e1]; exact hx)]
  · intro hx
    rw [hrow, jhi (by rw [e2]; exact le_of_lt hx)]
    congr 1; omega
  · intro j' hj1 hj2 hj3 hj4
    have hin1 : lower ≤ x := e1 ▸ le_trans (P.mono degree j' hj1 (by omega)) hj3
    have hin2 : x ≤ upper := e2 ▸ le_trans (le_of_lt hj4) (P.mono (j' + 1) _ (by omega) (by omega))
    obtain ⟨j2, _, j2b, j2u, j2lo, j2hi, j2c, j2d⟩ :=
      b0_unit_inside P x (by rw [e1]; exact hin1) (by rw [e2]; exact hin2)
    have hone : b0 (knotFn K) K.length degree (K.length - degree - 1) false x j' = 1 := by
      have hn : j' + 1 < K.length := by omega
      unfold b0 ind
      simp only [hn, if_true, Bool.false_eq_true, if_false]
      rw [if_pos]
      refine ⟨hj3, ?_⟩
      split
      · exact le_of_lt hj4
      · exact hj4
    have : j2 = j' := by
      rw [j2u] at hone
      unfold unit at hone
      split at hone
      · rename_i e; exact e.symm
      · exact absurd hone (by norm_num)
    subst this
    rw [rowAll_eq_specRow, specRow_congr _ _ _ _ _ _ j2u, piece, List.range_eq_range']


/-! ## Non-vacuity: concrete instances of the hypotheses and of the conclusions
(`decide +kernel` on closed rational arithmetic; these are examples, not the general claims) -/

/-- admissible interior knots with a repeated knot and a knot equal to the upper bound -/
example : KnotsOk 0 1 [1/2, 1/2, 1] := ⟨by decide +kernel, by decide +kernel, by decide +kernel⟩
/-- a quadratic row strictly inside, with a double interior knot: non-negative, sums to one -/
example : rowAll (padKnots 0 [1/2, 1/2] 1 2) 2 false (1/4) = [1/4, 1/2, 1/4, 0, 0] := by decide +kernel
/-- the closed right boundary -/
example : rowAll (padKnots 0 [1/2] 1 3) 3 false 1 = [0, 0, 0, 0, 1] := by decide +kernel
/-- `extend`: linear pieces continued outside `[0, 1]` (negative entries, still summing to one) -/
example : rowAll (padKnots 0 [1/2] 1 1) 1 true 2 = [0, -2, 3] := by decide +kernel
/-- `zero` mode outside and the un-extended row: all zeros -/
example : rowAll (padKnots 0 [1/2] 1 1) 1 false 2 = [0, 0, 0] := by decide +kernel
/-- `bs_ncols`: a concrete successful first call with `df = 5`, degree 2, no intercept -/
example : (fit { df := some 5, knots := none, degree := 2, intercept := false, lower := none,
                 upper := none, mode := .raise } [some 0, some 1, none, some (1/2)]
              (fun _ m => List.replicate m (1/2))).toOption.map (fun r => r.2.cols)
            = some [1, 2, 3, 4, 5] := by decide +kernel
/-- `raise` raises exactly when a value is outside -/
example : (transform ⟨0, 1, padKnots 0 [] 1 1⟩ 1 true .raise [some (1/2), some 2]).toOption.isNone = true ∧
    (transform ⟨0, 1, padKnots 0 [] 1 1⟩ 1 true .raise [some (1/2), none, some 1]).toOption.isSome = true := by
  decide +kernel

section cubic
open FormulaicVerif.Model.CubicSpline FormulaicVerif.Spec.CubicSpline

/-- **C12.5a** Identity at the knots, natural spline: for ANY second-derivative map `F` (of the
right shape), the unconstrained design-matrix row at knot `k` is the unit row `e_k`.  Hence the
columns are the cardinal functions of the interpolation problem at the recorded knots whatever
the linear solver returned. -/
theorem cr_identity_at_knots (knots : List Rat) (F : List (List Rat)) (k : ℕ)
    (hk : k < knots.length) (hs : knots.Pairwise (· < ·)) (hn : 2 ≤ knots.length)
    (hF : F.length = knots.length) (hFr : ∀ r ∈ F, r.length = knots.length) :
    freeRow knots false F knots[k] = .ok ((List.range knots.length).map (delta k)) := by
  unfold freeRow
  simp only [Bool.false_eq_true, if_false]
  have := freeRowCore_at knots hs hn k hk knots.length false F hF hFr (by simp)
  simpa using this

/-- **C12.5b** Identity at the knots, cyclic spline (`n − 1` columns; the last knot is
identified with the first): the row at knot `k` is `e_k`, and `e_0` at the last knot. -/
theorem cc_identity_at_knots (knots : List Rat) (F : List (List Rat)) (k : ℕ)
    (hk : k < knots.length) (hs : knots.Pairwise (· < ·)) (hn : 2 ≤ knots.length)
    (hF : F.length = knots.length - 1) (hFr : ∀ r ∈ F, r.length = knots.length - 1) :
    freeRow knots true F knots[k]
      = .ok ((List.range (knots.length - 1)).map (delta (if k + 1 = knots.length then 0 else k))) := by
  unfold freeRow
  obtain ⟨mn, mx, h1, h2, h3⟩ := mapCyclic_at knots hs hn k hk
  simp only [if_true, h1, h2, h3]
  have := freeRowCore_at knots hs hn k hk (knots.length - 1) true F hF hFr (by simp)
  simpa using this

/-- **C12.5c** Interpolation, for ANY `F` (a corollary of identity at the knots; the theorem keeps its
name from the round in which C12.5 was still open): for ANY `F`, the spline with coefficient vector `β`
takes the value `β_k` at knot `k` — the coefficients of a `cr` basis are the function values at
the knots. -/
theorem cr_is_natural_interpolant_partial (knots : List Rat) (F : List (List Rat)) (k : ℕ)
    (hk : k < knots.length) (hs : knots.Pairwise (· < ·)) (hn : 2 ≤ knots.length)
    (hF : F.length = knots.length) (hFr : ∀ r ∈ F, r.length = knots.length)
    (β : List Rat) (hβ : β.length = knots.length) :
    ∃ row, freeRow knots false F knots[k] = .ok row ∧ dot row β = β.getD k 0 := by
  refine ⟨_, cr_identity_at_knots knots F k hk hs hn hF hFr, ?_⟩
  rw [List.range_eq_range']
  have := dot_unit knots.length 0 k β hβ hk
  simpa using this

/-- **C12.5d** `Piece.d1` and `Piece.d2` are the first and second derivative of `Piece.val`:
formally — `val` is the evaluation of a polynomial of degree ≤ 3 whose `Polynomial.derivative`
evaluates to `d1` and whose second derivative evaluates to `d2` (any field of characteristic 0,
in particular `ℚ`, where the model computes) — -/
theorem piece_derivatives_formal {α : Type} [Field α] [CharZero α] (p : Piece α) (hh : p.h ≠ 0) :
    ∃ P : Polynomial α, P.natDegree ≤ 3 ∧ (∀ x, P.eval x = p.val x) ∧
      (∀ x, (Polynomial.derivative P).eval x = p.d1 x) ∧
      (∀ x, (Polynomial.derivative (Polynomial.derivative P)).eval x = p.d2 x) :=
  ⟨Piece.poly p, Piece.poly_natDegree p, Piece.poly_eval p, Piece.poly_derivative_eval p,
    Piece.poly_derivative2_eval p hh⟩

/-- … and analytically: over any normed field of characteristic 0 (e.g. `ℝ`) `val` has derivative
`d1 x` at every `x` and `d1` has derivative `d2 x` (Mathlib's `HasDerivAt`). -/
theorem piece_derivatives_analytic {𝕜 : Type} [NontriviallyNormedField 𝕜] [CharZero 𝕜] (p : Piece 𝕜)
    (hh : p.h ≠ 0) (x : 𝕜) : HasDerivAt p.val (p.d1 x) x ∧ HasDerivAt p.d1 (p.d2 x) x :=
  ⟨Piece.hasDerivAt_val p x, Piece.hasDerivAt_d1 p hh x⟩

/-- **C12.5e** For ANY `F`: the first derivative of column `c` of the natural design matrix is
continuous at the interior knot `k_{j+1}` IFF the tridiagonal equation of that knot holds for the
values `e_c` and the second derivatives `F[·][c]`. -/
theorem cr_c1_iff_tridiagonal (knots : List Rat) (F : List (List Rat)) (hs : knots.Pairwise (· < ·))
    (j c : ℕ) (hj : j + 2 < knots.length) :
    (crPiece knots F j c).d1 (knotFn knots (j + 1)) = (crPiece knots F (j + 1) c).d1 (knotFn knots (j + 1))
      ↔ TriEq (hsp knots j) (hsp knots (j + 1)) (delta j c) (delta (j + 1) c) (delta (j + 2) c)
          (Ffn F j c) (Ffn F (j + 1) c) (Ffn F (j + 2) c) :=
  Piece.c1_iff_triEq (crPiece knots F j c) (crPiece knots F (j + 1) c)
    (crPiece_h_ne knots hs F j c (by omega)) (crPiece_h_ne knots hs F (j + 1) c hj) rfl rfl

/-- **C12.5** The natural cubic regression spline.  Let `F` satisfy the contract the engine
evaluates on every case (`residualF knots false F = 0`: `natB·F[1:-1] = natD`, first and last
row of `F` zero).  Then column `c` of the free design matrix, as a function of `x` on
`[k_0, k_{n-1}]`, is the natural interpolating cubic spline of the unit vector `e_c`:
(0) on each closed knot interval the value the MODEL computes is the value of the cubic piece
    `crPiece knots F j c` (so the column is a piecewise cubic, and single-valued at the knots);
(i) the pieces interpolate `e_c` at both ends;
(ii) the second derivatives of adjacent pieces agree at the shared knot (C², by construction);
(iii) the first derivatives of adjacent pieces agree at every interior knot (C¹ — this is what
     the contract buys, see `cr_c1_iff_tridiagonal`);
(iv) the second derivative vanishes at the two boundary knots (natural end conditions).
Derivatives are `Piece.d1`, `Piece.d2`, which are the derivatives of `Piece.val`
(`piece_derivatives_formal`, `piece_derivatives_analytic`). -/
theorem cr_is_natural_interpolant (knots : List Rat) (F : List (List Rat))
    (hs : knots.Pairwise (· < ·)) (hn : 2 ≤ knots.length)
    (hF : F.length = knots.length) (hFr : ∀ r ∈ F, r.length = knots.length)
    (hcontract : AllZero (residualF knots false F)) (c : ℕ) (hc : c < knots.length) :
    (∀ j (hj : j + 1 < knots.length) (x : ℚ), knots[j] ≤ x → x ≤ knots[j + 1] →
        ∃ row, freeRow knots false F x = .ok row ∧ row[c]? = some ((crPiece knots F j c).val x)) ∧
    (∀ j, j + 1 < knots.length →
        (crPiece knots F j c).val (knotFn knots j) = delta j c ∧
        (crPiece knots F j c).val (knotFn knots (j + 1)) = delta (j + 1) c) ∧
    (∀ j, j + 2 < knots.length →
        (crPiece knots F j c).d2 (knotFn knots (j + 1))
          = (crPiece knots F (j + 1) c).d2 (knotFn knots (j + 1))) ∧
    (∀ j, j + 2 < knots.length →
        (crPiece knots F j c).d1 (knotFn knots (j + 1))
          = (crPiece knots F (j + 1) c).d1 (knotFn knots (j + 1))) ∧
    (crPiece knots F 0 c).d2 (knotFn knots 0) = 0 ∧
    (crPiece knots F (knots.length - 2) c).d2 (knotFn knots (knots.length - 1)) = 0 := by
  obtain ⟨h0, hlast, htri⟩ := nat_contract_tri knots F hn hF hFr hcontract
  refine ⟨?_, ?_, ?_, ?_, ?_, ?_⟩
  · intro j hj x h1 h2
    exact ⟨_, freeRow_nat_piece knots hs hn F hF hFr j hj x h1 h2, map_getElem?_range _ c hc _⟩
  · intro j hj
    exact ⟨Piece.val_left _ (crPiece_h_ne knots hs F j c hj), Piece.val_right _ (crPiece_h_ne knots hs F j c hj)⟩
  · intro j hj
    have a := Piece.d2_right _ (crPiece_h_ne knots hs F j c (by omega))
    have b := Piece.d2_left _ (crPiece_h_ne knots hs F (j + 1) c hj)
    exact a.trans b.symm
  · intro j hj
    exact (cr_c1_iff_tridiagonal knots F hs j c hj).2 (htri j c hj hc)
  · have := Piece.d2_left _ (crPiece_h_ne knots hs F 0 c (by omega))
    exact this.trans (h0 c)
  · have e : knots.length - 2 + 1 = knots.length - 1 := by omega
    have := Piece.d2_right _ (crPiece_h_ne knots hs F (knots.length - 2) c (by omega))
    simp only [crPiece, e] at this ⊢
    exact this.trans (hlast c)


/-- **C12.5e'** cyclic analogue of `cr_c1_iff_tridiagonal`, at node `r` of the circle (node 0 is
the first AND the last knot): the left piece is the one on `[k_{pred r}, k_{pred r + 1}]`. -/
theorem cc_c1_iff_tridiagonal (knots : List Rat) (F : List (List Rat)) (hs : knots.Pairwise (· < ·))
    (r c : ℕ) (hr : r < knots.length - 1) :
    (ccPiece knots F (cpred (knots.length - 1) r) c).d1 (knotFn knots (cpred (knots.length - 1) r + 1))
        = (ccPiece knots F r c).d1 (knotFn knots r)
      ↔ TriEq (hsp knots (cpred (knots.length - 1) r)) (hsp knots r)
          (delta (cpred (knots.length - 1) r) c) (delta r c) (delta (csucc (knots.length - 1) r) c)
          (Ffn F (cpred (knots.length - 1) r) c) (Ffn F r c) (Ffn F (csucc (knots.length - 1) r) c) := by
  have hp := cpred_lt (knots.length - 1) r hr
  have e := csucc_cpred (knots.length - 1) r hr
  have key := Piece.c1_iff_triEq (ccPiece knots F (cpred (knots.length - 1) r) c) (ccPiece knots F r c)
    (ccPiece_h_ne knots hs F _ c (by omega)) (ccPiece_h_ne knots hs F r c (by omega))
    (by simp only [ccPiece, e]) (by simp only [ccPiece, e])
  simp only [ccPiece, Piece.h, e] at key
  simp only [ccPiece, hsp, e]
  exact key

/-- **C12.5'** The cyclic cubic regression spline.  Let `F` satisfy `residualF knots true F = 0`
(`cycB·F = cycD`).  Then column `c` of the free design matrix (`m = len(knots) − 1` columns; the
last knot is node 0 again) is the PERIODIC interpolating cubic spline of `e_c`:
(0) on each closed knot interval the model's value is that of the cubic piece `ccPiece`;
(i) the pieces interpolate `e_c` (the right end of the last piece carries the value of node 0);
(ii)/(iii) at EVERY node `r` of the circle — including node 0, where the piece ending at the
last knot meets the piece starting at the first knot — second and first derivatives of the two
adjacent pieces agree. -/
theorem cc_is_periodic_interpolant (knots : List Rat) (F : List (List Rat))
    (hs : knots.Pairwise (· < ·)) (hn : 2 ≤ knots.length)
    (hF : F.length = knots.length - 1) (hFr : ∀ r ∈ F, r.length = knots.length - 1)
    (hcontract : AllZero (residualF knots true F)) (c : ℕ) (hc : c < knots.length - 1) :
    (∀ j (hj : j + 1 < knots.length) (x : ℚ), knots[j] ≤ x → x ≤ knots[j + 1] →
        ∃ row, freeRow knots true F x = .ok row ∧ row[c]? = some ((ccPiece knots F j c).val x)) ∧
    (∀ j, j + 1 < knots.length →
        (ccPiece knots F j c).val (knotFn knots j) = delta j c ∧
        (ccPiece knots F j c).val (knotFn knots (j + 1)) = delta (csucc (knots.length - 1) j) c) ∧
    (∀ r, r < knots.length - 1 →
        (ccPiece knots F (cpred (knots.length - 1) r) c).d2 (knotFn knots (cpred (knots.length - 1) r + 1))
          = (ccPiece knots F r c).d2 (knotFn knots r)) ∧
    (∀ r, r < knots.length - 1 →
        (ccPiece knots F (cpred (knots.length - 1) r) c).d1 (knotFn knots (cpred (knots.length - 1) r + 1))
          = (ccPiece knots F r c).d1 (knotFn knots r)) := by
  have htri := cyc_contract_tri knots F hn hF hFr hcontract
  refine ⟨?_, ?_, ?_, ?_⟩
  · intro j hj x h1 h2
    exact ⟨_, freeRow_cyc_piece knots hs hn F hF hFr j hj x h1 h2, map_getElem?_range _ c hc _⟩
  · intro j hj
    exact ⟨Piece.val_left _ (ccPiece_h_ne knots hs F j c hj), Piece.val_right _ (ccPiece_h_ne knots hs F j c hj)⟩
  · intro r hr
    have hp := cpred_lt (knots.length - 1) r hr
    have e := csucc_cpred (knots.length - 1) r hr
    have a := Piece.d2_right _ (ccPiece_h_ne knots hs F (cpred (knots.length - 1) r) c (by omega))
    have b := Piece.d2_left _ (ccPiece_h_ne knots hs F r c (by omega))
    simp only [ccPiece, e] at a b ⊢
    exact a.trans b.symm
  · intro r hr
    exact (cc_c1_iff_tridiagonal knots F hs r c hr).2 (htri r c hr hc)


/-- **C12.5f** Linear extrapolation (`extrapolation="extend"`, the default of `cr`): under the
contract, outside the knot range column `c` of the natural design matrix is the TANGENT LINE of
the boundary piece at the boundary knot — the natural spline continued with zero second
derivative, C¹ at the boundary. -/
theorem cr_linear_beyond_knots (knots : List Rat) (F : List (List Rat))
    (hs : knots.Pairwise (· < ·)) (hn : 2 ≤ knots.length)
    (hF : F.length = knots.length) (hFr : ∀ r ∈ F, r.length = knots.length)
    (hcontract : AllZero (residualF knots false F)) (c : ℕ) (hc : c < knots.length) :
    (∀ x : ℚ, x < knots[0] → ∃ row, freeRow knots false F x = .ok row ∧
        row[c]? = some (tangentL (crPiece knots F 0 c) x)) ∧
    (∀ x : ℚ, knots[knots.length - 1] < x → ∃ row, freeRow knots false F x = .ok row ∧
        row[c]? = some (tangentR (crPiece knots F (knots.length - 2) c) x)) := by
  obtain ⟨h0, hlast, _⟩ := nat_contract_tri knots F hn hF hFr hcontract
  exact ⟨fun x hx => ⟨_, freeRow_nat_below knots hs hn F hF hFr h0 x hx, map_getElem?_range _ c hc _⟩,
    fun x hx => ⟨_, freeRow_nat_above knots hs hn F hF hFr hlast x hx, map_getElem?_range _ c hc _⟩⟩

/-- **C12.5g** The same C² statement in the language of real analysis: under the contract, the
two pieces of column `c` on either side of an interior knot, read over `ℝ` and glued at the knot,
form a function that is twice differentiable at EVERY real `x` (Mathlib `HasDerivAt`); its
derivative is the glued `d1` and its second derivative the glued `d2`. -/
theorem cr_glued_pieces_C2_real (knots : List Rat) (F : List (List Rat))
    (hs : knots.Pairwise (· < ·)) (hn : 2 ≤ knots.length)
    (hF : F.length = knots.length) (hFr : ∀ r ∈ F, r.length = knots.length)
    (hcontract : AllZero (residualF knots false F)) (c : ℕ) (hc : c < knots.length)
    (j : ℕ) (hj : j + 2 < knots.length) (x : ℝ) :
    let p := (crPiece knots F j c).toReal
    let q := (crPiece knots F (j + 1) c).toReal
    let k : ℝ := (knotFn knots (j + 1) : ℚ)
    HasDerivAt (glue p.val q.val k) (glue p.d1 q.d1 k x) x ∧
      HasDerivAt (glue p.d1 q.d1 k) (glue p.d2 q.d2 k x) x := by
  obtain ⟨_, hi, hii, hiii, _⟩ := cr_is_natural_interpolant knots F hs hn hF hFr hcontract c hc
  exact pieces_glue_C2 (crPiece knots F j c) (crPiece knots F (j + 1) c)
    (crPiece_h_ne knots hs F j c (by omega)) (crPiece_h_ne knots hs F (j + 1) c hj) rfl
    ((hi j (by omega)).2.trans (hi (j + 1) hj).1.symm) (hiii j hj) (hii j hj) x

/-- **C12.5g'** cyclic analogue at the interior knots (at node 0 the two pieces meet only after
the periodic identification of the last knot with the first, see `cc_is_periodic_interpolant`). -/
theorem cc_glued_pieces_C2_real (knots : List Rat) (F : List (List Rat))
    (hs : knots.Pairwise (· < ·)) (hn : 2 ≤ knots.length)
    (hF : F.length = knots.length - 1) (hFr : ∀ r ∈ F, r.length = knots.length - 1)
    (hcontract : AllZero (residualF knots true F)) (c : ℕ) (hc : c < knots.length - 1)
    (j : ℕ) (hj : j + 2 < knots.length) (x : ℝ) :
    let p := (ccPiece knots F j c).toReal
    let q := (ccPiece knots F (j + 1) c).toReal
    let k : ℝ := (knotFn knots (j + 1) : ℚ)
    HasDerivAt (glue p.val q.val k) (glue p.d1 q.d1 k x) x ∧
      HasDerivAt (glue p.d1 q.d1 k) (glue p.d2 q.d2 k x) x := by
  obtain ⟨_, hi, hii, hiii⟩ := cc_is_periodic_interpolant knots F hs hn hF hFr hcontract c hc
  have e : cpred (knots.length - 1) (j + 1) = j := by simp [cpred]
  have e2 : csucc (knots.length - 1) j = j + 1 := by
    unfold csucc; rw [if_neg (by omega)]
  have a := hii (j + 1) (by omega)
  have b := hiii (j + 1) (by omega)
  rw [e] at a b
  exact pieces_glue_C2 (ccPiece knots F j c) (ccPiece knots F (j + 1) c)
    (ccPiece_h_ne knots hs F j c (by omega)) (ccPiece_h_ne knots hs F (j + 1) c hj) rfl
    ((hi j (by omega)).2.trans (by rw [e2]; exact (hi (j + 1) hj).1.symm)) b a x

/-! ### Non-vacuity for C12.5: exact second-derivative maps satisfying the contract -/

/-- natural spline through the knots 0, 1, 3: `F = [0; B⁻¹D; 0]` with `B = [1]`, `D = [1, −3/2, 1/2]` -/
example : AllZero (residualF [0, 1, 3] false [[0, 0, 0], [1, -3/2, 1/2], [0, 0, 0]]) := by
  unfold AllZero; decide +kernel
/-- periodic spline with the two nodes 0, 1 (period 3) -/
example : AllZero (residualF [0, 1, 3] true [[-3, 3], [3, -3]]) := by
  unfold AllZero; decide +kernel
/-- the contract is not vacuous: a wrong `F` violates it -/
example : ¬ AllZero (residualF [0, 1, 3] false [[0, 0, 0], [1, 1, 1], [0, 0, 0]]) := by
  unfold AllZero; decide +kernel
/-- and with the wrong `F` the first derivative really jumps at the interior knot (C12.5e) -/
example : (crPiece [0, 1, 3] [[0, 0, 0], [1, 1, 1], [0, 0, 0]] 0 1).d1 1
    ≠ (crPiece [0, 1, 3] [[0, 0, 0], [1, 1, 1], [0, 0, 0]] 1 1).d1 1 := by decide +kernel
example : (crPiece [0, 1, 3] [[0, 0, 0], [1, -3/2, 1/2], [0, 0, 0]] 0 1).d1 1
    = (crPiece [0, 1, 3] [[0, 0, 0], [1, -3/2, 1/2], [0, 0, 0]] 1 1).d1 1 := by decide +kernel

/-- **C12.6** Centering: if `c` is the vector of column means of the (non-null) free rows and
every column of `Q₂` is orthogonal to `c`, then every column of the absorbed matrix `M · Q₂` has
mean exactly zero. -/
theorem centered_columns_zero_mean (n : ℕ) (rows : List (List Rat)) (Q2cols : List (List Rat))
    (hrows : ∀ r ∈ rows, r.length = n)
    (horth : ∀ q ∈ Q2cols, dot (colMeans n rows) q = 0) :
    colMeans Q2cols.length (rows.map (absorbRow Q2cols)) = List.replicate Q2cols.length 0 := by
  unfold colMeans at horth ⊢
  rw [colSums_absorb, List.length_map, List.map_map, List.eq_replicate_iff]
  refine ⟨by simp, ?_⟩
  intro b hb
  rw [List.mem_map] at hb
  obtain ⟨q, hq, rfl⟩ := hb
  have := horth q hq
  rw [dot_map_div, dot_colSums n rows q hrows] at this
  exact this

/-- **C12.6'** the same with null rows present (they are ignored by the mean and stay null) -/
theorem centered_columns_zero_mean_nulls (n : ℕ) (rows : List (Option (List Rat)))
    (Q2cols : List (List Rat))
    (hrows : ∀ r ∈ nonNullRows rows, r.length = n)
    (horth : ∀ q ∈ Q2cols, dot (colMeans n (nonNullRows rows)) q = 0) :
    colMeans Q2cols.length (nonNullRows (rows.map (Option.map (absorbRow Q2cols))))
      = List.replicate Q2cols.length 0 := by
  rw [nonNullRows_map]
  exact centered_columns_zero_mean n _ Q2cols hrows horth


/-- strictly increasing knots; an arbitrary (nonsensical) `F` of the right shape still gives `e_1` -/
example : ([0, 1, 3] : List Rat).Pairwise (· < ·) := by decide +kernel
example : freeRow [0, 1, 3] false [[0, 0, 0], [7, -5, 2], [0, 0, 0]] 1 = .ok [0, 1, 0] := by
  decide +kernel
/-- cyclic: the last knot is identified with the first -/
example : freeRow [0, 1, 3] true [[7, -5], [1, 2]] 3 = .ok [1, 0] := by decide +kernel
/-- centering: `c = colMeans M = [1/2, 1/2]`, `Q₂ = [1, -1]ᵀ` is orthogonal to it, the absorbed
column `[1, -1]` has mean zero -/
example : colMeans 2 [[1, 0], [0, 1]] = [1/2, 1/2] ∧ dot (colMeans 2 [[1, 0], [0, 1]]) [1, -1] = 0 ∧
    colMeans 1 ([[1, 0], [0, 1]].map (absorbRow [[1, -1]])) = [0] := by decide +kernel
/-- the orthogonality hypothesis is needed: with `Q₂ = [1, 0]ᵀ` the mean is not zero -/
example : colMeans 1 ([[1, 0], [0, 1]].map (absorbRow [[1, 0]])) ≠ [0] := by decide +kernel

end cubic

end FormulaicVerif.Props.C12
