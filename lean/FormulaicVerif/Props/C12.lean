import FormulaicVerif.Proofs.C12
import FormulaicVerif.Proofs.C12Cubic
import FormulaicVerif.Proofs.C12Extend
import FormulaicVerif.Proofs.C12Glue
import FormulaicVerif.Proofs.C12Unique
import FormulaicVerif.Proofs.C12Exist
import FormulaicVerif.Proofs.C12Entry
import FormulaicVerif.Proofs.C12Total
import FormulaicVerif.Model.SplineSolve
import Mathlib.Algebra.Order.BigOperators.Group.List
/-! # C12 — Spline transforms reproduce the mathematical bases they name

Property theorems only; helper lemmas are in `Proofs/C12Spec.lean` (the reference recursion over
an arbitrary linearly ordered field), `Proofs/C12.lean` (model = reference), `Proofs/C12Cubic.lean`
(base functions at the knots, centering), `Proofs/C12Piece.lean` (algebra and derivatives of one
cubic piece), `Proofs/C12Interp.lean` (model row = piece values), `Proofs/C12Contract.lean`
(`residualF = 0` ⟹ tridiagonal equations), `Proofs/C12Extend.lean` (tangent-line extrapolation),
`Proofs/C12Glue.lean` (real-analysis gluing), `Proofs/C12Unique.lean` (strict diagonal dominance ⟹
uniqueness; every cubic is a `Piece`), `Proofs/C12Exist.lean` (existence of `F`; converse of the
contract lemmas), `Proofs/C12Quant.lean` (`sort`, `numpy.unique`, linear-interpolation quantiles),
`Proofs/C12Entry.lean` (entry-point model = numerical model, accepted calls, reachable exits, order
independence of explicit knots), `Proofs/C12Total.lean` (column counts, totality of the numerical
part).  Every `theorem` in this file is an obligation audited with `#print axioms`.

Models: `Model/BSpline.lean` (`basis_spline`), `Model/CubicSpline.lean` (`cubic_spline`),
`Model/SplineEntry.lean` (the two entry points from the call as written: argument validation with
one reason per `raise` statement, quantile knots, `_get_all_sorted_knots`, given `_state`s),
`Model/SplineSolve.lean` (the second-derivative map solved exactly and certified), and the
generated `Gen/SplineTable.lean`.  The functions below (`rowAll`, `rowFor`, `transform`, `fit`,
`freeRow`, `residualF`, `cubicSpline`, `basisSpline`, `prepareCs`, `sortedKnots`, `quantLin`,
`solveF`, …) are the ones the correspondence engine `Engines/C12.lean` runs against the real code
on every check.

Notion of derivative used for the cubic-spline theorems (C12.5): on each knot interval the column
of the design matrix is a polynomial piece `Spec.CubicSpline.Piece` with explicit `val`, `d1`,
`d2`.  `piece_derivatives_formal` proves that `val` is a polynomial of degree ≤ 3 whose
`Polynomial.derivative` is `d1` and whose second derivative is `d2` (over `ℚ`, where the model
computes); `piece_derivatives_analytic` proves `HasDerivAt` over any normed field of
characteristic 0.  "C¹ / C² at a knot" means: the two adjacent pieces have equal `d1` / `d2`
values at the shared knot; `cr_glued_pieces_C2_real` turns that into: the glued function `ℝ → ℝ` is
twice differentiable everywhere.  C12.7 proves that the spline with these defining conditions is
unique (and exists for every strictly increasing knot vector), so the columns are THE natural /
periodic interpolating splines of the unit vectors. -/

namespace FormulaicVerif.Props.C12
open FormulaicVerif.Model.BSpline FormulaicVerif.Spec.BSpline FormulaicVerif.Proofs.C12


/-- **C12.0** What a successful first call records and returns: the recorded knot vector is
`padKnots lower interior upper degree` where `interior` is what `interiorKnots` produced (the
explicit knots, or the value of the quantile parameter), and the output rows are, value by value,
`rowFor` — the function all the row-level theorems below are about. -/
theorem bs_fit_shape (a : Args) (xs : List (Option Rat)) (quant : List Rat → ℕ → List Rat)
    (st : State) (out : Output) (hfit : fit a xs quant = .ok (st, out)) :
    (∃ interior, interiorKnots a st.lower st.upper xs quant = .ok interior ∧
        st.knots = padKnots st.lower interior st.upper a.degree) ∧
      out.rows = xs.map (rowFor st a.degree a.intercept a.mode) := by
  unfold fit at hfit
  split at hfit
  · cases hfit
  · rename_i st' hp
    split at hfit
    · cases hfit
    · rename_i out' ht
      injection hfit with hfit
      injection hfit with e1 e2
      subst e1 e2
      refine ⟨prepare_shape hp, ?_⟩
      unfold transform at ht
      split at ht
      · cases ht
      · injection ht with ht
        subst ht
        rfl

/-- **C12.1** The buffered two-cache sweep of `basis_spline` computes the Cox–de Boor recursion:
for EVERY knot list (any length, any multiplicity, sorted or not), every degree and every `x`, the
final buffer `cache[degree % 2]` is the list of all `len(knots) − degree − 1` functions
`B_{i,degree}(x)` of the reference definition on that knot vector. -/
theorem bs_eq_coxdeboor (knots : List Rat) (degree : ℕ) (ext : Bool) (x : ℚ) :
    rowAll knots degree ext x
      = (List.range (knots.length - degree - 1)).map
          (B (knotFn knots)
            (b0 (knotFn knots) knots.length degree (knots.length - degree - 1) ext x) x degree) := by
  rw [rowAll_eq_specRow, specRow, List.range_eq_range']

/-- **C12.2a** Partition of unity on the CLOSED interval `[lower, upper]` (right boundary
included), for every degree and every admissible interior knot list (repeated knots and knots
equal to a bound allowed). -/
theorem bs_partition_of_unity {lower upper : Rat} {interior : List Rat}
    (h : KnotsOk lower upper interior) (degree : ℕ) (x : ℚ) (h1 : lower ≤ x) (h2 : x ≤ upper) :
    (rowAll (padKnots lower interior upper degree) degree false x).sum = 1 := by
  obtain ⟨j, ja, jb, jr, _, _⟩ := inside_unit h degree x h1 h2
  rw [jr, sum_map_range]
  exact B_sum_unit _ j x _ jb degree ja

/-- **C12.2b** Non-negativity (hence, with C12.2a, every entry lies in `[0, 1]`) inside the bounds. -/
theorem bs_nonneg {lower upper : Rat} {interior : List Rat}
    (h : KnotsOk lower upper interior) (degree : ℕ) (x : ℚ) (h1 : lower ≤ x) (h2 : x ≤ upper) :
    ∀ v ∈ rowAll (padKnots lower interior upper degree) degree false x, 0 ≤ v ∧ v ≤ 1 := by
  have hnn : ∀ v ∈ rowAll (padKnots lower interior upper degree) degree false x, 0 ≤ v := by
    obtain ⟨j, ja, jb, jr, jlo, jhi⟩ := inside_unit h degree x h1 h2
    intro v hv
    rw [jr, List.mem_map] at hv
    obtain ⟨i, hi, rfl⟩ := hv
    rw [List.mem_range'_1] at hi
    exact B_nonneg _ _ j x jlo jhi degree i (by omega)
  intro v hv
  refine ⟨hnn v hv, ?_⟩
  rw [← bs_partition_of_unity h degree x h1 h2]
  exact List.single_le_sum hnn v hv

/-- **C12.2c** Local support: the `i`-th basis function can be non-zero at an in-range `x` only if
`knots[i] ≤ x ≤ knots[i + degree + 1]`. -/
theorem bs_local_support {lower upper : Rat} {interior : List Rat}
    (h : KnotsOk lower upper interior) (degree : ℕ) (x : ℚ) (h1 : lower ≤ x) (h2 : x ≤ upper)
    (i : ℕ) (v : ℚ)
    (hv : (rowAll (padKnots lower interior upper degree) degree false x)[i]? = some v) (hne : v ≠ 0) :
    knotFn (padKnots lower interior upper degree) i ≤ x ∧
      x ≤ knotFn (padKnots lower interior upper degree) (i + degree + 1) := by
  obtain ⟨j, ja, jb, jr, jlo, jhi⟩ := inside_unit h degree x h1 h2
  rw [jr, List.getElem?_map] at hv
  have hi : i < (padKnots lower interior upper degree).length - degree - 1 := by
    by_contra hc
    rw [List.getElem?_eq_none (by simpa using Nat.le_of_not_lt hc)] at hv
    simp at hv
  rw [List.getElem?_range' (by simpa using hi)] at hv
  simp only [Option.map_some, Option.some.injEq, Nat.zero_add, Nat.one_mul] at hv
  subst hv
  have hs := B_support _ j x degree i hne
  exact ⟨jlo i hs.1, jhi _ (by omega) (by omega)⟩


/-- **C12.3** Column count: a first call with `df = k ≠ 0` that succeeds returns exactly `k`
columns (keys) and every non-null row has `k` entries — for both intercept options, every degree,
every extrapolation mode.  The only assumption on the quantile routine is that it returns as many
knots as requested. -/
theorem bs_ncols (a : Args) (xs : List (Option Rat)) (quant : List Rat → ℕ → List Rat)
    (st : State) (out : Output) (df : ℕ)
    (hq : ∀ s m, (quant s m).length = m) (hdf : a.df = some (df : Int))
    (hfit : fit a xs quant = .ok (st, out)) :
    out.cols.length = df ∧ ∀ row, some row ∈ out.rows → row.length = df := by
  unfold fit at hfit
  split at hfit
  · cases hfit
  · rename_i st' hp
    split at hfit
    · cases hfit
    · rename_i out' ht
      injection hfit with hfit
      injection hfit with e1 e2
      subst e1 e2
      obtain ⟨interior, hi, hk⟩ := prepare_shape hp
      have hlen := interiorKnots_length hq hdf hi
      have hkl : st'.knots.length = interior.length + 2 * a.degree + 2 := by
        rw [hk, padKnots_length]
      unfold transform at ht
      split at ht
      · cases ht
      · injection ht with ht
        subst ht
        constructor
        · simp only [List.length_map, selectCols_length, List.length_range]
          cases hic : a.intercept <;> simp [hic] at hlen ⊢ <;> omega
        · intro row hrow
          simp only [List.mem_map] at hrow
          obtain ⟨x, _, hx⟩ := hrow
          unfold rowFor at hx
          split at hx
          · cases hx
          · injection hx with hx
            subst hx
            simp only [List.length_map, selectCols_length, rowAll_length]
            cases hic : a.intercept <;> simp [hic] at hlen ⊢ <;> omega

/-- **C12.3'** with explicit interior knots (no `df`): `len(knots) + degree + intercept` columns -/
theorem bs_ncols_knots (a : Args) (xs : List (Option Rat)) (quant : List Rat → ℕ → List Rat)
    (st : State) (out : Output) (ks : List Rat)
    (hdf : a.df = none) (hk : a.knots = some ks) (hfit : fit a xs quant = .ok (st, out)) :
    out.cols.length = ks.length + a.degree + (if a.intercept then 1 else 0) := by
  unfold fit at hfit
  split at hfit
  · cases hfit
  · rename_i st' hp
    split at hfit
    · cases hfit
    · rename_i out' ht
      injection hfit with hfit
      injection hfit with e1 e2
      subst e1 e2
      obtain ⟨interior, hi, hkn⟩ := prepare_shape hp
      have : interior = ks := by
        unfold interiorKnots at hi
        simp only [hdf, hk] at hi
        injection hi with hi
        exact hi.symm
      subst this
      have hkl : st'.knots.length = interior.length + 2 * a.degree + 2 := by
        rw [hkn, padKnots_length]
      unfold transform at ht
      split at ht
      · cases ht
      · injection ht with ht
        subst ht
        simp only [List.length_map, selectCols_length, List.length_range]
        cases hic : a.intercept <;> simp <;> omega


/-- the polynomial piece of the basis that lives on the knot interval `[t_j, t_{j+1})`, as a
function of `x` on the whole line: the Cox–de Boor recursion started from the FIXED unit row
`e_j` (every entry is a polynomial in `x`) -/
def piece (knots : List Rat) (degree j : ℕ) (x : ℚ) : List ℚ :=
  (List.range (knots.length - degree - 1)).map (B (knotFn knots) (unit j) x degree)

/-- **C12.4 (null)** a null input value gives a null row in every mode. -/
theorem bs_null_row (st : State) (degree : ℕ) (ic : Bool) (mode : Mode) :
    rowFor st degree ic mode none = none := rfl

/-- **C12.4 (clip)** the row of `x` is the row of the clipped value, which lies inside the bounds
(so it is non-negative and sums to one by C12.2). -/
theorem bs_extrapolation_clip (st : State) (degree : ℕ) (ic : Bool) (v : ℚ) :
    rowFor st degree ic .clip (some v)
        = rowFor st degree ic .raise (some (min (max v st.lower) st.upper)) ∧
      (st.lower ≤ st.upper →
        st.lower ≤ min (max v st.lower) st.upper ∧ min (max v st.lower) st.upper ≤ st.upper) := by
  refine ⟨rfl, fun h => ⟨le_min (le_max_right _ _) h, min_le_right _ _⟩⟩

/-- **C12.4 (na)** out-of-range values give a null row, in-range values are untouched. -/
theorem bs_extrapolation_na (st : State) (degree : ℕ) (ic : Bool) (v : ℚ) :
    ((v < st.lower ∨ st.upper < v) → rowFor st degree ic .na (some v) = none) ∧
    (st.lower ≤ v → v ≤ st.upper →
      rowFor st degree ic .na (some v) = rowFor st degree ic .raise (some v)) := by
  constructor
  · intro h
    have : outside st.lower st.upper v = true := by
      unfold outside; rcases h with h | h <;> simp [h]
    simp [rowFor, adjust, this]
  · intro h1 h2
    have : outside st.lower st.upper v = false := by
      unfold outside; simp [not_lt.2 h1, not_lt.2 h2]
    simp [rowFor, adjust, this]
    rfl

/-- **C12.4 (zero)** out-of-range values give an all-zero row. -/
theorem bs_extrapolation_zero {lower upper : Rat} {interior : List Rat}
    (h : KnotsOk lower upper interior) (degree : ℕ) (x : ℚ) (hx : x < lower ∨ upper < x) :
    ∀ v ∈ rowAll (padKnots lower interior upper degree) degree false x, v = 0 := by
  have P := padded_padKnots h degree
  have hl := padKnots_length lower upper interior degree
  have e1 : knotFn (padKnots lower interior upper degree) degree = lower :=
    knotFn_left _ _ _ _ _ (le_refl _)
  have e2 : knotFn (padKnots lower interior upper degree)
      ((padKnots lower interior upper degree).length - degree - 1) = upper :=
    knotFn_right _ _ _ _ _ (by omega) (by omega)
  have hz := b0_zero_outside P x (by rw [e1, e2]; exact hx)
  intro v hv
  rw [rowAll_eq_specRow, specRow, List.mem_map] at hv
  obtain ⟨i, _, rfl⟩ := hv
  exact B_zero_of_zero _ x _ hz degree i

/-- **C12.4 (raise)** an error is raised iff some non-null value lies outside the bounds. -/
theorem bs_extrapolation_raise (st : State) (degree : ℕ) (ic : Bool) (xs : List (Option Rat)) :
    (transform st degree ic .raise xs = .error .valueError)
      ↔ ∃ v, some v ∈ xs ∧ (v < st.lower ∨ st.upper < v) := by
  unfold transform
  have key : ((nonNull xs).any (outside st.lower st.upper) = true)
      ↔ ∃ v, some v ∈ xs ∧ (v < st.lower ∨ st.upper < v) := by
    simp only [List.any_eq_true, nonNull, List.mem_filterMap, id]
    constructor
    · rintro ⟨v, ⟨o, ho, rfl⟩, hv⟩
      refine ⟨v, ho, ?_⟩
      simpa [outside] using hv
    · rintro ⟨v, hv, hout⟩
      exact ⟨v, ⟨some v, hv, rfl⟩, by simpa [outside] using hout⟩
  by_cases hc : (nonNull xs).any (outside st.lower st.upper) = true
  · simp [hc, key.1 hc]
  · have : ¬ ∃ v, some v ∈ xs ∧ (v < st.lower ∨ st.upper < v) := fun h => hc (key.2 h)
    simp [hc, this]

/-- **C12.4 (extend)** for EVERY `x` the extended row sums to one; inside the bounds it is the
ordinary row; below the lower bound it is the polynomial piece of the first knot interval
`[t_d, t_{d+1})` evaluated at `x`, above the upper bound that of the last interval
`[t_{r-1}, t_r)`; and (last clause) an ordinary in-range row is the polynomial piece of the
interval that brackets the point — so "piece" really is what the basis equals there. -/
theorem bs_extrapolation_extend {lower upper : Rat} {interior : List Rat}
    (h : KnotsOk lower upper interior) (degree : ℕ) (x : ℚ) :
    let K := padKnots lower interior upper degree
    (rowAll K degree true x).sum = 1 ∧
    (lower ≤ x → x ≤ upper → rowAll K degree true x = rowAll K degree false x) ∧
    (x < lower → rowAll K degree true x = piece K degree degree x) ∧
    (upper < x → rowAll K degree true x = piece K degree (degree + interior.length) x) ∧
    (∀ j, degree ≤ j → j ≤ degree + interior.length →
      knotFn K j ≤ x → x < knotFn K (j + 1) → rowAll K degree false x = piece K degree j x) := by
  intro K
  have P : Padded (knotFn K) K.length degree (K.length - degree - 1) := padded_padKnots h degree
  have hl : K.length = interior.length + 2 * degree + 2 := padKnots_length lower upper interior degree
  have e1 : knotFn K degree = lower := knotFn_left _ _ _ _ _ (le_refl _)
  have e2 : knotFn K (K.length - degree - 1) = upper := knotFn_right _ _ _ _ _ (by omega) (by omega)
  obtain ⟨j, ja, jb, ju, jlo, jhi, _⟩ := b0_unit_ext P x
  have hrow : rowAll K degree true x = piece K degree j x := by
    rw [rowAll_eq_specRow, specRow_congr _ _ _ _ _ _ ju, piece, List.range_eq_range']
  refine ⟨?_, ?_, ?_, ?_, ?_⟩
  · rw [rowAll_eq_specRow, specRow_congr _ _ _ _ _ _ ju, sum_map_range]
    exact B_sum_unit _ j x _ jb degree ja
  · intro h1 h2
    rw [rowAll_eq_specRow, rowAll_eq_specRow]
    exact specRow_congr _ _ _ _ _ _ (fun i => b0_ext_eq_inside _ _ _ _ x (by rw [e1]; exact h1)
      (by rw [e2]; exact h2) i)
  · intro hx
    rw [hrow, jlo (by rw [e1]; exact hx)]
  · intro hx
    rw [hrow, jhi (by rw [e2]; exact le_of_lt hx)]
    congr 1; omega
  · intro j' hj1 hj2 hj3 hj4
    have hin1 : lower ≤ x := e1 ▸ le_trans (P.mono degree j' hj1 (by omega)) hj3
    have hin2 : x ≤ upper := e2 ▸ le_trans (le_of_lt hj4) (P.mono (j' + 1) _ (by omega) (by omega))
    obtain ⟨j2, _, j2b, j2u, j2lo, j2hi, j2c, j2d⟩ :=
      b0_unit_inside P x (by rw [e1]; exact hin1) (by rw [e2]; exact hin2)
    have hone : b0 (knotFn K) K.length degree (K.length - degree - 1) false x j' = 1 := by
      have hn : j' + 1 < K.length := by omega
      unfold b0 ind
      simp only [hn, if_true, Bool.false_eq_true, if_false]
      rw [if_pos]
      refine ⟨hj3, ?_⟩
      split
      · exact le_of_lt hj4
      · exact hj4
    have : j2 = j' := by
      rw [j2u] at hone
      unfold unit at hone
      split at hone
      · rename_i e; exact e.symm
      · exact absurd hone (by norm_num)
    subst this
    rw [rowAll_eq_specRow, specRow_congr _ _ _ _ _ _ j2u, piece, List.range_eq_range']


/-! ## Non-vacuity: concrete instances of the hypotheses and of the conclusions
(`decide +kernel` on closed rational arithmetic; these are examples, not the general claims) -/

/-- admissible interior knots with a repeated knot and a knot equal to the upper bound -/
example : KnotsOk 0 1 [1/2, 1/2, 1] := ⟨by decide +kernel, by decide +kernel, by decide +kernel⟩
/-- a quadratic row strictly inside, with a double interior knot: non-negative, sums to one -/
example : rowAll (padKnots 0 [1/2, 1/2] 1 2) 2 false (1/4) = [1/4, 1/2, 1/4, 0, 0] := by decide +kernel
/-- the closed right boundary -/
example : rowAll (padKnots 0 [1/2] 1 3) 3 false 1 = [0, 0, 0, 0, 1] := by decide +kernel
/-- `extend`: linear pieces continued outside `[0, 1]` (negative entries, still summing to one) -/
example : rowAll (padKnots 0 [1/2] 1 1) 1 true 2 = [0, -2, 3] := by decide +kernel
/-- `zero` mode outside and the un-extended row: all zeros -/
example : rowAll (padKnots 0 [1/2] 1 1) 1 false 2 = [0, 0, 0] := by decide +kernel
/-- `bs_ncols`: a concrete successful first call with `df = 5`, degree 2, no intercept -/
example : (fit { df := some 5, knots := none, degree := 2, intercept := false, lower := none,
                 upper := none, mode := .raise } [some 0, some 1, none, some (1/2)]
              (fun _ m => List.replicate m (1/2))).toOption.map (fun r => r.2.cols)
            = some [1, 2, 3, 4, 5] := by decide +kernel
/-- `raise` raises exactly when a value is outside -/
example : (transform ⟨0, 1, padKnots 0 [] 1 1⟩ 1 true .raise [some (1/2), some 2]).toOption.isNone = true ∧
    (transform ⟨0, 1, padKnots 0 [] 1 1⟩ 1 true .raise [some (1/2), none, some 1]).toOption.isSome = true := by
  decide +kernel

section cubic
open FormulaicVerif.Model.CubicSpline FormulaicVerif.Spec.CubicSpline

/-- **C12.5a** Identity at the knots, natural spline: for ANY second-derivative map `F` (of the
right shape), the unconstrained design-matrix row at knot `k` is the unit row `e_k`.  Hence the
columns are the cardinal functions of the interpolation problem at the recorded knots whatever
the linear solver returned. -/
theorem cr_identity_at_knots (knots : List Rat) (F : List (List Rat)) (k : ℕ)
    (hk : k < knots.length) (hs : knots.Pairwise (· < ·)) (hn : 2 ≤ knots.length)
    (hF : F.length = knots.length) (hFr : ∀ r ∈ F, r.length = knots.length) :
    freeRow knots false F knots[k] = .ok ((List.range knots.length).map (delta k)) := by
  unfold freeRow
  simp only [Bool.false_eq_true, if_false]
  have := freeRowCore_at knots hs hn k hk knots.length false F hF hFr (by simp)
  simpa using this

/-- **C12.5b** Identity at the knots, cyclic spline (`n − 1` columns; the last knot is
identified with the first): the row at knot `k` is `e_k`, and `e_0` at the last knot. -/
theorem cc_identity_at_knots (knots : List Rat) (F : List (List Rat)) (k : ℕ)
    (hk : k < knots.length) (hs : knots.Pairwise (· < ·)) (hn : 2 ≤ knots.length)
    (hF : F.length = knots.length - 1) (hFr : ∀ r ∈ F, r.length = knots.length - 1) :
    freeRow knots true F knots[k]
      = .ok ((List.range (knots.length - 1)).map (delta (if k + 1 = knots.length then 0 else k))) := by
  unfold freeRow
  obtain ⟨mn, mx, h1, h2, h3⟩ := mapCyclic_at knots hs hn k hk
  simp only [if_true, h1, h2, h3]
  have := freeRowCore_at knots hs hn k hk (knots.length - 1) true F hF hFr (by simp)
  simpa using this

/-- **C12.5c** Interpolation, for ANY `F` (a corollary of identity at the knots; the theorem keeps its
name from the round in which C12.5 was still open): for ANY `F`, the spline with coefficient vector `β`
takes the value `β_k` at knot `k` — the coefficients of a `cr` basis are the function values at
the knots. -/
theorem cr_is_natural_interpolant_partial (knots : List Rat) (F : List (List Rat)) (k : ℕ)
    (hk : k < knots.length) (hs : knots.Pairwise (· < ·)) (hn : 2 ≤ knots.length)
    (hF : F.length = knots.length) (hFr : ∀ r ∈ F, r.length = knots.length)
    (β : List Rat) (hβ : β.length = knots.length) :
    ∃ row, freeRow knots false F knots[k] = .ok row ∧ dot row β = β.getD k 0 := by
  refine ⟨_, cr_identity_at_knots knots F k hk hs hn hF hFr, ?_⟩
  rw [List.range_eq_range']
  have := dot_unit knots.length 0 k β hβ hk
  simpa using this

/-- **C12.5d** `Piece.d1` and `Piece.d2` are the first and second derivative of `Piece.val`:
formally — `val` is the evaluation of a polynomial of degree ≤ 3 whose `Polynomial.derivative`
evaluates to `d1` and whose second derivative evaluates to `d2` (any field of characteristic 0,
in particular `ℚ`, where the model computes) — -/
theorem piece_derivatives_formal {α : Type} [Field α] [CharZero α] (p : Piece α) (hh : p.h ≠ 0) :
    ∃ P : Polynomial α, P.natDegree ≤ 3 ∧ (∀ x, P.eval x = p.val x) ∧
      (∀ x, (Polynomial.derivative P).eval x = p.d1 x) ∧
      (∀ x, (Polynomial.derivative (Polynomial.derivative P)).eval x = p.d2 x) :=
  ⟨Piece.poly p, Piece.poly_natDegree p, Piece.poly_eval p, Piece.poly_derivative_eval p,
    Piece.poly_derivative2_eval p hh⟩

/-- … and analytically: over any normed field of characteristic 0 (e.g. `ℝ`) `val` has derivative
`d1 x` at every `x` and `d1` has derivative `d2 x` (Mathlib's `HasDerivAt`). -/
theorem piece_derivatives_analytic {𝕜 : Type} [NontriviallyNormedField 𝕜] [CharZero 𝕜] (p : Piece 𝕜)
    (hh : p.h ≠ 0) (x : 𝕜) : HasDerivAt p.val (p.d1 x) x ∧ HasDerivAt p.d1 (p.d2 x) x :=
  ⟨Piece.hasDerivAt_val p x, Piece.hasDerivAt_d1 p hh x⟩

/-- **C12.5e** For ANY `F`: the first derivative of column `c` of the natural design matrix is
continuous at the interior knot `k_{j+1}` IFF the tridiagonal equation of that knot holds for the
values `e_c` and the second derivatives `F[·][c]`. -/
theorem cr_c1_iff_tridiagonal (knots : List Rat) (F : List (List Rat)) (hs : knots.Pairwise (· < ·))
    (j c : ℕ) (hj : j + 2 < knots.length) :
    (crPiece knots F j c).d1 (knotFn knots (j + 1)) = (crPiece knots F (j + 1) c).d1 (knotFn knots (j + 1))
      ↔ TriEq (hsp knots j) (hsp knots (j + 1)) (delta j c) (delta (j + 1) c) (delta (j + 2) c)
          (Ffn F j c) (Ffn F (j + 1) c) (Ffn F (j + 2) c) :=
  Piece.c1_iff_triEq (crPiece knots F j c) (crPiece knots F (j + 1) c)
    (crPiece_h_ne knots hs F j c (by omega)) (crPiece_h_ne knots hs F (j + 1) c hj) rfl rfl

/-- **C12.5** The natural cubic regression spline.  Let `F` satisfy the contract the engine
evaluates on every case (`residualF knots false F = 0`: `natB·F[1:-1] = natD`, first and last
row of `F` zero).  Then column `c` of the free design matrix, as a function of `x` on
`[k_0, k_{n-1}]`, is the natural interpolating cubic spline of the unit vector `e_c`:
(0) on each closed knot interval the value the MODEL computes is the value of the cubic piece
    `crPiece knots F j c` (so the column is a piecewise cubic, and single-valued at the knots);
(i) the pieces interpolate `e_c` at both ends;
(ii) the second derivatives of adjacent pieces agree at the shared knot (C², by construction);
(iii) the first derivatives of adjacent pieces agree at every interior knot (C¹ — this is what
     the contract buys, see `cr_c1_iff_tridiagonal`);
(iv) the second derivative vanishes at the two boundary knots (natural end conditions).
Derivatives are `Piece.d1`, `Piece.d2`, which are the derivatives of `Piece.val`
(`piece_derivatives_formal`, `piece_derivatives_analytic`). -/
theorem cr_is_natural_interpolant (knots : List Rat) (F : List (List Rat))
    (hs : knots.Pairwise (· < ·)) (hn : 2 ≤ knots.length)
    (hF : F.length = knots.length) (hFr : ∀ r ∈ F, r.length = knots.length)
    (hcontract : AllZero (residualF knots false F)) (c : ℕ) (hc : c < knots.length) :
    (∀ j (hj : j + 1 < knots.length) (x : ℚ), knots[j] ≤ x → x ≤ knots[j + 1] →
        ∃ row, freeRow knots false F x = .ok row ∧ row[c]? = some ((crPiece knots F j c).val x)) ∧
    (∀ j, j + 1 < knots.length →
        (crPiece knots F j c).val (knotFn knots j) = delta j c ∧
        (crPiece knots F j c).val (knotFn knots (j + 1)) = delta (j + 1) c) ∧
    (∀ j, j + 2 < knots.length →
        (crPiece knots F j c).d2 (knotFn knots (j + 1))
          = (crPiece knots F (j + 1) c).d2 (knotFn knots (j + 1))) ∧
    (∀ j, j + 2 < knots.length →
        (crPiece knots F j c).d1 (knotFn knots (j + 1))
          = (crPiece knots F (j + 1) c).d1 (knotFn knots (j + 1))) ∧
    (crPiece knots F 0 c).d2 (knotFn knots 0) = 0 ∧
    (crPiece knots F (knots.length - 2) c).d2 (knotFn knots (knots.length - 1)) = 0 := by
  obtain ⟨h0, hlast, htri⟩ := nat_contract_tri knots F hn hF hFr hcontract
  refine ⟨?_, ?_, ?_, ?_, ?_, ?_⟩
  · intro j hj x h1 h2
    exact ⟨_, freeRow_nat_piece knots hs hn F hF hFr j hj x h1 h2, map_getElem?_range _ c hc _⟩
  · intro j hj
    exact ⟨Piece.val_left _ (crPiece_h_ne knots hs F j c hj), Piece.val_right _ (crPiece_h_ne knots hs F j c hj)⟩
  · intro j hj
    have a := Piece.d2_right _ (crPiece_h_ne knots hs F j c (by omega))
    have b := Piece.d2_left _ (crPiece_h_ne knots hs F (j + 1) c hj)
    exact a.trans b.symm
  · intro j hj
    exact (cr_c1_iff_tridiagonal knots F hs j c hj).2 (htri j c hj hc)
  · have := Piece.d2_left _ (crPiece_h_ne knots hs F 0 c (by omega))
    exact this.trans (h0 c)
  · have e : knots.length - 2 + 1 = knots.length - 1 := by omega
    have := Piece.d2_right _ (crPiece_h_ne knots hs F (knots.length - 2) c (by omega))
    simp only [crPiece, e] at this ⊢
    exact this.trans (hlast c)


/-- **C12.5e'** cyclic analogue of `cr_c1_iff_tridiagonal`, at node `r` of the circle (node 0 is
the first AND the last knot): the left piece is the one on `[k_{pred r}, k_{pred r + 1}]`. -/
theorem cc_c1_iff_tridiagonal (knots : List Rat) (F : List (List Rat)) (hs : knots.Pairwise (· < ·))
    (r c : ℕ) (hr : r < knots.length - 1) :
    (ccPiece knots F (cpred (knots.length - 1) r) c).d1 (knotFn knots (cpred (knots.length - 1) r + 1))
        = (ccPiece knots F r c).d1 (knotFn knots r)
      ↔ TriEq (hsp knots (cpred (knots.length - 1) r)) (hsp knots r)
          (delta (cpred (knots.length - 1) r) c) (delta r c) (delta (csucc (knots.length - 1) r) c)
          (Ffn F (cpred (knots.length - 1) r) c) (Ffn F r c) (Ffn F (csucc (knots.length - 1) r) c) := by
  have hp := cpred_lt (knots.length - 1) r hr
  have e := csucc_cpred (knots.length - 1) r hr
  have key := Piece.c1_iff_triEq (ccPiece knots F (cpred (knots.length - 1) r) c) (ccPiece knots F r c)
    (ccPiece_h_ne knots hs F _ c (by omega)) (ccPiece_h_ne knots hs F r c (by omega))
    (by simp only [ccPiece, e]) (by simp only [ccPiece, e])
  simp only [ccPiece, Piece.h, e] at key
  simp only [ccPiece, hsp, e]
  exact key

/-- **C12.5'** The cyclic cubic regression spline.  Let `F` satisfy `residualF knots true F = 0`
(`cycB·F = cycD`).  Then column `c` of the free design matrix (`m = len(knots) − 1` columns; the
last knot is node 0 again) is the PERIODIC interpolating cubic spline of `e_c`:
(0) on each closed knot interval the model's value is that of the cubic piece `ccPiece`;
(i) the pieces interpolate `e_c` (the right end of the last piece carries the value of node 0);
(ii)/(iii) at EVERY node `r` of the circle — including node 0, where the piece ending at the
last knot meets the piece starting at the first knot — second and first derivatives of the two
adjacent pieces agree. -/
theorem cc_is_periodic_interpolant (knots : List Rat) (F : List (List Rat))
    (hs : knots.Pairwise (· < ·)) (hn : 2 ≤ knots.length)
    (hF : F.length = knots.length - 1) (hFr : ∀ r ∈ F, r.length = knots.length - 1)
    (hcontract : AllZero (residualF knots true F)) (c : ℕ) (hc : c < knots.length - 1) :
    (∀ j (hj : j + 1 < knots.length) (x : ℚ), knots[j] ≤ x → x ≤ knots[j + 1] →
        ∃ row, freeRow knots true F x = .ok row ∧ row[c]? = some ((ccPiece knots F j c).val x)) ∧
    (∀ j, j + 1 < knots.length →
        (ccPiece knots F j c).val (knotFn knots j) = delta j c ∧
        (ccPiece knots F j c).val (knotFn knots (j + 1)) = delta (csucc (knots.length - 1) j) c) ∧
    (∀ r, r < knots.length - 1 →
        (ccPiece knots F (cpred (knots.length - 1) r) c).d2 (knotFn knots (cpred (knots.length - 1) r + 1))
          = (ccPiece knots F r c).d2 (knotFn knots r)) ∧
    (∀ r, r < knots.length - 1 →
        (ccPiece knots F (cpred (knots.length - 1) r) c).d1 (knotFn knots (cpred (knots.length - 1) r + 1))
          = (ccPiece knots F r c).d1 (knotFn knots r)) := by
  have htri := cyc_contract_tri knots F hn hF hFr hcontract
  refine ⟨?_, ?_, ?_, ?_⟩
  · intro j hj x h1 h2
    exact ⟨_, freeRow_cyc_piece knots hs hn F hF hFr j hj x h1 h2, map_getElem?_range _ c hc _⟩
  · intro j hj
    exact ⟨Piece.val_left _ (ccPiece_h_ne knots hs F j c hj), Piece.val_right _ (ccPiece_h_ne knots hs F j c hj)⟩
  · intro r hr
    have hp := cpred_lt (knots.length - 1) r hr
    have e := csucc_cpred (knots.length - 1) r hr
    have a := Piece.d2_right _ (ccPiece_h_ne knots hs F (cpred (knots.length - 1) r) c (by omega))
    have b := Piece.d2_left _ (ccPiece_h_ne knots hs F r c (by omega))
    simp only [ccPiece, e] at a b ⊢
    exact a.trans b.symm
  · intro r hr
    exact (cc_c1_iff_tridiagonal knots F hs r c hr).2 (htri r c hr hc)


/-- **C12.5f** Linear extrapolation (`extrapolation="extend"`, the default of `cr`): under the
contract, outside the knot range column `c` of the natural design matrix is the TANGENT LINE of
the boundary piece at the boundary knot — the natural spline continued with zero second
derivative, C¹ at the boundary. -/
theorem cr_linear_beyond_knots (knots : List Rat) (F : List (List Rat))
    (hs : knots.Pairwise (· < ·)) (hn : 2 ≤ knots.length)
    (hF : F.length = knots.length) (hFr : ∀ r ∈ F, r.length = knots.length)
    (hcontract : AllZero (residualF knots false F)) (c : ℕ) (hc : c < knots.length) :
    (∀ x : ℚ, x < knots[0] → ∃ row, freeRow knots false F x = .ok row ∧
        row[c]? = some (tangentL (crPiece knots F 0 c) x)) ∧
    (∀ x : ℚ, knots[knots.length - 1] < x → ∃ row, freeRow knots false F x = .ok row ∧
        row[c]? = some (tangentR (crPiece knots F (knots.length - 2) c) x)) := by
  obtain ⟨h0, hlast, _⟩ := nat_contract_tri knots F hn hF hFr hcontract
  exact ⟨fun x hx => ⟨_, freeRow_nat_below knots hs hn F hF hFr h0 x hx, map_getElem?_range _ c hc _⟩,
    fun x hx => ⟨_, freeRow_nat_above knots hs hn F hF hFr hlast x hx, map_getElem?_range _ c hc _⟩⟩

/-- **C12.5g** The same C² statement in the language of real analysis: under the contract, the
two pieces of column `c` on either side of an interior knot, read over `ℝ` and glued at the knot,
form a function that is twice differentiable at EVERY real `x` (Mathlib `HasDerivAt`); its
derivative is the glued `d1` and its second derivative the glued `d2`. -/
theorem cr_glued_pieces_C2_real (knots : List Rat) (F : List (List Rat))
    (hs : knots.Pairwise (· < ·)) (hn : 2 ≤ knots.length)
    (hF : F.length = knots.length) (hFr : ∀ r ∈ F, r.length = knots.length)
    (hcontract : AllZero (residualF knots false F)) (c : ℕ) (hc : c < knots.length)
    (j : ℕ) (hj : j + 2 < knots.length) (x : ℝ) :
    let p := (crPiece knots F j c).toReal
    let q := (crPiece knots F (j + 1) c).toReal
    let k : ℝ := (knotFn knots (j + 1) : ℚ)
    HasDerivAt (glue p.val q.val k) (glue p.d1 q.d1 k x) x ∧
      HasDerivAt (glue p.d1 q.d1 k) (glue p.d2 q.d2 k x) x := by
  obtain ⟨_, hi, hii, hiii, _⟩ := cr_is_natural_interpolant knots F hs hn hF hFr hcontract c hc
  exact pieces_glue_C2 (crPiece knots F j c) (crPiece knots F (j + 1) c)
    (crPiece_h_ne knots hs F j c (by omega)) (crPiece_h_ne knots hs F (j + 1) c hj) rfl
    ((hi j (by omega)).2.trans (hi (j + 1) hj).1.symm) (hiii j hj) (hii j hj) x

/-- **C12.5g'** cyclic analogue at the interior knots (at node 0 the two pieces meet only after
the periodic identification of the last knot with the first, see `cc_is_periodic_interpolant`). -/
theorem cc_glued_pieces_C2_real (knots : List Rat) (F : List (List Rat))
    (hs : knots.Pairwise (· < ·)) (hn : 2 ≤ knots.length)
    (hF : F.length = knots.length - 1) (hFr : ∀ r ∈ F, r.length = knots.length - 1)
    (hcontract : AllZero (residualF knots true F)) (c : ℕ) (hc : c < knots.length - 1)
    (j : ℕ) (hj : j + 2 < knots.length) (x : ℝ) :
    let p := (ccPiece knots F j c).toReal
    let q := (ccPiece knots F (j + 1) c).toReal
    let k : ℝ := (knotFn knots (j + 1) : ℚ)
    HasDerivAt (glue p.val q.val k) (glue p.d1 q.d1 k x) x ∧
      HasDerivAt (glue p.d1 q.d1 k) (glue p.d2 q.d2 k x) x := by
  obtain ⟨_, hi, hii, hiii⟩ := cc_is_periodic_interpolant knots F hs hn hF hFr hcontract c hc
  have e : cpred (knots.length - 1) (j + 1) = j := by simp [cpred]
  have e2 : csucc (knots.length - 1) j = j + 1 := by
    unfold csucc; rw [if_neg (by omega)]
  have a := hii (j + 1) (by omega)
  have b := hiii (j + 1) (by omega)
  rw [e] at a b
  exact pieces_glue_C2 (ccPiece knots F j c) (ccPiece knots F (j + 1) c)
    (ccPiece_h_ne knots hs F j c (by omega)) (ccPiece_h_ne knots hs F (j + 1) c hj) rfl
    ((hi j (by omega)).2.trans (by rw [e2]; exact (hi (j + 1) hj).1.symm)) b a x

/-! ### Non-vacuity for C12.5: exact second-derivative maps satisfying the contract -/

/-- natural spline through the knots 0, 1, 3: `F = [0; B⁻¹D; 0]` with `B = [1]`, `D = [1, −3/2, 1/2]` -/
example : AllZero (residualF [0, 1, 3] false [[0, 0, 0], [1, -3/2, 1/2], [0, 0, 0]]) := by
  unfold AllZero; decide +kernel
/-- periodic spline with the two nodes 0, 1 (period 3) -/
example : AllZero (residualF [0, 1, 3] true [[-3, 3], [3, -3]]) := by
  unfold AllZero; decide +kernel
/-- the contract is not vacuous: a wrong `F` violates it -/
example : ¬ AllZero (residualF [0, 1, 3] false [[0, 0, 0], [1, 1, 1], [0, 0, 0]]) := by
  unfold AllZero; decide +kernel
/-- and with the wrong `F` the first derivative really jumps at the interior knot (C12.5e) -/
example : (crPiece [0, 1, 3] [[0, 0, 0], [1, 1, 1], [0, 0, 0]] 0 1).d1 1
    ≠ (crPiece [0, 1, 3] [[0, 0, 0], [1, 1, 1], [0, 0, 0]] 1 1).d1 1 := by decide +kernel
example : (crPiece [0, 1, 3] [[0, 0, 0], [1, -3/2, 1/2], [0, 0, 0]] 0 1).d1 1
    = (crPiece [0, 1, 3] [[0, 0, 0], [1, -3/2, 1/2], [0, 0, 0]] 1 1).d1 1 := by decide +kernel


/-! ### C12.7 Uniqueness: the columns are THE natural / periodic interpolating splines -/

/-- **C12.7a** The second-derivative map of the natural spline is UNIQUE: the tridiagonal matrix
`natB` of `_get_natural_f` is strictly diagonally dominant for strictly increasing knots, so two
matrices that both satisfy the contract the engine evaluates (`natB·F[1:-1] = natD`, zero first and
last row) are equal.  Whatever linear solver the code calls, there is only one `F` it may return. -/
theorem cr_F_unique (knots : List Rat) (F F' : List (List Rat))
    (hs : knots.Pairwise (· < ·)) (hn : 2 ≤ knots.length)
    (hF : F.length = knots.length) (hFr : ∀ r ∈ F, r.length = knots.length)
    (hF' : F'.length = knots.length) (hFr' : ∀ r ∈ F', r.length = knots.length)
    (hc : AllZero (residualF knots false F)) (hc' : AllZero (residualF knots false F')) : F = F' := by
  obtain ⟨a0, a1, at'⟩ := nat_contract_tri knots F hn hF hFr hc
  obtain ⟨b0, b1, bt⟩ := nat_contract_tri knots F' hn hF' hFr' hc'
  refine matrix_ext F F' knots.length knots.length hF hF' hFr hFr' ?_
  intro i c hi hcc
  exact tri_unique knots.length (hsp knots) (fun k => delta k c) (fun k => Ffn F k c) (fun k => Ffn F' k c)
    (fun k hk => hsp_pos knots hs k hk) (a0 c) (b0 c) (a1 c) (b1 c)
    (fun k hk => at' k c hk hcc) (fun k hk => bt k c hk hcc) i hi

/-- **C12.7a'** the same for the periodic system `cycB·F = cycD` of `_get_cyclic_f`. -/
theorem cc_F_unique (knots : List Rat) (F F' : List (List Rat))
    (hs : knots.Pairwise (· < ·)) (hn : 2 ≤ knots.length)
    (hF : F.length = knots.length - 1) (hFr : ∀ r ∈ F, r.length = knots.length - 1)
    (hF' : F'.length = knots.length - 1) (hFr' : ∀ r ∈ F', r.length = knots.length - 1)
    (hc : AllZero (residualF knots true F)) (hc' : AllZero (residualF knots true F')) : F = F' := by
  have at' := cyc_contract_tri knots F hn hF hFr hc
  have bt := cyc_contract_tri knots F' hn hF' hFr' hc'
  refine matrix_ext F F' (knots.length - 1) (knots.length - 1) hF hF' hFr hFr' ?_
  intro i c hi hcc
  exact cyc_unique (knots.length - 1) (hsp knots) (fun k => delta k c) (fun k => Ffn F k c)
    (fun k => Ffn F' k c) (fun k hk => hsp_pos knots hs k (by omega))
    (fun r hr => at' r c hr hcc) (fun r hr => bt r c hr hcc) i hi

open Polynomial in
/-- **C12.7b** THE natural interpolating cubic spline.  Let `P_0, …, P_{n-2}` be ANY polynomials of
degree ≤ 3, one per knot interval, that interpolate the unit vector `e_c` at both ends of their
interval (so the glued function is continuous), have equal first and second derivatives
(`Polynomial.derivative`) at every interior knot, and zero second derivative at the two boundary
knots.  Then, under the contract on `F`, each `P_j` is — on the whole line, as a function — the
cubic piece of column `c` of the model's design matrix (which, by `cr_is_natural_interpolant`, is
the value the model computes on `[k_j, k_{j+1}]`).  The column is not merely *a* spline with the
defining properties: it is the only one. -/
theorem cr_interpolant_unique (knots : List Rat) (F : List (List Rat))
    (hs : knots.Pairwise (· < ·)) (hn : 2 ≤ knots.length)
    (hF : F.length = knots.length) (hFr : ∀ r ∈ F, r.length = knots.length)
    (hcontract : AllZero (residualF knots false F)) (c : ℕ) (hc : c < knots.length)
    (P : ℕ → Polynomial ℚ)
    (hdeg : ∀ j, j + 1 < knots.length → (P j).natDegree ≤ 3)
    (hL : ∀ j, j + 1 < knots.length → (P j).eval (knotFn knots j) = delta j c)
    (hR : ∀ j, j + 1 < knots.length → (P j).eval (knotFn knots (j + 1)) = delta (j + 1) c)
    (hC1 : ∀ j, j + 2 < knots.length →
      (derivative (P j)).eval (knotFn knots (j + 1)) = (derivative (P (j + 1))).eval (knotFn knots (j + 1)))
    (hC2 : ∀ j, j + 2 < knots.length →
      (derivative (derivative (P j))).eval (knotFn knots (j + 1))
        = (derivative (derivative (P (j + 1)))).eval (knotFn knots (j + 1)))
    (hN0 : (derivative (derivative (P 0))).eval (knotFn knots 0) = 0)
    (hN1 : (derivative (derivative (P (knots.length - 2)))).eval (knotFn knots (knots.length - 1)) = 0) :
    ∀ j, j + 1 < knots.length → ∀ x, (P j).eval x = (crPiece knots F j c).val x := by
  -- second derivatives of the given spline at the knots
  let m : ℕ → ℚ := fun i =>
    if i + 1 < knots.length then (derivative (derivative (P i))).eval (knotFn knots i)
    else (derivative (derivative (P (knots.length - 2)))).eval (knotFn knots (knots.length - 1))
  have hmL : ∀ j, j + 1 < knots.length → (derivative (derivative (P j))).eval (knotFn knots j) = m j := by
    intro j hj; simp only [m, hj, if_true]
  have hmR : ∀ j, j + 1 < knots.length →
      (derivative (derivative (P j))).eval (knotFn knots (j + 1)) = m (j + 1) := by
    intro j hj
    by_cases h2 : j + 2 < knots.length
    · rw [hC2 j h2]; simp only [m, h2, if_true]
    · have e : j = knots.length - 2 := by omega
      have e' : j + 1 = knots.length - 1 := by omega
      simp only [m, h2, if_false]
      rw [e', ← e]
  -- the given spline, piece by piece, in the values / second derivatives parametrisation
  let q : ℕ → Piece ℚ := fun j =>
    { kl := knotFn knots j, kr := knotFn knots (j + 1), yl := delta j c, yr := delta (j + 1) c,
      ml := m j, mr := m (j + 1) }
  have hne : ∀ j, j + 1 < knots.length → knotFn knots (j + 1) - knotFn knots j ≠ 0 :=
    fun j hj => ne_of_gt (hsp_pos knots hs j hj)
  have hq : ∀ j, j + 1 < knots.length →
      (∀ x, (P j).eval x = (q j).val x) ∧ (∀ x, (derivative (P j)).eval x = (q j).d1 x) := by
    intro j hj
    have := cubic_as_piece (P j) (hdeg j hj) (knotFn knots j) (knotFn knots (j + 1)) (hne j hj)
    simp only [hL j hj, hR j hj, hmL j hj, hmR j hj] at this
    exact this
  -- C¹ at the interior knots = the tridiagonal equations for `m`
  have htri : ∀ i, i + 2 < knots.length →
      TriEq (hsp knots i) (hsp knots (i + 1)) (delta i c) (delta (i + 1) c) (delta (i + 2) c)
        (m i) (m (i + 1)) (m (i + 2)) := by
    intro i hi
    have h1 := (hq i (by omega)).2 (knotFn knots (i + 1))
    have h2 := (hq (i + 1) hi).2 (knotFn knots (i + 1))
    have := (Piece.c1_iff_triEq (q i) (q (i + 1)) (hne i (by omega)) (hne (i + 1) hi) rfl rfl).1
      (by
        show (q i).d1 (knotFn knots (i + 1)) = (q (i + 1)).d1 (knotFn knots (i + 1))
        rw [← h1, ← h2]; exact hC1 i hi)
    exact this
  obtain ⟨a0, a1, at'⟩ := nat_contract_tri knots F hn hF hFr hcontract
  have m0 : m 0 = 0 := by rw [← hmL 0 (by omega)]; exact hN0
  have m1 : m (knots.length - 1) = 0 := by
    have : ¬ (knots.length - 1 + 1 < knots.length) := by omega
    simp only [m, this, if_false]; exact hN1
  have hmF : ∀ i, i < knots.length → m i = Ffn F i c :=
    tri_unique knots.length (hsp knots) (fun k => delta k c) m (fun k => Ffn F k c)
      (fun k hk => hsp_pos knots hs k hk) m0 (a0 c) m1 (a1 c) htri (fun k hk => at' k c hk hc)
  intro j hj x
  rw [(hq j hj).1 x]
  have : q j = crPiece knots F j c := by
    simp only [q, crPiece, hmF j (by omega), hmF (j + 1) hj]
  rw [this]

open Polynomial in
/-- **C12.7c** Existence, so that C12.7b is not vacuous and "the" is justified: under the contract
the pieces of column `c`, read as polynomials, satisfy every hypothesis of `cr_interpolant_unique`. -/
theorem cr_column_is_natural_spline (knots : List Rat) (F : List (List Rat))
    (hs : knots.Pairwise (· < ·)) (hn : 2 ≤ knots.length)
    (hF : F.length = knots.length) (hFr : ∀ r ∈ F, r.length = knots.length)
    (hcontract : AllZero (residualF knots false F)) (c : ℕ) (hc : c < knots.length) :
    let P : ℕ → Polynomial ℚ := fun j => Piece.poly (crPiece knots F j c)
    (∀ j, j + 1 < knots.length → (P j).natDegree ≤ 3) ∧
    (∀ j, j + 1 < knots.length → (P j).eval (knotFn knots j) = delta j c) ∧
    (∀ j, j + 1 < knots.length → (P j).eval (knotFn knots (j + 1)) = delta (j + 1) c) ∧
    (∀ j, j + 2 < knots.length →
      (derivative (P j)).eval (knotFn knots (j + 1)) = (derivative (P (j + 1))).eval (knotFn knots (j + 1))) ∧
    (∀ j, j + 2 < knots.length →
      (derivative (derivative (P j))).eval (knotFn knots (j + 1))
        = (derivative (derivative (P (j + 1)))).eval (knotFn knots (j + 1))) ∧
    (derivative (derivative (P 0))).eval (knotFn knots 0) = 0 ∧
    (derivative (derivative (P (knots.length - 2)))).eval (knotFn knots (knots.length - 1)) = 0 := by
  obtain ⟨_, hi, hii, hiii, h0, h1⟩ := cr_is_natural_interpolant knots F hs hn hF hFr hcontract c hc
  intro P
  have hh : ∀ j, j + 1 < knots.length → (crPiece knots F j c).h ≠ 0 :=
    fun j hj => crPiece_h_ne knots hs F j c hj
  refine ⟨fun j _ => Piece.poly_natDegree _, ?_, ?_, ?_, ?_, ?_, ?_⟩
  · intro j hj; simp only [P, Piece.poly_eval]; exact (hi j hj).1
  · intro j hj; simp only [P, Piece.poly_eval]; exact (hi j hj).2
  · intro j hj; simp only [P, Piece.poly_derivative_eval]; exact hiii j hj
  · intro j hj
    simp only [P]
    rw [Piece.poly_derivative2_eval _ (hh j (by omega)), Piece.poly_derivative2_eval _ (hh (j + 1) hj)]
    exact hii j hj
  · simp only [P]; rw [Piece.poly_derivative2_eval _ (hh 0 (by omega))]; exact h0
  · simp only [P]; rw [Piece.poly_derivative2_eval _ (hh _ (by omega))]; exact h1


open Polynomial in
/-- **C12.7b'** THE periodic interpolating cubic spline: any polynomials `P_0, …, P_{m-1}` of degree
≤ 3 (one per interval; `m = len(knots) − 1` nodes on the circle, the last knot is node 0) that
interpolate `e_c`, and whose first and second derivatives agree at EVERY node of the circle
(including node 0, where the last piece meets the first), are the pieces of column `c` of the
cyclic design matrix. -/
theorem cc_interpolant_unique (knots : List Rat) (F : List (List Rat))
    (hs : knots.Pairwise (· < ·)) (hn : 2 ≤ knots.length)
    (hF : F.length = knots.length - 1) (hFr : ∀ r ∈ F, r.length = knots.length - 1)
    (hcontract : AllZero (residualF knots true F)) (c : ℕ) (hc : c < knots.length - 1)
    (P : ℕ → Polynomial ℚ)
    (hdeg : ∀ j, j < knots.length - 1 → (P j).natDegree ≤ 3)
    (hL : ∀ j, j < knots.length - 1 → (P j).eval (knotFn knots j) = delta j c)
    (hR : ∀ j, j < knots.length - 1 →
      (P j).eval (knotFn knots (j + 1)) = delta (csucc (knots.length - 1) j) c)
    (hC1 : ∀ r, r < knots.length - 1 →
      (derivative (P (cpred (knots.length - 1) r))).eval (knotFn knots (cpred (knots.length - 1) r + 1))
        = (derivative (P r)).eval (knotFn knots r))
    (hC2 : ∀ r, r < knots.length - 1 →
      (derivative (derivative (P (cpred (knots.length - 1) r)))).eval
          (knotFn knots (cpred (knots.length - 1) r + 1))
        = (derivative (derivative (P r))).eval (knotFn knots r)) :
    ∀ j, j < knots.length - 1 → ∀ x, (P j).eval x = (ccPiece knots F j c).val x := by
  set k := knots.length - 1 with hk
  let m : ℕ → ℚ := fun i => (derivative (derivative (P i))).eval (knotFn knots i)
  have hmR : ∀ j, j < k →
      (derivative (derivative (P j))).eval (knotFn knots (j + 1)) = m (csucc k j) := by
    intro j hj
    have := hC2 (csucc k j) (csucc_lt k j hj)
    rw [cpred_csucc k j hj] at this
    exact this
  let q : ℕ → Piece ℚ := fun j =>
    { kl := knotFn knots j, kr := knotFn knots (j + 1), yl := delta j c, yr := delta (csucc k j) c,
      ml := m j, mr := m (csucc k j) }
  have hne : ∀ j, j < k → knotFn knots (j + 1) - knotFn knots j ≠ 0 :=
    fun j hj => ne_of_gt (hsp_pos knots hs j (by omega))
  have hq : ∀ j, j < k →
      (∀ x, (P j).eval x = (q j).val x) ∧ (∀ x, (derivative (P j)).eval x = (q j).d1 x) := by
    intro j hj
    have := cubic_as_piece (P j) (hdeg j hj) (knotFn knots j) (knotFn knots (j + 1)) (hne j hj)
    simp only [hL j hj, hR j hj, hmR j hj] at this
    exact this
  have htri : ∀ r, r < k →
      TriEq (hsp knots (cpred k r)) (hsp knots r) (delta (cpred k r) c) (delta r c) (delta (csucc k r) c)
        (m (cpred k r)) (m r) (m (csucc k r)) := by
    intro r hr
    have hp := cpred_lt k r hr
    have e := csucc_cpred k r hr
    have h1 := (hq (cpred k r) hp).2 (knotFn knots (cpred k r + 1))
    have h2 := (hq r hr).2 (knotFn knots r)
    have key := (Piece.c1_iff_triEq (q (cpred k r)) (q r) (hne _ hp) (hne r hr)
      (by simp only [q, e]) (by simp only [q, e])).1
      (by
        show (q (cpred k r)).d1 (knotFn knots (cpred k r + 1)) = (q r).d1 (knotFn knots r)
        rw [← h1, ← h2]; exact hC1 r hr)
    simp only [q, Piece.h, e] at key
    exact key
  have at' := cyc_contract_tri knots F hn hF hFr hcontract
  have hmF : ∀ i, i < k → m i = Ffn F i c :=
    cyc_unique k (hsp knots) (fun j => delta j c) m (fun j => Ffn F j c)
      (fun j hj => hsp_pos knots hs j (by omega)) htri (fun r hr => at' r c hr hc)
  intro j hj x
  rw [(hq j hj).1 x]
  have e1 := hmF j hj
  have e2 := hmF _ (csucc_lt k j hj)
  have : q j = ccPiece knots F j c := by
    simp only [q, ccPiece, e1, e2, ← hk]
  rw [this]

/-- **C12.7e** Existence and uniqueness of the second-derivative map, for EVERY strictly increasing
knot vector: the tridiagonal system of `_get_natural_f` is an injective (strictly diagonally
dominant), hence bijective, endomorphism — there is exactly one matrix of the right shape that
satisfies the contract.  So the hypothesis `hcontract` of C12.5–C12.7 is never vacuous, and "THE
natural interpolating spline" exists for all knots, not only for the instances checked above. -/
theorem cr_F_exists_unique (knots : List Rat) (hs : knots.Pairwise (· < ·)) (hn : 2 ≤ knots.length) :
    ∃! F : List (List Rat), F.length = knots.length ∧ (∀ r ∈ F, r.length = knots.length) ∧
      AllZero (residualF knots false F) := by
  obtain ⟨F, h1, h2, h3⟩ := cr_F_exists knots hs hn
  exact ⟨F, ⟨h1, h2, h3⟩, fun F' ⟨e1, e2, e3⟩ => cr_F_unique knots F' F hs hn e1 e2 h1 h2 e3 h3⟩

/-- **C12.7e'** the same for the periodic system of `_get_cyclic_f`. -/
theorem cc_F_exists_unique (knots : List Rat) (hs : knots.Pairwise (· < ·)) (hn : 2 ≤ knots.length) :
    ∃! F : List (List Rat), F.length = knots.length - 1 ∧ (∀ r ∈ F, r.length = knots.length - 1) ∧
      AllZero (residualF knots true F) := by
  obtain ⟨F, h1, h2, h3⟩ := cc_F_exists knots hs hn
  exact ⟨F, ⟨h1, h2, h3⟩, fun F' ⟨e1, e2, e3⟩ => cc_F_unique knots F' F hs hn e1 e2 h1 h2 e3 h3⟩

/-- **C12.7d** The second-derivative map is now COMPUTED by the model (`Model/SplineSolve.lean`:
exact Gauss–Jordan elimination on `natB·X = natD` / `cycB·X = cycD`) and returned only with its
certificate: whatever `solveF` returns has the right shape and satisfies the contract exactly, and
— for strictly increasing knots — it is the ONLY matrix that does (so the values the linear solver
of the code returns are approximations of exactly this matrix, which the correspondence compares
entry by entry). -/
theorem solveF_is_the_solution (knots : List Rat) (cyclic : Bool) (F : List (List Rat))
    (h : FormulaicVerif.Model.SplineSolve.solveF knots cyclic = some F) :
    let n := if cyclic then knots.length - 1 else knots.length
    F.length = n ∧ (∀ r ∈ F, r.length = n) ∧ AllZero (residualF knots cyclic F) ∧
    (knots.Pairwise (· < ·) → 2 ≤ knots.length →
      ∀ F' : List (List Rat), F'.length = n → (∀ r ∈ F', r.length = n) →
        AllZero (residualF knots cyclic F') → F' = F) := by
  intro n
  unfold FormulaicVerif.Model.SplineSolve.solveF at h
  simp only at h
  cases hF : (if cyclic = true then FormulaicVerif.Model.SplineSolve.cycF knots else FormulaicVerif.Model.SplineSolve.natF knots) with
  | none => rw [hF] at h; cases h
  | some F0 =>
    rw [hF] at h
    simp only at h
    by_cases hc : F0.length = n ∧ (F0.all fun r => decide (r.length = n)) = true ∧
        FormulaicVerif.Model.SplineSolve.allZero (residualF knots cyclic F0) = true
    · rw [if_pos hc] at h
      injection h with h
      subst h
      obtain ⟨h1, h2, h3⟩ := hc
      have h2' : ∀ r ∈ F0, r.length = n := by
        intro r hr
        have := (List.all_eq_true.1 h2) r hr
        simpa using this
      refine ⟨h1, h2', SplineSolve_allZero_spec h3, ?_⟩
      intro hs hn F' e1 e2 e3
      cases cyclic with
      | false => exact cr_F_unique knots F' F0 hs hn e1 e2 h1 h2' e3 (SplineSolve_allZero_spec h3)
      | true => exact cc_F_unique knots F' F0 hs hn e1 e2 h1 h2' e3 (SplineSolve_allZero_spec h3)
    · rw [if_neg hc] at h; cases h

example : FormulaicVerif.Model.SplineSolve.solveF [0, 1, 3] false = some [[0, 0, 0], [1, -3/2, 1/2], [0, 0, 0]] ∧
    FormulaicVerif.Model.SplineSolve.solveF [0, 1, 3] true = some [[-3, 3], [3, -3]] := by decide +kernel

/-- **C12.6** Centering: if `c` is the vector of column means of the (non-null) free rows and
every column of `Q₂` is orthogonal to `c`, then every column of the absorbed matrix `M · Q₂` has
mean exactly zero. -/
theorem centered_columns_zero_mean (n : ℕ) (rows : List (List Rat)) (Q2cols : List (List Rat))
    (hrows : ∀ r ∈ rows, r.length = n)
    (horth : ∀ q ∈ Q2cols, dot (colMeans n rows) q = 0) :
    colMeans Q2cols.length (rows.map (absorbRow Q2cols)) = List.replicate Q2cols.length 0 := by
  unfold colMeans at horth ⊢
  rw [colSums_absorb, List.length_map, List.map_map, List.eq_replicate_iff]
  refine ⟨by simp, ?_⟩
  intro b hb
  rw [List.mem_map] at hb
  obtain ⟨q, hq, rfl⟩ := hb
  have := horth q hq
  rw [dot_map_div, dot_colSums n rows q hrows] at this
  exact this

/-- **C12.6'** the same with null rows present (they are ignored by the mean and stay null) -/
theorem centered_columns_zero_mean_nulls (n : ℕ) (rows : List (Option (List Rat)))
    (Q2cols : List (List Rat))
    (hrows : ∀ r ∈ nonNullRows rows, r.length = n)
    (horth : ∀ q ∈ Q2cols, dot (colMeans n (nonNullRows rows)) q = 0) :
    colMeans Q2cols.length (nonNullRows (rows.map (Option.map (absorbRow Q2cols))))
      = List.replicate Q2cols.length 0 := by
  rw [nonNullRows_map]
  exact centered_columns_zero_mean n _ Q2cols hrows horth


/-- strictly increasing knots; an arbitrary (nonsensical) `F` of the right shape still gives `e_1` -/
example : ([0, 1, 3] : List Rat).Pairwise (· < ·) := by decide +kernel
example : freeRow [0, 1, 3] false [[0, 0, 0], [7, -5, 2], [0, 0, 0]] 1 = .ok [0, 1, 0] := by
  decide +kernel
/-- cyclic: the last knot is identified with the first -/
example : freeRow [0, 1, 3] true [[7, -5], [1, 2]] 3 = .ok [1, 0] := by decide +kernel
/-- centering: `c = colMeans M = [1/2, 1/2]`, `Q₂ = [1, -1]ᵀ` is orthogonal to it, the absorbed
column `[1, -1]` has mean zero -/
example : colMeans 2 [[1, 0], [0, 1]] = [1/2, 1/2] ∧ dot (colMeans 2 [[1, 0], [0, 1]]) [1, -1] = 0 ∧
    colMeans 1 ([[1, 0], [0, 1]].map (absorbRow [[1, -1]])) = [0] := by decide +kernel
/-- the orthogonality hypothesis is needed: with `Q₂ = [1, 0]ᵀ` the mean is not zero -/
example : colMeans 1 ([[1, 0], [0, 1]].map (absorbRow [[1, 0]])) ≠ [0] := by decide +kernel

end cubic


section entry
open FormulaicVerif.Model FormulaicVerif.Model.SplineEntry

/-! ## C12.8 Entry points: argument validation, error exits, knot placement

`Model/SplineEntry.lean` models the two functions from the call as the user writes it (array shape of
`x`, `extrapolation` as a string, `constraints` as `None` / string / array of any rank, omitted
arguments, TRANSFORMS aliases) down to the recorded state, with one `Reason` per `raise`
statement.  These are the functions the correspondence engine runs (`Engines/C12.lean`). -/

/-- **C12.8a** The finite tables the model reads (GENERATED from the live package by
`harness/translate.py: gen_spline_table`) are the documented ones: the five extrapolation modes,
the defaults of the two signatures (`degree=3`, `include_intercept=False`,
`extrapolation="raise"` for `bs`; `extrapolation="extend"`, `cyclic=False` for the cubic splines;
`None` elsewhere) and the alias table (`bs`, `cr` = `cs` natural, `cc` cyclic).  A change of a
default or of an alias changes the generated file and breaks this obligation. -/
theorem spline_tables_documented :
    Gen.Spline.extrapolation = [("RAISE", "raise"), ("CLIP", "clip"), ("NA", "na"), ("ZERO", "zero"),
      ("EXTEND", "extend")] ∧
    Gen.Spline.aliases = [("bs", "basis_spline", none), ("cc", "cubic_spline", some true),
      ("cr", "cubic_spline", some false), ("cs", "cubic_spline", some false)] ∧
    (Gen.Spline.bsDf = none ∧ Gen.Spline.bsKnotsIsNone = true ∧ Gen.Spline.bsDegree = 3 ∧
      Gen.Spline.bsIntercept = false ∧ Gen.Spline.bsLower = none ∧ Gen.Spline.bsUpper = none ∧
      Gen.Spline.bsMode = "raise") ∧
    (Gen.Spline.csDf = none ∧ Gen.Spline.csKnotsIsNone = true ∧ Gen.Spline.csLower = none ∧
      Gen.Spline.csUpper = none ∧ Gen.Spline.csConstraintsIsNone = true ∧ Gen.Spline.csCyclic = false ∧
      Gen.Spline.csMode = "extend") ∧
    (parseMode "raise" = some Mode.raise ∧ parseMode "clip" = some Mode.clip ∧
      parseMode "na" = some Mode.na ∧ parseMode "zero" = some Mode.zero ∧
      parseMode "extend" = some Mode.extend ∧
      ∀ s, s ∉ ["raise", "clip", "na", "zero", "extend"] → parseMode s = none) := by
  refine ⟨rfl, rfl, ⟨rfl, rfl, rfl, rfl, rfl, rfl, rfl⟩, ⟨rfl, rfl, rfl, rfl, rfl, rfl, rfl⟩,
    by decide, by decide, by decide, by decide, by decide, ?_⟩
  intro s hs
  simp only [List.mem_cons, List.not_mem_nil, or_false, not_or] at hs
  obtain ⟨h1, h2, h3, h4, h5⟩ := hs
  have e1 : ("raise" == s) = false := beq_eq_false_iff_ne.2 (Ne.symm h1)
  have e2 : ("clip" == s) = false := beq_eq_false_iff_ne.2 (Ne.symm h2)
  have e3 : ("na" == s) = false := beq_eq_false_iff_ne.2 (Ne.symm h3)
  have e4 : ("zero" == s) = false := beq_eq_false_iff_ne.2 (Ne.symm h4)
  have e5 : ("extend" == s) = false := beq_eq_false_iff_ne.2 (Ne.symm h5)
  unfold parseMode Gen.Spline.extrapolation
  simp only [List.find?_cons, List.find?_nil, e1, e2, e3, e4, e5]

/-- **C12.8b** The entry-point model refines the numerical model: for a call whose `x` is a vector
(or scalar / column), whose `extrapolation` is a member and whose `constraints` is `None`,
`"center"` or an array of rank ≤ 2, forgetting the reasons of `cubicSpline` gives exactly
`CubicSpline.fit` on the parsed arguments (`eraseCs` keeps `.ok v` and maps `.error e` to
`.error e.toCs`) — so C12.5–C12.7 are statements about what the engine
runs. -/
theorem cs_entry_refines_fit (r : RawCs) (quant : List Rat → ℕ → List Rat)
    (getF : List Rat → List (List Rat)) (getQ2 : List (List Rat) → List (List Rat))
    (xs : List (Option Rat)) (mode : Mode) (cons : CubicSpline.Constraints)
    (hx : reformatX r.xshape r.x = .ok xs) (hm : parseMode r.mode = some mode)
    (hc : parseCons r.cons = .ok cons) :
    eraseCs (cubicSpline r quant getF getQ2)
      = CubicSpline.fit (r.args cons mode) xs quant getF getQ2 :=
  cubicSpline_erase r quant getF getQ2 xs mode cons hx hm hc

/-- **C12.8b'** the same for `basis_spline` (non-negative degree, member mode); explicit knots
reach `BSpline.fit` sorted (`sorted(knots)`), so C12.0–C12.4 apply to what the engine runs. -/
theorem bs_entry_refines_fit (r : RawBs) (quant : List Rat → ℕ → List Rat) (mode : Mode)
    (hm : parseMode r.mode = some mode) (hd : 0 ≤ r.degree) :
    eraseBs (basisSpline r quant)
      = BSpline.fit (r.args mode) r.x quant :=
  basisSpline_erase r quant mode hm hd

/-- **C12.8c** Which calls `cubic_spline` rejects, and with which `raise` statement, in the order
of the code: `df` and `knots` together; then an `x` that is not a vector / column; then (bounds
resolved) an `extrapolation` that is not a member; … -/
theorem cs_rejects (r : RawCs) (quant : List Rat → ℕ → List Rat)
    (getF : List Rat → List (List Rat)) (getQ2 : List (List Rat) → List (List Rat)) :
    (r.df.isSome ∧ r.knots.isSome → cubicSpline r quant getF getQ2 = .error .bothDfKnots) ∧
    (¬ (r.df.isSome ∧ r.knots.isSome) → (r.xshape = .mat ∨ r.xshape = .cube) →
      cubicSpline r quant getF getQ2 = .error .notOneDim) ∧
    (∀ p, prepareCs r quant = .ok p →
      -- an accepted call passed every syntactic check:
      ¬ (r.df.isSome ∧ r.knots.isSome) ∧ (r.df.isSome ∨ r.knots.isSome) ∧
      (r.xshape = .scalar ∨ r.xshape = .vec ∨ r.xshape = .col) ∧
      parseMode r.mode = some p.mode ∧ parseCons r.cons = .ok p.cons ∧
      (∀ d, r.df = some d →
        (if !r.cyclic && CubicSpline.nConstraints p.cons == 0 then (2 : Int) else 1) ≤ d)) := by
  refine ⟨?_, ?_, ?_⟩
  · rintro ⟨h1, h2⟩
    simp [cubicSpline, prepareCs, h1, h2]
  · intro hb hs
    have hb' : (r.df.isSome && r.knots.isSome) = false := by
      cases h1 : r.df.isSome <;> cases h2 : r.knots.isSome <;> simp_all
    rcases hs with hs | hs <;> simp [cubicSpline, prepareCs, hb', reformatX, hs]
  · intro p hp
    obtain ⟨hb, hx, _, _, hm, _, hn, hc, nInner, h3, _⟩ := prepareCs_inv hp
    refine ⟨?_, ?_, ?_, hm, hc, ?_⟩
    · intro ⟨h1, h2⟩; simp [h1, h2] at hb
    · cases h1 : r.df <;> cases h2 : r.knots <;> simp [h1, h2] at hn ⊢
    · cases hs : r.xshape <;> simp [reformatX, hs] at hx ⊢
    · intro d hd
      unfold nInnerOf at h3
      rw [hd] at h3
      simp only at h3
      by_contra hlt
      rw [if_pos (not_le.1 hlt)] at h3
      cases h3

/-- **C12.8d** Exits that cannot be taken through `cubic_spline`: `_get_all_sorted_knots` is never
asked for a negative number of knots (line 286), never given a count together with explicit knots
(line 308) nor neither of them (line 324), and `_map_cyclic` (line 203) is not reached with an
empty interval; every error of a first call carries one of the other reasons. -/
theorem cs_unreachable_exits (r : RawCs) (quant : List Rat → ℕ → List Rat)
    (getF : List Rat → List (List Rat)) (getQ2 : List (List Rat) → List (List Rat)) :
    cubicSpline r quant getF getQ2 ≠ .error .negInner ∧
    cubicSpline r quant getF getQ2 ≠ .error .knotCount ∧
    cubicSpline r quant getF getQ2 ≠ .error .neitherInner ∧
    cubicSpline r quant getF getQ2 ≠ .error .mapCyclic ∧
    (∀ e, cubicSpline r quant getF getQ2 = .error e → CsReachable e) := by
  refine ⟨?_, ?_, ?_, ?_, fun e h => cubicSpline_error_reachable h⟩ <;>
  · intro h
    exact cubicSpline_error_reachable h

/-- **C12.8e** Accepted calls satisfy the hypotheses of the cubic-spline theorems: the recorded
knots are strictly increasing, at least two, contain both recorded bounds (`lower ≤ upper`), and —
with explicit knots — are the distinct values among the bounds and the user's list
(`numpy.unique`), whatever order and multiplicity the user wrote. -/
theorem cs_accepted_knots (r : RawCs) (quant : List Rat → ℕ → List Rat)
    (getF : List Rat → List (List Rat)) (getQ2 : List (List Rat) → List (List Rat))
    (st : CubicSpline.State) (out : CubicSpline.Output)
    (h : cubicSpline r quant getF getQ2 = .ok (st, out)) :
    st.knots.Pairwise (· < ·) ∧ 2 ≤ st.knots.length ∧ st.lower ∈ st.knots ∧ st.upper ∈ st.knots ∧
      st.lower ≤ st.upper ∧ st.cyclic = r.cyclic ∧
      (∀ ks, r.knots = some ks → st.knots = CubicSpline.unique (st.lower :: st.upper :: ks)) := by
  unfold cubicSpline at h
  cases hp : prepareCs r quant with
  | error e => rw [hp] at h; cases h
  | ok p =>
    rw [hp] at h
    simp only at h
    unfold finishCs at h
    dsimp only at h
    split at h
    · cases h
    · split at h
      · cases h
      · injection h with h
        injection h with h1 h2
        subst h1
        obtain ⟨a, b, c, d, e, f⟩ := prepareCs_ok hp
        exact ⟨a, b, c, d, e, rfl, f⟩

/-- **C12.8f** The cubic regression splines depend on the SET of explicit knots only: two lists
with the same members (any order, any repeats) give the same recorded state and the same values. -/
theorem cs_explicit_knots_order_irrelevant (r : RawCs) (ks ks' : List Rat)
    (h : ∀ a, a ∈ ks ↔ a ∈ ks') (quant : List Rat → ℕ → List Rat)
    (getF : List Rat → List (List Rat)) (getQ2 : List (List Rat) → List (List Rat)) :
    cubicSpline { r with knots := some ks } quant getF getQ2
      = cubicSpline { r with knots := some ks' } quant getF getQ2 :=
  cubicSpline_knots_congr r ks ks' h quant getF getQ2

/-- **C12.8f'** The B-spline transform depends on the MULTISET of explicit interior knots only:
listing them in another order gives the same recorded state and the same values (a repeated knot
is a knot of higher multiplicity and is kept). -/
theorem bs_explicit_knots_order_irrelevant (r : RawBs) (ks ks' : List Rat) (h : ks.Perm ks')
    (quant : List Rat → ℕ → List Rat) :
    basisSpline { r with knots := some ks } quant = basisSpline { r with knots := some ks' } quant :=
  basisSpline_knots_perm r ks ks' h quant

/-- **C12.8g** The quantile knots (`numpy.nanquantile` / `nanpercentile`, `method="linear"`, on
exact rationals): `m` knots, non-decreasing, inside every interval that contains the sample. -/
theorem quantile_knots (s : List Rat) (m : ℕ) (hs : s ≠ []) :
    (quantLin s m).length = m ∧ (quantLin s m).Pairwise (· ≤ ·) ∧
    ∀ lo hi, (∀ x ∈ s, lo ≤ x ∧ x ≤ hi) → ∀ v ∈ quantLin s m, lo ≤ v ∧ v ≤ hi :=
  ⟨quantLin_length s m, quantLin_sorted s m hs, fun lo hi hb => quantLin_bounds s m lo hi hs hb⟩

/-- **C12.8h** `bs(x, df=k)`: with the quantile knots computed by the model, an accepted call
records a knot vector that is the padding of ADMISSIBLE interior knots (`KnotsOk`: non-decreasing,
inside the bounds) — the hypothesis of C12.2 and C12.4 — for `raise`, `clip`, `na`, `zero`; for
`extend` under the extra hypothesis that the data lie inside the bounds (the code takes the
quantiles of all the data in that mode). Explicit knots are admissible iff they lie in the bounds. -/
theorem bs_df_knots_admissible (r : RawBs) (st : State) (mode : Mode)
    (h : prepareBs r quantLin = .ok (st, mode)) (df : Int) (hdf : r.df = some df)
    (hext : mode = .extend → ∀ v ∈ nonNull r.x, st.lower ≤ v ∧ v ≤ st.upper) :
    ∃ interior, st.knots = padKnots st.lower interior st.upper r.degree.toNat ∧
      KnotsOk st.lower st.upper interior :=
  prepareBs_df_knotsOk h df hdf hext

/-- **C12.8i** `cr/cc(x, df=k)`: with exact quantiles the inner knots never collide — whenever the
in-range data hold two distinct values `_get_all_sorted_knots` succeeds for every non-negative
number of inner knots and returns the bounds around strictly increasing quantile knots. -/
theorem cs_df_knots_never_collide (xs : List (Option Rat)) (lo hi : Rat) (n : Int) (hn : 0 ≤ n)
    (h2 : 2 ≤ (CubicSpline.knotsSample lo hi xs).length) :
    sortedKnots (CubicSpline.knotsSample lo hi xs) lo hi (some n) none quantLin
      = .ok (lo :: (quantLin (CubicSpline.knotsSample lo hi xs) n.toNat ++ [hi])) :=
  sortedKnots_df_ok xs lo hi n hn h2

/-- **C12.8j** Column count of the cubic regression splines: an accepted call with `df = k` returns
exactly `k` columns when no constraint is given; with constraints the free basis has `k + (number
of constraint rows)` functions and the result has as many columns as `Q₂` (a parameter: the
null-space basis from `numpy.linalg.qr`, `k` columns by its contract).  No assumption on the
quantile routine: the `numpy.unique` size check enforces the count. -/
theorem cs_ncols (r : RawCs) (quant : List Rat → ℕ → List Rat) (getF : List Rat → List (List Rat))
    (getQ2 : List (List Rat) → List (List Rat)) (st : CubicSpline.State) (out : CubicSpline.Output)
    (h : cubicSpline r quant getF getQ2 = .ok (st, out)) (k : Int) (hk : r.df = some k) :
    (st.constraints = none → (out.ncols : Int) = k) ∧
    (∀ c, st.constraints = some c →
      (((if st.cyclic then st.knots.length - 1 else st.knots.length : ℕ) : ℕ) : Int) = k + c.length ∧
      out.ncols = (getQ2 c).length) :=
  cubicSpline_ncols h k hk

/-- **C12.8k** On an admissible state (strictly increasing knots, at least two — every state an
accepted call records, C12.8e) with `F` and `Q₂` of the right shapes, `cubic_spline` cannot fail
except by `extrapolation="raise"`: no `IndexError`, no shape error, and `_map_cyclic`'s bound
check (line 203) never fires; every input value gets a row. -/
theorem cs_numeric_part_total (st : CubicSpline.State) (hs : st.knots.Pairwise (· < ·))
    (hn : 2 ≤ st.knots.length) (mode : Mode) (xs : List (Option Rat)) (F Q2 : List (List Rat))
    (hF : F.length = if st.cyclic then st.knots.length - 1 else st.knots.length)
    (hFr : ∀ r ∈ F, r.length = if st.cyclic then st.knots.length - 1 else st.knots.length)
    (hQ : st.constraints ≠ none →
      ∀ q ∈ Q2, q.length = if st.cyclic then st.knots.length - 1 else st.knots.length)
    (hr : (mode = .raise && (nonNull xs).any (outside st.lower st.upper)) = false) :
    ∃ out, CubicSpline.transform st mode xs F Q2 = .ok out ∧ out.rows.length = xs.length :=
  transform_total st hs hn mode xs F Q2 hF hFr hQ hr


/-! ### Non-vacuity for C12.8: concrete calls
(`decide +kernel` on closed rational arithmetic; `numpy.unique` = `List.mergeSort` + `eraseDups` is
defined by well-founded recursion and does not evaluate in the kernel, so the cubic-spline
instances that reach it are stated through `unique_eq`) -/

/-- the hypotheses of C12.8b: a column-shaped `x`, a member mode, a 1-d constraint vector -/
example : reformatX .col [some 1, none] = .ok [some 1, none] ∧ parseMode "zero" = some Mode.zero ∧
    (∃ c, parseCons (.arr 1 [[1, 0, 2]]) = .ok c) := ⟨rfl, by decide, ⟨_, rfl⟩⟩
/-- `numpy.unique` of the bounds and a list with a repeat, out of order (C12.8e/f) -/
example : CubicSpline.unique [0, 3, 2, 1, 2] = [0, 1, 2, 3] :=
  unique_eq (by intro a; simp only [List.mem_cons, List.not_mem_nil, or_false]; tauto) (by decide +kernel)
/-- the exact quantile knots of a sample with a tie (C12.8g): positions 2/3·3 = 2 … -/
example : quantLin [3, 0, 3, 1] 2 = [1, 3] ∧ quantLin [0, 1, 3] 2 = [2/3, 5/3] := by decide +kernel
/-- the `raise` statements that the stream `c12` newly exercises are taken by concrete calls -/
example : reasonOf (prepareCs { xshape := .cube, x := [some 0, some 1], df := some 3, knots := none, lower := none, upper := none, cons := .none, cyclic := false, mode := "extend" } quantLin) = some .notOneDim := by
  decide +kernel
example : reasonOf (prepareCs { xshape := .vec, x := [some 0, some 1], df := none, knots := none, lower := none, upper := none, cons := .none, cyclic := false, mode := "extend" } quantLin) = some .neitherDfKnots := by
  decide +kernel
example : reasonOf (prepareCs { xshape := .vec, x := [some 0, some 1], df := some 3, knots := none, lower := none, upper := none, cons := .str "centre", cyclic := false, mode := "extend" } quantLin) = some .badConstraintStr := by
  decide +kernel
example : reasonOf (prepareCs { xshape := .vec, x := [some 0, some 1], df := some 3, knots := none, lower := none, upper := none, cons := .arr 3 [[1, 1]], cyclic := false, mode := "extend" } quantLin) = some .constraintNdim := by
  decide +kernel
example : reasonOf (prepareCs { xshape := .vec, x := [some 0, some 1], df := some 3, knots := none, lower := some 2, upper := some 1, cons := .none, cyclic := false, mode := "clip" } quantLin) = some .lowerGtUpper := by
  decide +kernel
example : reasonOf (prepareCs { xshape := .vec, x := [some 0, some 1], df := some 3, knots := none, lower := none, upper := none, cons := .none, cyclic := false, mode := "linear" } quantLin) = some .badMode := by
  decide +kernel
/-- the exits of C12.8d ARE taken when the helpers are called directly (stream `helper`) -/
example : reasonOf (sortedKnots [0, 1] 0 1 (some (-1)) none quantLin) = some .negInner ∧
    reasonOf (sortedKnots [0, 1] 0 1 none none quantLin) = some .neitherInner ∧
    reasonOf (mapCyclicAll [1/2] 1 1) = some .mapCyclic := by decide +kernel
/-- C12.8h: an accepted `df` call with its exact quantile knots, and why `extend` needs its
hypothesis — with bounds `[0, 1]` and data outside them the quantile knot of ALL the data is not
inside the bounds -/
example : (prepareBs { x := [some 0, some 1, some (1/2), none], df := some 5, knots := none, degree := 3, intercept := false, lower := none, upper := none, mode := "raise" } quantLin).toOption.map (·.1.knots)
    = some [0, 0, 0, 0, 1/3, 2/3, 1, 1, 1, 1] := by decide +kernel
example : (prepareBs { x := [some (-2), some (-1)], df := some 2, knots := none, degree := 1, intercept := false, lower := some 0, upper := some 1, mode := "extend" } quantLin).toOption.map (·.1.knots)
      = some [0, 0, -3/2, 1, 1] ∧ ¬ KnotsOk 0 1 [-3/2] := by
  refine ⟨by decide +kernel, fun h => ?_⟩
  have := (h.inb (-3/2) (by simp)).1
  norm_num at this
/-- C12.8f': `bs` records explicit knots sorted, repeats kept -/
example : (prepareBs { x := [some 0, some 1], df := none, knots := some [3/4, 1/4, 1/2, 1/4], degree := 1, intercept := true, lower := none, upper := none, mode := "raise" } quantLin).toOption.map (·.1.knots)
    = some [0, 0, 1/4, 1/4, 1/2, 3/4, 1, 1] := by decide +kernel

end entry

/-! ## C12.9 Capstones: what every accepted call delivers -/

section capstone
open FormulaicVerif.Model FormulaicVerif.Model.SplineEntry

/-- **C12.9a** (capstone, B-splines) Every accepted first call of `bs` — knots from `df` (exact
quantiles) or explicit knots in any order that lie inside the bounds, or no knots at all — records
a knot vector on which every row of an in-range value is non-negative, bounded by one and sums to
one.  Hypotheses that are not consequences of acceptance: the bounds are ordered (they are whenever
they come from the data), explicit knots lie inside them, and for `extrapolation="extend"` with
`df` the data lie inside the bounds. -/
theorem bs_accepted_call_partition_of_unity (r : RawBs) (st : State) (mode : Mode)
    (h : prepareBs r quantLin = .ok (st, mode)) (hle : st.lower ≤ st.upper)
    (hks : ∀ ks, r.knots = some ks → ∀ k ∈ ks, st.lower ≤ k ∧ k ≤ st.upper)
    (hext : mode = .extend → ∀ v ∈ nonNull r.x, st.lower ≤ v ∧ v ≤ st.upper)
    (x : ℚ) (h1 : st.lower ≤ x) (h2 : x ≤ st.upper) :
    (rowAll st.knots r.degree.toNat false x).sum = 1 ∧
      ∀ v ∈ rowAll st.knots r.degree.toNat false x, 0 ≤ v ∧ v ≤ 1 := by
  have key : ∃ interior, st.knots = padKnots st.lower interior st.upper r.degree.toNat ∧
      KnotsOk st.lower st.upper interior := by
    by_cases hdf : ∃ df, r.df = some df
    · obtain ⟨df, e1⟩ := hdf
      exact bs_df_knots_admissible r st mode h df e1 hext
    · obtain ⟨_, _, _, _, _, _, interior, hik, hk⟩ := prepareBs_inv h
      refine ⟨interior, hk, ?_⟩
      have hgiven : interior = (match r.knots with | none => [] | some k => sort k) := by
        unfold SplineEntry.interiorKnots at hik
        cases hd : r.df with
        | none => rw [hd] at hik; simp only at hik; injection hik with hik; exact hik.symm
        | some df => exact absurd ⟨df, hd⟩ hdf
      rw [hgiven]
      cases hk' : r.knots with
      | none => exact ⟨hle, List.Pairwise.nil, fun k hk => by cases hk⟩
      | some ks => exact sort_knotsOk st.lower st.upper ks hle (hks ks hk')
  obtain ⟨interior, hk, hok⟩ := key
  rw [hk]
  exact ⟨bs_partition_of_unity hok _ x h1 h2, bs_nonneg hok _ x h1 h2⟩

/-- **C12.3''** `bs(x, df=k)` has exactly `k` columns — with the quantile knots computed by the
model there is no assumption on the quantile routine left. -/
theorem bs_ncols_exact (a : Args) (xs : List (Option Rat)) (st : State) (out : Output) (df : ℕ)
    (hdf : a.df = some (df : Int)) (hfit : fit a xs quantLin = .ok (st, out)) :
    out.cols.length = df ∧ ∀ row, some row ∈ out.rows → row.length = df :=
  bs_ncols a xs quantLin st out df (fun s m => quantLin_length s m) hdf hfit

/-- **C12.9b** (capstone, cubic regression splines) Every accepted first call of `cr` / `cc` /
`cubic_spline`, with the second-derivative map the model solves for, yields THE cardinal basis:
the recorded knots are admissible, `F` is the unique matrix satisfying the contract, the free
design-matrix row at every recorded knot is the unit row (identity at the knots), and the
numerical part cannot fail on new data (other than by `extrapolation="raise"`). -/
theorem cs_accepted_call_is_cardinal_basis (r : RawCs) (quant : List Rat → ℕ → List Rat)
    (getQ2 : List (List Rat) → List (List Rat)) (st : CubicSpline.State) (out : CubicSpline.Output)
    (getF : List Rat → List (List Rat))
    (h : cubicSpline r quant getF getQ2 = .ok (st, out)) (F : List (List Rat))
    (hF : SplineSolve.solveF st.knots st.cyclic = some F) :
    let n := if st.cyclic then st.knots.length - 1 else st.knots.length
    st.knots.Pairwise (· < ·) ∧ 2 ≤ st.knots.length ∧
    F.length = n ∧ (∀ row ∈ F, row.length = n) ∧ AllZero (CubicSpline.residualF st.knots st.cyclic F) ∧
    (∀ F' : List (List Rat), F'.length = n → (∀ row ∈ F', row.length = n) →
      AllZero (CubicSpline.residualF st.knots st.cyclic F') → F' = F) ∧
    (∀ k (hk : k < st.knots.length), CubicSpline.freeRow st.knots st.cyclic F st.knots[k]
      = .ok ((List.range n).map (CubicSpline.delta
          (if st.cyclic && k + 1 == st.knots.length then 0 else k)))) ∧
    (∀ (mode : Mode) (xs : List (Option Rat)), st.constraints = none →
      (mode = .raise && (nonNull xs).any (outside st.lower st.upper)) = false →
      ∃ o, CubicSpline.transform st mode xs F [] = .ok o ∧ o.rows.length = xs.length) := by
  intro n
  obtain ⟨hs, hn, _⟩ := cs_accepted_knots r quant getF getQ2 st out h
  obtain ⟨f1, f2, f3, f4⟩ := solveF_is_the_solution st.knots st.cyclic F hF
  refine ⟨hs, hn, f1, f2, f3, fun F' a b c => f4 hs hn F' a b c, ?_, ?_⟩
  · intro k hk
    cases hc : st.cyclic with
    | false =>
      simp only [n, hc, Bool.false_eq_true, if_false] at f1 f2 ⊢
      simpa using cr_identity_at_knots st.knots F k hk hs hn f1 f2
    | true =>
      simp only [n, hc, if_true] at f1 f2 ⊢
      have := cc_identity_at_knots st.knots F k hk hs hn f1 f2
      simp only [Bool.true_and, beq_iff_eq]
      exact this
  · intro mode xs hc hr
    exact cs_numeric_part_total st hs hn mode xs F [] f1 f2 (fun h' => absurd hc h') hr
end capstone

end FormulaicVerif.Props.C12
