import FormulaicVerif.Proofs.C02Pipeline
import FormulaicVerif.Proofs.C02NestedPipeline
import FormulaicVerif.Proofs.C02Encode
import FormulaicVerif.Proofs.C02Order
/-! # C02 — Every model-matrix column holds exactly the product its name denotes

Property theorems only (helper lemmas: `Proofs/C02Columns.lean`, `Proofs/C02Pipeline.lean`,
`Proofs/Scoped.lean`). They are about the executable model `Model/Materialize.lean` +
`Model/Columns.lean` of `FormulaMaterializer._build_model_matrix`, which the engine `c02` runs
against the real code on every check. Reference notions (`kron`, `rowProd`, `NamesColumn`,
`printedPart`, `literalScale`, `fullEncodings`, `dictOfList`, `entryOf`) are in `Spec/Matrix.lean`.

All theorems hold for every factor cache, every term list, both rank-reduction settings, both
clustering settings and both `_get_columns_for_term` variants (base / pandas-narwhals fast path). -/

namespace FormulaicVerif.Props.C02
open FormulaicVerif.Model FormulaicVerif.Spec FormulaicVerif.Proofs.C02 FormulaicVerif.Proofs.Scoped

/-! ### a concrete instance used by the non-vacuity examples -/

def fmtFull : Fmt := [.name, .lit "[", .field, .lit "]"]
def fmtT : Fmt := [.name, .lit "[T.", .field, .lit "]"]
/-- a two-level categorical on two rows, treatment coded (reference level `a`) -/
def encA : Encoded :=
  { val := .dict [(⟨"a", true⟩, [1, 0]), (⟨"b", true⟩, [0, 1])], spansIntercept := true,
    dropField := some ⟨"a", true⟩, reducedMeta := false, fmt := fmtFull, fmtReduced := some fmtT }
def encX : Encoded :=
  { val := .single [3, 5], spansIntercept := false, dropField := none, reducedMeta := false,
    fmt := fmtFull, fmtReduced := none }
def demoCache : Cache :=
  [⟨"1", true, .constant 1, false, encX, encX⟩, ⟨"2", true, .constant 2, false, encX, encX⟩,
   ⟨"A", true, .categorical, true, encA, encA⟩, ⟨"x", true, .numerical, false, encX, encX⟩]
/-- the formula `1 + A + 2:A:x` -/
def demoCfg (efr : Bool) : Config :=
  { cache := demoCache, terms := [["1"], ["A"], ["2", "A", "x"]], ensureFullRank := efr,
    clusterByNumerical := false, variant := .fast, nrows := 2 }

/-- C02.5  Every scoped term that `_get_scoped_terms` produces for a term `t` — with or without
rank reduction, whatever has been spanned before, through any number of greedy recombinations —
carries exactly `t`'s literal scale (the product of its constant factors). -/
theorem scale_preserved (c : Cache) (efr : Bool) (spanned : List ST) (ts : List MTerm)
    (res : List (MTerm × List ST)) (h : getScopedTerms c efr spanned ts = .ok res)
    (t : MTerm) (sts : List ST) (hx : (t, sts) ∈ res) (st : ST) (hst : st ∈ sts) :
    ∃ efs, evaledFactors c t = .ok efs ∧ st.scale = literalScale efs := by
  obtain ⟨sp, sp', hs⟩ := (getScopedTerms_spec h).2 _ hx
  obtain ⟨efs, he, _, _, hsc⟩ := scopeTerm_spec hs
  exact ⟨efs, he, by rw [← scaleOf_eq_literalScale]; exact hsc st hst⟩

/-- non-vacuity: the hypothesis of `scale_preserved` holds on `1 + A + 2:A:x` (scale 2 on the recombined term) -/
example : (getScopedTerms demoCache true [] (demoCfg true).terms).toOption =
    some [(["1"], [⟨[], 1⟩]), (["A"], [⟨[⟨"A", true⟩], 1⟩]),
          (["2", "A", "x"], [⟨[⟨"A", false⟩, ⟨"x", false⟩], 2⟩])] := by decide +kernel

/-- C02.1  Every column of the matrix (`buildMatrix`, any output type) belongs to a term `t` of the
formula and holds, row by row, `t`'s literal scale times the product of the encoded factor
columns that its structural label names. (`hlen`: every encoded column has one entry per row.) -/
theorem column_is_product (cfg : Config) (asDict : Bool) (out : List Entry)
    (h : buildMatrix cfg asDict = .ok out)
    (hlen : ∀ p col, NamesColumn cfg.cache p col → col.length = cfg.nrows)
    (e : Entry) (he : e ∈ out) :
    ∃ t ∈ cfg.terms, ∃ efs, evaledFactors cfg.cache t = .ok efs ∧
      ∃ cols : List Col, cols.length = e.parts.length ∧
        (∀ pc ∈ e.parts.zip cols, NamesColumn cfg.cache pc.1 pc.2) ∧
        e.col.length = cfg.nrows ∧
        ∀ i, i < cfg.nrows → e.col.getD i 0 = literalScale efs * rowProd cols i := by
  obtain ⟨rs, hrs, r, hr, her⟩ := buildMatrix_mem h he
  obtain ⟨hterm, ⟨sp, sp', hsc⟩, _⟩ := termResult_spec hrs hr
  obtain ⟨efs, hefs, _, _, hscale⟩ := scopeTerm_spec hsc
  refine ⟨r.term, hterm, efs, hefs, ?_⟩
  obtain ⟨st, hst, hcase⟩ := entry_provenance hrs hr her
  have hs : st.scale = literalScale efs := by rw [← scaleOf_eq_literalScale]; exact hscale st hst
  rcases hcase with ⟨_, rfl⟩ | ⟨_, fss, henc, _, p, hp, rfl⟩
  · refine ⟨[], rfl, by simp, ?_⟩
    have := smul_colProd_spec cfg.nrows st.scale [] (by simp)
    simp only [colProd] at this
    rw [← hs]
    exact this
  · have hsound := kron_items_sound henc hp
    refine ⟨p.map (·.col), by simp [entryOf], ?_, ?_⟩
    · intro pc hpc
      simp only [entryOf, List.zip_map, List.mem_map] at hpc
      obtain ⟨⟨a, b⟩, hab, rfl⟩ := hpc
      have : a = b := mem_zip_self hab
      subst this
      exact (hsound a (List.of_mem_zip hab).1).1
    · have hl : ∀ col ∈ p.map (·.col), col.length = cfg.nrows := by
        intro col hcol
        obtain ⟨it, hit, rfl⟩ := List.mem_map.mp hcol
        exact hlen _ _ (hsound it hit).1
      have := smul_colProd_spec cfg.nrows st.scale (p.map (·.col)) hl
      simp only [entryOf]
      rw [← hs]
      exact this

/-- non-vacuity: both hypotheses of `column_is_product` hold on the demo instance -/
example : (buildMatrix (demoCfg true) false).toOption = some
    [⟨"Intercept", [], [1, 1]⟩, ⟨"A[T.b]", [⟨"A", some ⟨"b", true⟩, true⟩], [0, 1]⟩,
     ⟨"A[a]:x", [⟨"A", some ⟨"a", true⟩, false⟩, ⟨"x", none, false⟩], [6, 0]⟩,
     ⟨"A[b]:x", [⟨"A", some ⟨"b", true⟩, false⟩, ⟨"x", none, false⟩], [0, 10]⟩] := by decide +kernel

example : ∀ p col, NamesColumn demoCache p col → col.length = (demoCfg true).nrows := by
  intro p col ⟨f, hf, h⟩
  have hm := (Cache.get_ok hf).2
  simp only [demoCache, List.mem_cons, List.not_mem_nil, or_false] at hm
  rcases hm with rfl | rfl | rfl | rfl <;> cases p.reduced <;> cases hfld : p.field <;>
    simp [hfld, encX, encA] at h <;> (try rcases h with ⟨_, rfl⟩ | ⟨_, rfl⟩) <;> (try subst h) <;> rfl

/-- C02.1b  A column with an empty structural label is the intercept: it is named `Intercept` and
holds the term's literal scale in every row — a column of ones for the term `1`. -/
theorem intercept_column (cfg : Config) (rs : List TermResult) (h : buildStructure cfg = .ok rs)
    (r : TermResult) (hr : r ∈ rs) (e : Entry) (he : e ∈ r.cols) (hp : e.parts = []) :
    e.name = "Intercept" ∧
    ∃ efs, evaledFactors cfg.cache r.term = .ok efs ∧
      e.col = Col.smul (literalScale efs) (Col.ones cfg.nrows) ∧
      (literalScale efs = 1 → e.col = List.replicate cfg.nrows 1) := by
  obtain ⟨_, ⟨sp, sp', hsc⟩, _⟩ := termResult_spec h hr
  obtain ⟨efs, hefs, _, _, hscale⟩ := scopeTerm_spec hsc
  obtain ⟨st, hst, hcase⟩ := entry_provenance h hr he
  have hs : st.scale = literalScale efs := by rw [← scaleOf_eq_literalScale]; exact hscale st hst
  rcases hcase with ⟨_, rfl⟩ | ⟨_, fss, _, hne, p, hpk, rfl⟩
  · refine ⟨rfl, efs, hefs, by rw [hs], ?_⟩
    intro h1
    simp only [hs, h1, Col.smul, Col.ones, List.map_replicate, Rat.one_mul]
  · exfalso
    have := ne_nil_of_mem_kron hne hpk
    simp only [entryOf, List.map_eq_nil_iff] at hp
    exact this hp

/-- C02.2  The pandas / narwhals fast path (pre-multiplied solo factors, separately computed
names) returns exactly what the base `_get_columns_for_term` returns — same labels in the same
order, equal values, same exception — for every list of factor encodings and every scale. -/
theorem fastpath_eq_base (factors : List (List Item)) (scale : Rat) :
    columnsFast factors scale = columnsBase factors scale :=
  columnsFast_eq_base factors scale

/-- C02.3  With rank reduction disabled the matrix is, term by term in (clustered) formula order,
the complete row-wise Kronecker product of the factors' full encodings, the first factor varying
fastest, times the literal scale; a term without data factors gives the intercept; a term none of
whose factors has values gives nothing. (`hwf`: a term lists each factor once, as `Term.__init__`
guarantees.) -/
theorem kron_full (cfg : Config) (hefr : cfg.ensureFullRank = false)
    (hwf : ∀ t ∈ cfg.terms, t.Nodup)
    (rs : List TermResult) (h : buildStructure cfg = .ok rs) :
    (∃ terms, clusterTerms cfg.cache cfg.clusterByNumerical cfg.terms = .ok terms ∧
      rs.map (·.term) = terms) ∧
    ∀ r ∈ rs, ∃ efs, evaledFactors cfg.cache r.term = .ok efs ∧
      (efs = [] → r.cols = []) ∧
      (efs ≠ [] → nonConstant efs = [] →
        r.cols = [⟨"Intercept", [], Col.smul (literalScale efs) (Col.ones cfg.nrows)⟩]) ∧
      (nonConstant efs ≠ [] → ∃ encs, fullEncodings (nonConstant efs) = .ok encs ∧
        r.cols = dictOfList ((kron encs).map (entryOf cfg.nrows (literalScale efs)))) := by
  constructor
  · obtain ⟨terms, scp, hc, hg, hb⟩ := buildStructure_spec h
    refine ⟨terms, hc, ?_⟩
    have h1 := (buildTerms_spec hb).1
    have g1 := (getScopedTerms_spec hg).1
    rw [← g1, ← h1, List.map_map]
    rfl
  · intro r hr
    obtain ⟨hterm, ⟨sp, sp', hsc⟩, hcols⟩ := termResult_spec h hr
    obtain ⟨efs, hefs, h0, h1, _⟩ := scopeTerm_spec hsc
    refine ⟨efs, hefs, ?_, ?_, ?_⟩
    · intro he
      rw [h0 he] at hcols
      simpa [termColumns] using hcols.symm
    · intro hne hnc
      have hsts := h1 hne hefr
      obtain ⟨hget, hsub⟩ := evaledFactors_spec hefs
      have hnd : (efs.map (·.expr)).Nodup := hsub.nodup (hwf _ hterm)
      have hfac := fullScoped_factors hnd
      rw [hnc] at hfac
      rw [hsts] at hcols
      simp only [termColumns, scopedTermColumns, hfac, List.map_nil, List.isEmpty_nil, if_true] at hcols
      simp only [Except.ok.injEq] at hcols
      rw [← hcols]
      simp [dictUpdate, dictSet, fullScoped, ST.new, scaleOf_eq_literalScale]
    · intro hnc
      have hne : efs ≠ [] := by intro e0; rw [e0] at hnc; exact hnc rfl
      have hsts := h1 hne hefr
      obtain ⟨hget, hsub⟩ := evaledFactors_spec hefs
      have hnd : (efs.map (·.expr)).Nodup := hsub.nodup (hwf _ hterm)
      have hfac := fullScoped_factors hnd
      rw [hsts] at hcols
      simp only [termColumns] at hcols
      cases hs : scopedTermColumns cfg.cache cfg.variant cfg.nrows (fullScoped efs) with
      | error x => simp [hs] at hcols
      | ok es =>
        simp only [hs, Except.ok.injEq] at hcols
        rcases scopedTermColumns_spec hs with ⟨hf0, _⟩ | ⟨_, fss, henc, hes⟩
        · rw [hfac] at hf0
          exact absurd (List.map_eq_nil_iff.mp hf0) hnc
        · have hall : ∀ f ∈ nonConstant efs, cfg.cache.get f.expr = .ok f := by
            intro f hf
            unfold nonConstant at hf
            exact hget f (List.mem_filter.mp hf).1
          rw [hfac, encodeFactors_full hall] at henc
          refine ⟨fss, henc, ?_⟩
          rw [← hcols, hes]
          have : (fullScoped efs).scale = literalScale efs := scaleOf_eq_literalScale efs
          rw [this]
          -- updating the empty dict with an already-built dict gives that dict back
          simp only [dictOfList]
          generalize (kron fss).map (entryOf cfg.nrows (literalScale efs)) = l
          exact dictUpdate_dictUpdate_nil l

/-- non-vacuity: the hypotheses of `kron_full` hold on the demo instance with rank reduction off -/
example : (demoCfg false).ensureFullRank = false ∧ ∀ t ∈ (demoCfg false).terms, t.Nodup := by decide

example : ((buildStructure (demoCfg false)).toOption.map (·.map (·.cols.map (·.name)))) =
    some [["Intercept"], ["A[a]", "A[b]"], ["A[a]:x", "A[b]:x"]] := by decide +kernel

/-- C02.4  The printed name of a column is `Intercept` for the empty label and otherwise the
`:`-join of its label parts, each printed as the bare factor expression (single-column encoding) or
through the factor's format template `{name}[{field}]` / its reduced variant; and when no printed
part contains a `:` the name determines the printed parts: two columns with the same name have
the same list of printed label parts.
(That a printed part determines `(factor, field)` is a property of the format templates and level
names, not of the materializer; it is not claimed.) -/
theorem label_string_faithful (cfg : Config) (rs : List TermResult)
    (h : buildStructure cfg = .ok rs) (r : TermResult) (hr : r ∈ rs) (e : Entry) (he : e ∈ r.cols) :
    e.name = (if e.parts = [] then "Intercept" else joinColon (e.parts.map (printedPart cfg.cache))) ∧
    ∀ r' ∈ rs, ∀ e' ∈ r'.cols, e.parts ≠ [] → e'.parts ≠ [] →
      (∀ p ∈ e.parts ++ e'.parts, ':' ∉ (printedPart cfg.cache p).toList) → e.name = e'.name →
      e.parts.map (printedPart cfg.cache) = e'.parts.map (printedPart cfg.cache) := by
  have hname : ∀ r ∈ rs, ∀ e ∈ r.cols,
      e.name = (if e.parts = [] then "Intercept" else joinColon (e.parts.map (printedPart cfg.cache))) := by
    intro r hr e he
    obtain ⟨st, hst, hcase⟩ := entry_provenance h hr he
    rcases hcase with ⟨_, rfl⟩ | ⟨_, fss, henc, hne, p, hp, rfl⟩
    · rfl
    · have hpn := ne_nil_of_mem_kron hne hp
      have hsound := kron_items_sound henc hp
      simp only [entryOf, List.map_eq_nil_iff, hpn, if_false, List.map_map]
      congr 1
      apply List.map_congr_left
      intro it hit
      exact (hsound it hit).2
  refine ⟨hname r hr e he, ?_⟩
  intro r' hr' e' he' hp hp' hcolon heq
  have h1 := hname r hr e he
  have h2 := hname r' hr' e' he'
  simp only [hp, hp', if_false] at h1 h2
  rw [h1, h2] at heq
  exact joinColon_inj (by simpa using hp) (by simpa using hp')
    (by intro a ha; obtain ⟨p, hpm, rfl⟩ := List.mem_map.mp ha; exact hcolon p (by simp [hpm]))
    (by intro a ha; obtain ⟨p, hpm, rfl⟩ := List.mem_map.mp ha; exact hcolon p (by simp [hpm])) heq

/-- non-vacuity: in the demo matrix no printed part contains a colon -/
example : ∀ p ∈ [(⟨"A", some ⟨"a", true⟩, false⟩ : Part), ⟨"x", none, false⟩, ⟨"A", some ⟨"b", true⟩, true⟩],
    ':' ∉ (printedPart demoCache p).toList := by decide +kernel

/-! ## Factor values of any shape

The same six statements over `Model/NestedMatrix.lean` + `Model/FactorEncode.lean`, the model the
`matrix` / `shape-error` / `encode` streams of the C02 check run: a factor may evaluate to a nested
dict, a data frame, a 2-d array, a `FactorValues` dict with its own formats and drop field, or
pre-encoded values; `as_columns`, `map_dict`, the metadata rules, the drop-field step and the
recursive flattening are computed by the model. A structural label part is `(factor, key path,
reduced)`; `NamesLeaf c p name col` says that `col` is the leaf at that path of the factor's encoded
value and that the formats on the path print it as `name` (`Spec/NestedMatrix.lean`). -/
section Nested
open FormulaicVerif.Model.Nest FormulaicVerif.Spec.Nest FormulaicVerif.Proofs.C02N

/-! ### a concrete instance: `1 + A + 2:A:nest(x)` with `nest(x) = {"a": {"p": x, "q": 2x}, "b": x}` -/

def mdNum : Meta := Meta.default
def rA : RFactor :=
  { expr := "A", present := true, kind := .categorical, md := { Meta.default with spansIntercept := true },
    raw := .cat [⟨"a", true⟩, ⟨"b", true⟩] [some 0, some 1], ext := none }
def nestVal : Val :=
  .dict (.cons ⟨"a", true⟩ (.dict (.cons ⟨"p", true⟩ (.col [3, 5]) (.cons ⟨"q", true⟩ (.col [6, 10]) .nil)) none)
    (.cons ⟨"b", true⟩ (.col [3, 5]) .nil)) (some mdNum)
def rNest : RFactor :=
  { expr := "nest(x)", present := true, kind := .numerical, md := mdNum, raw := .val nestVal, ext := none }
def rConst (e : String) (v : Rat) : RFactor :=
  { expr := e, present := true, kind := .constant v, md := mdNum, raw := .val (.col []), ext := none }
def ndemoCache : RCache := [rConst "1" 1, rConst "2" 2, rA, rNest]
def ndemoCfg (efr : Bool) : NConfig :=
  { cache := ndemoCache, terms := [["1"], ["A"], ["2", "A", "nest(x)"]], ensureFullRank := efr,
    clusterByNumerical := false, variant := .fast, nrows := 2 }

/-- the demo matrix: names `nest(x)[a][p]`, Kronecker order with the first factor fastest, scale 2 -/
example : ((nbuildMatrix (ndemoCfg true) false).toOption.map (·.map (fun e => (e.name, e.col)))) = some
    [("Intercept", [1, 1]), ("A[T.b]", [0, 1]),
     ("A[a]:nest(x)[a][p]", [6, 0]), ("A[b]:nest(x)[a][p]", [0, 10]),
     ("A[a]:nest(x)[a][q]", [12, 0]), ("A[b]:nest(x)[a][q]", [0, 20]),
     ("A[a]:nest(x)[b]", [6, 0]), ("A[b]:nest(x)[b]", [0, 10])] := by decide +kernel

/-- C02.5 (any shape)  Every scoped term produced for a term carries exactly the term's literal scale. -/
theorem nested_scale_preserved (c : RCache) (efr : Bool) (spanned : List ST) (ts : List MTerm)
    (res : List (MTerm × List ST)) (h : getScopedTerms (toCache c) efr spanned ts = .ok res)
    (t : MTerm) (sts : List ST) (hx : (t, sts) ∈ res) (st : ST) (hst : st ∈ sts) :
    ∃ fs, presentFactors c t = .ok fs ∧ st.scale = rliteralScale fs := by
  obtain ⟨efs, he, hs⟩ := scale_preserved (toCache c) efr spanned ts res h t sts hx st hst
  obtain ⟨fs, h1, h2, _, _⟩ := evaledFactors_toCache he
  exact ⟨fs, h1, by rw [hs, h2]; rfl⟩

/-- C02.1 (any shape)  Every column of the matrix belongs to a term `t` of the formula; each part of
its structural label names a leaf column of that factor's encoded value (`NamesLeaf`); the column's
name is `Intercept` for the empty label and otherwise the `:`-join of the names those leaves print
as (`factor[key][key]…` under the formats on the path); and row by row the column holds `t`'s
literal scale times the product of the named leaf columns.
(`hlen`: every encoded leaf column has one entry per row.) -/
theorem nested_column_is_product (cfg : NConfig) (asDict : Bool) (out : List NEntry)
    (h : nbuildMatrix cfg asDict = .ok out)
    (hlen : ∀ p name col, NamesLeaf cfg.cache p name col → col.length = cfg.nrows)
    (e : NEntry) (he : e ∈ out) :
    ∃ t ∈ cfg.terms, ∃ fs, presentFactors cfg.cache t = .ok fs ∧
      ∃ leaves : List (String × Col), leaves.length = e.parts.length ∧
        (∀ pl ∈ e.parts.zip leaves, NamesLeaf cfg.cache pl.1 pl.2.1 pl.2.2) ∧
        e.name = (if e.parts = [] then "Intercept" else joinColon (leaves.map (·.1))) ∧
        e.col.length = cfg.nrows ∧
        ∀ i, i < cfg.nrows → e.col.getD i 0 = rliteralScale fs * rowProd (leaves.map (·.2)) i := by
  obtain ⟨rs, hrs, r, hr, her⟩ := nbuildMatrix_mem h he
  obtain ⟨hterm, ⟨sp, sp', hsc⟩, _⟩ := ntermResult_spec hrs hr
  obtain ⟨efs, hefs, _, _, hscale⟩ := scopeTerm_spec hsc
  obtain ⟨fs, hfs, hmap, _, _⟩ := evaledFactors_toCache hefs
  refine ⟨r.term, hterm, fs, hfs, ?_⟩
  obtain ⟨st, hst, hcase⟩ := nentry_provenance hrs hr her
  have hs : st.scale = rliteralScale fs := by
    unfold rliteralScale; rw [← hmap, ← scaleOf_eq_literalScale]; exact hscale st hst
  rcases hcase with ⟨_, rfl⟩ | ⟨_, fss, henc, hne, p, hp, rfl⟩
  · refine ⟨[], rfl, by simp, by simp, ?_⟩
    have := smul_colProd_spec cfg.nrows st.scale [] (by simp)
    simp only [colProd] at this
    rw [← hs]
    simpa using this
  · have hsound := nkron_items_sound henc hp
    have hpn := ne_nil_of_mem_kron hne hp
    refine ⟨p.map (fun it => (it.name, it.col)), by simp [nentryOf], ?_, ?_, ?_⟩
    · intro pl hpl
      simp only [nentryOf, List.zip_map, List.mem_map] at hpl
      obtain ⟨⟨a, b⟩, hab, rfl⟩ := hpl
      have : a = b := mem_zip_self hab
      subst this
      exact hsound a (List.of_mem_zip hab).1
    · simp only [nentryOf, List.map_eq_nil_iff, hpn, if_false, List.map_map]
      rfl
    · have hl : ∀ col ∈ p.map (·.col), col.length = cfg.nrows := by
        intro col hcol
        obtain ⟨it, hit, rfl⟩ := List.mem_map.mp hcol
        exact hlen _ _ _ (hsound it hit)
      have := smul_colProd_spec cfg.nrows st.scale (p.map (·.col)) hl
      simp only [nentryOf, List.map_map]
      rw [← hs]
      exact this

/-- C02.1b (any shape)  A column with an empty structural label is the intercept. -/
theorem nested_intercept_column (cfg : NConfig) (rs : List NTermResult) (h : nbuildStructure cfg = .ok rs)
    (r : NTermResult) (hr : r ∈ rs) (e : NEntry) (he : e ∈ r.cols) (hp : e.parts = []) :
    e.name = "Intercept" ∧
    ∃ fs, presentFactors cfg.cache r.term = .ok fs ∧
      e.col = Col.smul (rliteralScale fs) (Col.ones cfg.nrows) ∧
      (rliteralScale fs = 1 → e.col = List.replicate cfg.nrows 1) := by
  obtain ⟨_, ⟨sp, sp', hsc⟩, _⟩ := ntermResult_spec h hr
  obtain ⟨efs, hefs, _, _, hscale⟩ := scopeTerm_spec hsc
  obtain ⟨fs, hfs, hmap, _, _⟩ := evaledFactors_toCache hefs
  obtain ⟨st, hst, hcase⟩ := nentry_provenance h hr he
  have hs : st.scale = rliteralScale fs := by
    unfold rliteralScale; rw [← hmap, ← scaleOf_eq_literalScale]; exact hscale st hst
  rcases hcase with ⟨_, rfl⟩ | ⟨_, fss, _, hne, p, hpk, rfl⟩
  · refine ⟨rfl, fs, hfs, by rw [hs], ?_⟩
    intro h1
    simp only [hs, h1, Col.smul, Col.ones, List.map_replicate, Rat.one_mul]
  · exfalso
    have := ne_nil_of_mem_kron hne hpk
    simp only [nentryOf, List.map_eq_nil_iff] at hp
    exact this hp

/-- C02.2 (any shape)  The pandas / narwhals fast path returns exactly what the base
`_get_columns_for_term` returns, for every list of (possibly multi-column) factor encodings. -/
theorem nested_fastpath_eq_base (factors : List (List NItem)) (scale : Rat) :
    ncolumnsFast factors scale = ncolumnsBase factors scale :=
  ncolumnsFast_eq_base factors scale

/-- C02.3 (any shape)  With rank reduction disabled the matrix is, term by term in (clustered)
formula order, the complete row-wise Kronecker product of the full encodings of the term's factors
that have values — each factor contributing ALL the columns of its (possibly nested, multi-column)
encoding in flattening order, the first factor varying fastest — times the literal scale; a term
with values but no data factor gives the intercept; a term none of whose factors has values gives
nothing. -/
theorem nested_kron_full (cfg : NConfig) (hefr : cfg.ensureFullRank = false)
    (hwf : ∀ t ∈ cfg.terms, t.Nodup)
    (rs : List NTermResult) (h : nbuildStructure cfg = .ok rs) :
    (∃ terms, clusterTerms (toCache cfg.cache) cfg.clusterByNumerical cfg.terms = .ok terms ∧
      rs.map (·.term) = terms) ∧
    ∀ r ∈ rs, ∃ fs, presentFactors cfg.cache r.term = .ok fs ∧
      (fs = [] → r.cols = []) ∧
      (fs ≠ [] → nonConstantR fs = [] →
        r.cols = [⟨"Intercept", [], Col.smul (rliteralScale fs) (Col.ones cfg.nrows)⟩]) ∧
      (nonConstantR fs ≠ [] → ∃ encs, nfullEncodings (nonConstantR fs) = .ok encs ∧
        r.cols = ndictOfList ((kron encs).map (nentryOf cfg.nrows (rliteralScale fs)))) := by
  constructor
  · obtain ⟨terms, scp, hc, hg, hb⟩ := nbuildStructure_spec h
    refine ⟨terms, hc, ?_⟩
    have h1 := (nbuildTerms_spec hb).1
    have g1 := (getScopedTerms_spec hg).1
    rw [← g1, ← h1, List.map_map]
    rfl
  · intro r hr
    obtain ⟨hterm, ⟨sp, sp', hsc⟩, hcols⟩ := ntermResult_spec h hr
    obtain ⟨efs, hefs, h0, h1, _⟩ := scopeTerm_spec hsc
    obtain ⟨fs, hfs, hmap, hget, hsub⟩ := evaledFactors_toCache hefs
    have hnd : (efs.map (·.expr)).Nodup := by
      rw [hmap, List.map_map]
      exact hsub.nodup (hwf _ hterm)
    have hfac := fullScoped_factors hnd
    have hscale : (fullScoped efs).scale = rliteralScale fs := by
      unfold rliteralScale; rw [← hmap]; exact scaleOf_eq_literalScale efs
    have hnc : nonConstant efs = (nonConstantR fs).map toEvaled := by
      rw [hmap]; exact nonConstant_map_toEvaled fs
    refine ⟨fs, hfs, ?_, ?_, ?_⟩
    · intro he
      have : efs = [] := by rw [hmap, he]; rfl
      rw [h0 this] at hcols
      simpa [ntermColumns] using hcols.symm
    · intro hne hncR
      have hne' : efs ≠ [] := by
        intro e0; rw [hmap] at e0; exact hne (List.map_eq_nil_iff.mp e0)
      have hsts := h1 hne' hefr
      rw [hnc, hncR] at hfac
      rw [hsts] at hcols
      simp only [ntermColumns, nscopedTermColumns, hfac, List.map_nil, List.isEmpty_nil, if_true] at hcols
      simp only [Except.ok.injEq] at hcols
      rw [← hcols, hscale]
      simp [ndictUpdate, ndictSet]
    · intro hncR
      have hne' : efs ≠ [] := by
        intro e0; rw [hmap] at e0
        have : fs = [] := List.map_eq_nil_iff.mp e0
        rw [this] at hncR; exact hncR rfl
      have hsts := h1 hne' hefr
      rw [hsts] at hcols
      simp only [ntermColumns] at hcols
      cases hs : nscopedTermColumns cfg.cache cfg.variant cfg.nrows (fullScoped efs) with
      | error x => simp [hs] at hcols
      | ok es =>
        simp only [hs, Except.ok.injEq] at hcols
        rcases nscopedTermColumns_spec hs with ⟨hf0, _⟩ | ⟨_, fss, henc, hes⟩
        · rw [hfac, hnc] at hf0
          exact absurd (List.map_eq_nil_iff.mp (List.map_eq_nil_iff.mp hf0)) hncR
        · have hall : ∀ f ∈ nonConstantR fs, cfg.cache.get f.expr = .ok f := by
            intro f hf
            unfold nonConstantR at hf
            exact hget f (List.mem_filter.mp hf).1
          rw [hfac, hnc, List.map_map] at henc
          have henc' : nencodeFactors cfg.cache ((nonConstantR fs).map (fun f => ⟨f.expr, false⟩)) = .ok fss := henc
          rw [nencodeFactors_full hall] at henc'
          refine ⟨fss, henc', ?_⟩
          rw [← hcols, hes, hscale]
          simp only [ndictOfList]
          generalize (kron fss).map (nentryOf cfg.nrows (rliteralScale fs)) = l
          exact ndictUpdate_ndictUpdate_nil l

/-- C02.3b  The property's own wording, from the data: with rank reduction disabled, for a term
whose data factors are categorical columns and numerical single columns (`PlainFactor`,
`dataEncoding`), the emitted columns are the dictionary of the complete row-wise Kronecker product of
`encs`, where `encs` lists per factor, in term order, ONE INDICATOR PER LEVEL IN LEVEL ORDER
(`factor[level]`) for a categorical column and the column itself for a numerical one — the first
factor varying fastest, every column scaled by the term's literal scale and named by the `:`-join of
the chosen names. -/
theorem kron_full_from_data (cfg : NConfig) (hefr : cfg.ensureFullRank = false)
    (hwf : ∀ t ∈ cfg.terms, t.Nodup) (rs : List NTermResult) (h : nbuildStructure cfg = .ok rs)
    (r : NTermResult) (hr : r ∈ rs) :
    ∃ fs, presentFactors cfg.cache r.term = .ok fs ∧
      (nonConstantR fs ≠ [] →
        (∀ f ∈ nonConstantR fs, PlainFactor f ∧ (dataEncoding f).isSome = true) →
        ∃ encs, (nonConstantR fs).map dataEncoding = encs.map some ∧
          r.cols = ndictOfList ((kron encs).map (nentryOf cfg.nrows (rliteralScale fs)))) := by
  obtain ⟨fs, h1, _, _, h4⟩ := (nested_kron_full cfg hefr hwf rs h).2 r hr
  refine ⟨fs, h1, ?_⟩
  intro hne hplain
  obtain ⟨encs, he, hcols⟩ := h4 hne
  obtain ⟨encs', he', hd⟩ := nfullEncodings_of_data hplain
  rw [he] at he'
  simp only [Except.ok.injEq] at he'
  subst he'
  exact ⟨encs, hd, hcols⟩

/-- non-vacuity: in the demo instance the factors `A` and a plain column satisfy the hypotheses -/
example : PlainFactor rA ∧ (dataEncoding rA).isSome = true :=
  ⟨⟨rfl, rfl, rfl, by show ([(⟨"a", true⟩ : Field), ⟨"b", true⟩].map (·.text)).Nodup; decide⟩, rfl⟩


/-- non-vacuity: the hypotheses of `nested_kron_full` hold on the demo instance, whose last term is
the full Kronecker product of `A` (2 columns) and `nest(x)` (3 columns, flattening order) -/
example : (ndemoCfg false).ensureFullRank = false ∧ ∀ t ∈ (ndemoCfg false).terms, t.Nodup := by decide

example : ((nbuildStructure (ndemoCfg false)).toOption.map (·.map (·.cols.map (·.name)))) =
    some [["Intercept"], ["A[a]", "A[b]"],
      ["A[a]:nest(x)[a][p]", "A[b]:nest(x)[a][p]", "A[a]:nest(x)[a][q]", "A[b]:nest(x)[a][q]",
       "A[a]:nest(x)[b]", "A[b]:nest(x)[b]"]] := by decide +kernel

/-- C02.4 (any shape)  When no printed leaf name contains a `:`, a column's name determines the
list of leaf names it was joined from: two columns of the matrix with the same name are labelled by
leaves that print alike. (That the names of one factor's leaves are pairwise distinct is a property
of its keys and formats; see `default_format_name` for the default format.) -/
theorem nested_label_string_faithful (cfg : NConfig) (rs : List NTermResult)
    (h : nbuildStructure cfg = .ok rs) (r r' : NTermResult) (hr : r ∈ rs) (hr' : r' ∈ rs)
    (e e' : NEntry) (he : e ∈ r.cols) (he' : e' ∈ r'.cols) (hp : e.parts ≠ []) (hp' : e'.parts ≠ []) :
    ∃ names names' : List String, names.length = e.parts.length ∧ names'.length = e'.parts.length ∧
      (∀ pn ∈ e.parts.zip names, ∃ col, NamesLeaf cfg.cache pn.1 pn.2 col) ∧
      (∀ pn ∈ e'.parts.zip names', ∃ col, NamesLeaf cfg.cache pn.1 pn.2 col) ∧
      e.name = joinColon names ∧ e'.name = joinColon names' ∧
      ((∀ n ∈ names ++ names', ':' ∉ n.toList) → e.name = e'.name → names = names') := by
  have key : ∀ r ∈ rs, ∀ e ∈ r.cols, e.parts ≠ [] →
      ∃ names : List String, names ≠ [] ∧ names.length = e.parts.length ∧
        (∀ pn ∈ e.parts.zip names, ∃ col, NamesLeaf cfg.cache pn.1 pn.2 col) ∧ e.name = joinColon names := by
    intro r hr e he hp
    obtain ⟨st, hst, hcase⟩ := nentry_provenance h hr he
    rcases hcase with ⟨_, rfl⟩ | ⟨_, fss, henc, hne, p, hpk, rfl⟩
    · exact absurd rfl hp
    · have hsound := nkron_items_sound henc hpk
      have hpn := ne_nil_of_mem_kron hne hpk
      refine ⟨p.map (·.name), by simpa using hpn, by simp [nentryOf], ?_, rfl⟩
      intro pn hpn'
      simp only [nentryOf, List.zip_map, List.mem_map] at hpn'
      obtain ⟨⟨a, b⟩, hab, rfl⟩ := hpn'
      have : a = b := mem_zip_self hab
      subst this
      exact ⟨a.col, hsound a (List.of_mem_zip hab).1⟩
  obtain ⟨names, hn0, hn1, hn2, hn3⟩ := key r hr e he hp
  obtain ⟨names', hn0', hn1', hn2', hn3'⟩ := key r' hr' e' he' hp'
  refine ⟨names, names', hn1, hn1', hn2, hn2', hn3, hn3', ?_⟩
  intro hcolon heq
  rw [hn3, hn3'] at heq
  exact joinColon_inj hn0 hn0' (fun a ha => hcolon a (by simp [ha])) (fun a ha => hcolon a (by simp [ha])) heq

/-! ### the encoder stages (`_encode_evaled_factor`, `_flatten_encoded_evaled_factor`) -/

/-- C02.6  What `_encode_evaled_factor` returns for a factor (any shape, either rank setting): every
`(name, column)` of the flattened dict is a leaf of the factor's encoded value tree, labelled with the
key path that leads to it, and `name` is what the format templates of the dicts on that path print
(`Leaf`): `format.format(name=<name so far>, field=<key>)` level by level. -/
theorem encode_items_are_leaves (f : RFactor) (r : Bool) (items : List NItem)
    (h : encodeFactor f r = .ok items) :
    ∃ v, encodedTree f r = .ok v ∧ ∀ it ∈ items, it.part.expr = f.expr ∧ it.part.reduced = r ∧
      Leaf v f.expr it.part.path it.name it.col :=
  encodeFactor_sound h

/-- C02.6a  …and no leaf is lost: every leaf of the encoded value contributes its printed name to what
`_encode_evaled_factor` returns (the column kept under a name is, by C02.6, a leaf that prints so — the
last one when several leaves print alike). So a factor's encoded columns are exactly the leaves of its
encoded value, by name. -/
theorem encode_names_complete (f : RFactor) (r : Bool) (items : List NItem)
    (h : encodeFactor f r = .ok items) (v : Val) (hv : encodedTree f r = .ok v)
    (q : List Field) (name : String) (col : Col) (hl : Leaf v f.expr q name col) :
    ∃ it ∈ items, it.name = name :=
  encodeFactor_complete h hv hl

/-- non-vacuity: the demo factor `nest(x)` encodes to three named leaves -/
example : ((encodeFactor rNest false).toOption.map (·.map (fun it => (it.name, it.part.path.map (·.text))))) =
    some [("nest(x)[a][p]", ["a", "p"]), ("nest(x)[a][q]", ["a", "q"]), ("nest(x)[b]", ["b"])] := by
  decide +kernel

/-- C02.6b  Names `factor[key][key]…`: when every dict on the way uses the default template
(`FactorValuesMetadata.format`, regenerated from the live class into `Gen.defaultFormat`), the leaf at
key path `k₁, k₂, …` of a value printed as `name` is printed `name[k₁][k₂]…`. -/
theorem default_format_name (v : Val) (name : String) (path : List Field) (name' : String) (col : Col)
    (h : Leaf v name path name' col) (hd : valAllDefault v = true) : name' = bracketName name path :=
  leaf_bracketName h hd

example : valAllDefault nestVal = true := by decide +kernel
example : bracketName "nest(x)" [⟨"a", true⟩, ⟨"q", true⟩] = "nest(x)[a][q]" := by decide +kernel

/-- C02.7  A numerical factor is encoded as itself: for a numerical factor without an encoder of its
own (not pre-encoded), the encoded value holds exactly the columns of the evaluated value
(`as_columns(factor.values)`) — every encoded leaf is the evaluated leaf at the same key path and no key
on that path is reserved (`__…`); every evaluated leaf with no reserved key on its path is encoded,
except, when the factor spans the intercept and the reduced encoding is requested, those under its
`drop_field`. (`map_dict`, the metadata re-wrapping and the drop-field step neither change nor invent
a value.) -/
theorem numerical_encoding_is_identity (f : RFactor) (r : Bool) (hk : f.kind = .numerical)
    (henc : f.md.encoded = false) (hext : f.ext = none) (he : f.md.hasEncoder = false)
    (t : Val) (h : encodedTree f r = .ok t) :
    ∃ w, asColumns f.md f.raw = .ok w ∧
      (∀ p c, LeafAt t p c → LeafAt w p c ∧ ∀ k ∈ p, k.hidden = false) ∧
      (∀ p c, LeafAt w p c → (∀ k ∈ p, k.hidden = false) →
        ((f.md.spansIntercept && r) = true → p.head? ≠ f.md.dropField) → LeafAt t p c) :=
  FormulaicVerif.Proofs.C02N.numerical_encoding_is_identity f r hk henc hext he t h

example : rNest.kind = .numerical ∧ rNest.md.encoded = false ∧ rNest.ext = none ∧ rNest.md.hasEncoder = false ∧
    (encodedTree rNest false).toOption.isSome = true := by decide +kernel

/-- C02.7b  The drop-field step on a dict with metadata: nothing happens unless the encoded value
spans the intercept and the reduced encoding is asked for; then exactly the `drop_field` key is
deleted (`KeyError` when absent — no result), the metadata is marked `reduced`, and from then on the
names are printed with `format_reduced` when it is set, `format` otherwise. -/
theorem drop_field_step (r : Bool) (es : Ents) (mm : Meta) (t : Val)
    (h : dropStep r (.dict es (some mm)) = .ok t) :
    ((mm.spansIntercept && r) = false ∧ t = .dict es (some mm)) ∨
    ((mm.spansIntercept && r) = true ∧ ∃ k es', mm.dropField = some k ∧ es.del k = some es' ∧
      t = .dict es' (some { mm with reduced := true }) ∧
      ({ mm with reduced := true } : Meta).getFormat = mm.formatReduced.getD mm.format) :=
  dropStep_dict h

/-- C02.8  A plain categorical column — categories `levels` (in category order), per-row codes —
is encoded in full as ONE INDICATOR PER LEVEL, IN LEVEL ORDER, named `factor[level]`; entry `i` of the
indicator of level number `j` is 1 when row `i` has code `j` and 0 otherwise (also for a null row).
(`hnd`: no two levels print alike.) -/
theorem categorical_full_encoding (f : RFactor) (levels : List Field) (codes : List (Option Nat))
    (hraw : f.raw = .cat levels codes) (hk : f.kind = .categorical) (henc : f.md.encoded = false)
    (hext : f.ext = none) (he : f.md.hasEncoder = false) (hnd : (levels.map (·.text)).Nodup) :
    encodeFactor f false = .ok (levels.zipIdx.map (fun lj =>
      ⟨f.expr ++ "[" ++ lj.1.text ++ "]", ⟨f.expr, [lj.1], false⟩, indicator codes lj.2⟩)) ∧
    ∀ j i, (indicator codes j).getD i 0 = if codes[i]? = some (some j) then 1 else 0 := by
  refine ⟨dummy_encode_full f levels codes hraw hk henc hext he hnd, ?_⟩
  intro j i
  unfold indicator
  rw [List.getD_eq_getElem?_getD, List.getElem?_map]
  cases hc : codes[i]? with
  | none => simp
  | some c => by_cases h : c = some j <;> simp [h]

/-- C02.8b  Its reduced encoding (treatment coding) drops the first level and keeps the indicators of
the others, named `factor[T.level]`. (`Gen.treatmentSpansIntercept` is read off the live class.) -/
theorem categorical_reduced_encoding (f : RFactor) (l0 : Field) (rest : List Field) (codes : List (Option Nat))
    (hraw : f.raw = .cat (l0 :: rest) codes) (hk : f.kind = .categorical) (henc : f.md.encoded = false)
    (hext : f.ext = none) (he : f.md.hasEncoder = false) (hnd : ((l0 :: rest).map (·.text)).Nodup) :
    encodeFactor f true = .ok ((rest.zipIdx 1).map (fun lj =>
      ⟨f.expr ++ "[T." ++ lj.1.text ++ "]", ⟨f.expr, [lj.1], true⟩, indicator codes lj.2⟩)) :=
  dummy_encode_reduced f l0 rest codes hraw hk henc hext he hnd (by decide)

example : rA.raw = .cat [⟨"a", true⟩, ⟨"b", true⟩] [some 0, some 1] ∧ rA.kind = .categorical ∧
    rA.md.encoded = false ∧ rA.ext = none ∧ rA.md.hasEncoder = false ∧
    ([(⟨"a", true⟩ : Field), ⟨"b", true⟩].map (·.text)).Nodup := ⟨rfl, rfl, rfl, rfl, rfl, by decide⟩

/-- C02.8c  What a label obeys, in terms of the DATA (either rank setting): a label part that names a
leaf of a plain categorical column with categories `levels` is `(factor, [level], reduced)` for a level
number `j` of the column; the leaf is the indicator of that level; it is printed `factor[level]`, or
`factor[T.level]` in the reduced encoding, where the first level (`j = 0`) never occurs. A label part that
names a leaf of a numerical single column has the empty key path, is the column itself and is printed as
the factor. With `nested_column_is_product` this reads "every emitted column holds the literal scale
times the product of the level indicators and data columns its name lists", with rank reduction on or off. -/
theorem label_parts_in_data (c : RCache) (p : NPart) (name : String) (col : Col)
    (h : NamesLeaf c p name col) :
    ∃ f, c.get p.expr = .ok f ∧
      (∀ levels codes, f.raw = .cat levels codes → f.kind = .categorical → PlainFactor f →
        ∃ j l, levels[j]? = some l ∧ p.path = [l] ∧ col = indicator codes j ∧
          name = p.expr ++ (if p.reduced then "[T." else "[") ++ l.text ++ "]" ∧ (p.reduced = true → j ≠ 0)) ∧
      (∀ x, f.raw = .val (.col x) → f.kind = .numerical → PlainFactor f →
        p.path = [] ∧ col = x ∧ name = p.expr) := by
  obtain ⟨f, hf, v, hv, hl⟩ := h
  have hfe : f.expr = p.expr := (RCache.get_ok hf).1
  refine ⟨f, hf, ?_, ?_⟩
  · intro levels codes hraw hk ⟨h1, h2, h3, h4⟩
    simp only [hraw] at h4
    rw [← hfe] at hl ⊢
    exact plain_categorical_leaf f levels codes hraw hk h1 h2 h3 h4 p.reduced v hv p.path name col hl
  · intro x hraw hk ⟨h1, h2, h3, _⟩
    rw [← hfe] at hl ⊢
    exact plain_numerical_leaf f x hraw hk h1 h2 h3 p.reduced v hv p.path name col hl

/-- non-vacuity: in the demo cache the part `(A, [b], reduced)` names the indicator of level `b`, printed `A[T.b]` -/
example : NamesLeaf ndemoCache ⟨"A", [⟨"b", true⟩], true⟩ "A[T.b]" [0, 1] := by
  refine ⟨rA, rfl, ?_⟩
  refine ⟨_, encodedTree_cat_reduced rA ⟨"a", true⟩ [⟨"b", true⟩] [some 0, some 1] rfl rfl rfl rfl rfl (by decide) (by decide), ?_⟩
  exact Leaf.dict (.head _) (Leaf.col _ _)

/-! ### term order and repeated names -/

/-- C02.9  `cluster_by="numerical_factors"`: the terms are emitted regrouped by their tuple of
numerical factors (`key t`): the groups in order of first occurrence, the terms of a group in formula
order; nothing is lost or duplicated. With `nested_kron_full` / `nested_column_is_product` this fixes
the column order of the clustered matrix. -/
theorem cluster_by_numerical_order (c : Cache) (ts : List MTerm) (key : MTerm → List String)
    (hkey : ∀ t ∈ ts, numericalKey c t = .ok (key t)) :
    clusterTerms c true ts =
      .ok ((firstKeys (ts.map key)).flatMap (fun k => ts.filter (fun t => key t = k))) ∧
    clusterTerms c false ts = .ok ts :=
  ⟨clusterTerms_eq c ts key hkey, rfl⟩

/-- non-vacuity: `x:A + A + x` is reordered to `x:A + x + A` (keys `[x]`, `[]`, `[x]`) -/
example : clusterTerms (toCache ndemoCache ++ [⟨"x", true, .numerical, false, noEncoding, noEncoding⟩]) true
    [["x", "A"], ["A"], ["x"]] = .ok [["x", "A"], ["x"], ["A"]] := by decide +kernel

/-- C02.9b  The matrix is the concatenation, in (clustered) formula order, of the terms' column blocks:
stacked by position (`asDict = false`: pandas materializer, sparse output) nothing is merged or
reordered; through the narwhals `{name: column}` dict the blocks are merged as C02.10 says. -/
theorem matrix_is_concatenation (cfg : NConfig) (asDict : Bool) (out : List NEntry)
    (h : nbuildMatrix cfg asDict = .ok out) :
    ∃ rs terms, nbuildStructure cfg = .ok rs ∧
      clusterTerms (toCache cfg.cache) cfg.clusterByNumerical cfg.terms = .ok terms ∧
      rs.map (·.term) = terms ∧
      out = (if asDict then ndictOfList (rs.flatMap (·.cols)) else rs.flatMap (·.cols)) := by
  unfold nbuildMatrix at h
  cases hs : nbuildStructure cfg with
  | error x => simp [hs] at h
  | ok rs =>
    simp only [hs, Except.ok.injEq] at h
    obtain ⟨terms, scp, hc, hg, hb⟩ := nbuildStructure_spec hs
    refine ⟨rs, terms, rfl, hc, ?_, ?_⟩
    · have h1 := (nbuildTerms_spec hb).1
      have g1 := (getScopedTerms_spec hg).1
      rw [← g1, ← h1, List.map_map]
      rfl
    · rw [← h]
      cases asDict <;> rfl

/-- C02.10  Columns that share a printed name (rank reduction off with factors whose leaves print
alike, a data column named like an encoded level, …) go through a `{name: column}` dict: the dict
lists the distinct names in order of first occurrence, and each name holds the LAST column of the
list that carries it; with pairwise distinct names nothing is merged. -/
theorem duplicate_names_dictionary (l : List NEntry) :
    (ndictOfList l).map (·.name) = firstKeys (l.map (·.name)) ∧
    (∀ e ∈ ndictOfList l, l.reverse.find? (fun y => y.name == e.name) = some e) ∧
    ((l.map (·.name)).Nodup → ndictOfList l = l) :=
  ⟨ndictOfList_names l, ndictOfList_last l, ndictOfList_of_nodup l⟩


end Nested

end FormulaicVerif.Props.C02
