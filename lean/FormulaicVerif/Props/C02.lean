import FormulaicVerif.Proofs.C02Pipeline
/-! # C02 — Every model-matrix column holds exactly the product its name denotes

Property theorems only (helper lemmas: `Proofs/C02Columns.lean`, `Proofs/C02Pipeline.lean`,
`Proofs/Scoped.lean`). They are about the executable model `Model/Materialize.lean` +
`Model/Columns.lean` of `FormulaMaterializer._build_model_matrix`, which the engine `c02` runs
against the real code on every check. Reference notions (`kron`, `rowProd`, `NamesColumn`,
`printedPart`, `literalScale`, `fullEncodings`, `dictOfList`, `entryOf`) are in `Spec/Matrix.lean`.

All theorems hold for every factor cache, every term list, both rank-reduction settings, both
clustering settings and both `_get_columns_for_term` variants (base / pandas-narwhals fast path). -/

namespace FormulaicVerif.Props.C02
open FormulaicVerif.Model FormulaicVerif.Spec FormulaicVerif.Proofs.C02 FormulaicVerif.Proofs.Scoped

/-! ### a concrete instance used by the non-vacuity examples -/

def fmtFull : Fmt := [.name, .lit "[", .field, .lit "]"]
def fmtT : Fmt := [.name, .lit "[T.", .field, .lit "]"]
/-- a two-level categorical on two rows, treatment coded (reference level `a`) -/
def encA : Encoded :=
  { val := .dict [(⟨"a", true⟩, [1, 0]), (⟨"b", true⟩, [0, 1])], spansIntercept := true,
    dropField := some ⟨"a", true⟩, reducedMeta := false, fmt := fmtFull, fmtReduced := some fmtT }
def encX : Encoded :=
  { val := .single [3, 5], spansIntercept := false, dropField := none, reducedMeta := false,
    fmt := fmtFull, fmtReduced := none }
def demoCache : Cache :=
  [⟨"1", true, .constant 1, false, encX, encX⟩, ⟨"2", true, .constant 2, false, encX, encX⟩,
   ⟨"A", true, .categorical, true, encA, encA⟩, ⟨"x", true, .numerical, false, encX, encX⟩]
/-- the formula `1 + A + 2:A:x` -/
def demoCfg (efr : Bool) : Config :=
  { cache := demoCache, terms := [["1"], ["A"], ["2", "A", "x"]], ensureFullRank := efr,
    clusterByNumerical := false, variant := .fast, nrows := 2 }

/-- C02.5  Every scoped term that `_get_scoped_terms` produces for a term `t` — with or without
rank reduction, whatever has been spanned before, through any number of greedy recombinations —
carries exactly `t`'s literal scale (the product of its constant factors). -/
theorem scale_preserved (c : Cache) (efr : Bool) (spanned : List ST) (ts : List MTerm)
    (res : List (MTerm × List ST)) (h : getScopedTerms c efr spanned ts = .ok res)
    (t : MTerm) (sts : List ST) (hx : (t, sts) ∈ res) (st : ST) (hst : st ∈ sts) :
    ∃ efs, evaledFactors c t = .ok efs ∧ st.scale = literalScale efs := by
  obtain ⟨sp, sp', hs⟩ := (getScopedTerms_spec h).2 _ hx
  obtain ⟨efs, he, _, _, hsc⟩ := scopeTerm_spec hs
  exact ⟨efs, he, by rw [← scaleOf_eq_literalScale]; exact hsc st hst⟩

/-- non-vacuity: the hypothesis of `scale_preserved` holds on `1 + A + 2:A:x` (scale 2 on the recombined term) -/
example : (getScopedTerms demoCache true [] (demoCfg true).terms).toOption =
    some [(["1"], [⟨[], 1⟩]), (["A"], [⟨[⟨"A", true⟩], 1⟩]),
          (["2", "A", "x"], [⟨[⟨"A", false⟩, ⟨"x", false⟩], 2⟩])] := by decide +kernel

/-- C02.1  Every column of the matrix (`buildMatrix`, any output type) belongs to a term `t` of the
formula and holds, row by row, `t`'s literal scale times the product of the encoded factor
columns that its structural label names. (`hlen`: every encoded column has one entry per row.) -/
theorem column_is_product (cfg : Config) (asDict : Bool) (out : List Entry)
    (h : buildMatrix cfg asDict = .ok out)
    (hlen : ∀ p col, NamesColumn cfg.cache p col → col.length = cfg.nrows)
    (e : Entry) (he : e ∈ out) :
    ∃ t ∈ cfg.terms, ∃ efs, evaledFactors cfg.cache t = .ok efs ∧
      ∃ cols : List Col, cols.length = e.parts.length ∧
        (∀ pc ∈ e.parts.zip cols, NamesColumn cfg.cache pc.1 pc.2) ∧
        e.col.length = cfg.nrows ∧
        ∀ i, i < cfg.nrows → e.col.getD i 0 = literalScale efs * rowProd cols i := by
  obtain ⟨rs, hrs, r, hr, her⟩ := buildMatrix_mem h he
  obtain ⟨hterm, ⟨sp, sp', hsc⟩, _⟩ := termResult_spec hrs hr
  obtain ⟨efs, hefs, _, _, hscale⟩ := scopeTerm_spec hsc
  refine ⟨r.term, hterm, efs, hefs, ?_⟩
  obtain ⟨st, hst, hcase⟩ := entry_provenance hrs hr her
  have hs : st.scale = literalScale efs := by rw [← scaleOf_eq_literalScale]; exact hscale st hst
  rcases hcase with ⟨_, rfl⟩ | ⟨_, fss, henc, _, p, hp, rfl⟩
  · refine ⟨[], rfl, by simp, ?_⟩
    have := smul_colProd_spec cfg.nrows st.scale [] (by simp)
    simp only [colProd] at this
    rw [← hs]
    exact this
  · have hsound := kron_items_sound henc hp
    refine ⟨p.map (·.col), by simp [entryOf], ?_, ?_⟩
    · intro pc hpc
      simp only [entryOf, List.zip_map, List.mem_map] at hpc
      obtain ⟨⟨a, b⟩, hab, rfl⟩ := hpc
      have : a = b := mem_zip_self hab
      subst this
      exact (hsound a (List.of_mem_zip hab).1).1
    · have hl : ∀ col ∈ p.map (·.col), col.length = cfg.nrows := by
        intro col hcol
        obtain ⟨it, hit, rfl⟩ := List.mem_map.mp hcol
        exact hlen _ _ (hsound it hit).1
      have := smul_colProd_spec cfg.nrows st.scale (p.map (·.col)) hl
      simp only [entryOf]
      rw [← hs]
      exact this

/-- non-vacuity: both hypotheses of `column_is_product` hold on the demo instance -/
example : (buildMatrix (demoCfg true) false).toOption = some
    [⟨"Intercept", [], [1, 1]⟩, ⟨"A[T.b]", [⟨"A", some ⟨"b", true⟩, true⟩], [0, 1]⟩,
     ⟨"A[a]:x", [⟨"A", some ⟨"a", true⟩, false⟩, ⟨"x", none, false⟩], [6, 0]⟩,
     ⟨"A[b]:x", [⟨"A", some ⟨"b", true⟩, false⟩, ⟨"x", none, false⟩], [0, 10]⟩] := by decide +kernel

example : ∀ p col, NamesColumn demoCache p col → col.length = (demoCfg true).nrows := by
  intro p col ⟨f, hf, h⟩
  have hm := (Cache.get_ok hf).2
  simp only [demoCache, List.mem_cons, List.not_mem_nil, or_false] at hm
  rcases hm with rfl | rfl | rfl | rfl <;> cases p.reduced <;> cases hfld : p.field <;>
    simp [hfld, encX, encA] at h <;> (try rcases h with ⟨_, rfl⟩ | ⟨_, rfl⟩) <;> (try subst h) <;> rfl

/-- C02.1b  A column with an empty structural label is the intercept: it is named `Intercept` and
holds the term's literal scale in every row — a column of ones for the term `1`. -/
theorem intercept_column (cfg : Config) (rs : List TermResult) (h : buildStructure cfg = .ok rs)
    (r : TermResult) (hr : r ∈ rs) (e : Entry) (he : e ∈ r.cols) (hp : e.parts = []) :
    e.name = "Intercept" ∧
    ∃ efs, evaledFactors cfg.cache r.term = .ok efs ∧
      e.col = Col.smul (literalScale efs) (Col.ones cfg.nrows) ∧
      (literalScale efs = 1 → e.col = List.replicate cfg.nrows 1) := by
  obtain ⟨_, ⟨sp, sp', hsc⟩, _⟩ := termResult_spec h hr
  obtain ⟨efs, hefs, _, _, hscale⟩ := scopeTerm_spec hsc
  obtain ⟨st, hst, hcase⟩ := entry_provenance h hr he
  have hs : st.scale = literalScale efs := by rw [← scaleOf_eq_literalScale]; exact hscale st hst
  rcases hcase with ⟨_, rfl⟩ | ⟨_, fss, _, hne, p, hpk, rfl⟩
  · refine ⟨rfl, efs, hefs, by rw [hs], ?_⟩
    intro h1
    simp only [hs, h1, Col.smul, Col.ones, List.map_replicate, Rat.one_mul]
  · exfalso
    have := ne_nil_of_mem_kron hne hpk
    simp only [entryOf, List.map_eq_nil_iff] at hp
    exact this hp

/-- C02.2  The pandas / narwhals fast path (pre-multiplied solo factors, separately computed
names) returns exactly what the base `_get_columns_for_term` returns — same labels in the same
order, equal values, same exception — for every list of factor encodings and every scale. -/
theorem fastpath_eq_base (factors : List (List Item)) (scale : Rat) :
    columnsFast factors scale = columnsBase factors scale :=
  columnsFast_eq_base factors scale

/-- C02.3  With rank reduction disabled the matrix is, term by term in (clustered) formula order,
the complete row-wise Kronecker product of the factors' full encodings, the first factor varying
fastest, times the literal scale; a term without data factors gives the intercept; a term none of
whose factors has values gives nothing. (`hwf`: a term lists each factor once, as `Term.__init__`
guarantees.) -/
theorem kron_full (cfg : Config) (hefr : cfg.ensureFullRank = false)
    (hwf : ∀ t ∈ cfg.terms, t.Nodup)
    (rs : List TermResult) (h : buildStructure cfg = .ok rs) :
    (∃ terms, clusterTerms cfg.cache cfg.clusterByNumerical cfg.terms = .ok terms ∧
      rs.map (·.term) = terms) ∧
    ∀ r ∈ rs, ∃ efs, evaledFactors cfg.cache r.term = .ok efs ∧
      (efs = [] → r.cols = []) ∧
      (efs ≠ [] → nonConstant efs = [] →
        r.cols = [⟨"Intercept", [], Col.smul (literalScale efs) (Col.ones cfg.nrows)⟩]) ∧
      (nonConstant efs ≠ [] → ∃ encs, fullEncodings (nonConstant efs) = .ok encs ∧
        r.cols = dictOfList ((kron encs).map (entryOf cfg.nrows (literalScale efs)))) := by
  constructor
  · obtain ⟨terms, scp, hc, hg, hb⟩ := buildStructure_spec h
    refine ⟨terms, hc, ?_⟩
    have h1 := (buildTerms_spec hb).1
    have g1 := (getScopedTerms_spec hg).1
    rw [← g1, ← h1, List.map_map]
    rfl
  · intro r hr
    obtain ⟨hterm, ⟨sp, sp', hsc⟩, hcols⟩ := termResult_spec h hr
    obtain ⟨efs, hefs, h0, h1, _⟩ := scopeTerm_spec hsc
    refine ⟨efs, hefs, ?_, ?_, ?_⟩
    · intro he
      rw [h0 he] at hcols
      simpa [termColumns] using hcols.symm
    · intro hne hnc
      have hsts := h1 hne hefr
      obtain ⟨hget, hsub⟩ := evaledFactors_spec hefs
      have hnd : (efs.map (·.expr)).Nodup := hsub.nodup (hwf _ hterm)
      have hfac := fullScoped_factors hnd
      rw [hnc] at hfac
      rw [hsts] at hcols
      simp only [termColumns, scopedTermColumns, hfac, List.map_nil, List.isEmpty_nil, if_true] at hcols
      simp only [Except.ok.injEq] at hcols
      rw [← hcols]
      simp [dictUpdate, dictSet, fullScoped, ST.new, scaleOf_eq_literalScale]
    · intro hnc
      have hne : efs ≠ [] := by intro e0; rw [e0] at hnc; exact hnc rfl
      have hsts := h1 hne hefr
      obtain ⟨hget, hsub⟩ := evaledFactors_spec hefs
      have hnd : (efs.map (·.expr)).Nodup := hsub.nodup (hwf _ hterm)
      have hfac := fullScoped_factors hnd
      rw [hsts] at hcols
      simp only [termColumns] at hcols
      cases hs : scopedTermColumns cfg.cache cfg.variant cfg.nrows (fullScoped efs) with
      | error x => simp [hs] at hcols
      | ok es =>
        simp only [hs, Except.ok.injEq] at hcols
        rcases scopedTermColumns_spec hs with ⟨hf0, _⟩ | ⟨_, fss, henc, hes⟩
        · rw [hfac] at hf0
          exact absurd (List.map_eq_nil_iff.mp hf0) hnc
        · have hall : ∀ f ∈ nonConstant efs, cfg.cache.get f.expr = .ok f := by
            intro f hf
            unfold nonConstant at hf
            exact hget f (List.mem_filter.mp hf).1
          rw [hfac, encodeFactors_full hall] at henc
          refine ⟨fss, henc, ?_⟩
          rw [← hcols, hes]
          have : (fullScoped efs).scale = literalScale efs := scaleOf_eq_literalScale efs
          rw [this]
          -- updating the empty dict with an already-built dict gives that dict back
          simp only [dictOfList]
          generalize (kron fss).map (entryOf cfg.nrows (literalScale efs)) = l
          exact dictUpdate_dictUpdate_nil l

/-- non-vacuity: the hypotheses of `kron_full` hold on the demo instance with rank reduction off -/
example : (demoCfg false).ensureFullRank = false ∧ ∀ t ∈ (demoCfg false).terms, t.Nodup := by decide

example : ((buildStructure (demoCfg false)).toOption.map (·.map (·.cols.map (·.name)))) =
    some [["Intercept"], ["A[a]", "A[b]"], ["A[a]:x", "A[b]:x"]] := by decide +kernel

/-- C02.4  The printed name of a column is `Intercept` for the empty label and otherwise the
`:`-join of its label parts, each printed as the bare factor expression (single-column encoding) or
through the factor's format template `{name}[{field}]` / its reduced variant; and when no printed
part contains a `:` the name determines the printed parts: two columns with the same name have
the same list of printed label parts.
(That a printed part determines `(factor, field)` is a property of the format templates and level
names, not of the materializer; it is not claimed.) -/
theorem label_string_faithful (cfg : Config) (rs : List TermResult)
    (h : buildStructure cfg = .ok rs) (r : TermResult) (hr : r ∈ rs) (e : Entry) (he : e ∈ r.cols) :
    e.name = (if e.parts = [] then "Intercept" else joinColon (e.parts.map (printedPart cfg.cache))) ∧
    ∀ r' ∈ rs, ∀ e' ∈ r'.cols, e.parts ≠ [] → e'.parts ≠ [] →
      (∀ p ∈ e.parts ++ e'.parts, ':' ∉ (printedPart cfg.cache p).toList) → e.name = e'.name →
      e.parts.map (printedPart cfg.cache) = e'.parts.map (printedPart cfg.cache) := by
  have hname : ∀ r ∈ rs, ∀ e ∈ r.cols,
      e.name = (if e.parts = [] then "Intercept" else joinColon (e.parts.map (printedPart cfg.cache))) := by
    intro r hr e he
    obtain ⟨st, hst, hcase⟩ := entry_provenance h hr he
    rcases hcase with ⟨_, rfl⟩ | ⟨_, fss, henc, hne, p, hp, rfl⟩
    · rfl
    · have hpn := ne_nil_of_mem_kron hne hp
      have hsound := kron_items_sound henc hp
      simp only [entryOf, List.map_eq_nil_iff, hpn, if_false, List.map_map]
      congr 1
      apply List.map_congr_left
      intro it hit
      exact (hsound it hit).2
  refine ⟨hname r hr e he, ?_⟩
  intro r' hr' e' he' hp hp' hcolon heq
  have h1 := hname r hr e he
  have h2 := hname r' hr' e' he'
  simp only [hp, hp', if_false] at h1 h2
  rw [h1, h2] at heq
  exact joinColon_inj (by simpa using hp) (by simpa using hp')
    (by intro a ha; obtain ⟨p, hpm, rfl⟩ := List.mem_map.mp ha; exact hcolon p (by simp [hpm]))
    (by intro a ha; obtain ⟨p, hpm, rfl⟩ := List.mem_map.mp ha; exact hcolon p (by simp [hpm])) heq

/-- non-vacuity: in the demo matrix no printed part contains a colon -/
example : ∀ p ∈ [(⟨"A", some ⟨"a", true⟩, false⟩ : Part), ⟨"x", none, false⟩, ⟨"A", some ⟨"b", true⟩, true⟩],
    ':' ∉ (printedPart demoCache p).toList := by decide +kernel

end FormulaicVerif.Props.C02
